(* C03 — every emitted tag mirrors the bytes at its reported offset; tags tile the stream.  Statements only
   (proofs in Proofs/PureProofs.v and Proofs/Tiling.v). *)
From Ebml Require Import Base Tools Spec Reader Pure Proofs.Tactics Proofs.ReaderIO Proofs.Refine Proofs.PureProofs
  Proofs.RollUp Proofs.Nesting Proofs.BufferSim Proofs.Tiling Proofs.TilingSeg Proofs.Extents Proofs.AuditNesting Proofs.BufferedNesting.

(* One tag (every configuration, every parser state, every remaining input): if reading a tag succeeds then
   - the offset recorded for the item is the cursor position before the tag,
   - the id decoded at that position is the item's id,
   - the input splits as header ++ payload ++ rest, the cursor advances exactly over header (masters) or header ++ payload
     (other elements): no byte is skipped or read twice,
   - a master's payload part is empty (its children follow), and an element's value is the documented decoding of the
     payload for the declared type (big-endian unsigned, two's-complement signed, IEEE 4/8-byte float, UTF-8, raw). *)
Theorem C03_tag_mirrors_bytes : forall c st st' p, p_read_tag c st = (st', Ok p) ->
  p_start p = b_off st /\
  exists idl hl payload,
    p_tag_id st = Ok (tag_id (p_tag p), idl) /\ (idl <= hl)%nat /\
    b_bytes st = firstn hl (b_bytes st) ++ payload ++ b_bytes st' /\ length (firstn hl (b_bytes st)) = hl /\
    p_data p = b_off st + N.of_nat hl /\
    b_off st' = b_off st + N.of_nat hl + N.of_nat (length payload) /\
    match p_tag p with
    | TStart id => get_type (c_sp c) id = Some DMaster /\ payload = []
    | TElem id v => get_type (c_sp c) id <> Some DMaster /\ decodes (get_type (c_sp c) id) payload v /\ p_size p = SKnown (N.of_nat (length payload))
    | _ => False
    end.
Proof. exact p_read_tag_mirrors. Qed.

(* the buffered machine reads the same tags at the same offsets for every chunking and capacity (C04) *)
Theorem C03_buffered_same : forall c cap0 script input ops, calm script ->
  run_reader c cap0 script input ops = p_run c input ops.
Proof. exact buffered_refines_pure. Qed.

(* ------------------------------------------------------------------ whole runs: tiling
   Vocabulary (Proofs/Tiling.v).
   [mirrors sp t seg rest]: the segment [seg], followed in the input by [rest], is header ++ payload where the header is the
     element id of [t] ([dec_id], the id the reader decodes at the start of the segment) followed by the size field
     ([read_vint]); for a Start the payload part is empty and the id is a master; for an element the payload has the announced
     size and the item's value is its documented decoding ([decodes]); End and Full items have no segment.
   [Tiles sp off bytes items off' rest]: [bytes] sits at absolute offset [off]; the first item reports offset [off] and mirrors
     a first segment of [bytes], the next item reports [off + length of that segment] and mirrors the segment that follows, and so
     on; after the last item the offset is [off'] and [rest] is what remains.  [Tiled sp off bytes items]: for some [off'], [rest].
   [non_end_items outs]: the items of a run that are not End items, each with its offset, in order.
   [clean_prefix outs]: the outcomes of a run before the first error, try_recover result, panic-site or recursion-budget outcome
     (OErr, ORecOk, ORecErr, OPanic, OFuel).  The item-limit outcome OLimit of a drain does NOT end the prefix ([clean OLimit = true]):
     it carries no item, so the items of the prefix are the same with or without it.
   An error consumes the bytes of the offending element without yielding an item and try_recover skips bytes on purpose, so
   C03_run_tiles / C03_drain_tiles state the tiling up to that point; what follows errors and recoveries is covered by the
   SEGMENTED tiling of whole runs at the end of this file (C03_run_tiles_segmented, C03_run_tiles_segmented_any). *)

(* the per-tag statement in this vocabulary: a successful read consumes exactly one segment, which the item mirrors, and the
   item reports the offset at which the segment starts *)
Theorem C03_tag_segment : forall c st st' p, p_read_tag c st = (st', Ok p) ->
  exists seg, b_bytes st = seg ++ b_bytes st' /\ b_off st' = b_off st + N.of_nat (length seg) /\
              p_start p = b_off st /\ mirrors (c_sp c) (p_tag p) seg (b_bytes st').
Proof. exact p_read_tag_tiles. Qed.

(* Nothing buffered, any tolerance settings, every input, every sequence of next() / try_recover() / drain operations: the
   non-End items yielded before the first error are Start and element items that tile a prefix of the input from offset 0:
   each starts exactly where the previous one's header (masters) or header ++ payload (other elements) ends. *)
Theorem C03_run_tiles : forall c input ops, c_buffered c = [] ->
  Tiled (c_sp c) 0 input (non_end_items (clean_prefix (p_run c input ops))).
Proof. exact run_tiles. Qed.

(* a drain stops at its first error: all its non-End items tile the input *)
Theorem C03_drain_tiles : forall c input, c_buffered c = [] ->
  Tiled (c_sp c) 0 input (non_end_items (p_run c input [RAll])).
Proof. exact run_all_tiles. Qed.

(* [Tiled] leaves the end of the tiling open (some [off'], some [rest]).  When the drain ends with None - no error, no cut, no
   budget outcome - the tiling reaches the END of the input: it ends at offset [length input] and no byte is left over.  Nothing
   buffered; any tolerance settings; Ends at the end of input emitted or not. *)
Theorem C03_clean_drain_tiles_whole_input : forall c input, c_buffered c = [] ->
  forall outs, p_run c input [RAll] = outs ++ [ONone] ->
  Tiles (c_sp c) 0 input (non_end_items (p_run c input [RAll])) (N.of_nat (length input)) [].
Proof. exact clean_drain_tiles_whole_input. Qed.

(* the same spelled out: input = seg_1 ++ .. ++ seg_n ++ rest, the k-th non-End item reports the offset
   |seg_1| + .. + |seg_(k-1)| ([offsets 0 segs]) and mirrors seg_k ([seg_mirror]) *)
Theorem C03_drain_tiles_explicit : forall c input, c_buffered c = [] ->
  exists segs rest, input = concat segs ++ rest /\
    map snd (non_end_items (p_run c input [RAll])) = offsets 0 segs /\
    seg_mirror (c_sp c) (non_end_items (p_run c input [RAll])) segs rest.
Proof. exact run_all_tiles_explicit. Qed.

(* what [Tiles] says, in general *)
Theorem C03_tiles_explicit : forall sp off bytes items off' rest, Tiles sp off bytes items off' rest ->
  exists segs, bytes = concat segs ++ rest /\ map snd items = offsets off segs /\
               off' = off + N.of_nat (length (concat segs)) /\ seg_mirror sp items segs rest.
Proof. exact Tiles_explicit. Qed.

(* on byte input (every value below 256) a segment is never empty -- consecutive non-End items report strictly increasing
   offsets -- and the id is decoded from the segment alone *)
Theorem C03_segment_nonempty : forall sp t seg rest, mirrors sp t seg rest -> wf_bytes (seg ++ rest) ->
  (1 <= length seg)%nat /\ exists idl, dec_id seg = Some (tag_id t, idl) /\ (1 <= idl <= length seg)%nat.
Proof. exact mirrors_local. Qed.

(* ------------------------------------------------------------------ whole runs: End offsets
   [chk_off open items] (Proofs/Tiling.v) runs over (tag, offset) pairs with a chain [open] of (id, offset) pairs, innermost
   first: a Start pushes (id, its offset); an End must name the innermost open master and report exactly the offset recorded
   for it (else None); elements leave the chain alone; a Full item is rejected.  [out_pairs outs]: all items of a run with their
   offsets.  [zero_base base]: every pair of [base] has offset 0. *)

(* Nothing buffered, any tolerance settings, every input, every sequence of operations (errors and recoveries included):
   every End item reports the offset of the Start item it closes; the Ends that close the implied ancestors of a
   mid-document start (the base chain, used up only after every explicit Start is closed) report offset 0. *)
Theorem C03_end_offsets : forall c input ops, c_buffered c = [] ->
  exists base, zero_base base /\ chk_off base (out_pairs (p_run c input ops)) <> None.
Proof. exact run_end_offsets. Qed.

(* with Ends emitted at the end of the input, a drain that ends with None leaves nothing open *)
Theorem C03_eof_closes_all : forall c input, c_buffered c = [] -> c_emit_eof c = true ->
  forall outs, p_run c input [RAll] = outs ++ [ONone] ->
  exists base, zero_base base /\ chk_off base (out_pairs outs) = Some [].
Proof. exact eof_closes_all_off. Qed.

(* The base of C03_end_offsets pinned ([zero_base base] constrains only the offsets, not the ids, and an arbitrary base absorbs
   unmatched Ends).  Rooted form: with unknown ids and hierarchy errors not tolerated and nothing buffered, for every input and
   every sequence of operations (errors and recoveries included), if the first item of the run is a Start or element whose id
   is declared with the empty path (a root element), every End item is matched from the EMPTY base: each End names the innermost
   open Start and reports its offset. *)
Theorem C03_end_offsets_rooted : forall c input ops,
  c_allow_id c = false -> c_allow_hier c = false -> c_buffered c = [] ->
  forall x rest, out_tags (p_run c input ops) = x :: rest -> is_se x = true -> get_path (c_sp c) (tag_id x) = [] ->
  chk_off [] (out_pairs (p_run c input ops)) <> None.
Proof. exact run_end_offsets_rooted. Qed.

(* General form, for the items before the first error or try_recover call: the base is [zbase base] (the ids of [base], each at
   offset 0) for the [base] that [pinned_base] determines (Props/C06.v, C06_clean_prefix_pinned_all): empty while no element with
   a placeholder-free declared path has come, else the masters named by the declared path of the first such element, everything
   before it being accepted from the empty base and closed again. *)
Theorem C03_end_offsets_pinned : forall c input ops,
  c_allow_id c = false -> c_allow_hier c = false -> c_buffered c = [] ->
  let cp := clean_prefix (p_run c input ops) in
  exists base, pinned_base (c_sp c) (out_tags cp) base /\ chk_off (zbase base) (out_pairs cp) <> None.
Proof. exact clean_end_offsets_pinned. Qed.

(* every run, errors and recoveries included: the End offsets are matched from [zbase base] for a [base] that is empty or the
   chain of declared masters named by a placeholder-free declared path ([Based], Props/C06.v C06_strict_items_based) *)
Theorem C03_end_offsets_based : forall c input ops,
  c_allow_id c = false -> c_allow_hier c = false -> c_buffered c = [] ->
  exists base, Based (c_sp c) base (out_tags (p_run c input ops)) /\ chk_off (zbase base) (out_pairs (p_run c input ops)) <> None.
Proof. exact run_end_offsets_based. Qed.

(* whatever base the offset checker accepts a sequence from, it accepts it from (the ids, at offset 0, of) every base the nesting
   checker of C06 accepts its tags from *)
Theorem C03_chk_off_same_base : forall sp items baseO base, zero_base baseO ->
  chk_off baseO items <> None -> chk sp base false (map fst items) <> None -> chk_off (zbase base) items <> None.
Proof. intros sp items baseO base Hz H1 H2. exact (chk_off_same_base sp items [] baseO base false Hz H1 H2). Qed.

(* the implied ancestors all get offset 0 *)
Theorem C03_implied_offsets : forall sp p stk, implied_stack sp p = Some stk -> zero_base (map fr stk).
Proof. exact implied_stack_zero. Qed.

(* ------------------------------------------------------------------ buffered masters
   [Unr b u] (Proofs/BufferSim.v): [u] is [b] with every Full item replaced by a Start at the offset of the Full item, the
   unrolled children, and an End at the same offset.  When the run with buffered masters completes (items and the final None
   only; the unbuffered run not cut at its item limit), the unrolled items are the items of the unbuffered reader, so they
   tile the input and their End offsets match: a Full item reports the offset at which its master's header starts. *)
Theorem C03_buffered_tiles_and_offsets : forall c input,
  let outs := p_run c input [RAll] in
  (forall o, In o outs -> match o with OItem _ _ | ONone => True | _ => False end) ->
  ~ In OLimit (p_run (unbuffered c) input [RAll]) ->
  exists U, Unr (out_items outs) U /\ Tiled (c_sp c) 0 input (ne_q U) /\
            exists base, zero_base base /\ chk_off base (all_q U) <> None.
Proof. exact buffered_run_tiles_and_offsets. Qed.

Theorem C03_buffered_tiles_and_offsets_short : forall c input,
  let outs := p_run c input [RAll] in
  (forall o, In o outs -> match o with OItem _ _ | ONone => True | _ => False end) ->
  (length (flat (out_tags outs)) < 4 * length input + 64)%nat ->
  exists U, Unr (out_items outs) U /\ Tiled (c_sp c) 0 input (ne_q U) /\
            exists base, zero_base base /\ chk_off base (all_q U) <> None.
Proof. exact buffered_run_tiles_and_offsets_short. Qed.

(* The base of C03_buffered_tiles_and_offsets pinned, as in C03_end_offsets_rooted / C03_end_offsets_pinned (proofs in
   Proofs/BufferedNesting.v).  Unknown ids and hierarchy errors not tolerated, ANY buffered set, every input; the drain is clean
   (items and the final None only) and the drain with nothing buffered is not cut at its item limit.  Rooted form: if the first
   item of the drain is not an End (a Start, an element or a Full item) and its id is declared with the empty path, there is an
   unrolling U of the items of the drain whose non-End items tile the input from offset 0 and whose End offsets are matched from
   the EMPTY base. *)
Theorem C03_buffered_tiles_and_offsets_rooted : forall c input,
  c_allow_id c = false -> c_allow_hier c = false ->
  let outs := p_run c input [RAll] in
  (forall o, In o outs -> match o with OItem _ _ | ONone => True | _ => False end) ->
  ~ In OLimit (p_run (unbuffered c) input [RAll]) ->
  forall y rest, out_tags outs = y :: rest -> (forall id, y <> TEnd id) -> get_path (c_sp c) (tag_id y) = [] ->
  exists U, Unr (out_items outs) U /\ Tiled (c_sp c) 0 input (ne_q U) /\ chk_off [] (all_q U) <> None.
Proof. exact buffered_clean_tiles_offsets_rooted. Qed.

(* the same with the side condition "the unrolled tag sequence is shorter than the item limit 4 * |input| + 64" *)
Theorem C03_buffered_tiles_and_offsets_rooted_short : forall c input,
  c_allow_id c = false -> c_allow_hier c = false ->
  let outs := p_run c input [RAll] in
  (forall o, In o outs -> match o with OItem _ _ | ONone => True | _ => False end) ->
  (length (flat (out_tags outs)) < 4 * length input + 64)%nat ->
  forall y rest, out_tags outs = y :: rest -> (forall id, y <> TEnd id) -> get_path (c_sp c) (tag_id y) = [] ->
  exists U, Unr (out_items outs) U /\ Tiled (c_sp c) 0 input (ne_q U) /\ chk_off [] (all_q U) <> None.
Proof. exact buffered_clean_tiles_offsets_rooted_short. Qed.

(* General form: the End offsets are matched from [zbase base] for the [base] that [pinned_base] determines from the tags of the
   unrolling (Props/C06.v, C06_buffered_clean_pinned_all). *)
Theorem C03_buffered_tiles_and_offsets_pinned : forall c input,
  c_allow_id c = false -> c_allow_hier c = false ->
  let outs := p_run c input [RAll] in
  (forall o, In o outs -> match o with OItem _ _ | ONone => True | _ => False end) ->
  ~ In OLimit (p_run (unbuffered c) input [RAll]) ->
  exists U base, Unr (out_items outs) U /\ Tiled (c_sp c) 0 input (ne_q U) /\
    pinned_base (c_sp c) (qtags U) base /\ chk_off (zbase base) (all_q U) <> None.
Proof. exact buffered_clean_tiles_offsets_pinned. Qed.

(* PARTIAL: the run-level statements are proved for the abstract reader (and, by C03_buffered_same, for the buffered machine on
   sources that never pause or fail).  With nothing buffered the tiling covers whole runs, errors and recoveries included
   (segmented tiling, end of this file).  For buffered masters the statement is for complete runs (no error) via the
   unrolling. *)

Example C03_ex :
  let sp := [ {| e_id := 129; e_ty := DMaster; e_path := [] |}; {| e_id := 16643; e_ty := DMaster; e_path := [PId 129] |};
              {| e_id := 16641; e_ty := DSInt; e_path := [PId 129; PId 16643] |} ] in
  let c := {| c_sp := sp; c_allow_id := false; c_allow_hier := false; c_allow_over := false; c_max := Some 4000000000;
              c_buffered := [16643]; c_emit_eof := true |} in
  p_run c [129; 136; 65; 3; 133; 65; 1; 130; 255; 56] [RAll] =
    [OItem (TStart 129) 0; OItem (TFull 16643 [TElem 16641 (VI (-200))]) 2; OItem (TEnd 129) 0; ONone].
Proof. vm_compute. reflexivity. Qed.

(* the hypotheses of C03_buffered_tiles_and_offsets hold for that run: every outcome is an item or the final None, and the run
   of the unbuffered configuration is not cut at its item limit; so the theorem applies and yields the unrolling, its tiling and
   its End offsets *)
Definition C03_ex_sp : spec :=
  [ {| e_id := 129; e_ty := DMaster; e_path := [] |}; {| e_id := 16643; e_ty := DMaster; e_path := [PId 129] |};
    {| e_id := 16641; e_ty := DSInt; e_path := [PId 129; PId 16643] |} ].
Definition C03_ex_cfg : cfg :=
  {| c_sp := C03_ex_sp; c_allow_id := false; c_allow_hier := false; c_allow_over := false; c_max := Some 4000000000;
     c_buffered := [16643]; c_emit_eof := true |}.
Definition C03_ex_doc : list N := [129; 136; 65; 3; 133; 65; 1; 130; 255; 56].

Example C03_ex_buffered_applies :
  let outs := p_run C03_ex_cfg C03_ex_doc [RAll] in
  outs = [OItem (TStart 129) 0; OItem (TFull 16643 [TElem 16641 (VI (-200))]) 2; OItem (TEnd 129) 0; ONone] /\
  (forall o, In o outs -> match o with OItem _ _ | ONone => True | _ => False end) /\
  ~ In OLimit (p_run (unbuffered C03_ex_cfg) C03_ex_doc [RAll]) /\
  p_run (unbuffered C03_ex_cfg) C03_ex_doc [RAll] =
    [OItem (TStart 129) 0; OItem (TStart 16643) 2; OItem (TElem 16641 (VI (-200))) 5; OItem (TEnd 16643) 2; OItem (TEnd 129) 0; ONone] /\
  (exists U, Unr (out_items outs) U /\ Tiled (c_sp C03_ex_cfg) 0 C03_ex_doc (ne_q U) /\
             exists base, zero_base base /\ chk_off base (all_q U) <> None).
Proof.
  cbv zeta.
  assert (H1 : forall o, In o (p_run C03_ex_cfg C03_ex_doc [RAll]) -> match o with OItem _ _ | ONone => True | _ => False end).
  { vm_compute. intros o H. repeat (destruct H as [<-|H]; [exact I|]). contradiction H. }
  assert (H2 : ~ In OLimit (p_run (unbuffered C03_ex_cfg) C03_ex_doc [RAll])).
  { vm_compute. intros H. repeat (destruct H as [H|H]; [discriminate H|]). exact H. }
  split; [vm_compute; reflexivity|]. split; [exact H1|]. split; [exact H2|]. split; [vm_compute; reflexivity|].
  exact (C03_buffered_tiles_and_offsets C03_ex_cfg C03_ex_doc H1 H2).
Qed.

(* the drain of the unbuffered configuration on that document ends with None, so its three non-End items tile all 10 bytes *)
Example C03_ex_whole_input :
  non_end_items (p_run (unbuffered C03_ex_cfg) C03_ex_doc [RAll]) = [(TStart 129, 0); (TStart 16643, 2); (TElem 16641 (VI (-200)), 5)] /\
  Tiles C03_ex_sp 0 C03_ex_doc (non_end_items (p_run (unbuffered C03_ex_cfg) C03_ex_doc [RAll])) 10 [].
Proof.
  split; [vm_compute; reflexivity|].
  apply (C03_clean_drain_tiles_whole_input (unbuffered C03_ex_cfg) C03_ex_doc eq_refl
           [OItem (TStart 129) 0; OItem (TStart 16643) 2; OItem (TElem 16641 (VI (-200))) 5; OItem (TEnd 16643) 2; OItem (TEnd 129) 0]).
  vm_compute. reflexivity.
Qed.

(* Root(129) > Seg(130) > Val(16641); Void(236) may occur anywhere *)
Example C03_ex_tiling :
  let sp := [ {| e_id := 129; e_ty := DMaster; e_path := [] |}; {| e_id := 130; e_ty := DMaster; e_path := [PId 129] |};
              {| e_id := 16641; e_ty := DUInt; e_path := [PId 129; PId 130] |};
              {| e_id := 236; e_ty := DBinary; e_path := [PGlobal None None] |} ] in
  let c := {| c_sp := sp; c_allow_id := false; c_allow_hier := false; c_allow_over := false; c_max := Some 4000000000;
              c_buffered := []; c_emit_eof := true |} in
  (* a whole document: Root { Seg { Val 5 } Seg { Val 6 } } *)
  let doc := [129; 140; 130; 132; 65; 1; 129; 5; 130; 132; 65; 1; 129; 6] in
  let doc_segs := [[129; 140]; [130; 132]; [65; 1; 129; 5]; [130; 132]; [65; 1; 129; 6]] in
  (* reading starts inside a Seg: Void, Val 5, (end of that Seg) Seg { Val 6 } *)
  let mid := [236; 129; 0; 65; 1; 129; 5; 130; 132; 65; 1; 129; 6] in
  let mid_segs := [[236; 129; 0]; [65; 1; 129; 5]; [130; 132]; [65; 1; 129; 6]] in
  (* Val directly inside Root: hierarchy error *)
  let bad := [129; 140; 130; 132; 65; 1; 129; 5; 65; 1; 129; 5; 130; 129; 0] in
  (* the nested document: the non-End items sit at the running sums of the segment lengths *)
  p_run c doc [RAll] =
    [OItem (TStart 129) 0; OItem (TStart 130) 2; OItem (TElem 16641 (VU 5)) 4; OItem (TEnd 130) 2;
     OItem (TStart 130) 8; OItem (TElem 16641 (VU 6)) 10; OItem (TEnd 130) 8; OItem (TEnd 129) 0; ONone] /\
  non_end_items (p_run c doc [RAll]) =
    [(TStart 129, 0); (TStart 130, 2); (TElem 16641 (VU 5), 4); (TStart 130, 8); (TElem 16641 (VU 6), 10)] /\
  concat doc_segs = doc /\ offsets 0 doc_segs = [0; 2; 4; 8; 10] /\
  map dec_id doc_segs = [Some (129, 1%nat); Some (130, 1%nat); Some (16641, 2%nat); Some (130, 1%nat); Some (16641, 2%nat)] /\
  chk_off [] (out_pairs (p_run c doc [RAll])) = Some [] /\
  (* the mid-document start: the Ends of the implied ancestors Seg and Root report offset 0 *)
  p_run c mid [RAll] =
    [OItem (TElem 236 (VB [0])) 0; OItem (TElem 16641 (VU 5)) 3; OItem (TEnd 130) 0;
     OItem (TStart 130) 7; OItem (TElem 16641 (VU 6)) 9; OItem (TEnd 130) 7; OItem (TEnd 129) 0; ONone] /\
  concat mid_segs = mid /\ map snd (non_end_items (p_run c mid [RAll])) = offsets 0 mid_segs /\
  implied_stack sp (get_path sp 16641) =
    Some [ {| f_id := 130; f_size := SUnknown; f_start := 0; f_data := 0 |};
           {| f_id := 129; f_size := SUnknown; f_start := 0; f_data := 0 |} ] /\
  chk_off [(130, 0); (129, 0)] (out_pairs (p_run c mid [RAll])) = Some [] /\
  chk_off [] (out_pairs (p_run c mid [RAll])) = None /\
  (* the checker is not permissive: an End with another offset than its Start is rejected *)
  chk_off [] [(TStart 129, 0); (TStart 130, 2); (TEnd 130, 0); (TEnd 129, 0)] = None /\
  chk_off [] [(TStart 129, 0); (TStart 130, 2); (TEnd 130, 2); (TEnd 129, 0)] = Some [] /\
  (* an error: the items before it tile the input up to the offending element; the End offsets hold throughout *)
  p_run c bad [RAll; RRecover; RAll] =
    [OItem (TStart 129) 0; OItem (TStart 130) 2; OItem (TElem 16641 (VU 5)) 4; OItem (TEnd 130) 2;
     OErr (RHierarchy 16641 (Some 129)); ORecErr (REof 15 None None None); OItem (TEnd 129) 0; ONone] /\
  non_end_items (clean_prefix (p_run c bad [RAll; RRecover; RAll])) =
    [(TStart 129, 0); (TStart 130, 2); (TElem 16641 (VU 5), 4)] /\
  chk_off [] (out_pairs (p_run c bad [RAll; RRecover; RAll])) = Some [].
Proof. vm_compute. repeat split; reflexivity. Qed.

(* ------------------------------------------------------------------ whole runs: segmented tiling (errors and recoveries included)
   Vocabulary (Proofs/TilingSeg.v).
   [Adv st st']: the remaining bytes of [st'] are a suffix of the remaining bytes of [st] and the cursor advanced by exactly the
     number of bytes dropped: b_bytes st = d ++ b_bytes st' and b_off st' = b_off st + |d| for some d.
   [stretches outs]: the outcomes of a run cut at the non-clean outcomes (OErr, ORecOk, ORecErr, OPanic, OFuel -- the same
     [clean] as in [clean_prefix]; a non-clean outcome belongs to no stretch): the maximal clean stretches s_0 .. s_k in order.
   [cuts outs]: the k non-clean outcomes in order; the i-th one separates s_(i-1) from s_i.
   [SegTiles sp off bytes [l_0; ..; l_k] [g_1; ..; g_k]]: bytes = tile(l_0) ++ g_1 ++ tile(l_1) ++ .. ++ g_k ++ tile(l_k) ++ rest
     for some [rest]; tile(l_i) is the concatenation of the segments mirrored by the items of l_i, which form a tiling in the sense
     of [Tiles]: the first item of l_i reports the offset right after g_i ([off] for l_0), each next one the offset where the
     previous segment ends.  So every item mirrors the bytes at its reported offset, stretches never overlap, offsets never go
     backwards, and the only bytes not covered by an item (before the end of the last stretch) are the gaps g_i.
   [rec_ok true outs]: no try_recover outcome (ORecOk / ORecErr) directly follows an End item or the item-limit outcome OLimit.
     In exactly those two situations an item that was already read may still be waiting to be handed out; it is then handed out
     AFTER the try_recover outcome although it lies BEFORE the skipped bytes (C03_run_tiles_segmented_counterexample). *)

(* every successful or failed read of a tag, every next() and every try_recover() (nothing buffered for next(); any state, any
   tolerance settings) leaves the remaining bytes a suffix of the previous remaining bytes and advances the cursor by exactly
   the number of bytes dropped: no byte is ever read twice and the cursor never goes backwards *)
Theorem C03_read_only_forward : forall c st, Adv st (fst (p_read_tag c st)).
Proof. exact p_read_tag_adv. Qed.

Theorem C03_next_only_forward : forall c st, c_buffered c = [] -> Adv st (fst (p_next c st)).
Proof. exact p_next_adv. Qed.

(* ... and try_recover leaves the queue of items waiting to be handed out untouched *)
Theorem C03_recover_only_forward : forall c st,
  Adv st (fst (p_try_recover c st)) /\ b_queue (fst (p_try_recover c st)) = b_queue st.
Proof. exact p_try_recover_adv. Qed.

(* a try_recover call that reports success without hitting a panic site or the recursion budget moved the cursor strictly
   forward (at least one byte is skipped; cf. C14 / C05 "recovery moves forward") *)
Theorem C03_recover_ok_skips : forall c st st1, p_try_recover c st = (st1, None) -> b_bad st1 = None -> b_off st < b_off st1.
Proof. exact try_recover_ok_strict. Qed.

(* the first stretch is the clean prefix of C03_run_tiles *)
Theorem C03_stretches_head : forall outs, hd [] (stretches outs) = clean_prefix outs.
Proof. exact stretches_head. Qed.

(* Segmented tiling of a whole run.  Nothing buffered, any tolerance settings, every input, every sequence of next() /
   try_recover() / drain operations in which try_recover is never called directly after an End item or an item-limit outcome was
   yielded ([rec_ok true]; in particular every run that calls try_recover only directly after an error, after another
   try_recover, after None, after a Start / element item, or first): cut the outcomes at the non-clean ones; then there are gaps
   g_1 .. g_k, one per non-clean outcome, such that the non-End items of the clean stretches s_0 .. s_k tile the input with
   exactly these gaps in between,  input = tile(s_0) ++ g_1 ++ tile(s_1) ++ .. ++ g_k ++ tile(s_k) ++ rest,  each stretch's items
   reporting offsets that start exactly after the preceding gap (offset 0 for s_0); and the gap of a successful try_recover
   (ORecOk) is not empty. *)
Theorem C03_run_tiles_segmented : forall c input ops, c_buffered c = [] -> rec_ok true (p_run c input ops) = true ->
  exists gaps, SegTiles (c_sp c) 0 input (map non_end_items (stretches (p_run c input ops))) gaps /\
               Forall2 (fun o g => o = ORecOk -> g <> []) (cuts (p_run c input ops)) gaps.
Proof. exact run_tiles_aligned. Qed.

(* Without any discipline: nothing buffered, any tolerance settings, every input, every sequence of operations: the non-End items
   of the run, followed by the non-End items [pend] the reader had already read but not yet handed out when the run ended, can
   be cut into 1 + (number of non-clean outcomes) consecutive groups that tile the input with gaps only between groups.  So in
   every run every non-End item mirrors the bytes at its reported offset, items never overlap, offsets never go backwards, and at
   most one gap arises per non-clean outcome.  (The groups are the stretches of the items in the order they were READ; under
   [rec_ok] this is the order of the outcomes, C03_run_tiles_segmented.) *)
Theorem C03_run_tiles_segmented_any : forall c input ops, c_buffered c = [] ->
  exists ss gaps pend, SegTiles (c_sp c) 0 input ss gaps /\ concat ss = non_end_items (p_run c input ops) ++ pend /\
                       length ss = S (nclean (p_run c input ops)).
Proof. exact run_tiles_segmented. Qed.

(* one gap between any two consecutive stretches *)
Theorem C03_segtiles_gaps : forall sp off bytes ss gaps, SegTiles sp off bytes ss gaps -> length ss = S (length gaps).
Proof. exact SegTiles_length. Qed.

(* Root(129) { Val(16641) = 5, Str(134) = invalid UTF-8, Val = 6, Val with size 9 (damaged), Val = 9 }.
   next x5, try_recover, next x3: the invalid string is consumed by the failed read (gap of 3 bytes, offsets 6..8); the damaged
   header is rejected without consuming anything (empty gap); try_recover then skips the 6 bytes at offsets 13..18. *)
Definition C03_seg_sp : spec :=
  [ {| e_id := 129; e_ty := DMaster; e_path := [] |}; {| e_id := 16641; e_ty := DUInt; e_path := [PId 129] |};
    {| e_id := 134; e_ty := DUtf8; e_path := [PId 129] |} ].
Definition C03_seg_cfg : cfg :=
  {| c_sp := C03_seg_sp; c_allow_id := false; c_allow_hier := false; c_allow_over := false; c_max := Some 4000000000;
     c_buffered := []; c_emit_eof := true |}.
Definition C03_seg_doc : list N := [129; 149; 65; 1; 129; 5; 134; 129; 255; 65; 1; 129; 6; 65; 1; 137; 7; 7; 7; 65; 1; 129; 9].
Definition C03_seg_ops : list rop := [RNext; RNext; RNext; RNext; RNext; RRecover; RNext; RNext; RNext].

Example C03_ex_segmented :
  let outs := p_run C03_seg_cfg C03_seg_doc C03_seg_ops in
  outs = [OItem (TStart 129) 0; OItem (TElem 16641 (VU 5)) 2; OErr (RTagData 134 KUtf8); OItem (TElem 16641 (VU 6)) 9;
          OErr (RInvalidTagData 13 16641); ORecOk; OItem (TElem 16641 (VU 9)) 19; OItem (TEnd 129) 0; ONone] /\
  rec_ok true outs = true /\
  cuts outs = [OErr (RTagData 134 KUtf8); OErr (RInvalidTagData 13 16641); ORecOk] /\
  map non_end_items (stretches outs) =
    [[(TStart 129, 0); (TElem 16641 (VU 5), 2)]; [(TElem 16641 (VU 6), 9)]; []; [(TElem 16641 (VU 9), 19)]] /\
  SegTiles C03_seg_sp 0 C03_seg_doc (map non_end_items (stretches outs)) [[134; 129; 255]; []; [65; 1; 137; 7; 7; 7]].
Proof.
  cbv zeta. split; [vm_compute; reflexivity|]. split; [vm_compute; reflexivity|]. split; [vm_compute; reflexivity|].
  split; [vm_compute; reflexivity|].
  assert (E : map non_end_items (stretches (p_run C03_seg_cfg C03_seg_doc C03_seg_ops)) =
    [[(TStart 129, 0); (TElem 16641 (VU 5), 2)]; [(TElem 16641 (VU 6), 9)]; []; [(TElem 16641 (VU 9), 19)]]) by (vm_compute; reflexivity).
  rewrite E. clear E.
  set (sp := C03_seg_sp).
  eapply (SegT_cons sp _ _ _ 6 [134; 129; 255; 65; 1; 129; 6; 65; 1; 137; 7; 7; 7; 65; 1; 129; 9] [134; 129; 255]
            [65; 1; 129; 6; 65; 1; 137; 7; 7; 7; 65; 1; 129; 9]); [|reflexivity|].
  { eapply (Tiles_cons sp _ _ [129; 149] _); [reflexivity| |].
    { exists 1%nat, 21, 1%nat, [129; 149], []. vm_compute. repeat split; reflexivity. }
    eapply (Tiles_cons sp _ _ [65; 1; 129; 5] _); [reflexivity| |].
    { exists 2%nat, 1, 1%nat, [65; 1; 129], [5]. vm_compute. repeat split; try reflexivity. intros F; discriminate F. }
    apply Tiles_nil. }
  eapply (SegT_cons sp _ _ _ 13 [65; 1; 137; 7; 7; 7; 65; 1; 129; 9] [] [65; 1; 137; 7; 7; 7; 65; 1; 129; 9]); [|reflexivity|].
  { eapply (Tiles_cons sp _ _ [65; 1; 129; 6] _); [reflexivity| |].
    { exists 2%nat, 1, 1%nat, [65; 1; 129], [6]. vm_compute. repeat split; try reflexivity. intros F; discriminate F. }
    apply Tiles_nil. }
  eapply (SegT_cons sp _ _ _ 13 [65; 1; 137; 7; 7; 7; 65; 1; 129; 9] [65; 1; 137; 7; 7; 7] [65; 1; 129; 9]); [apply Tiles_nil|reflexivity|].
  apply SegT_last. exists 23, []. 
  eapply (Tiles_cons sp _ _ [65; 1; 129; 9] _); [reflexivity| |].
  { exists 2%nat, 1, 1%nat, [65; 1; 129], [9]. vm_compute. repeat split; try reflexivity. intros F; discriminate F. }
  apply Tiles_nil.
Qed.

(* The discipline [rec_ok] is needed.  Root(129) { Seg(130) { Val = 5 }  Seg(130) { one junk byte, Val = 6 } }: the read that
   closes the first Seg has already read the header of the second Seg (offsets 8..9) when End Seg is yielded; try_recover, called
   at that moment, skips the junk byte at offset 10; the waiting Start Seg is yielded after ORecOk, at offset 8, followed by
   Val at offset 11: inside the second stretch the byte at offset 10 is covered by no item, so the stretches of the OUTCOMES
   have no segmented tiling (the stretches of C03_run_tiles_segmented_any do: [Root; Seg; Val; Seg] gap [255] [Val]). *)
Definition C03_cx_sp : spec :=
  [ {| e_id := 129; e_ty := DMaster; e_path := [] |}; {| e_id := 130; e_ty := DMaster; e_path := [PId 129] |};
    {| e_id := 16641; e_ty := DUInt; e_path := [PId 129; PId 130] |} ].
Definition C03_cx_cfg : cfg :=
  {| c_sp := C03_cx_sp; c_allow_id := false; c_allow_hier := false; c_allow_over := false; c_max := Some 4000000000;
     c_buffered := []; c_emit_eof := true |}.
Definition C03_cx_doc : list N := [129; 141; 130; 132; 65; 1; 129; 5; 130; 133; 255; 65; 1; 129; 6].
Definition C03_cx_ops : list rop := [RNext; RNext; RNext; RNext; RRecover; RNext; RNext; RNext; RNext; RNext].

Example C03_run_tiles_segmented_counterexample :
  let outs := p_run C03_cx_cfg C03_cx_doc C03_cx_ops in
  outs = [OItem (TStart 129) 0; OItem (TStart 130) 2; OItem (TElem 16641 (VU 5)) 4; OItem (TEnd 130) 2; ORecOk;
          OItem (TStart 130) 8; OItem (TElem 16641 (VU 6)) 11; OItem (TEnd 130) 8; OItem (TEnd 129) 0; ONone] /\
  rec_ok true outs = false /\
  map non_end_items (stretches outs) =
    [[(TStart 129, 0); (TStart 130, 2); (TElem 16641 (VU 5), 4)]; [(TStart 130, 8); (TElem 16641 (VU 6), 11)]] /\
  ~ exists gaps, SegTiles C03_cx_sp 0 C03_cx_doc (map non_end_items (stretches outs)) gaps.
Proof.
  cbv zeta. split; [vm_compute; reflexivity|]. split; [vm_compute; reflexivity|]. split; [vm_compute; reflexivity|].
  assert (E : map non_end_items (stretches (p_run C03_cx_cfg C03_cx_doc C03_cx_ops)) =
    [[(TStart 129, 0); (TStart 130, 2); (TElem 16641 (VU 5), 4)]; [(TStart 130, 8); (TElem 16641 (VU 6), 11)]]) by (vm_compute; reflexivity).
  rewrite E. clear E. intros [gaps H].
  destruct (SegTiles_second _ _ _ _ _ _ H) as [pre [bytes2 [Hb [o [r HT]]]]].
  destruct (Tiles_two _ _ _ _ _ _ _ _ _ _ HT) as [Ho [seg [rest1 [Hb2 [Hm Ho2]]]]].
  assert (Hl : length pre = 8%nat) by lia.
  apply app_skipn in Hb. rewrite Hl in Hb. vm_compute in Hb. subst bytes2.
  destruct Hm as [idl [size [sl [hdr [payload [Hseg [Hd [Hv [Hh [_ Hp]]]]]]]]]].
  rewrite <- Hb2 in Hd, Hv. vm_compute in Hd. injection Hd as <-. vm_compute in Hv. injection Hv as <- <-.
  subst payload. rewrite app_nil_r in Hseg. subst seg. rewrite Hh in Ho2. cbn in Ho2. lia.
Qed.
