(* C03 — every emitted tag mirrors the bytes at its reported offset; tags tile the stream.  Statements only. *)
From Ebml Require Import Base Tools Spec Reader Pure Proofs.Tactics Proofs.ReaderIO Proofs.Refine Proofs.PureProofs.

(* One tag (every configuration, every parser state, every remaining input): if reading a tag succeeds then
   - the offset recorded for the item is the cursor position before the tag,
   - the id decoded at that position is the item's id,
   - the input splits as header ++ payload ++ rest, the cursor advances exactly over header (masters) or header ++ payload
     (other elements): no byte is skipped or read twice,
   - a master's payload part is empty (its children follow), and an element's value is the documented decoding of the
     payload for the declared type (big-endian unsigned, two's-complement signed, IEEE 4/8-byte float, UTF-8, raw). *)
Theorem C03_tag_mirrors_bytes : forall c st st' p, p_read_tag c st = (st', Ok p) ->
  p_start p = b_off st /\
  exists idl hl payload,
    p_tag_id st = Ok (tag_id (p_tag p), idl) /\ (idl <= hl)%nat /\
    b_bytes st = firstn hl (b_bytes st) ++ payload ++ b_bytes st' /\ length (firstn hl (b_bytes st)) = hl /\
    p_data p = b_off st + N.of_nat hl /\
    b_off st' = b_off st + N.of_nat hl + N.of_nat (length payload) /\
    match p_tag p with
    | TStart id => get_type (c_sp c) id = Some DMaster /\ payload = []
    | TElem id v => get_type (c_sp c) id <> Some DMaster /\ decodes (get_type (c_sp c) id) payload v /\ p_size p = SKnown (N.of_nat (length payload))
    | _ => False
    end.
Proof. exact p_read_tag_mirrors. Qed.

(* the buffered machine reads the same tags at the same offsets for every chunking and capacity (C04) *)
Theorem C03_buffered_same : forall c cap0 script input ops, calm script ->
  run_reader c cap0 script input ops = p_run c input ops.
Proof. exact buffered_refines_pure. Qed.

(* PARTIAL: the run-level statements (End and Full items report the offset of their Start; consecutive non-End items of a
   whole run tile the input) follow the frames' f_start bookkeeping and are covered by the correspondence check with the
   independent re-decoder (props/readcheck.py check_tiling); they are not yet proved as theorems. *)

Example C03_ex :
  let sp := [ {| e_id := 129; e_ty := DMaster; e_path := [] |}; {| e_id := 16643; e_ty := DMaster; e_path := [PId 129] |};
              {| e_id := 16641; e_ty := DSInt; e_path := [PId 129; PId 16643] |} ] in
  let c := {| c_sp := sp; c_allow_id := false; c_allow_hier := false; c_allow_over := false; c_max := Some 4000000000;
              c_buffered := [16643]; c_emit_eof := true |} in
  p_run c [129; 136; 65; 3; 133; 65; 1; 130; 255; 56] [RAll] =
    [OItem (TStart 129) 0; OItem (TFull 16643 [TElem 16641 (VI (-200))]) 2; OItem (TEnd 129) 0; ONone].
Proof. vm_compute. reflexivity. Qed.
