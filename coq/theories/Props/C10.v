(* C10 — writer streams: flushed bytes are final, and complete when no sized master is open.  Statements only. *)
From Ebml Require Import Base Tools Spec Writer Proofs.Tactics Proofs.SpecProofs Proofs.WriterProofs.

(* bytes handed to the destination are never retracted or altered: every call only appends to them, for every call,
   state, specification and destination write script *)
Theorem C10_prefix_step : forall sp st op st' r, wstep sp st op = (st', r) -> exists x, w_dest st' = w_dest st ++ x.
Proof. exact wstep_prefix. Qed.

(* hence at every moment the delivered bytes are a prefix of the final output *)
Theorem C10_prefix_run : forall sp ops st st' rs, wrun sp st ops = (st', rs) -> exists x, w_dest st' = w_dest st ++ x.
Proof. exact wrun_prefix. Qed.

(* a call that returns successfully while no known-size master is open leaves nothing in the working buffer:
   every byte of every tag accepted so far has been handed over *)
Theorem C10_drained : forall sp st op st', wstep sp st op = (st', WOk) -> has_known (w_open st') = false -> w_buf st' = [].
Proof. exact wstep_drained. Qed.

(* while a known-size master is open (after the call), the call handed nothing over *)
Theorem C10_held : forall sp st t o st' r, write_advanced sp st t o = (st', r) -> r <> WPanic ->
  has_known (w_open st') = true -> w_dest st' = w_dest st.
Proof. exact write_held. Qed.

(* buffering itself never touches the destination *)
Theorem C10_buffering_silent : forall sp t o st st1 r, buffer_tag sp t o st = (st1, r) -> w_dest st1 = w_dest st /\ w_script st1 = w_script st.
Proof. exact buffer_dest. Qed.

(* flush() and into_inner() close all open masters and deliver everything *)
Theorem C10_flush : forall st st', flush st = (st', WOk) -> w_open st' = [] /\ w_buf st' = [].
Proof. exact flush_closes_all. Qed.
Theorem C10_into_inner : forall sp st st', wstep sp st OpIntoInner = (st', WOk) -> w_open st' = [] /\ w_buf st' = [].
Proof. intros sp. exact flush_closes_all. Qed.

Example C10_ex :
  let sp := [ {| e_id := 129; e_ty := DMaster; e_path := [] |}; {| e_id := 16643; e_ty := DMaster; e_path := [PId 129] |};
              {| e_id := 16642; e_ty := DBinary; e_path := [PId 129; PId 16643] |} ] in
  let u := {| o_len := None; o_unknown := true |} in
  (* unknown-size Root: its header is delivered at once; known-size Parent: nothing until its End; then everything *)
  map snd (snd (wrun sp (w_init []) [OpWrite (TStart 129) u; OpWrite (TStart 16643) o_default; OpWrite (TElem 16642 (VB [7])) o_default;
                                    OpWrite (TEnd 16643) o_default; OpFlush])) = [9; 9; 9; 16; 16]%nat.
Proof. vm_compute. reflexivity. Qed.
