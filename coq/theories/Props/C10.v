(* C10 — writer streams: flushed bytes are final, and complete when no sized master is open.  Statements only.
   First part: the delivered bytes only grow; nothing is held back unless a known-size master is open.
   Second part (snapshots, Proofs/Snapshots.v): what the delivered bytes ARE while masters are still open.  A call sequence that
   leaves masters open is [wops_open d L f]: for each open master (the levels L of Proofs/Partial.v, outermost first) the complete
   sibling trees [lv_f] written before it, then its Start (unknown size by option when [lv_size] = None, else a known-size
   Start), and finally the complete trees f written at the innermost level.  While every open master has unknown size the
   destination holds exactly the encoding of everything written so far, and the strict reader parses it to exactly the tags
   written so far, followed by the Ends of the open masters (innermost first) that it supplies at the end of the input.  When some
   open master has a known size, the destination holds exactly what precedes the outermost such master.
   PARTIAL (second part): declared paths without global placeholders, one write call per tag, a destination that accepts
   everything — the scope of [wconf]/[rconf], as in C01.
   Third part (I/O errors, Proofs/WriterIO.v; since the repair D28, /repo commit "fix: a write error of the destination lost tags that
   had been accepted"): the hand-over step drains exactly what the destination took and keeps the rest, so no byte of an accepted tag
   is ever dropped; a run against ANY destination is the run against the destination that accepts everything, except that some of
   the bytes are still in the working buffer, and that a call reports an I/O error where the other run reports success.  FULL: every
   call sequence, specification and destination script.
   Fourth part (Proofs/SnapshotsMixed.v): the snapshot statements of the second part (a) when the complete trees are presented in ANY
   mix of Full items and separate calls ([pops_open d L P f ps], the presentations of Proofs/WriteMixed.v, C09), (b) with any number
   of REJECTED calls (calls returning an error other than an I/O error, the class of C19_insert_rejected) inserted at arbitrary
   positions ([rej_insert]), and (c) after EVERY call: every prefix of a presentation of a conforming document is again such an open
   call sequence for some L, f (C10_prefix_is_open, C10_snapshot_after_every_call).  Same scope as the second part otherwise. *)
From Ebml Require Import Base Tools Spec Writer Reader Pure Encode Proofs.Tactics Proofs.SpecProofs Proofs.WriterProofs Proofs.RoundTrip Proofs.WriteEnc Proofs.Nesting Proofs.Partial Proofs.Snapshots Proofs.AuditWriter Proofs.WriteScripts Proofs.WriterIO Proofs.RollUp Proofs.WriteFull Proofs.WriteMixed Proofs.WriteEncG Proofs.SnapshotsMixed.

(* bytes handed to the destination are never retracted or altered: every call only appends to them, for every call,
   state, specification and destination write script *)
Theorem C10_prefix_step : forall sp st op st' r, wstep sp st op = (st', r) -> exists x, w_dest st' = w_dest st ++ x.
Proof. exact wstep_prefix. Qed.

(* hence at every moment the delivered bytes are a prefix of the final output *)
Theorem C10_prefix_run : forall sp ops st st' rs, wrun sp st ops = (st', rs) -> exists x, w_dest st' = w_dest st ++ x.
Proof. exact wrun_prefix. Qed.

(* a call that returns successfully while no known-size master is open leaves nothing in the working buffer:
   every byte of every tag accepted so far has been handed over *)
Theorem C10_drained : forall sp st op st', wstep sp st op = (st', WOk) -> has_known (w_open st') = false -> w_buf st' = [].
Proof. exact wstep_drained. Qed.

(* while a known-size master is open (after the call), the call handed nothing over (write_raw: C10_raw_held below) *)
Theorem C10_held : forall sp st t o st' r, write_advanced sp st t o = (st', r) -> r <> WPanic ->
  has_known (w_open st') = true -> w_dest st' = w_dest st.
Proof. exact write_held. Qed.

(* buffering itself never touches the destination *)
Theorem C10_buffering_silent : forall sp t o st st1 r, buffer_tag sp t o st = (st1, r) -> w_dest st1 = w_dest st /\ w_script st1 = w_script st.
Proof. exact buffer_dest. Qed.

(* after a successful flush() / into_inner() no master is open and the working buffer is empty (what the destination has received:
   C10_flush_bytes below) *)
Theorem C10_flush : forall st st', flush st = (st', WOk) -> w_open st' = [] /\ w_buf st' = [].
Proof. exact flush_closes_all. Qed.
Theorem C10_into_inner : forall sp st st', wstep sp st OpIntoInner = (st', WOk) -> w_open st' = [] /\ w_buf st' = [].
Proof. intros sp. exact flush_closes_all. Qed.

(* ---- what exactly is delivered (byte level) *)

(* the hand-over step (private_flush: the write_all loop over the working buffer, then drain(..delivered)): the open masters are
   untouched; the working buffer splits into a prefix [del], which the destination takes (it is appended to the delivered bytes), and
   the [rest], which STAYS in the working buffer; when the step succeeds the rest is empty (the whole buffer went over, the buffer is
   empty); when it fails the error is an I/O error and the rest has at least one byte (fix D28; before it the rest was dropped) *)
Theorem C10_private_flush_bytes : forall st st' r, private_flush st = (st', r) ->
  w_open st' = w_open st /\
  exists del rest, w_buf st = del ++ rest /\ w_dest st' = w_dest st ++ del /\ w_buf st' = rest /\
                   (r = WOk -> rest = []) /\ (r <> WOk -> rest <> [] /\ exists x, r = WErr (EIo x)).
Proof. exact private_flush_bytes. Qed.

(* conservation: whatever the destination does and whatever the step returns, delivered bytes ++ working buffer is the same before and
   after the hand-over step: no byte is dropped, duplicated or reordered *)
Theorem C10_private_flush_nothing_lost : forall st st' r, private_flush st = (st', r) ->
  w_dest st' ++ w_buf st' = w_dest st ++ w_buf st.
Proof. exact private_flush_conserves. Qed.

(* in particular a successful hand-over appends exactly the working buffer to the destination *)
Theorem C10_flush_conserves : forall st st', private_flush st = (st', WOk) -> w_dest st' = w_dest st ++ w_buf st.
Proof. exact flush_conserves. Qed.

(* a successful write()/write_advanced() after which no known-size master is open hands over exactly the working buffer as it is after
   buffering the tag (everything held back so far and the new tag), and leaves the buffer empty *)
Theorem C10_write_delivers : forall sp st t o st', write_advanced sp st t o = (st', WOk) -> has_known (w_open st') = false ->
  exists st1, buffer_tag sp t o st = (st1, WOk) /\ w_open st' = w_open st1 /\ w_buf st' = [] /\ w_dest st' = w_dest st ++ w_buf st1.
Proof. exact write_delivers. Qed.

(* the same for write_raw(): the buffer, then id, size field of the default (shortest) width, payload *)
Theorem C10_raw_delivers : forall st id data st', write_raw st id data = (st', WOk) -> has_known (w_open st') = false ->
  exists field, size_to_vint (N.of_nat (length data)) O = Some field /\ w_open st' = w_open st /\ w_buf st' = [] /\
                w_dest st' = w_dest st ++ w_buf st ++ id_bytes id ++ field ++ data.
Proof. exact raw_delivers. Qed.

(* write_raw() while a known-size master is open hands nothing over, whatever it returns *)
Theorem C10_raw_held : forall st id data st' r, write_raw st id data = (st', r) -> has_known (w_open st') = true -> w_dest st' = w_dest st.
Proof. exact raw_held. Qed.

(* flush() = closing all masters: [closed_buf open buf] (Proofs/AuditWriter.v) is the working buffer after closing every open master,
   innermost first — each known-size master gets its id and its size field (the number of bytes buffered since its start, in the
   width it was started with) spliced in at its start, unknown-size masters need nothing.  A successful flush() appends exactly that
   to the destination and leaves nothing open or buffered *)
Theorem C10_flush_bytes : forall st st', flush st = (st', WOk) ->
  exists b, closed_buf (w_open st) (w_buf st) = Some b /\ w_dest st' = w_dest st ++ b /\ w_open st' = [] /\ w_buf st' = [].
Proof. exact flush_bytes. Qed.
Theorem C10_into_inner_bytes : forall sp st st', wstep sp st OpIntoInner = (st', WOk) ->
  exists b, closed_buf (w_open st) (w_buf st) = Some b /\ w_dest st' = w_dest st ++ b /\ w_open st' = [] /\ w_buf st' = [].
Proof. intros sp. exact flush_bytes. Qed.

(* a failing flush()/into_inner(): either some master's content does not fit the size width it was started with — then the state is
   unchanged (nothing delivered, nothing closed; fix D26); or the destination fails — then every master has been closed, a proper
   prefix [del] of the closed buffer has reached the destination and the [rest] (at least one byte) is what the working buffer now
   holds: the next hand-over continues with it (fix D28) *)
Theorem C10_flush_failure : forall st st' e, flush st = (st', WErr e) ->
  (e = ESize /\ st' = st) \/
  (exists x, e = EIo x /\ w_open st' = [] /\
     exists b del rest, closed_buf (w_open st) (w_buf st) = Some b /\ b = del ++ rest /\ rest <> [] /\
                        w_dest st' = w_dest st ++ del /\ w_buf st' = rest).
Proof. exact flush_failure. Qed.

(* hence after a flush()/into_inner() that failed with an I/O error, delivered bytes ++ working buffer = the bytes delivered before ++
   the closed buffer: exactly what a successful flush would have delivered (C10_flush_bytes), all of it still there *)
Theorem C10_flush_failure_nothing_lost : forall st st' x, flush st = (st', WErr (EIo x)) ->
  exists b, closed_buf (w_open st) (w_buf st) = Some b /\ w_dest st' ++ w_buf st' = w_dest st ++ b.
Proof. exact flush_failure_conserves. Qed.

(* unknown-size Root (9 header bytes delivered at once), known-size Parent and a 1-byte binary element held back (4 bytes in the buffer):
   closing Parent splices its id and 1-byte size (65 3, 132) in front of them, and flush() delivers exactly these 8 bytes *)
Example C10_ex_flush_bytes :
  let u := {| o_len := None; o_unknown := true |} in
  let st := fst (wrun aw_sp (w_init []) [OpWrite (TStart 129) u; OpWrite (TStart 16643) o_default; OpWrite (TElem 16642 (VB [7])) o_default]) in
  w_buf st = [65; 2; 129; 7] /\ closed_buf (w_open st) (w_buf st) = Some [65; 3; 132; 65; 2; 129; 7] /\
  w_dest (fst (flush st)) = w_dest st ++ [65; 3; 132; 65; 2; 129; 7] /\ snd (flush st) = WOk.
Proof. vm_compute. repeat split; reflexivity. Qed.

(* an I/O failure during a streaming write (Start Root with unknown size, destination script: take 2 bytes, then fail with code 5, then
   accept): the call returns the I/O error, the master counts as open, 2 of the 9 header bytes were delivered and the other 7 are
   still in the working buffer; a following flush() returns Ok and ends in exactly the state that the same two calls reach over an
   accepting destination (all 9 bytes delivered); and instead of the flush, a following streaming write (UInt 5 in Root) returns Ok
   and delivers the 7 retained bytes and then its own 4: the final destination is what the accepting destination gets *)
Example C10_ex_io_retained :
  let u := {| o_len := None; o_unknown := true |} in
  let st := fst (wstep aw_sp (w_init [WAcc 2; WFail 5]) (OpWrite (TStart 129) u)) in
  snd (wstep aw_sp (w_init [WAcc 2; WFail 5]) (OpWrite (TStart 129) u)) = WErr (EIo (IoCode 5)) /\
  w_dest st = [129; 1] /\ w_buf st = [255; 255; 255; 255; 255; 255; 255] /\ open_ids (w_open st) = [129] /\
  wstep aw_sp st OpFlush = (fst (wstep aw_sp (fst (wstep aw_sp (w_init []) (OpWrite (TStart 129) u))) OpFlush), WOk) /\
  w_dest (fst (wstep aw_sp st OpFlush)) = [129; 1; 255; 255; 255; 255; 255; 255; 255] /\
  run_writer aw_sp [OpWrite (TStart 129) u; OpWrite (TElem 16641 (VU 5)) o_default] [WAcc 2; WFail 5] =
    ([(WErr (EIo (IoCode 5)), 2%nat); (WOk, 13%nat)], [129; 1; 255; 255; 255; 255; 255; 255; 255; 65; 1; 129; 5]) /\
  run_writer aw_sp [OpWrite (TStart 129) u; OpWrite (TElem 16641 (VU 5)) o_default] [] =
    ([(WOk, 9%nat); (WOk, 13%nat)], [129; 1; 255; 255; 255; 255; 255; 255; 255; 65; 1; 129; 5]).
Proof. exact io_retained_example. Qed.

Example C10_ex :
  let sp := [ {| e_id := 129; e_ty := DMaster; e_path := [] |}; {| e_id := 16643; e_ty := DMaster; e_path := [PId 129] |};
              {| e_id := 16642; e_ty := DBinary; e_path := [PId 129; PId 16643] |} ] in
  let u := {| o_len := None; o_unknown := true |} in
  (* unknown-size Root: its header is delivered at once; known-size Parent: nothing until its End; then everything *)
  map snd (snd (wrun sp (w_init []) [OpWrite (TStart 129) u; OpWrite (TStart 16643) o_default; OpWrite (TElem 16642 (VB [7])) o_default;
                                    OpWrite (TEnd 16643) o_default; OpFlush])) = [9; 9; 9; 16; 16]%nat.
Proof. vm_compute. reflexivity. Qed.

(* ---- I/O errors lose nothing (fix D28) *)

(* Vocabulary (Proofs/WriterIO.v).  [res_rel r r0]: r = r0, or r0 = WOk and r is an I/O error.  [row_rel (r, n) (r0, n0)]:
   res_rel r r0 and n <= n0.  [shift_open k o]: the open masters o with the start offset of every known-size master increased by k
   (ids, size widths, order and unknown-size masters unchanged).  [io_rel st st0]: the script of st0 is empty (st0's destination
   accepts everything) and for some bytes [pre]: w_buf st = pre ++ w_buf st0, w_dest st0 = w_dest st ++ pre and
   w_open st = shift_open (length pre) (w_open st0) — st is st0 with the last bytes of st0's destination still at the front of the
   working buffer.  [with_script st []] (Proofs/WriteScripts.v): st over the destination that accepts everything. *)

(* one call, from the same state, against any destination (st, any remaining script) and against the accepting one: for every
   call, state and specification, and whatever the two calls return (success, any error, panic): the open masters are the same; the
   accepting run's working buffer is a suffix of the other one's, and what precedes it there ([rest]) is exactly what the accepting
   destination has received in addition; so delivered bytes ++ working buffer is the same in both; and the verdicts are equal, or
   the accepting run succeeded and the other one reports an I/O error.  Buffering decisions never depend on delivery, and delivery
   never drops bytes *)
Theorem C10_nothing_lost_step : forall sp st op st' r st0' r0,
  wstep sp st op = (st', r) -> wstep sp (with_script st []) op = (st0', r0) ->
  w_open st' = w_open st0' /\
  (exists rest, w_buf st' = rest ++ w_buf st0' /\ w_dest st0' = w_dest st' ++ rest) /\
  w_dest st' ++ w_buf st' = w_dest st0' ++ w_buf st0' /\
  res_rel r r0.
Proof. exact nothing_lost_step. Qed.

(* the same from related states (bytes retained by earlier I/O errors): one call keeps the states related and gives related verdicts *)
Theorem C10_nothing_lost_step_rel : forall sp st st0 op st' r st0' r0, io_rel st st0 ->
  wstep sp st op = (st', r) -> wstep sp st0 op = (st0', r0) -> io_rel st' st0' /\ res_rel r r0.
Proof. exact wstep_rel. Qed.

(* run level: for every specification, call sequence and destination script, the run (st, rs) against that destination and the run
   (st0, rs0) against the accepting destination satisfy — with NO side condition (panics included: both runs stop at the same call):
   the accepting run's working buffer is a suffix of the other one's, the bytes [rest] in front of it are exactly the last bytes of
   the accepting destination, and the open masters are the same up to the start offsets of known-size masters, which are larger by
   length rest; delivered ++ buffered is the same; the ids of the open masters and whether a known-size one is open are the same; the
   open masters are equal when none has a known size; and the result lists have the same length and are related call by call: same
   verdict or an I/O error instead of Ok (never another difference), and never more bytes delivered *)
Theorem C10_io_error_loses_nothing : forall sp ops script st rs st0 rs0,
  wrun sp (w_init script) ops = (st, rs) -> wrun sp (w_init []) ops = (st0, rs0) ->
  (exists rest, w_buf st = rest ++ w_buf st0 /\ w_dest st0 = w_dest st ++ rest /\
                w_open st = shift_open (length rest) (w_open st0)) /\
  w_dest st ++ w_buf st = w_dest st0 ++ w_buf st0 /\
  open_ids (w_open st) = open_ids (w_open st0) /\ has_known (w_open st) = has_known (w_open st0) /\
  (has_known (w_open st0) = false -> w_open st = w_open st0) /\
  Forall2 row_rel rs rs0.
Proof. exact io_error_loses_nothing. Qed.

(* the plain equality w_open st = w_open st0 fails while a known-size master is open that was started with retained bytes in the
   buffer: the destination fails at once, Start Root (unknown size) keeps its 9 bytes buffered, Start Parent (known size) then starts
   at offset 9 instead of 0 — everything else agrees, and the flush delivers the same 12 bytes in both runs *)
Example C10_io_open_offset_counterexample :
  let u := {| o_len := None; o_unknown := true |} in
  let ops := [OpWrite (TStart 129) u; OpWrite (TStart 16643) o_default] in
  w_open (fst (wrun aw_sp (w_init [WFail 5]) ops)) = [(16643, WKnown 9, O); (129, WUnknown, O)] /\
  w_open (fst (wrun aw_sp (w_init []) ops)) = [(16643, WKnown 0, O); (129, WUnknown, O)] /\
  map fst (snd (wrun aw_sp (w_init [WFail 5]) ops)) = [WErr (EIo (IoCode 5)); WOk] /\
  run_writer aw_sp (ops ++ [OpFlush]) [WFail 5] =
    ([(WErr (EIo (IoCode 5)), 0%nat); (WOk, 0%nat); (WOk, 12%nat)], snd (run_writer aw_sp (ops ++ [OpFlush]) [])) /\
  snd (run_writer aw_sp (ops ++ [OpFlush]) []) = [129; 1; 255; 255; 255; 255; 255; 255; 255; 65; 3; 128].
Proof. vm_compute. repeat split; reflexivity. Qed.

(* a run whose LAST call returned Ok (then no call panicked) and after which no known-size master is open has an empty working buffer *)
Theorem C10_drained_run : forall sp ops st st' rs, ops <> [] -> wrun sp st ops = (st', rs) ->
  fst (last rs (WPanic, O)) = WOk -> has_known (w_open st') = false -> w_buf st' = [].
Proof. exact wrun_drained. Qed.

(* a later success delivers everything: if the last call of a non-empty call sequence returned Ok against the given destination —
   whatever happened before, I/O errors included — and no known-size master is open afterwards (always so after flush()/into_inner()),
   then both working buffers are empty and the destination holds exactly the bytes the accepting destination holds; the open
   masters are equal too *)
Theorem C10_retry_delivers : forall sp ops script st rs st0 rs0,
  wrun sp (w_init script) ops = (st, rs) -> wrun sp (w_init []) ops = (st0, rs0) ->
  ops <> [] -> fst (last rs (WPanic, O)) = WOk -> has_known (w_open st) = false ->
  w_buf st = [] /\ w_buf st0 = [] /\ w_dest st = w_dest st0 /\ w_open st = w_open st0.
Proof. exact retry_delivers. Qed.

(* state form: whenever the working buffer is empty after a run, the destination holds exactly what the accepting one holds *)
Theorem C10_empty_buffer_same_dest : forall sp ops script st rs st0 rs0,
  wrun sp (w_init script) ops = (st, rs) -> wrun sp (w_init []) ops = (st0, rs0) ->
  w_buf st = [] -> w_dest st = w_dest st0 /\ w_buf st0 = [] /\ w_open st = w_open st0.
Proof. exact empty_buffer_same_dest. Qed.

(* a destination that takes 2 bytes, fails (code 5), fails (code 6), takes 3 bytes, fails (code 7) and accepts from then on: Start Root
   (unknown size), UInt 5 and a first flush() report these three I/O errors with 2, 2 and 5 bytes delivered; the second flush() returns
   Ok and the destination then holds the 13 bytes that the accepting destination holds *)
Example C10_ex_retry :
  let u := {| o_len := None; o_unknown := true |} in
  let ops := [OpWrite (TStart 129) u; OpWrite (TElem 16641 (VU 5)) o_default; OpFlush; OpFlush] in
  run_writer aw_sp ops [WAcc 2; WFail 5; WFail 6; WAcc 3; WFail 7] =
    ([(WErr (EIo (IoCode 5)), 2%nat); (WErr (EIo (IoCode 6)), 2%nat); (WErr (EIo (IoCode 7)), 5%nat); (WOk, 13%nat)],
     snd (run_writer aw_sp ops [])) /\
  run_writer aw_sp ops [] =
    ([(WOk, 9%nat); (WOk, 13%nat); (WOk, 13%nat); (WOk, 13%nat)], [129; 1; 255; 255; 255; 255; 255; 255; 255; 65; 1; 129; 5]).
Proof. vm_compute. repeat split; reflexivity. Qed.

(* ---- snapshots: the delivered bytes while masters are open *)

(* every open master of unknown size: every call succeeds and the destination holds exactly the encoding of everything written so
   far — every complete tree, and the header (id, unknown-size marker) of every open master; nothing is buffered *)
Theorem C10_snapshot_bytes_partial : forall sp d L f, Forall lv_unknown L -> wconf_levels sp d [] L ->
  Forall (wconf sp d (lv_ids [] L)) f ->
  Forall (fun r => fst r = WOk) (fst (run_writer sp (wops_open d L f) [])) /\
  snd (run_writer sp (wops_open d L f) []) = enc_levels L ++ enc_forest f.
Proof. exact snapshot_bytes. Qed.

(* the strict reader parses the delivered bytes to exactly the items written so far, then ends the open masters (innermost
   first), then reports the end of the input: [out_tdoc] of the document cut on a tag boundary (C12) *)
Theorem C10_snapshot_parses_partial : forall c d L f, strict c -> c_buffered c = [] -> c_emit_eof c = true ->
  Forall lv_unknown L -> wconf_levels (c_sp c) d [] L -> Forall (wconf (c_sp c) d (lv_ids [] L)) f ->
  rconf_levels c L -> Forall (rconf c) f ->
  p_run c (snd (run_writer (c_sp c) (wops_open d L f) [])) [RAll] = out_tdoc (snapshot_doc L f).
Proof. exact snapshot_parses. Qed.

(* the tags alone: exactly the tags of the calls made so far, then the Ends of the open masters, then None *)
Theorem C10_snapshot_tags_partial : forall c d L f, strict c -> c_buffered c = [] -> c_emit_eof c = true ->
  Forall lv_unknown L -> wconf_levels (c_sp c) d [] L -> Forall (wconf (c_sp c) d (lv_ids [] L)) f ->
  rconf_levels c L -> Forall (rconf c) f ->
  map out_tag (p_run c (snd (run_writer (c_sp c) (wops_open d L f) [])) [RAll]) =
    map op_tag (wops_open d L f) ++ map Some (open_ends L) ++ [None].
Proof. exact snapshot_tags. Qed.

Theorem C10_snapshot_out_tags_partial : forall c d L f, strict c -> c_buffered c = [] -> c_emit_eof c = true ->
  Forall lv_unknown L -> wconf_levels (c_sp c) d [] L -> Forall (wconf (c_sp c) d (lv_ids [] L)) f ->
  rconf_levels c L -> Forall (rconf c) f ->
  out_tags (p_run c (snd (run_writer (c_sp c) (wops_open d L f) [])) [RAll]) = tags_levels L ++ tags_forest f ++ open_ends L.
Proof. exact snapshot_out_tags. Qed.

(* every call is a write call, so [map op_tag] loses nothing *)
Theorem C10_snapshot_calls : forall d L f, map op_tag (wops_open d L f) = map Some (tags_levels L ++ tags_forest f).
Proof. exact op_tags_open. Qed.

(* the held case: lvk is the outermost open master of known size (all of L1 have unknown size).  Every call still succeeds, and
   the destination holds exactly the encoding of what precedes lvk's Start, whatever has been written since *)
Theorem C10_snapshot_held_partial : forall sp d L1 lvk L2 f, Forall lv_unknown L1 -> lv_size lvk <> None ->
  wconf_levels sp d [] (L1 ++ lvk :: L2) -> Forall (wconf sp d (lv_ids [] (L1 ++ lvk :: L2))) f ->
  Forall (fun r => fst r = WOk) (fst (run_writer sp (wops_open d (L1 ++ lvk :: L2) f) [])) /\
  snd (run_writer sp (wops_open d (L1 ++ lvk :: L2) f) []) = enc_levels L1 ++ enc_forest (lv_f lvk).
Proof. exact snapshot_held. Qed.

(* ... which parses to exactly the tags written before lvk's Start, and the Ends of the masters of L1 *)
Theorem C10_snapshot_held_parses_partial : forall c d L1 lvk L2 f, strict c -> c_buffered c = [] -> c_emit_eof c = true ->
  Forall lv_unknown L1 -> lv_size lvk <> None ->
  wconf_levels (c_sp c) d [] (L1 ++ lvk :: L2) -> Forall (wconf (c_sp c) d (lv_ids [] (L1 ++ lvk :: L2))) f ->
  rconf_levels c L1 -> Forall (rconf c) (lv_f lvk) ->
  p_run c (snd (run_writer (c_sp c) (wops_open d (L1 ++ lvk :: L2) f) [])) [RAll] = out_tdoc (snapshot_doc L1 (lv_f lvk)).
Proof. exact snapshot_held_parses. Qed.

(* the hypotheses are satisfiable: Root (unknown size, open) { UInt 5; Parent (unknown size, open) { Bin [7] } } *)
Definition C10_sp : spec :=
  [ {| e_id := 129; e_ty := DMaster; e_path := [] |}; {| e_id := 16643; e_ty := DMaster; e_path := [PId 129] |};
    {| e_id := 16642; e_ty := DBinary; e_path := [PId 129; PId 16643] |}; {| e_id := 16641; e_ty := DUInt; e_path := [PId 129] |} ].
Definition C10_cfg : cfg :=
  {| c_sp := C10_sp; c_allow_id := false; c_allow_hier := false; c_allow_over := false; c_max := Some 4000000000; c_buffered := [];
     c_emit_eof := true |}.
Definition C10_levels (parent_size : option N) : list level :=
  [ {| lv_f := []; lv_id := 129; lv_sl := 8; lv_size := None |};
    {| lv_f := [RLeaf 16641 (VU 5) [5] 1%nat]; lv_id := 16643; lv_sl := 1; lv_size := parent_size |} ].
Definition C10_f : list rtree := [RLeaf 16642 (VB [7]) [7] 1%nat].

Example C10_ex_snapshot_conf : strict C10_cfg /\ Forall lv_unknown (C10_levels None) /\
  (forall ps, wconf_levels C10_sp true [] (C10_levels ps)) /\
  (forall ps, Forall (wconf C10_sp true (lv_ids [] (C10_levels ps))) C10_f) /\ rconf_levels C10_cfg (C10_levels None) /\
  Forall (rconf C10_cfg) C10_f.
Proof.
  assert (I1 : idok 129) by (exists 1%nat, 1%N; repeat split; cbn; lia).
  assert (I2 : idok 16643) by (exists 2%nat, 259%N; repeat split; cbn; lia).
  assert (I3 : idok 16642) by (exists 2%nat, 258%N; repeat split; cbn; lia).
  assert (I4 : idok 16641) by (exists 2%nat, 257%N; repeat split; cbn; lia).
  assert (F1 : field_ok true 1 1) by (split; [lia|split; [vm_compute; reflexivity|intros _; reflexivity]]).
  assert (W1 : wconf C10_sp true [129%N] (RLeaf 16641 (VU 5) [5%N] 1%nat)).
  { split; [reflexivity|]. exists DUInt. split; [reflexivity|]. split; [discriminate|]. split; [exact I|]. split; [reflexivity|exact F1]. }
  assert (W2 : wconf C10_sp true [129%N; 16643%N] (RLeaf 16642 (VB [7%N]) [7%N] 1%nat)).
  { split; [reflexivity|]. exists DBinary. split; [reflexivity|]. split; [discriminate|]. split; [exact I|]. split; [reflexivity|exact F1]. }
  split; [repeat split|]. split; [repeat constructor|].
  split.
  { intros ps. cbn [wconf_levels C10_levels lv_f lv_id app]. split; [constructor|]. split; [reflexivity|]. split; [reflexivity|].
    split; [constructor; [exact W1|constructor]|]. split; [reflexivity|]. split; [reflexivity|exact I]. }
  split. { intros ps. constructor; [exact W2|constructor]. }
  split.
  - constructor; [split; [constructor|exact I1]|]. constructor; [|constructor]. split; [|exact I2].
    constructor; [|constructor]. split; [exact I4|]. split; [vm_compute; reflexivity|vm_compute; discriminate].
  - constructor; [|constructor]. split; [exact I3|]. split; [repeat constructor; lia|vm_compute; discriminate].
Qed.

(* Start Root (unknown), UInt 5, Start Parent (unknown), Bin [7]: 9, 13, 23, 27 bytes delivered after the four calls; the 27 bytes
   are both headers with the unknown-size marker and both elements ... *)
Example C10_ex_snapshot_bytes :
  wops_open true (C10_levels None) C10_f =
    [OpWrite (TStart 129) opts_unknown; OpWrite (TElem 16641 (VU 5)) o_default; OpWrite (TStart 16643) opts_unknown;
     OpWrite (TElem 16642 (VB [7%N])) o_default] /\
  run_writer C10_sp (wops_open true (C10_levels None) C10_f) [] =
    ([(WOk, 9%nat); (WOk, 13%nat); (WOk, 23%nat); (WOk, 27%nat)],
     [129; 1; 255; 255; 255; 255; 255; 255; 255; 65; 1; 129; 5; 65; 3; 1; 255; 255; 255; 255; 255; 255; 255; 65; 2; 129; 7]%N).
Proof. split; vm_compute; reflexivity. Qed.

(* ... and they parse to the four tags written, then the Ends of Parent and Root, then None *)
Example C10_ex_snapshot_parse :
  p_run C10_cfg (snd (run_writer C10_sp (wops_open true (C10_levels None) C10_f) [])) [RAll] =
    [OItem (TStart 129) 0; OItem (TElem 16641 (VU 5)) 9; OItem (TStart 16643) 13; OItem (TElem 16642 (VB [7%N])) 23;
     OItem (TEnd 16643) 13; OItem (TEnd 129) 0; ONone].
Proof. vm_compute. reflexivity. Qed.

(* Parent with a known size instead: the destination stays at the 13 bytes that precede Parent's Start, and they parse to
   Start Root, UInt 5, End Root, None *)
Example C10_ex_snapshot_held :
  run_writer C10_sp (wops_open true (C10_levels (Some 4%N)) C10_f) [] =
    ([(WOk, 9%nat); (WOk, 13%nat); (WOk, 13%nat); (WOk, 13%nat)], [129; 1; 255; 255; 255; 255; 255; 255; 255; 65; 1; 129; 5]%N) /\
  p_run C10_cfg (snd (run_writer C10_sp (wops_open true (C10_levels (Some 4%N)) C10_f) [])) [RAll] =
    [OItem (TStart 129) 0; OItem (TElem 16641 (VU 5)) 9; OItem (TEnd 129) 0; ONone].
Proof. split; vm_compute; reflexivity. Qed.

(* ---- snapshots with Full items and with rejected calls in between (Proofs/SnapshotsMixed.v) *)

(* Vocabulary.  [pops_open d L P f ps]: the call sequence that leaves the masters of the levels L open, where the complete sibling
   trees [lv_f] of the i-th level are presented by the i-th list of P and the complete innermost trees f by ps: a master presented by
   PFull is ONE write call with a Full item, a master presented by PSep is Start, children (each by its own presentation), End
   (missing presentations count as PFull; the open master of each level is a Start call as in [wops_open]).
   [pconf_levels]/[pconf_forest]: writer-side conformance under these presentations ([pconf] of Proofs/WriteMixed.v: as [wconf], and
   everything inside a Full item has default options and known sizes). *)

(* the all-separate presentation is the call sequence of the second part, with the same conformance *)
Theorem C10_snapshot_mixed_all_separate : forall sp d L f,
  pops_open d L (all_sep_levels L) f (map all_sep f) = wops_open d L f /\
  (pconf_levels sp d [] L (all_sep_levels L) <-> wconf_levels sp d [] L) /\
  (pconf_forest sp d (lv_ids [] L) f (map all_sep f) <-> Forall (wconf sp d (lv_ids [] L)) f).
Proof. intros sp d L f. split; [apply pops_open_all_sep|]. split; [apply pconf_levels_all_sep|apply pconf_forest_all_sep]. Qed.

(* C10_snapshot_bytes_partial for ANY mix of Full items and separate calls: every open master of unknown size, the levels and the
   innermost forest conform under the presentations P, ps: every call returns Ok and the destination holds exactly
   enc_levels L ++ enc_forest f, the same bytes as for separate calls *)
Theorem C10_snapshot_mixed_bytes : forall sp d L P f ps, Forall lv_unknown L -> pconf_levels sp d [] L P ->
  pconf_forest sp d (lv_ids [] L) f ps ->
  Forall (fun r => fst r = WOk) (fst (run_writer sp (pops_open d L P f ps) [])) /\
  snd (run_writer sp (pops_open d L P f ps) []) = enc_levels L ++ enc_forest f.
Proof. exact snapshot_mixed_bytes. Qed.

(* C10_snapshot_held_partial for any mix: lvk is the outermost open master of known size (all of L1 have unknown size): every call
   returns Ok and the destination holds exactly what precedes lvk's Start *)
Theorem C10_snapshot_mixed_held : forall sp d L1 lvk L2 P f ps, Forall lv_unknown L1 -> lv_size lvk <> None ->
  pconf_levels sp d [] (L1 ++ lvk :: L2) P -> pconf_forest sp d (lv_ids [] (L1 ++ lvk :: L2)) f ps ->
  Forall (fun r => fst r = WOk) (fst (run_writer sp (pops_open d (L1 ++ lvk :: L2) P f ps) [])) /\
  snd (run_writer sp (pops_open d (L1 ++ lvk :: L2) P f ps) []) = enc_levels L1 ++ enc_forest (lv_f lvk).
Proof. exact snapshot_mixed_held. Qed.

(* C10_snapshot_parses_partial for any mix: the strict reader parses the delivered bytes to the items of everything written so far
   (the same [out_tdoc (snapshot_doc L f)]: Full items come back unrolled), then the Ends of the open masters, then None *)
Theorem C10_snapshot_mixed_parses : forall c d L P f ps, strict c -> c_buffered c = [] -> c_emit_eof c = true ->
  Forall lv_unknown L -> pconf_levels (c_sp c) d [] L P -> pconf_forest (c_sp c) d (lv_ids [] L) f ps ->
  rconf_levels c L -> Forall (rconf c) f ->
  p_run c (snd (run_writer (c_sp c) (pops_open d L P f ps) [])) [RAll] = out_tdoc (snapshot_doc L f).
Proof. exact snapshot_mixed_parses. Qed.

Theorem C10_snapshot_mixed_held_parses : forall c d L1 lvk L2 P f ps, strict c -> c_buffered c = [] -> c_emit_eof c = true ->
  Forall lv_unknown L1 -> lv_size lvk <> None ->
  pconf_levels (c_sp c) d [] (L1 ++ lvk :: L2) P -> pconf_forest (c_sp c) d (lv_ids [] (L1 ++ lvk :: L2)) f ps ->
  rconf_levels c L1 -> Forall (rconf c) (lv_f lvk) ->
  p_run c (snd (run_writer (c_sp c) (pops_open d (L1 ++ lvk :: L2) P f ps) [])) [RAll] = out_tdoc (snapshot_doc L1 (lv_f lvk)).
Proof. exact snapshot_mixed_held_parses. Qed.

(* C10_snapshot_out_tags_partial for any mix: the tags read back are the tags of the levels, of the innermost forest, and the Ends
   of the open masters (innermost first) ... *)
Theorem C10_snapshot_mixed_out_tags : forall c d L P f ps, strict c -> c_buffered c = [] -> c_emit_eof c = true ->
  Forall lv_unknown L -> pconf_levels (c_sp c) d [] L P -> pconf_forest (c_sp c) d (lv_ids [] L) f ps ->
  rconf_levels c L -> Forall (rconf c) f ->
  out_tags (p_run c (snd (run_writer (c_sp c) (pops_open d L P f ps) [])) [RAll]) = tags_levels L ++ tags_forest f ++ open_ends L.
Proof. exact snapshot_mixed_out_tags. Qed.

(* ... and tags_levels L ++ tags_forest f are exactly the tags of the calls made ([wtags], every call is a write call), with each Full
   item unrolled into Start, children, End ([flat]) *)
Theorem C10_snapshot_mixed_calls : forall d L P f ps, flat (wtags (pops_open d L P f ps)) = tags_levels L ++ tags_forest f.
Proof. exact pops_open_tags. Qed.

(* Vocabulary.  [rejected sp st op]: the call op, made in state st, returns an error that is not an I/O error (for write_raw the payload
   is shorter than 2^56-1 bytes) — the class of C19_atomic_any / C19_insert_rejected.  [rej_insert sp st ops ops']: ops' is ops with
   further calls inserted at arbitrary positions (any number, also in a row, also at the end), each of them rejected in the state the
   run from st has reached at its position.  [accepted_calls ops rs]: the calls of ops whose result in rs is Ok, in order.
   [row_ok r]: the result r is Ok.  [ok_or_rejected r]: r is Ok or an error that is not an I/O error. *)

(* run level, any state: if every call of ops returns Ok from st, then the run of ops' ends in the same state (open masters, working
   buffer, delivered bytes), its Ok results (with their delivered-byte counts) are exactly the results of ops, the calls that
   returned Ok are exactly ops, every other result is a rejection, and no call panicked (every call of ops' has a result) *)
Theorem C10_rejected_run : forall sp st ops ops', rej_insert sp st ops ops' ->
  Forall (fun r => fst r = WOk) (snd (wrun sp st ops)) ->
  fst (wrun sp st ops') = fst (wrun sp st ops) /\
  filter row_ok (snd (wrun sp st ops')) = snd (wrun sp st ops) /\
  accepted_calls ops' (snd (wrun sp st ops')) = ops /\
  Forall ok_or_rejected (snd (wrun sp st ops')) /\
  length (snd (wrun sp st ops')) = length ops'.
Proof. exact rej_insert_run. Qed.

(* the streaming snapshot with rejected calls in between: ops' is an open call sequence (any presentation, every open master of unknown
   size, conforming) with rejected calls inserted anywhere.  The destination holds exactly enc_levels L ++ enc_forest f; the calls
   that returned Ok are exactly the calls of the open call sequence, with the results and delivered-byte counts they have without
   the insertions; all other results are rejections; every call has a result *)
Theorem C10_snapshot_with_rejected : forall sp d L P f ps ops', Forall lv_unknown L -> pconf_levels sp d [] L P ->
  pconf_forest sp d (lv_ids [] L) f ps -> rej_insert sp (w_init []) (pops_open d L P f ps) ops' ->
  snd (run_writer sp ops' []) = enc_levels L ++ enc_forest f /\
  accepted_calls ops' (fst (run_writer sp ops' [])) = pops_open d L P f ps /\
  filter row_ok (fst (run_writer sp ops' [])) = fst (run_writer sp (pops_open d L P f ps) []) /\
  Forall ok_or_rejected (fst (run_writer sp ops' [])) /\ length (fst (run_writer sp ops' [])) = length ops'.
Proof. exact snapshot_with_rejected. Qed.

(* the held snapshot with rejected calls in between: the destination holds exactly what precedes the Start of the outermost open master
   of known size *)
Theorem C10_snapshot_held_with_rejected : forall sp d L1 lvk L2 P f ps ops', Forall lv_unknown L1 -> lv_size lvk <> None ->
  pconf_levels sp d [] (L1 ++ lvk :: L2) P -> pconf_forest sp d (lv_ids [] (L1 ++ lvk :: L2)) f ps ->
  rej_insert sp (w_init []) (pops_open d (L1 ++ lvk :: L2) P f ps) ops' ->
  snd (run_writer sp ops' []) = enc_levels L1 ++ enc_forest (lv_f lvk) /\
  accepted_calls ops' (fst (run_writer sp ops' [])) = pops_open d (L1 ++ lvk :: L2) P f ps /\
  filter row_ok (fst (run_writer sp ops' [])) = fst (run_writer sp (pops_open d (L1 ++ lvk :: L2) P f ps) []) /\
  Forall ok_or_rejected (fst (run_writer sp ops' [])) /\ length (fst (run_writer sp ops' [])) = length ops'.
Proof. exact snapshot_held_with_rejected. Qed.

(* ... and the strict reader parses the destination to exactly the ACCEPTED tags: the tags of the calls that returned Ok (Full items
   unrolled), then the Ends of the open masters (innermost first); as items: [out_tdoc (snapshot_doc L f)] *)
Theorem C10_snapshot_with_rejected_parses : forall c d L P f ps ops', strict c -> c_buffered c = [] -> c_emit_eof c = true ->
  Forall lv_unknown L -> pconf_levels (c_sp c) d [] L P -> pconf_forest (c_sp c) d (lv_ids [] L) f ps ->
  rconf_levels c L -> Forall (rconf c) f ->
  rej_insert (c_sp c) (w_init []) (pops_open d L P f ps) ops' ->
  p_run c (snd (run_writer (c_sp c) ops' [])) [RAll] = out_tdoc (snapshot_doc L f) /\
  out_tags (p_run c (snd (run_writer (c_sp c) ops' [])) [RAll]) =
    flat (wtags (accepted_calls ops' (fst (run_writer (c_sp c) ops' [])))) ++ open_ends L.
Proof. exact snapshot_with_rejected_parses. Qed.

(* prefixes: a prefix a' of a call sequence with inserted rejected calls is a prefix a of the original call sequence with inserted
   rejected calls *)
Theorem C10_rejected_prefix : forall sp st ops ops', rej_insert sp st ops ops' -> forall a' b', ops' = a' ++ b' ->
  exists a b, ops = a ++ b /\ rej_insert sp st a a'.
Proof. exact rej_insert_prefix. Qed.

(* closure: every prefix a of ANY presentation [pops_forest d f ps] of a conforming document f (a whole document: all masters closed)
   is an open call sequence [pops_open d L P f' ps'] whose levels and innermost forest conform; when the document satisfies the
   reader-side conditions, so do L and f' *)
Theorem C10_prefix_is_open : forall sp d c f ps a b, pconf_forest sp d [] f ps -> pops_forest d f ps = a ++ b ->
  exists L P f' ps', a = pops_open d L P f' ps' /\ pconf_levels sp d [] L P /\ pconf_forest sp d (lv_ids [] L) f' ps' /\
    (Forall (rconf c) f -> rconf_levels c L /\ Forall (rconf c) f').
Proof. exact prefix_is_open. Qed.

(* the same for the separate-call presentation of the second part: every prefix of [wops_forest d f] (f conforming) is
   [wops_open d L f'] for some conforming L, f', so C10_snapshot_*_partial apply literally after every call *)
Theorem C10_prefix_is_wops_open : forall sp d c f a b, Forall (wconf sp d []) f -> wops_forest d f = a ++ b ->
  exists L f', a = wops_open d L f' /\ wconf_levels sp d [] L /\ Forall (wconf sp d (lv_ids [] L)) f' /\
    (Forall (rconf c) f -> rconf_levels c L /\ Forall (rconf c) f').
Proof. exact prefix_is_wops_open. Qed.

(* the two snapshot cases are exhaustive: the open masters all have unknown size, or there is an outermost one of known size *)
Theorem C10_levels_split : forall L, Forall lv_unknown L \/
  exists L1 lvk L2, L = L1 ++ lvk :: L2 /\ Forall lv_unknown L1 /\ lv_size lvk <> None.
Proof. exact levels_split. Qed.

(* after EVERY call: f is a conforming document under the presentation ps, ops' is its call sequence with rejected calls inserted
   anywhere, a' is any prefix of ops' (the calls made so far).  Then for some levels L (the open masters) and forest f', conforming:
   the calls of a' that returned Ok are exactly the open call sequence of L, f'; every other result is a rejection and every call has
   a result; if every open master has unknown size the destination holds exactly enc_levels L ++ enc_forest f' — every byte of every
   accepted tag; and if lvk is the outermost open master of known size the destination holds exactly what precedes lvk's Start *)
Theorem C10_snapshot_after_every_call : forall sp d c f ps ops' a' b', pconf_forest sp d [] f ps ->
  rej_insert sp (w_init []) (pops_forest d f ps) ops' -> ops' = a' ++ b' ->
  exists L P f' pf, accepted_calls a' (fst (run_writer sp a' [])) = pops_open d L P f' pf /\
    pconf_levels sp d [] L P /\ pconf_forest sp d (lv_ids [] L) f' pf /\
    (Forall (rconf c) f -> rconf_levels c L /\ Forall (rconf c) f') /\
    Forall ok_or_rejected (fst (run_writer sp a' [])) /\ length (fst (run_writer sp a' [])) = length a' /\
    (Forall lv_unknown L -> snd (run_writer sp a' []) = enc_levels L ++ enc_forest f') /\
    (forall L1 lvk L2, L = L1 ++ lvk :: L2 -> Forall lv_unknown L1 -> lv_size lvk <> None ->
       snd (run_writer sp a' []) = enc_levels L1 ++ enc_forest (lv_f lvk)).
Proof. exact snapshot_after_every_call. Qed.

(* ... and what the strict reader makes of the destination after every call (the document also satisfies the reader-side conditions):
   with every open master of unknown size, exactly the accepted tags (Full items unrolled) followed by the Ends of the open masters;
   with lvk the outermost open master of known size, the items of what precedes lvk's Start *)
Theorem C10_snapshot_after_every_call_parses : forall c d f ps ops' a' b', strict c -> c_buffered c = [] -> c_emit_eof c = true ->
  pconf_forest (c_sp c) d [] f ps -> Forall (rconf c) f ->
  rej_insert (c_sp c) (w_init []) (pops_forest d f ps) ops' -> ops' = a' ++ b' ->
  exists L P f' pf, accepted_calls a' (fst (run_writer (c_sp c) a' [])) = pops_open d L P f' pf /\
    (Forall lv_unknown L ->
       p_run c (snd (run_writer (c_sp c) a' [])) [RAll] = out_tdoc (snapshot_doc L f') /\
       out_tags (p_run c (snd (run_writer (c_sp c) a' [])) [RAll]) =
         flat (wtags (accepted_calls a' (fst (run_writer (c_sp c) a' [])))) ++ open_ends L) /\
    (forall L1 lvk L2, L = L1 ++ lvk :: L2 -> Forall lv_unknown L1 -> lv_size lvk <> None ->
       p_run c (snd (run_writer (c_sp c) a' [])) [RAll] = out_tdoc (snapshot_doc L1 (lv_f lvk))).
Proof. exact snapshot_after_every_call_parses. Qed.

(* the hypotheses are satisfiable with a Full item AND rejected calls in the sequence: Root (unknown size, open) { UInt 5;
   Parent { Bin [7] } given as ONE Full item }, with two rejected calls in between: End Parent while Parent is not open, and the
   binary element (declared under Root/Parent) directly under Root *)
Definition C10_mixed_levels : list level := [ {| lv_f := []; lv_id := 129; lv_sl := 8; lv_size := None |} ].
Definition C10_mixed_f : list rtree := [RLeaf 16641 (VU 5) [5] 1%nat; RNode 16643 (Some 1%nat) [RLeaf 16642 (VB [7]) [7] 1%nat]].
Definition C10_mixed_ops : list wop :=
  [OpWrite (TStart 129) opts_unknown; OpWrite (TEnd 16643) o_default; OpWrite (TElem 16641 (VU 5)) o_default;
   OpWrite (TElem 16642 (VB [1])) o_default; OpWrite (TFull 16643 [TElem 16642 (VB [7])]) o_default].

Example C10_ex_mixed_conf :
  pops_open true C10_mixed_levels [] C10_mixed_f [] =
    [OpWrite (TStart 129) opts_unknown; OpWrite (TElem 16641 (VU 5)) o_default; OpWrite (TFull 16643 [TElem 16642 (VB [7])]) o_default] /\
  Forall lv_unknown C10_mixed_levels /\ pconf_levels C10_sp true [] C10_mixed_levels [] /\
  pconf_forest C10_sp true (lv_ids [] C10_mixed_levels) C10_mixed_f [] /\
  rconf_levels C10_cfg C10_mixed_levels /\ Forall (rconf C10_cfg) C10_mixed_f /\
  rej_insert C10_sp (w_init []) (pops_open true C10_mixed_levels [] C10_mixed_f []) C10_mixed_ops.
Proof.
  assert (I1 : idok 129) by (exists 1%nat, 1%N; repeat split; cbn; lia).
  assert (I2 : idok 16643) by (exists 2%nat, 259%N; repeat split; cbn; lia).
  assert (I3 : idok 16642) by (exists 2%nat, 258%N; repeat split; cbn; lia).
  assert (I4 : idok 16641) by (exists 2%nat, 257%N; repeat split; cbn; lia).
  assert (F1 : field_ok true 1 1) by (split; [lia|split; [vm_compute; reflexivity|intros _; reflexivity]]).
  assert (F4 : field_ok true 1 4) by (split; [lia|split; [vm_compute; reflexivity|intros _; reflexivity]]).
  assert (W1 : wconf C10_sp true [129%N] (RLeaf 16641 (VU 5) [5%N] 1%nat)).
  { split; [reflexivity|]. exists DUInt. split; [reflexivity|]. split; [discriminate|]. split; [exact I|]. split; [reflexivity|exact F1]. }
  assert (W2 : wconf C10_sp true [129%N; 16643%N] (RLeaf 16642 (VB [7%N]) [7%N] 1%nat)).
  { split; [reflexivity|]. exists DBinary. split; [reflexivity|]. split; [discriminate|]. split; [exact I|]. split; [reflexivity|exact F1]. }
  split; [reflexivity|]. split; [repeat constructor|].
  split. { cbn [pconf_levels C10_mixed_levels lv_f lv_id hd pconf_forest]. split; [exact I|]. split; [reflexivity|]. split; [reflexivity|exact I]. }
  split.
  { cbn [pconf_forest C10_mixed_f phd tl lv_ids C10_mixed_levels lv_id app]. split; [exact W1|]. split; [|exact I].
    rewrite pconf_full. split; [reflexivity|]. split; [reflexivity|]. split; [intros sl E; injection E as <-; exact F4|].
    split; [constructor; [exact W2|constructor]|constructor; [exact I|constructor]]. }
  split. { constructor; [split; [constructor|exact I1]|constructor]. }
  split.
  { constructor; [split; [exact I4|]; split; [vm_compute; reflexivity|vm_compute; discriminate]|]. constructor; [|constructor].
    apply rconf_node. split; [exact I2|]. split; [vm_compute; discriminate|].
    constructor; [|constructor]. split; [exact I3|]. split; [repeat constructor; lia|vm_compute; discriminate]. }
  assert (R : forall st op e, wstep C10_sp st op = (st, WErr e) -> raw_exists op -> (forall x, e <> EIo x) -> rejected C10_sp st op).
  { intros st op e H1 H2 H3. split; [exact H2|]. exists st, e. split; assumption. }
  apply RI_keep. apply RI_rej. { eapply R; [vm_compute; reflexivity|exact I|intros x; discriminate]. }
  apply RI_keep. apply RI_rej. { eapply R; [vm_compute; reflexivity|exact I|intros x; discriminate]. }
  apply RI_keep. apply RI_nil.
Qed.

(* the run: Start Root (9 bytes delivered), End Parent REJECTED (still 9), UInt 5 (13), Bin [1] under Root REJECTED (still 13), Parent as
   one Full item (20): the 20 bytes are enc_levels ++ enc_forest; the calls that returned Ok are the three calls of the open call
   sequence; and the bytes parse to the accepted tags — the Full item unrolled — then the End of Root, then None *)
Example C10_ex_mixed_rejected :
  run_writer C10_sp C10_mixed_ops [] =
    ([(WOk, 9%nat); (WErr (EClose 16643 (Some 129)), 9%nat); (WOk, 13%nat); (WErr (EUnexpectedTag 16642 [129]), 13%nat); (WOk, 20%nat)],
     [129; 1; 255; 255; 255; 255; 255; 255; 255; 65; 1; 129; 5; 65; 3; 132; 65; 2; 129; 7]%N) /\
  snd (run_writer C10_sp C10_mixed_ops []) = enc_levels C10_mixed_levels ++ enc_forest C10_mixed_f /\
  accepted_calls C10_mixed_ops (fst (run_writer C10_sp C10_mixed_ops [])) = pops_open true C10_mixed_levels [] C10_mixed_f [] /\
  p_run C10_cfg (snd (run_writer C10_sp C10_mixed_ops [])) [RAll] =
    [OItem (TStart 129) 0; OItem (TElem 16641 (VU 5)) 9; OItem (TStart 16643) 13; OItem (TElem 16642 (VB [7%N])) 16;
     OItem (TEnd 16643) 13; OItem (TEnd 129) 0; ONone].
Proof. vm_compute. repeat split; reflexivity. Qed.
