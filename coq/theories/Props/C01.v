(* C01 — write→read round trip.  Statements only.
   Reader half (this file, first part): the strict reader yields exactly the items of every conforming encoded document.
   [rtree] (Model/Encode.v) is a document together with all the choices an encoder may make: the width of every size field,
   known or unknown size per master, the payload bytes of every element (any bytes the element's type decodes to the value).
   [conf c ids t] says the tree conforms to the specification: ids are well-formed vints, every element is declared with
   exactly the chain of masters it sits in as its path, payloads decode, sizes fit their fields and the configured limit.
   Writer half and the round trip (second part): writing a conforming document tag by tag (Start / elements / End, default
   options or explicit size widths, unknown size by option) into a destination that accepts everything emits exactly that
   encoding, every call succeeds, and the strict reader yields the written tags.
   Masters given as Full items (third part): the same, with one write call per top-level item.
   PARTIAL: declared paths without global placeholders; raw tags are covered by the correspondence check only. *)
From Ebml Require Import Base Tools Spec Writer Reader Pure Encode Proofs.Tactics Proofs.ReaderIO Proofs.Refine Proofs.PureProofs Proofs.RollUp Proofs.RoundTrip Proofs.WriteEnc Proofs.WriteFull.

(* every conforming document — any nesting depth, any payloads, any size widths, any subset of masters of unknown size — is
   read back as exactly its items (masters as Start/End pairs, offsets of the first byte of each element), then None *)
Theorem C01_reader_roundtrip_partial : forall c f, strict c -> c_buffered c = [] -> c_emit_eof c = true -> Forall (conf c []) f ->
  p_run c (enc_forest f) [RAll] = items_forest 0 f ++ [ONone].
Proof. exact reader_roundtrip. Qed.

(* ... by the buffered reader too, for every buffer capacity and every way the source chunks its reads *)
Theorem C01_reader_roundtrip_buffered_partial : forall c f cap0 script, calm script -> strict c -> c_buffered c = [] ->
  c_emit_eof c = true -> Forall (conf c []) f -> run_reader c cap0 script (enc_forest f) [RAll] = items_forest 0 f ++ [ONone].
Proof. exact reader_roundtrip_buffered. Qed.

(* the tags alone *)
Theorem C01_reader_roundtrip_tags_partial : forall c f, strict c -> c_buffered c = [] -> c_emit_eof c = true -> Forall (conf c []) f ->
  map out_tag (p_run c (enc_forest f) [RAll]) = map Some (tags_forest f) ++ [None].
Proof. exact reader_roundtrip_tags. Qed.

(* the hypotheses are satisfiable: a document with an unknown-size master nested in an unknown-size master, closed by a
   sibling of the inner one; a second root closes the first *)
Definition C01_sp : spec :=
  [ {| e_id := 129; e_ty := DMaster; e_path := [] |}; {| e_id := 16643; e_ty := DMaster; e_path := [PId 129] |};
    {| e_id := 16642; e_ty := DBinary; e_path := [PId 129; PId 16643] |}; {| e_id := 16641; e_ty := DUInt; e_path := [PId 129] |} ].
Definition C01_cfg : cfg :=
  {| c_sp := C01_sp; c_allow_id := false; c_allow_hier := false; c_allow_over := false; c_max := Some 4000000000; c_buffered := [];
     c_emit_eof := true |}.
Definition C01_doc : list rtree :=
  [ RNode 129 None [ RNode 16643 None [ RLeaf 16642 (VB [7]) [7] 1%nat ]; RLeaf 16641 (VU 5) [0; 5] 2%nat ]; RNode 129 (Some 1%nat) [] ].

Example C01_ex_conf : strict C01_cfg /\ Forall (conf C01_cfg []) C01_doc.
Proof.
  assert (I1 : idok 129) by (exists 1%nat, 1; repeat split; cbn; lia).
  assert (I2 : idok 16643) by (exists 2%nat, 259; repeat split; cbn; lia).
  assert (I3 : idok 16642) by (exists 2%nat, 258; repeat split; cbn; lia).
  assert (I4 : idok 16641) by (exists 2%nat, 257; repeat split; cbn; lia).
  split; [repeat split|].
  assert (L1 : conf C01_cfg [129; 16643] (RLeaf 16642 (VB [7]) [7] 1%nat)).
  { cbn [conf]. repeat split; try assumption; try lia; try (cbn; lia); try (repeat constructor; lia).
    exists DBinary. repeat split. discriminate. }
  assert (L2 : conf C01_cfg [129] (RLeaf 16641 (VU 5) [0; 5] 2%nat)).
  { cbn [conf]. repeat split; try assumption; try lia; try (cbn; lia); try (repeat constructor; lia).
    exists DUInt. repeat split. discriminate. }
  assert (N1 : conf C01_cfg [129] (RNode 16643 None [RLeaf 16642 (VB [7]) [7] 1%nat])).
  { apply conf_node. split; [exact I2|]. split; [intros sl Hsl; discriminate Hsl|]. repeat split. constructor; [exact L1|constructor]. }
  constructor; [|constructor; [|constructor]].
  - apply conf_node. split; [exact I1|]. split; [intros sl Hsl; discriminate Hsl|]. repeat split.
    constructor; [exact N1|constructor; [exact L2|constructor]].
  - apply conf_node. split; [exact I1|]. split; [intros sl Hsl; injection Hsl as <-; split; [lia|vm_compute; reflexivity]|]. repeat split; [vm_compute; discriminate|constructor].
Qed.

Example C01_ex_run :
  p_run C01_cfg (enc_forest C01_doc) [RAll] =
    [OItem (TStart 129) 0; OItem (TStart 16643) 9; OItem (TElem 16642 (VB [7])) 19; OItem (TEnd 16643) 9;
     OItem (TElem 16641 (VU 5)) 23; OItem (TEnd 129) 0; OItem (TStart 129) 29; OItem (TEnd 129) 29; ONone].
Proof. vm_compute. reflexivity. Qed.

(* ------------------------------------------------------------------ writer half and the round trip *)
(* [wconf sp d ids t]: the writer's view of conformance: declared type/path, value of the declared kind, payload = the
   writer's encoding of the value, size width = the explicit one (d = false) or the smallest one (d = true, default options) *)
Theorem C01_writer_encodes_partial : forall sp d f, Forall (wconf sp d []) f ->
  (Forall (fun r => fst r = WOk) (fst (run_writer sp (wops_forest d f) []))) /\ (snd (run_writer sp (wops_forest d f) []) = enc_forest f).
Proof. exact writer_encodes. Qed.

(* [rconf c t]: ids are vints, values in range (u64 / i64 / f64 bit patterns, valid UTF-8), sizes within the reader's limit *)
Theorem C01_roundtrip_partial : forall c d f, strict c -> c_buffered c = [] -> c_emit_eof c = true ->
  Forall (wconf (c_sp c) d []) f -> Forall (rconf c) f ->
  Forall (fun r => fst r = WOk) (fst (run_writer (c_sp c) (wops_forest d f) [])) /\
  map out_tag (p_run c (snd (run_writer (c_sp c) (wops_forest d f) [])) [RAll]) = map op_tag (wops_forest d f) ++ [None].
Proof. exact write_read_roundtrip. Qed.

Definition C01_doc2 : list rtree :=
  [ RNode 129 None [ RNode 16643 None [ RLeaf 16642 (VB [7]) [7] 1%nat ]; RLeaf 16641 (VU 5) [5] 1%nat ]; RNode 129 (Some 1%nat) [] ].

Example C01_ex_wconf : Forall (wconf C01_sp true []) C01_doc2 /\ Forall (rconf C01_cfg) C01_doc2.
Proof.
  assert (I1 : idok 129) by (exists 1%nat, 1; repeat split; cbn; lia).
  assert (I2 : idok 16643) by (exists 2%nat, 259; repeat split; cbn; lia).
  assert (I3 : idok 16642) by (exists 2%nat, 258; repeat split; cbn; lia).
  assert (I4 : idok 16641) by (exists 2%nat, 257; repeat split; cbn; lia).
  assert (F1 : forall n, n < 127 -> field_ok true 1 n).
  { intros n Hn. split; [lia|]. split; [change (2 ^ (7 * N.of_nat 1) - 1) with 127; exact Hn|]. intros _. symmetry. apply find_size_len_small, Hn. }
  split.
  - assert (L1 : wconf C01_sp true [129; 16643] (RLeaf 16642 (VB [7]) [7] 1%nat)).
    { split; [reflexivity|]. exists DBinary. repeat split; try discriminate; try apply F1; cbn; lia. }
    assert (L2 : wconf C01_sp true [129] (RLeaf 16641 (VU 5) [5] 1%nat)).
    { split; [reflexivity|]. exists DUInt. repeat split; try discriminate; try apply F1; cbn; lia. }
    constructor; [|constructor; [|constructor]].
    + apply wconf_node. split; [reflexivity|]. split; [reflexivity|]. split; [intros sl Hsl; discriminate Hsl|].
      constructor; [|constructor; [exact L2|constructor]].
      apply wconf_node. split; [reflexivity|]. split; [reflexivity|]. split; [intros sl Hsl; discriminate Hsl|]. constructor; [exact L1|constructor].
    + apply wconf_node. split; [reflexivity|]. split; [reflexivity|]. split; [|constructor].
      intros sl Hsl. injection Hsl as <-. apply F1. vm_compute. reflexivity.
  - assert (R1 : rconf C01_cfg (RLeaf 16642 (VB [7]) [7] 1%nat)).
    { split; [exact I3|]. split; [repeat constructor; lia|vm_compute; discriminate]. }
    assert (R2 : rconf C01_cfg (RLeaf 16641 (VU 5) [5] 1%nat)).
    { split; [exact I4|]. split; [vm_compute; reflexivity|vm_compute; discriminate]. }
    constructor; [|constructor; [|constructor]].
    + apply rconf_node. split; [exact I1|]. split; [exact I|].
      constructor; [|constructor; [exact R2|constructor]].
      apply rconf_node. split; [exact I2|]. split; [exact I|]. constructor; [exact R1|constructor].
    + apply rconf_node. split; [exact I1|]. split; [vm_compute; discriminate|constructor].
Qed.

Example C01_ex_roundtrip :
  run_writer C01_sp (wops_forest true C01_doc2) [] =
    ([(WOk, 9); (WOk, 19); (WOk, 23); (WOk, 23); (WOk, 27); (WOk, 27); (WOk, 27); (WOk, 29)]%nat,
     [129; 1; 255; 255; 255; 255; 255; 255; 255; 65; 3; 1; 255; 255; 255; 255; 255; 255; 255; 65; 2; 129; 7; 65; 1; 129; 5; 129; 128]) /\
  map out_tag (p_run C01_cfg (snd (run_writer C01_sp (wops_forest true C01_doc2) [])) [RAll]) =
    [Some (TStart 129); Some (TStart 16643); Some (TElem 16642 (VB [7])); Some (TEnd 16643); Some (TElem 16641 (VU 5)); Some (TEnd 129);
     Some (TStart 129); Some (TEnd 129); None].
Proof. vm_compute. split; reflexivity. Qed.

(* ------------------------------------------------------------------ masters given as Full *)
(* [fconf sp d ids t]: t is written as ONE item (an element, or a Full master whose own options ask for an explicit width, the
   default, or unknown size); everything inside a Full is written with default options, hence of known size ([all_known]) *)
Theorem C01_full_roundtrip_partial : forall c d f, strict c -> c_buffered c = [] -> c_emit_eof c = true ->
  Forall (fconf (c_sp c) d []) f -> Forall (rconf c) f ->
  Forall (fun r => fst r = WOk) (fst (run_writer (c_sp c) (fops d f) [])) /\
  map out_tag (p_run c (snd (run_writer (c_sp c) (fops d f) [])) [RAll]) = map Some (flat (map full_tag f)) ++ [None].
Proof. exact full_write_read_roundtrip. Qed.

Example C01_ex_full :
  let t := RNode 129 None [ RNode 16643 (Some 1%nat) [ RLeaf 16642 (VB [7]) [7] 1%nat ]; RLeaf 16641 (VU 5) [5] 1%nat ] in
  full_tag t = TFull 129 [TFull 16643 [TElem 16642 (VB [7])]; TElem 16641 (VU 5)] /\
  snd (run_writer C01_sp (fops true [t]) []) = enc_forest [t] /\
  map out_tag (p_run C01_cfg (snd (run_writer C01_sp (fops true [t]) [])) [RAll]) =
    [Some (TStart 129); Some (TStart 16643); Some (TElem 16642 (VB [7])); Some (TEnd 16643); Some (TElem 16641 (VU 5)); Some (TEnd 129); None].
Proof. vm_compute. repeat split; reflexivity. Qed.
