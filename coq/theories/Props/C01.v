(* C01 — write→read round trip.  Statements only.
   Reader half (this file, first part): the strict reader yields exactly the items of every conforming encoded document.
   [rtree] (Model/Encode.v) is a document together with all the choices an encoder may make: the width of every size field,
   known or unknown size per master, the payload bytes of every element (any bytes the element's type decodes to the value).
   [conf c ids t] says the tree conforms to the specification: ids are well-formed vints, every element is declared with
   exactly the chain of masters it sits in as its path, payloads decode, sizes fit their fields and the configured limit.
   Writer half and the round trip (second part): writing a conforming document tag by tag (Start / elements / End, default
   options or explicit size widths, unknown size by option) into a destination that accepts everything emits exactly that
   encoding, every call succeeds, and the strict reader yields the written tags.
   Masters given as Full items (third part): the same, with one write call per top-level item.
   PARTIAL: declared paths without global placeholders; raw tags are covered by the correspondence check only.
   Reader half, second class (fourth part of this file, Proofs/RoundTripKnown.v): documents in which every master has a known
   size, declared paths with global placeholders allowed (global elements, recursive masters).
   Raw tags (last part of this file, Proofs/RoundTripRaw.v): the second class extended with raw leaves (well-formed ids the
   specification does not declare, any payload, anywhere in the document), read by the configurations that tolerate
   unknown ids; the writer's two ways of emitting a raw tag; write -> read for known-size documents with raw tags.
   Writer half and write -> read for the second class (very last part, Proofs/WriteEncG.v): declared paths with global
   placeholders, each matching the masters the element is written in; tag by tag, as Full items, or any mix.
   Every composed write -> read theorem has a sibling [..._strong] whose conclusion is the outcome list itself
   ([p_run ... = items_forest 0 f ++ [ONone]]: exactly the items, with offsets, then the clean end - no error), not its image
   under [out_tag], which cannot tell ONone from an error or budget outcome (C01_out_tag_blind).
   The start hypothesis [dstart] of the second class is PROVED for every specification whose declared paths extend the
   declared path of their parent ([consistent], Proofs/DStart.v), in particular for every specification the derive macro
   generates: the theorems [..._known_consistent_...] / [..._known_derived_...] have no start hypothesis. *)
From Ebml Require Import Base Tools Spec Writer Reader Pure Encode Proofs.Tactics Proofs.ReaderIO Proofs.Refine Proofs.PureProofs Proofs.RollUp Proofs.RoundTrip Proofs.RoundTripKnown Proofs.RoundTripRaw Proofs.WriteEnc Proofs.WriteFull Proofs.WriteMixed Proofs.WriteEncG Proofs.BufferSimErr Proofs.AuditRoundTrip.
From Ebml Require Import Derive Proofs.DStart.

(* every conforming document — any nesting depth, any payloads, any size widths, any subset of masters of unknown size — is
   read back as exactly its items (masters as Start/End pairs, offsets of the first byte of each element), then None *)
Theorem C01_reader_roundtrip_partial : forall c f, strict c -> c_buffered c = [] -> c_emit_eof c = true -> Forall (conf c []) f ->
  p_run c (enc_forest f) [RAll] = items_forest 0 f ++ [ONone].
Proof. exact reader_roundtrip. Qed.

(* ... by the buffered reader too, for every buffer capacity and every way the source chunks its reads *)
Theorem C01_reader_roundtrip_buffered_partial : forall c f cap0 script, calm script -> strict c -> c_buffered c = [] ->
  c_emit_eof c = true -> Forall (conf c []) f -> run_reader c cap0 script (enc_forest f) [RAll] = items_forest 0 f ++ [ONone].
Proof. exact reader_roundtrip_buffered. Qed.

(* the tags alone *)
Theorem C01_reader_roundtrip_tags_partial : forall c f, strict c -> c_buffered c = [] -> c_emit_eof c = true -> Forall (conf c []) f ->
  map out_tag (p_run c (enc_forest f) [RAll]) = map Some (tags_forest f) ++ [None].
Proof. exact reader_roundtrip_tags. Qed.

(* the hypotheses are satisfiable: a document with an unknown-size master nested in an unknown-size master, closed by a
   sibling of the inner one; a second root closes the first *)
Definition C01_sp : spec :=
  [ {| e_id := 129; e_ty := DMaster; e_path := [] |}; {| e_id := 16643; e_ty := DMaster; e_path := [PId 129] |};
    {| e_id := 16642; e_ty := DBinary; e_path := [PId 129; PId 16643] |}; {| e_id := 16641; e_ty := DUInt; e_path := [PId 129] |} ].
Definition C01_cfg : cfg :=
  {| c_sp := C01_sp; c_allow_id := false; c_allow_hier := false; c_allow_over := false; c_max := Some 4000000000; c_buffered := [];
     c_emit_eof := true |}.
Definition C01_doc : list rtree :=
  [ RNode 129 None [ RNode 16643 None [ RLeaf 16642 (VB [7]) [7] 1%nat ]; RLeaf 16641 (VU 5) [0; 5] 2%nat ]; RNode 129 (Some 1%nat) [] ].

Example C01_ex_conf : strict C01_cfg /\ Forall (conf C01_cfg []) C01_doc.
Proof.
  assert (I1 : idok 129) by (exists 1%nat, 1; repeat split; cbn; lia).
  assert (I2 : idok 16643) by (exists 2%nat, 259; repeat split; cbn; lia).
  assert (I3 : idok 16642) by (exists 2%nat, 258; repeat split; cbn; lia).
  assert (I4 : idok 16641) by (exists 2%nat, 257; repeat split; cbn; lia).
  split; [repeat split|].
  assert (L1 : conf C01_cfg [129; 16643] (RLeaf 16642 (VB [7]) [7] 1%nat)).
  { cbn [conf]. repeat split; try assumption; try lia; try (cbn; lia); try (repeat constructor; lia).
    exists DBinary. repeat split. discriminate. }
  assert (L2 : conf C01_cfg [129] (RLeaf 16641 (VU 5) [0; 5] 2%nat)).
  { cbn [conf]. repeat split; try assumption; try lia; try (cbn; lia); try (repeat constructor; lia).
    exists DUInt. repeat split. discriminate. }
  assert (N1 : conf C01_cfg [129] (RNode 16643 None [RLeaf 16642 (VB [7]) [7] 1%nat])).
  { apply conf_node. split; [exact I2|]. split; [intros sl Hsl; discriminate Hsl|]. repeat split. constructor; [exact L1|constructor]. }
  constructor; [|constructor; [|constructor]].
  - apply conf_node. split; [exact I1|]. split; [intros sl Hsl; discriminate Hsl|]. repeat split.
    constructor; [exact N1|constructor; [exact L2|constructor]].
  - apply conf_node. split; [exact I1|]. split; [intros sl Hsl; injection Hsl as <-; split; [lia|vm_compute; reflexivity]|]. repeat split; [vm_compute; discriminate|constructor].
Qed.

Example C01_ex_run :
  p_run C01_cfg (enc_forest C01_doc) [RAll] =
    [OItem (TStart 129) 0; OItem (TStart 16643) 9; OItem (TElem 16642 (VB [7])) 19; OItem (TEnd 16643) 9;
     OItem (TElem 16641 (VU 5)) 23; OItem (TEnd 129) 0; OItem (TStart 129) 29; OItem (TEnd 129) 29; ONone].
Proof. vm_compute. reflexivity. Qed.

(* ------------------------------------------------------------------ writer half and the round trip *)
(* [wconf sp d ids t]: the writer's view of conformance: declared type/path, value of the declared kind, payload = the
   writer's encoding of the value, size width = the explicit one (d = false) or the smallest one (d = true, default options) *)
Theorem C01_writer_encodes_partial : forall sp d f, Forall (wconf sp d []) f ->
  (Forall (fun r => fst r = WOk) (fst (run_writer sp (wops_forest d f) []))) /\ (snd (run_writer sp (wops_forest d f) []) = enc_forest f).
Proof. exact writer_encodes. Qed.

(* [rconf c t]: ids are vints, values in range (u64 / i64 / f64 bit patterns, valid UTF-8), sizes within the reader's limit *)
Theorem C01_roundtrip_partial : forall c d f, strict c -> c_buffered c = [] -> c_emit_eof c = true ->
  Forall (wconf (c_sp c) d []) f -> Forall (rconf c) f ->
  Forall (fun r => fst r = WOk) (fst (run_writer (c_sp c) (wops_forest d f) [])) /\
  map out_tag (p_run c (snd (run_writer (c_sp c) (wops_forest d f) [])) [RAll]) = map op_tag (wops_forest d f) ++ [None].
Proof. exact write_read_roundtrip. Qed.

(* [out_tag] maps every outcome that is not an item - the clean end ONone, but also OErr, OLimit, OFuel, OPanic - to None, so the
   conclusion above does not by itself exclude a run that ends in an error.  The statement on the outcome list itself: every
   write call succeeds; the strict reader (nothing buffered, Ends emitted at the end of input), run to exhaustion on the bytes
   the writer delivered, yields EXACTLY the items of the document - each tag with the offset of its first byte - followed by the
   clean end ONone (no error, no budget outcome); and the tags of these items are the tags of the write calls, in order.
   Hypotheses as for C01_roundtrip_partial: [strict c], [c_buffered c = []], [c_emit_eof c = true], [Forall (wconf (c_sp c) d []) f],
   [Forall (rconf c) f]. *)
Theorem C01_roundtrip_partial_strong : forall c d f, strict c -> c_buffered c = [] -> c_emit_eof c = true ->
  Forall (wconf (c_sp c) d []) f -> Forall (rconf c) f ->
  Forall (fun r => fst r = WOk) (fst (run_writer (c_sp c) (wops_forest d f) [])) /\
  p_run c (snd (run_writer (c_sp c) (wops_forest d f) [])) [RAll] = items_forest 0 f ++ [ONone] /\
  map out_tag (items_forest 0 f) = map op_tag (wops_forest d f).
Proof. exact write_read_roundtrip_strong. Qed.

(* what [out_tag] cannot tell apart: an item followed by an error, by the item limit, or by the clean end *)
Theorem C01_out_tag_blind : forall t off e,
  map out_tag [OItem t off; OErr e] = map out_tag [OItem t off; ONone] /\
  map out_tag [OItem t off; OLimit] = map out_tag [OItem t off; ONone].
Proof. exact out_tag_blind. Qed.

(* [items_forest off f] consists of items only (no error or budget outcome among them) *)
Theorem C01_items_are_items : forall f off, Forall is_item (items_forest off f).
Proof. exact items_forest_are_items. Qed.

Definition C01_doc2 : list rtree :=
  [ RNode 129 None [ RNode 16643 None [ RLeaf 16642 (VB [7]) [7] 1%nat ]; RLeaf 16641 (VU 5) [5] 1%nat ]; RNode 129 (Some 1%nat) [] ].

Example C01_ex_wconf : Forall (wconf C01_sp true []) C01_doc2 /\ Forall (rconf C01_cfg) C01_doc2.
Proof.
  assert (I1 : idok 129) by (exists 1%nat, 1; repeat split; cbn; lia).
  assert (I2 : idok 16643) by (exists 2%nat, 259; repeat split; cbn; lia).
  assert (I3 : idok 16642) by (exists 2%nat, 258; repeat split; cbn; lia).
  assert (I4 : idok 16641) by (exists 2%nat, 257; repeat split; cbn; lia).
  assert (F1 : forall n, n < 127 -> field_ok true 1 n).
  { intros n Hn. split; [lia|]. split; [change (2 ^ (7 * N.of_nat 1) - 1) with 127; exact Hn|]. intros _. symmetry. apply find_size_len_small, Hn. }
  split.
  - assert (L1 : wconf C01_sp true [129; 16643] (RLeaf 16642 (VB [7]) [7] 1%nat)).
    { split; [reflexivity|]. exists DBinary. repeat split; try discriminate; try apply F1; cbn; lia. }
    assert (L2 : wconf C01_sp true [129] (RLeaf 16641 (VU 5) [5] 1%nat)).
    { split; [reflexivity|]. exists DUInt. repeat split; try discriminate; try apply F1; cbn; lia. }
    constructor; [|constructor; [|constructor]].
    + apply wconf_node. split; [reflexivity|]. split; [reflexivity|]. split; [intros sl Hsl; discriminate Hsl|].
      constructor; [|constructor; [exact L2|constructor]].
      apply wconf_node. split; [reflexivity|]. split; [reflexivity|]. split; [intros sl Hsl; discriminate Hsl|]. constructor; [exact L1|constructor].
    + apply wconf_node. split; [reflexivity|]. split; [reflexivity|]. split; [|constructor].
      intros sl Hsl. injection Hsl as <-. apply F1. vm_compute. reflexivity.
  - assert (R1 : rconf C01_cfg (RLeaf 16642 (VB [7]) [7] 1%nat)).
    { split; [exact I3|]. split; [repeat constructor; lia|vm_compute; discriminate]. }
    assert (R2 : rconf C01_cfg (RLeaf 16641 (VU 5) [5] 1%nat)).
    { split; [exact I4|]. split; [vm_compute; reflexivity|vm_compute; discriminate]. }
    constructor; [|constructor; [|constructor]].
    + apply rconf_node. split; [exact I1|]. split; [exact I|].
      constructor; [|constructor; [exact R2|constructor]].
      apply rconf_node. split; [exact I2|]. split; [exact I|]. constructor; [exact R1|constructor].
    + apply rconf_node. split; [exact I1|]. split; [vm_compute; discriminate|constructor].
Qed.

Example C01_ex_roundtrip :
  run_writer C01_sp (wops_forest true C01_doc2) [] =
    ([(WOk, 9); (WOk, 19); (WOk, 23); (WOk, 23); (WOk, 27); (WOk, 27); (WOk, 27); (WOk, 29)]%nat,
     [129; 1; 255; 255; 255; 255; 255; 255; 255; 65; 3; 1; 255; 255; 255; 255; 255; 255; 255; 65; 2; 129; 7; 65; 1; 129; 5; 129; 128]) /\
  map out_tag (p_run C01_cfg (snd (run_writer C01_sp (wops_forest true C01_doc2) [])) [RAll]) =
    [Some (TStart 129); Some (TStart 16643); Some (TElem 16642 (VB [7])); Some (TEnd 16643); Some (TElem 16641 (VU 5)); Some (TEnd 129);
     Some (TStart 129); Some (TEnd 129); None].
Proof. vm_compute. split; reflexivity. Qed.

(* the outcome list itself: the items with their offsets, then the clean end *)
Example C01_ex_roundtrip_strong :
  p_run C01_cfg (snd (run_writer C01_sp (wops_forest true C01_doc2) [])) [RAll] =
    [OItem (TStart 129) 0; OItem (TStart 16643) 9; OItem (TElem 16642 (VB [7])) 19; OItem (TEnd 16643) 9;
     OItem (TElem 16641 (VU 5)) 23; OItem (TEnd 129) 0; OItem (TStart 129) 27; OItem (TEnd 129) 27; ONone] /\
  p_run C01_cfg (snd (run_writer C01_sp (wops_forest true C01_doc2) [])) [RAll] = items_forest 0 C01_doc2 ++ [ONone].
Proof. vm_compute. split; reflexivity. Qed.

(* ------------------------------------------------------------------ masters given as Full *)
(* [fconf sp d ids t]: t is written as ONE item (an element, or a Full master whose own options ask for an explicit width, the
   default, or unknown size); everything inside a Full is written with default options, hence of known size ([all_known]) *)
Theorem C01_full_roundtrip_partial : forall c d f, strict c -> c_buffered c = [] -> c_emit_eof c = true ->
  Forall (fconf (c_sp c) d []) f -> Forall (rconf c) f ->
  Forall (fun r => fst r = WOk) (fst (run_writer (c_sp c) (fops d f) [])) /\
  map out_tag (p_run c (snd (run_writer (c_sp c) (fops d f) [])) [RAll]) = map Some (flat (map full_tag f)) ++ [None].
Proof. exact full_write_read_roundtrip. Qed.

(* the same on the outcome list: every call succeeds, the strict reader run to exhaustion yields exactly the items of the
   document with their offsets and then the clean end ONone, and their tags are the Full items unrolled.  Hypotheses: [strict c],
   [c_buffered c = []], [c_emit_eof c = true], [Forall (fconf (c_sp c) d []) f], [Forall (rconf c) f]. *)
Theorem C01_full_roundtrip_partial_strong : forall c d f, strict c -> c_buffered c = [] -> c_emit_eof c = true ->
  Forall (fconf (c_sp c) d []) f -> Forall (rconf c) f ->
  Forall (fun r => fst r = WOk) (fst (run_writer (c_sp c) (fops d f) [])) /\
  p_run c (snd (run_writer (c_sp c) (fops d f) [])) [RAll] = items_forest 0 f ++ [ONone] /\
  map out_tag (items_forest 0 f) = map Some (flat (map full_tag f)).
Proof. exact full_write_read_roundtrip_strong. Qed.

Example C01_ex_full :
  let t := RNode 129 None [ RNode 16643 (Some 1%nat) [ RLeaf 16642 (VB [7]) [7] 1%nat ]; RLeaf 16641 (VU 5) [5] 1%nat ] in
  full_tag t = TFull 129 [TFull 16643 [TElem 16642 (VB [7])]; TElem 16641 (VU 5)] /\
  snd (run_writer C01_sp (fops true [t]) []) = enc_forest [t] /\
  map out_tag (p_run C01_cfg (snd (run_writer C01_sp (fops true [t]) [])) [RAll]) =
    [Some (TStart 129); Some (TStart 16643); Some (TElem 16642 (VB [7])); Some (TEnd 16643); Some (TElem 16641 (VU 5)); Some (TEnd 129); None].
Proof. vm_compute. repeat split; reflexivity. Qed.

(* the hypotheses of C01_full_roundtrip_partial(_strong) hold for that item (default options, d = true): [fconf] and [rconf] *)
Definition C01_full_item : rtree :=
  RNode 129 None [ RNode 16643 (Some 1%nat) [ RLeaf 16642 (VB [7]) [7] 1%nat ]; RLeaf 16641 (VU 5) [5] 1%nat ].

Example C01_ex_full_conf : strict C01_cfg /\ Forall (fconf C01_sp true []) [C01_full_item] /\ Forall (rconf C01_cfg) [C01_full_item].
Proof.
  assert (I1 : idok 129) by (exists 1%nat, 1; repeat split; cbn; lia).
  assert (I2 : idok 16643) by (exists 2%nat, 259; repeat split; cbn; lia).
  assert (I3 : idok 16642) by (exists 2%nat, 258; repeat split; cbn; lia).
  assert (I4 : idok 16641) by (exists 2%nat, 257; repeat split; cbn; lia).
  assert (F1 : forall n, n < 127 -> field_ok true 1 n).
  { intros n Hn. split; [lia|]. split; [change (2 ^ (7 * N.of_nat 1) - 1) with 127; exact Hn|]. intros _. symmetry. apply find_size_len_small, Hn. }
  split; [repeat split|]. split.
  - assert (L1 : wconf C01_sp true [129; 16643] (RLeaf 16642 (VB [7]) [7] 1%nat)).
    { split; [reflexivity|]. exists DBinary. repeat split; try discriminate; try apply F1; cbn; lia. }
    assert (L2 : wconf C01_sp true [129] (RLeaf 16641 (VU 5) [5] 1%nat)).
    { split; [reflexivity|]. exists DUInt. repeat split; try discriminate; try apply F1; cbn; lia. }
    constructor; [|constructor]. unfold C01_full_item. cbn [fconf].
    split; [reflexivity|]. split; [reflexivity|]. split; [intros sl Hsl; discriminate Hsl|]. split.
    + constructor; [|constructor; [exact L2|constructor]].
      apply wconf_node. split; [reflexivity|]. split; [reflexivity|]. split; [|constructor; [exact L1|constructor]].
      intros sl Hsl. injection Hsl as <-. apply F1. vm_compute. reflexivity.
    + constructor; [|constructor; [exact I|constructor]].
      apply all_known_node. split; [discriminate|]. constructor; [exact I|constructor].
  - assert (R1 : rconf C01_cfg (RLeaf 16642 (VB [7]) [7] 1%nat)).
    { split; [exact I3|]. split; [repeat constructor; lia|vm_compute; discriminate]. }
    assert (R2 : rconf C01_cfg (RLeaf 16641 (VU 5) [5] 1%nat)).
    { split; [exact I4|]. split; [vm_compute; reflexivity|vm_compute; discriminate]. }
    constructor; [|constructor]. apply rconf_node. split; [exact I1|]. split; [exact I|].
    constructor; [|constructor; [exact R2|constructor]].
    apply rconf_node. split; [exact I2|]. split; [vm_compute; discriminate|]. constructor; [exact R1|constructor].
Qed.

(* ... so the strengthened theorem applies to it; its conclusion, computed: one successful call, the items with their offsets,
   the clean end *)
Example C01_ex_full_strong :
  run_writer C01_sp (fops true [C01_full_item]) [] = ([(WOk, 20%nat)], enc_forest [C01_full_item]) /\
  p_run C01_cfg (snd (run_writer C01_sp (fops true [C01_full_item]) [])) [RAll] =
    [OItem (TStart 129) 0; OItem (TStart 16643) 9; OItem (TElem 16642 (VB [7])) 12; OItem (TEnd 16643) 9;
     OItem (TElem 16641 (VU 5)) 16; OItem (TEnd 129) 0; ONone] /\
  p_run C01_cfg (snd (run_writer C01_sp (fops true [C01_full_item]) [])) [RAll] = items_forest 0 [C01_full_item] ++ [ONone].
Proof. vm_compute. repeat split; reflexivity. Qed.

(* ------------------------------------------------------------------ reader half, known sizes, global placeholders allowed *)
(* PARTIAL, complementary class: EVERY master of the document has a known size, and elements and masters may be declared
   with ARBITRARY paths, global placeholders included (global elements such as Void / Crc32, recursive masters).
   [kconf c ids t] is [conf c ids t] with "every master has sz = Some _" and, in place of "declared path = the chain",
   the reader's own notion of conformance: the declared path MATCHES the chain of masters the element sits in
   ([path_matches (get_path (c_sp c) id) ids = true], i.e. [Matches] of Proofs/SpecProofs.v).
   With known sizes masters are closed by exhaustion only, so placeholders create no ambiguity (unknown-size masters below
   global elements are inherently ambiguous, see Props/C07.v, and stay excluded).
   [dstart c f] — needed, see C01_ex_known_needs_dstart below: the first element of the document whose declared path is
   placeholder-free is a top-level element (so its path is the empty one): [f = g1 .. gk :: r :: ...] where no element
   inside g1 .. gk has a placeholder-free path ([globb]) and r is declared with the empty path (or there is no r).
   In particular every document whose first top-level element is a root element ([starts_at_root]).
   It is a consequence of [kconf] for every specification whose paths extend their parent's path ([consistent]; every
   specification generated by the derive macro): C01_consistent_dstart, C01_reader_roundtrip_known_consistent_partial below.
   The reader validates nothing until it meets the first placeholder-free path, and then seeds the parents that path names
   below the masters already open; met inside an open master, the parents are there twice and the element is rejected. *)
Theorem C01_reader_roundtrip_known_partial : forall c f, strict c -> c_buffered c = [] -> c_emit_eof c = true ->
  Forall (kconf c []) f -> dstart c f -> p_run c (enc_forest f) [RAll] = items_forest 0 f ++ [ONone].
Proof. exact reader_roundtrip_known. Qed.

Theorem C01_reader_roundtrip_known_root_partial : forall c f, strict c -> c_buffered c = [] -> c_emit_eof c = true ->
  Forall (kconf c []) f -> starts_at_root c f -> p_run c (enc_forest f) [RAll] = items_forest 0 f ++ [ONone].
Proof. exact reader_roundtrip_known_root. Qed.

Theorem C01_reader_roundtrip_known_buffered_partial : forall c f cap0 script, calm script -> strict c -> c_buffered c = [] ->
  c_emit_eof c = true -> Forall (kconf c []) f -> dstart c f ->
  run_reader c cap0 script (enc_forest f) [RAll] = items_forest 0 f ++ [ONone].
Proof. exact reader_roundtrip_known_buffered. Qed.

Theorem C01_reader_roundtrip_known_tags_partial : forall c f, strict c -> c_buffered c = [] -> c_emit_eof c = true ->
  Forall (kconf c []) f -> dstart c f -> map out_tag (p_run c (enc_forest f) [RAll]) = map Some (tags_forest f) ++ [None].
Proof. exact reader_roundtrip_known_tags. Qed.

(* the known-size documents of the first class belong to the second one *)
Theorem C01_known_class_extends : forall c f, Forall (conf c []) f -> Forall all_known f -> Forall (kconf c []) f /\ dstart c f.
Proof.
  intros c f Hc Hk. split.
  - rewrite Forall_forall in *. intros t Hin. apply conf_kconf; [apply Hc, Hin|apply Hk, Hin].
  - apply starts_at_root_dstart, conf_starts_at_root, Hc.
Qed.

(* Root(129) > Seg(130) > Val(16641); Void(236) is global with at least one parent "(1-)"; Rec(131) is a recursive master
   declared Root/(-)/Rec with a Leaf(16642) declared Root/(-)/Rec/Leaf; Top(132) is a global master "(-)" *)
Definition C01k_sp : spec :=
  [ {| e_id := 129; e_ty := DMaster; e_path := [] |}; {| e_id := 130; e_ty := DMaster; e_path := [PId 129] |};
    {| e_id := 16641; e_ty := DUInt; e_path := [PId 129; PId 130] |};
    {| e_id := 236; e_ty := DBinary; e_path := [PGlobal (Some 1) None] |};
    {| e_id := 131; e_ty := DMaster; e_path := [PId 129; PGlobal None None] |};
    {| e_id := 16642; e_ty := DBinary; e_path := [PId 129; PGlobal None None; PId 131] |};
    {| e_id := 132; e_ty := DMaster; e_path := [PGlobal None None] |};
    {| e_id := 16643; e_ty := DBinary; e_path := [PId 132] |} ].
Definition C01k_cfg : cfg :=
  {| c_sp := C01k_sp; c_allow_id := false; c_allow_hier := false; c_allow_over := false; c_max := Some 4000000000; c_buffered := [];
     c_emit_eof := true |}.
Definition C01k_void : rtree := RLeaf 236 (VB [0]) [0] 1%nat.
Definition C01k_leaf : rtree := RLeaf 16642 (VB [7]) [7] 2%nat.
(* Top { Void } Root { Void Seg { Val 5 Void Rec { Leaf } } Rec { Leaf Rec { Void Leaf } Void } Void } Root { } *)
Definition C01k_doc : list rtree :=
  [ RNode 132 (Some 1%nat) [ C01k_void ];
    RNode 129 (Some 2%nat)
      [ C01k_void;
        RNode 130 (Some 1%nat) [ RLeaf 16641 (VU 5) [0; 5] 1%nat; C01k_void; RNode 131 (Some 1%nat) [ C01k_leaf ] ];
        RNode 131 (Some 3%nat) [ C01k_leaf; RNode 131 (Some 1%nat) [ C01k_void; C01k_leaf ]; C01k_void ];
        C01k_void ];
    RNode 129 (Some 1%nat) [] ].

Example C01_ex_known_conf : strict C01k_cfg /\ Forall (kconf C01k_cfg []) C01k_doc /\ dstart C01k_cfg C01k_doc.
Proof.
  assert (I1 : idok 129) by (exists 1%nat, 1; repeat split; cbn; lia).
  assert (I2 : idok 130) by (exists 1%nat, 2; repeat split; cbn; lia).
  assert (I3 : idok 131) by (exists 1%nat, 3; repeat split; cbn; lia).
  assert (I4 : idok 132) by (exists 1%nat, 4; repeat split; cbn; lia).
  assert (I5 : idok 236) by (exists 1%nat, 108; repeat split; cbn; lia).
  assert (I6 : idok 16641) by (exists 2%nat, 257; repeat split; cbn; lia).
  assert (I7 : idok 16642) by (exists 2%nat, 258; repeat split; cbn; lia).
  assert (V : forall ids, path_matches [PGlobal (Some 1) None] ids = true -> kconf C01k_cfg ids C01k_void).
  { intros ids Hp. cbn [kconf C01k_void]. split; [exact I5|]. split; [lia|]. split; [cbn; lia|]. split; [repeat constructor; lia|].
    split; [exists DBinary; split; [reflexivity|split; [discriminate|reflexivity]]|]. split; [exact Hp|vm_compute; discriminate]. }
  assert (L : forall ids, path_matches [PId 129; PGlobal None None; PId 131] ids = true -> kconf C01k_cfg ids C01k_leaf).
  { intros ids Hp. cbn [kconf C01k_leaf]. split; [exact I7|]. split; [lia|]. split; [cbn; lia|]. split; [repeat constructor; lia|].
    split; [exists DBinary; split; [reflexivity|split; [discriminate|reflexivity]]|]. split; [exact Hp|vm_compute; discriminate]. }
  assert (N : forall ids id sl cs, idok id -> (1 <= sl <= 8)%nat -> flen cs < 2 ^ (7 * N.of_nat sl) - 1 ->
            get_type C01k_sp id = Some DMaster -> path_matches (get_path C01k_sp id) ids = true -> flen cs <= 4000000000 ->
            Forall (kconf C01k_cfg (ids ++ [id])) cs -> kconf C01k_cfg ids (RNode id (Some sl) cs)).
  { intros ids id sl cs H1 H2 H3 H4 H5 H6 H7. apply kconf_node. split; [exact H1|]. split; [exists sl; split; [reflexivity|split; assumption]|].
    split; [exact H4|]. split; [exact H5|]. split; [exact H6|exact H7]. }
  split; [repeat split|]. split.
  - constructor; [|constructor; [|constructor; [|constructor]]].
    + apply N; [assumption|lia|vm_compute; reflexivity|reflexivity|reflexivity|vm_compute; discriminate|].
      constructor; [apply V; reflexivity|constructor].
    + apply N; [assumption|lia|vm_compute; reflexivity|reflexivity|reflexivity|vm_compute; discriminate|].
      constructor; [apply V; reflexivity|]. constructor; [|constructor; [|constructor; [apply V; reflexivity|constructor]]].
      * apply N; [assumption|lia|vm_compute; reflexivity|reflexivity|reflexivity|vm_compute; discriminate|].
        constructor; [|constructor; [apply V; reflexivity|constructor; [|constructor]]].
        -- cbn [kconf]. split; [exact I6|]. split; [lia|]. split; [cbn; lia|]. split; [repeat constructor; lia|].
           split; [exists DUInt; split; [reflexivity|split; [discriminate|reflexivity]]|]. split; [reflexivity|vm_compute; discriminate].
        -- apply N; [assumption|lia|vm_compute; reflexivity|reflexivity|reflexivity|vm_compute; discriminate|].
           constructor; [apply L; reflexivity|constructor].
      * apply N; [assumption|lia|vm_compute; reflexivity|reflexivity|reflexivity|vm_compute; discriminate|].
        constructor; [apply L; reflexivity|]. constructor; [|constructor; [apply V; reflexivity|constructor]].
        apply N; [assumption|lia|vm_compute; reflexivity|reflexivity|reflexivity|vm_compute; discriminate|].
        constructor; [apply V; reflexivity|constructor; [apply L; reflexivity|constructor]].
    + apply N; [assumption|lia|vm_compute; reflexivity|reflexivity|reflexivity|vm_compute; discriminate|]. constructor.
  - cbn [dstart C01k_doc]. right. split; [reflexivity|]. left. reflexivity.
Qed.

(* global elements at depths 1, 2 and 3, a recursive master nested in itself and below a named master, a global master
   before the first root: the document is read back as exactly its items *)
Example C01_ex_known_run :
  p_run C01k_cfg (enc_forest C01k_doc) [RAll] = items_forest 0 C01k_doc ++ [ONone] /\
  map out_tag (p_run C01k_cfg (enc_forest C01k_doc) [RAll]) =
    [Some (TStart 132); Some (TElem 236 (VB [0])); Some (TEnd 132);
     Some (TStart 129); Some (TElem 236 (VB [0]));
     Some (TStart 130); Some (TElem 16641 (VU 5)); Some (TElem 236 (VB [0])); Some (TStart 131); Some (TElem 16642 (VB [7])); Some (TEnd 131);
     Some (TEnd 130);
     Some (TStart 131); Some (TElem 16642 (VB [7])); Some (TStart 131); Some (TElem 236 (VB [0])); Some (TElem 16642 (VB [7])); Some (TEnd 131);
     Some (TElem 236 (VB [0])); Some (TEnd 131);
     Some (TElem 236 (VB [0])); Some (TEnd 129); Some (TStart 129); Some (TEnd 129); None].
Proof. vm_compute. split; reflexivity. Qed.

(* [dstart] cannot be dropped: this document conforms ([kconf]: 16643 is declared Top/16643 and sits in Top) but its first
   placeholder-free element is met inside the global master Top, before anything determined the position: the reader seeds
   Top a second time below the open Top and reports a hierarchy error.  Preceded by a root element it reads back. *)
Example C01_ex_known_needs_dstart :
  let inner := RNode 132 (Some 1%nat) [ RLeaf 16643 (VB [7]) [7] 1%nat ] in
  p_run C01k_cfg (enc_forest [inner]) [RAll] = [OItem (TStart 132) 0; OErr (RHierarchy 16643 (Some 132))] /\
  p_run C01k_cfg (enc_forest [RNode 129 (Some 1%nat) []; inner]) [RAll] = items_forest 0 [RNode 129 (Some 1%nat) []; inner] ++ [ONone].
Proof. vm_compute. split; reflexivity. Qed.

(* ------------------------------------------------------------------ the start hypothesis holds for derived specifications *)
(* [consistent sp] (Proofs/DStart.v): for every entry e of sp whose declared path is non-empty and ends in an identifier,
   [e_path e = q ++ [PId p]]: p is declared a master and the declared path of p followed by p is that path
   ([get_type sp p = Some DMaster /\ get_path sp p ++ [PId p] = e_path e]); "every entry" = every row of the table, shadowed
   or not.  Paths that end in a placeholder are not constrained.  [consistentb] decides it. *)
Theorem C01_consistent_decidable : forall sp, consistentb sp = true <-> consistent sp.
Proof. exact consistentb_iff. Qed.

(* every specification generated by the derive macro ([derive d = Some sp], Model/Derive.v) is consistent *)
Theorem C01_derive_consistent : forall d sp, derive d = Some sp -> consistent sp.
Proof. exact derive_consistent. Qed.

(* for a consistent specification every top-level tree of a conforming known-size document ([kconf c [] t]) either is
   declared with the empty path or contains no element at all whose declared path is placeholder-free ... *)
Theorem C01_consistent_top_tree : forall c t, consistent (c_sp c) -> kconf c [] t ->
  get_path (c_sp c) (rid t) = [] \/ globb c t = true.
Proof. exact consistent_top_tree. Qed.

(* ... hence the start hypothesis: [consistent (c_sp c)] and [Forall (kconf c []) f] imply [dstart c f]; no other condition *)
Theorem C01_consistent_dstart : forall c, consistent (c_sp c) -> forall f, Forall (kconf c []) f -> dstart c f.
Proof. exact consistent_dstart. Qed.

(* the same for documents with raw leaves: [consistent (c_sp c)] and [Forall (xconf c []) f] imply [xdstart c f] *)
Theorem C01_consistent_xdstart : forall c, consistent (c_sp c) -> forall f, Forall (xconf c []) f -> xdstart c f.
Proof. exact consistent_xdstart. Qed.

(* C01_reader_roundtrip_known_partial without start hypothesis: strict configuration, no buffered masters, End items at the end
   of the input, a consistent specification; every conforming document of the second class (every master of known size,
   declared paths - placeholders allowed - match the chain of masters) is read back as exactly its items, then None *)
Theorem C01_reader_roundtrip_known_consistent_partial : forall c f, strict c -> c_buffered c = [] -> c_emit_eof c = true ->
  consistent (c_sp c) -> Forall (kconf c []) f -> p_run c (enc_forest f) [RAll] = items_forest 0 f ++ [ONone].
Proof. exact reader_roundtrip_known_consistent. Qed.

(* ... in particular when the specification of the configuration is one the derive macro generates *)
Theorem C01_reader_roundtrip_known_derived_partial : forall c f d, strict c -> c_buffered c = [] -> c_emit_eof c = true ->
  derive d = Some (c_sp c) -> Forall (kconf c []) f -> p_run c (enc_forest f) [RAll] = items_forest 0 f ++ [ONone].
Proof. exact reader_roundtrip_known_derived. Qed.

(* ... by the buffered reader, for every buffer capacity and every way the source chunks its reads ([calm script]) *)
Theorem C01_reader_roundtrip_known_consistent_buffered_partial : forall c f cap0 script, calm script -> strict c ->
  c_buffered c = [] -> c_emit_eof c = true -> consistent (c_sp c) -> Forall (kconf c []) f ->
  run_reader c cap0 script (enc_forest f) [RAll] = items_forest 0 f ++ [ONone].
Proof. exact reader_roundtrip_known_consistent_buffered. Qed.

(* ... on the tags: the tags of the document, then None (same hypotheses as C01_reader_roundtrip_known_consistent_partial) *)
Theorem C01_reader_roundtrip_known_consistent_tags_partial : forall c f, strict c -> c_buffered c = [] -> c_emit_eof c = true ->
  consistent (c_sp c) -> Forall (kconf c []) f -> map out_tag (p_run c (enc_forest f) [RAll]) = map Some (tags_forest f) ++ [None].
Proof. exact reader_roundtrip_known_consistent_tags. Qed.

(* the specification of C01_ex_known_needs_dstart is not consistent (16643 is declared [Top] although Top is declared [(-)]),
   and the macro rejects the declaration it would come from: Root; Top with doc_path (-); Leaf with doc_path Top *)
Example C01_ex_known_needs_dstart_not_derivable :
  consistentb C01k_sp = false /\
  derive [ {| v_name := 3; v_attrs := [AId 129; AType (Some DMaster)] |};
           {| v_name := 4; v_attrs := [AId 132; AType (Some DMaster); APath [PPGlobal None None]] |};
           {| v_name := 5; v_attrs := [AId 16643; AType (Some DBinary); APath [PPIdent 4]] |} ] = None.
Proof. vm_compute. split; reflexivity. Qed.

(* the declaration the macro accepts: Leaf with doc_path (-)/Top.  Its table is consistent and the document of
   C01_ex_known_needs_dstart (Top { Leaf } alone, no root element before it) is read back as exactly its items *)
Definition C01d_sp : spec :=
  [ {| e_id := 129; e_ty := DMaster; e_path := [] |}; {| e_id := 132; e_ty := DMaster; e_path := [PGlobal None None] |};
    {| e_id := 16643; e_ty := DBinary; e_path := [PGlobal None None; PId 132] |};
    {| e_id := 191; e_ty := DBinary; e_path := [PGlobal (Some 1) None] |}; {| e_id := 236; e_ty := DBinary; e_path := [PGlobal None None] |} ].
Definition C01d_cfg : cfg :=
  {| c_sp := C01d_sp; c_allow_id := false; c_allow_hier := false; c_allow_over := false; c_max := Some 4000000000; c_buffered := [];
     c_emit_eof := true |}.
Example C01_ex_known_derived_run :
  let inner := RNode 132 (Some 1%nat) [ RLeaf 16643 (VB [7]) [7] 1%nat ] in
  derive [ {| v_name := 3; v_attrs := [AId 129; AType (Some DMaster)] |};
           {| v_name := 4; v_attrs := [AId 132; AType (Some DMaster); APath [PPGlobal None None]] |};
           {| v_name := 5; v_attrs := [AId 16643; AType (Some DBinary); APath [PPGlobal None None; PPIdent 4]] |} ] = Some C01d_sp /\
  consistentb C01d_sp = true /\
  p_run C01d_cfg (enc_forest [inner]) [RAll] = items_forest 0 [inner] ++ [ONone] /\
  p_run C01d_cfg (enc_forest [inner]) [RAll] = [OItem (TStart 132) 0; OItem (TElem 16643 (VB [7])) 2; OItem (TEnd 132) 0; ONone].
Proof. vm_compute. repeat split; reflexivity. Qed.

(* ------------------------------------------------------------------ raw tags, unknown ids tolerated *)
(* PARTIAL — C01's last sentence, "raw tags with well-formed ids round-trip when unknown ids are allowed", for documents in
   which every master has a known size.
   Configuration [lenient_id c]: [c_allow_id c = true], hierarchy and size validation on ([c_allow_hier c = false],
   [c_allow_over c = false]); no buffered masters, End items at the end of the input.
   Documents [xconf c ids t]: [kconf c ids t] (every master of known size; every declared element's path — global
   placeholders allowed — matches the chain of masters it sits in; payloads decode; sizes fit their fields and [c_max]),
   except that a leaf may also be RAW: [RLeaf id (VRaw pl) pl sl] with [idok id] (a well-formed vint),
   [get_type (c_sp c) id = None] (not declared), any payload bytes [wf_bytes pl], a size width [sl] that carries the length,
   the length within [c_max].  A raw leaf may occur ANYWHERE — top level or inside any master: the reader performs no
   hierarchy check for an undeclared id, the id ends no open master, and it leaves the "document position determined" flag
   untouched (like a global element).  Its item is [OItem (TElem id (VRaw pl)) off], [off] the offset of its first byte.
   [xdstart c f] is [dstart c f] read with that in mind: the first element of the document that determines the position
   (declared, placeholder-free path) is a top-level root element (declared with the empty path); raw leaves may precede it.
   In particular every document whose first declared top-level element is a root element ([starts_at_root_x]). *)
Theorem C01_reader_roundtrip_raw_partial : forall c f, lenient_id c -> c_buffered c = [] -> c_emit_eof c = true ->
  Forall (xconf c []) f -> xdstart c f -> p_run c (enc_forest f) [RAll] = items_forest 0 f ++ [ONone].
Proof. exact reader_roundtrip_raw. Qed.

(* the same for every configuration that validates hierarchy and sizes, [c_allow_id] arbitrary ([xconf] allows raw leaves only
   when [c_allow_id c = true]); it subsumes C01_reader_roundtrip_known_partial ([kconf] -> [xconf], [dstart] -> [xdstart]) *)
Theorem C01_reader_roundtrip_tol_partial : forall c f, tol c -> c_buffered c = [] -> c_emit_eof c = true ->
  Forall (xconf c []) f -> xdstart c f -> p_run c (enc_forest f) [RAll] = items_forest 0 f ++ [ONone].
Proof. exact reader_roundtrip_tol. Qed.

Theorem C01_raw_class_extends : forall c f, Forall (kconf c []) f -> dstart c f -> Forall (xconf c []) f /\ xdstart c f.
Proof.
  intros c f Hc Hd. split; [|apply (kconf_xdstart c []); assumption].
  rewrite Forall_forall in *. intros t Hin. apply kconf_xconf, Hc, Hin.
Qed.

(* raw tags, consistent specification, no start hypothesis: [lenient_id c], no buffered masters, End items at the end of the
   input, [consistent (c_sp c)], [Forall (xconf c []) f]; the document is read back as exactly its items, then None *)
Theorem C01_reader_roundtrip_raw_consistent_partial : forall c f, lenient_id c -> c_buffered c = [] -> c_emit_eof c = true ->
  consistent (c_sp c) -> Forall (xconf c []) f -> p_run c (enc_forest f) [RAll] = items_forest 0 f ++ [ONone].
Proof. exact reader_roundtrip_raw_consistent. Qed.

Theorem C01_raw_leaf_in_class : forall c ids id pl sl, c_allow_id c = true -> raw_leaf_ok c id pl sl ->
  xconf c ids (RLeaf id (VRaw pl) pl sl).
Proof. exact raw_leaf_xconf. Qed.

Theorem C01_reader_roundtrip_raw_root_partial : forall c f, lenient_id c -> c_buffered c = [] -> c_emit_eof c = true ->
  Forall (xconf c []) f -> starts_at_root_x c f -> p_run c (enc_forest f) [RAll] = items_forest 0 f ++ [ONone].
Proof. exact reader_roundtrip_raw_root. Qed.

Theorem C01_reader_roundtrip_raw_buffered_partial : forall c f cap0 script, calm script -> lenient_id c -> c_buffered c = [] ->
  c_emit_eof c = true -> Forall (xconf c []) f -> xdstart c f ->
  run_reader c cap0 script (enc_forest f) [RAll] = items_forest 0 f ++ [ONone].
Proof. exact reader_roundtrip_raw_buffered. Qed.

Theorem C01_reader_roundtrip_raw_tags_partial : forall c f, lenient_id c -> c_buffered c = [] -> c_emit_eof c = true ->
  Forall (xconf c []) f -> xdstart c f -> map out_tag (p_run c (enc_forest f) [RAll]) = map Some (tags_forest f) ++ [None].
Proof. exact reader_roundtrip_raw_tags. Qed.

(* writer half.  One raw tag: write(TElem id (VRaw pl)) for an undeclared vint id, and write_raw(id, pl) (no check of the id at
   all), both append exactly id ++ size field ++ pl — the encoding of the raw leaf — on a destination that accepts everything,
   whatever masters are open ([image] = bytes delivered ++ bytes held back for open known-size masters) *)
Theorem C01_write_raw_element_layout : forall sp st id pl d sl, get_type sp id = None -> is_vint id = true ->
  field_ok d sl (N.of_nat (length pl)) -> w_script st = [] ->
  exists st', wstep sp st (OpWrite (TElem id (VRaw pl)) (wopt d sl)) = (st', WOk) /\ w_open st' = w_open st /\ w_script st' = [] /\
    image st' = image st ++ enc_tree (RLeaf id (VRaw pl) pl sl) /\
    (has_known (w_open st) = true -> w_dest st' = w_dest st) /\ (has_known (w_open st) = false -> w_buf st' = []).
Proof. exact write_raw_elem_step. Qed.

Theorem C01_write_raw_layout : forall sp st id pl sl, field_ok true sl (N.of_nat (length pl)) -> w_script st = [] ->
  exists st', wstep sp st (OpRaw id pl) = (st', WOk) /\ w_open st' = w_open st /\ w_script st' = [] /\
    image st' = image st ++ enc_tree (RLeaf id (VRaw pl) pl sl) /\
    (has_known (w_open st) = true -> w_dest st' = w_dest st) /\ (has_known (w_open st) = false -> w_buf st' = []).
Proof. exact write_raw_step. Qed.

(* whole documents: [wxconf sp d ids t] is [wconf sp d ids t] (declared path = the chain, no placeholders) with raw leaves
   anywhere (undeclared vint id, value VRaw of the payload, size width as for every element); masters of known or unknown size *)
Theorem C01_writer_encodes_raw_partial : forall sp d f, Forall (wxconf sp d []) f ->
  (Forall (fun r => fst r = WOk) (fst (run_writer sp (wops_forest d f) []))) /\ (snd (run_writer sp (wops_forest d f) []) = enc_forest f).
Proof. exact writer_encodes_raw. Qed.

(* write -> read with raw tags, every master of known size: the lenient reader yields the written tags *)
Theorem C01_roundtrip_raw_partial : forall c d f, lenient_id c -> c_buffered c = [] -> c_emit_eof c = true ->
  Forall (wxconf (c_sp c) d []) f -> Forall (rconf c) f -> Forall RoundTripKnown.all_known f ->
  Forall (fun r => fst r = WOk) (fst (run_writer (c_sp c) (wops_forest d f) [])) /\
  map out_tag (p_run c (snd (run_writer (c_sp c) (wops_forest d f) [])) [RAll]) = map op_tag (wops_forest d f) ++ [None].
Proof. exact write_read_roundtrip_raw. Qed.

(* the same on the outcome list: exactly the items of the document with their offsets, then the clean end ONone.  Hypotheses:
   [lenient_id c], [c_buffered c = []], [c_emit_eof c = true], [Forall (wxconf (c_sp c) d []) f], [Forall (rconf c) f], every master
   of known size. *)
Theorem C01_roundtrip_raw_partial_strong : forall c d f, lenient_id c -> c_buffered c = [] -> c_emit_eof c = true ->
  Forall (wxconf (c_sp c) d []) f -> Forall (rconf c) f -> Forall RoundTripKnown.all_known f ->
  Forall (fun r => fst r = WOk) (fst (run_writer (c_sp c) (wops_forest d f) [])) /\
  p_run c (snd (run_writer (c_sp c) (wops_forest d f) [])) [RAll] = items_forest 0 f ++ [ONone] /\
  map out_tag (items_forest 0 f) = map op_tag (wops_forest d f).
Proof. exact write_read_roundtrip_raw_strong. Qed.

(* the specification of C01k_sp read leniently; 191 (one byte) and 16700 (two bytes) are well-formed ids it does not declare *)
Definition C01r_cfg : cfg :=
  {| c_sp := C01k_sp; c_allow_id := true; c_allow_hier := false; c_allow_over := false; c_max := Some 4000000000; c_buffered := [];
     c_emit_eof := true |}.
(* Raw191 Root { Raw16700(empty) Seg { Val 5 Raw191 } Void } Raw191 *)
Definition C01r_doc : list rtree :=
  [ RLeaf 191 (VRaw [1; 2; 3]) [1; 2; 3] 1%nat;
    RNode 129 (Some 1%nat)
      [ RLeaf 16700 (VRaw []) [] 2%nat;
        RNode 130 (Some 1%nat) [ RLeaf 16641 (VU 5) [5] 1%nat; RLeaf 191 (VRaw [9]) [9] 1%nat ];
        C01k_void ];
    RLeaf 191 (VRaw [255]) [255] 1%nat ].

Example C01_ex_raw_conf : lenient_id C01r_cfg /\ Forall (xconf C01r_cfg []) C01r_doc /\ xdstart C01r_cfg C01r_doc.
Proof.
  assert (I1 : idok 129) by (exists 1%nat, 1; repeat split; cbn; lia).
  assert (I2 : idok 130) by (exists 1%nat, 2; repeat split; cbn; lia).
  assert (I5 : idok 236) by (exists 1%nat, 108; repeat split; cbn; lia).
  assert (I6 : idok 16641) by (exists 2%nat, 257; repeat split; cbn; lia).
  assert (I8 : idok 191) by (exists 1%nat, 63; repeat split; cbn; lia).
  assert (I9 : idok 16700) by (exists 2%nat, 316; repeat split; cbn; lia).
  assert (R : forall ids id pl sl, idok id -> get_type C01k_sp id = None -> (1 <= sl <= 8)%nat ->
            N.of_nat (length pl) < 2 ^ (7 * N.of_nat sl) - 1 -> wf_bytes pl -> N.of_nat (length pl) <= 4000000000 ->
            xconf C01r_cfg ids (RLeaf id (VRaw pl) pl sl)).
  { intros ids id pl sl H1 H2 H3 H4 H5 H6. apply raw_leaf_xconf; [reflexivity|]. split; [exact H1|]. split; [exact H2|].
    split; [exact H3|]. split; [exact H4|]. split; [exact H5|exact H6]. }
  assert (N : forall ids id sl cs, idok id -> (1 <= sl <= 8)%nat -> flen cs < 2 ^ (7 * N.of_nat sl) - 1 ->
            get_type C01k_sp id = Some DMaster -> path_matches (get_path C01k_sp id) ids = true -> flen cs <= 4000000000 ->
            Forall (xconf C01r_cfg (ids ++ [id])) cs -> xconf C01r_cfg ids (RNode id (Some sl) cs)).
  { intros ids id sl cs H1 H2 H3 H4 H5 H6 H7. apply xconf_node. split; [exact H1|]. split; [exists sl; split; [reflexivity|split; assumption]|].
    split; [exact H4|]. split; [exact H5|]. split; [exact H6|exact H7]. }
  split; [repeat split|]. split.
  - constructor; [|constructor; [|constructor; [|constructor]]].
    + apply R; [assumption|reflexivity|lia|cbn; lia|repeat constructor; lia|cbn; lia].
    + apply N; [assumption|lia|vm_compute; reflexivity|reflexivity|reflexivity|vm_compute; discriminate|].
      constructor; [|constructor; [|constructor; [|constructor]]].
      * apply R; [assumption|reflexivity|lia|cbn; lia|constructor|cbn; lia].
      * apply N; [assumption|lia|vm_compute; reflexivity|reflexivity|reflexivity|vm_compute; discriminate|].
        constructor; [|constructor; [|constructor]].
        -- cbn [xconf]. split; [exact I6|]. split; [lia|]. split; [cbn; lia|]. split; [repeat constructor; lia|].
           split; [vm_compute; discriminate|]. left. exists DUInt. split; [reflexivity|]. split; [discriminate|]. split; reflexivity.
        -- apply R; [assumption|reflexivity|lia|cbn; lia|repeat constructor; lia|cbn; lia].
      * cbn [xconf C01k_void]. split; [exact I5|]. split; [lia|]. split; [cbn; lia|]. split; [repeat constructor; lia|].
        split; [vm_compute; discriminate|]. left. exists DBinary. split; [reflexivity|]. split; [discriminate|]. split; reflexivity.
    + apply R; [assumption|reflexivity|lia|cbn; lia|repeat constructor; lia|cbn; lia].
  - cbn [xdstart C01r_doc rid]. right. split; [reflexivity|]. left. split; [vm_compute; discriminate|reflexivity].
Qed.

(* raw tags before the first root, inside masters at depths 1 and 2 (one with an empty payload and a two-byte size field),
   between declared elements, and after the last root: the document is read back as exactly its items *)
Example C01_ex_raw_run :
  enc_forest C01r_doc = [191; 131; 1; 2; 3; 129; 144; 65; 60; 64; 0; 130; 135; 65; 1; 129; 5; 191; 129; 9; 236; 129; 0; 191; 129; 255] /\
  p_run C01r_cfg (enc_forest C01r_doc) [RAll] = items_forest 0 C01r_doc ++ [ONone] /\
  p_run C01r_cfg (enc_forest C01r_doc) [RAll] =
    [OItem (TElem 191 (VRaw [1; 2; 3])) 0; OItem (TStart 129) 5; OItem (TElem 16700 (VRaw [])) 7; OItem (TStart 130) 11;
     OItem (TElem 16641 (VU 5)) 13; OItem (TElem 191 (VRaw [9])) 17; OItem (TEnd 130) 11; OItem (TElem 236 (VB [0])) 20;
     OItem (TEnd 129) 5; OItem (TElem 191 (VRaw [255])) 23; ONone].
Proof. vm_compute. repeat split; reflexivity. Qed.

(* the same bytes under the strict configuration (same specification, unknown ids rejected): the reader stops with
   InvalidTagId at the first raw tag — at offset 0; without the leading raw tag, at the first one inside Root *)
Example C01_ex_raw_strict :
  p_run C01k_cfg (enc_forest C01r_doc) [RAll] = [OErr (RInvalidTagId 0 191)] /\
  p_run C01k_cfg (enc_forest (tl C01r_doc)) [RAll] = [OItem (TStart 129) 0; OErr (RInvalidTagId 2 16700)].
Proof. vm_compute. split; reflexivity. Qed.

(* the writer side: one write per tag with the explicit widths of the document emits exactly its encoding; write_raw emits
   the raw tags with the smallest size width *)
Example C01_ex_raw_written :
  snd (run_writer C01k_sp (wops_forest false C01r_doc) []) = enc_forest C01r_doc /\
  Forall (fun r => fst r = WOk) (fst (run_writer C01k_sp (wops_forest false C01r_doc) [])) /\
  run_writer C01k_sp [OpRaw 191 [1; 2; 3]; OpWrite (TStart 129) o_default; OpRaw 16700 []; OpWrite (TEnd 129) o_default] [] =
    ([(WOk, 5); (WOk, 5); (WOk, 5); (WOk, 10)]%nat, [191; 131; 1; 2; 3; 129; 131; 65; 60; 128]) /\
  map out_tag (p_run C01r_cfg [191; 131; 1; 2; 3; 129; 131; 65; 60; 128] [RAll]) =
    [Some (TElem 191 (VRaw [1; 2; 3])); Some (TStart 129); Some (TElem 16700 (VRaw [])); Some (TEnd 129); None].
Proof. vm_compute. repeat split; try reflexivity. repeat constructor. Qed.

(* ------------------------------------------------------------------ writer half and round trip, global placeholders allowed *)
(* PARTIAL — the writer half for declared paths with global placeholders (global elements, recursive masters), and with it
   the write -> read round trip for the second class (every master of known size).
   [wconfg sp d ids t] is [wconf sp d ids t] with, in place of "declared path = the chain of masters" (placeholder-free), the
   writer's own check: the declared path MATCHES the chain of masters the element is written in
   ([path_matches (get_path sp id) ids = true]; the writer counts every open master as known-size, ends nothing, and matches
   the declared path against the ids of the open masters).  Everything else as in [wconf]: declared type, value of the declared
   kind, payload = the writer's encoding of the value, size width = the explicit one (d = false) or the smallest one
   (d = true); masters of known or unknown size.  The class of C01_writer_encodes_partial is contained. *)
Theorem C01_writer_encodes_global_partial : forall sp d f, Forall (wconfg sp d []) f ->
  (Forall (fun r => fst r = WOk) (fst (run_writer sp (wops_forest d f) []))) /\ (snd (run_writer sp (wops_forest d f) []) = enc_forest f).
Proof. exact writer_encodes_g. Qed.

Theorem C01_global_class_extends : forall sp d t ids, wconf sp d ids t -> wconfg sp d ids t.
Proof. intros sp d t ids. apply wconf_wconfg. Qed.

(* write -> read, second class: every master of known size ([all_known]), declared paths with placeholders, the start
   hypothesis [dstart] of the reader half (it holds when the first top-level tag written is a root element) *)
Theorem C01_roundtrip_known_partial2 : forall c d f, strict c -> c_buffered c = [] -> c_emit_eof c = true ->
  Forall (wconfg (c_sp c) d []) f -> Forall (rconf c) f -> Forall all_known f -> dstart c f ->
  Forall (fun r => fst r = WOk) (fst (run_writer (c_sp c) (wops_forest d f) [])) /\
  map out_tag (p_run c (snd (run_writer (c_sp c) (wops_forest d f) [])) [RAll]) = map op_tag (wops_forest d f) ++ [None].
Proof. exact write_read_roundtrip_known. Qed.

(* the same on the outcome list: exactly the items of the document with their offsets, then the clean end ONone.  Hypotheses:
   [strict c], [c_buffered c = []], [c_emit_eof c = true], [Forall (wconfg (c_sp c) d []) f], [Forall (rconf c) f], every master of known
   size, [dstart c f]. *)
Theorem C01_roundtrip_known_partial2_strong : forall c d f, strict c -> c_buffered c = [] -> c_emit_eof c = true ->
  Forall (wconfg (c_sp c) d []) f -> Forall (rconf c) f -> Forall all_known f -> dstart c f ->
  Forall (fun r => fst r = WOk) (fst (run_writer (c_sp c) (wops_forest d f) [])) /\
  p_run c (snd (run_writer (c_sp c) (wops_forest d f) [])) [RAll] = items_forest 0 f ++ [ONone] /\
  map out_tag (items_forest 0 f) = map op_tag (wops_forest d f).
Proof. exact write_read_roundtrip_known_strong. Qed.

(* the same with every top-level master given as one Full item ([fconfg] is [fconf] with matched paths) ... *)
Theorem C01_full_roundtrip_known_partial : forall c d f, strict c -> c_buffered c = [] -> c_emit_eof c = true ->
  Forall (fconfg (c_sp c) d []) f -> Forall (rconf c) f -> Forall all_known f -> dstart c f ->
  Forall (fun r => fst r = WOk) (fst (run_writer (c_sp c) (fops d f) [])) /\
  map out_tag (p_run c (snd (run_writer (c_sp c) (fops d f) [])) [RAll]) = map Some (flat (map full_tag f)) ++ [None].
Proof. exact full_write_read_roundtrip_known. Qed.

(* on the outcome list: exactly the items of the document with their offsets, then the clean end ONone; their tags are the Full
   items unrolled.  Hypotheses: [strict c], [c_buffered c = []], [c_emit_eof c = true], [Forall (fconfg (c_sp c) d []) f],
   [Forall (rconf c) f], every master of known size, [dstart c f]. *)
Theorem C01_full_roundtrip_known_partial_strong : forall c d f, strict c -> c_buffered c = [] -> c_emit_eof c = true ->
  Forall (fconfg (c_sp c) d []) f -> Forall (rconf c) f -> Forall all_known f -> dstart c f ->
  Forall (fun r => fst r = WOk) (fst (run_writer (c_sp c) (fops d f) [])) /\
  p_run c (snd (run_writer (c_sp c) (fops d f) [])) [RAll] = items_forest 0 f ++ [ONone] /\
  map out_tag (items_forest 0 f) = map Some (flat (map full_tag f)).
Proof. exact full_write_read_roundtrip_known_strong. Qed.

(* ... and with any mix of Full items and separate Start / End calls ([pres], Proofs/WriteMixed.v; [wtags] = the tags of the
   write calls): the reader yields the written tags, Full items unrolled *)
Theorem C01_mixed_roundtrip_known_partial : forall c d f ps, strict c -> c_buffered c = [] -> c_emit_eof c = true ->
  pconfg_forest (c_sp c) d [] f ps -> Forall (rconf c) f -> Forall all_known f -> dstart c f ->
  Forall (fun r => fst r = WOk) (fst (run_writer (c_sp c) (pops_forest d f ps) [])) /\
  map out_tag (p_run c (snd (run_writer (c_sp c) (pops_forest d f ps) [])) [RAll]) = map Some (flat (wtags (pops_forest d f ps))) ++ [None].
Proof. exact mixed_write_read_roundtrip_known. Qed.

(* on the outcome list: exactly the items of the document with their offsets, then the clean end ONone; their tags are the tags
   of the write calls, Full items unrolled.  Hypotheses: [strict c], [c_buffered c = []], [c_emit_eof c = true],
   [pconfg_forest (c_sp c) d [] f ps], [Forall (rconf c) f], every master of known size, [dstart c f]. *)
Theorem C01_mixed_roundtrip_known_partial_strong : forall c d f ps, strict c -> c_buffered c = [] -> c_emit_eof c = true ->
  pconfg_forest (c_sp c) d [] f ps -> Forall (rconf c) f -> Forall all_known f -> dstart c f ->
  Forall (fun r => fst r = WOk) (fst (run_writer (c_sp c) (pops_forest d f ps) [])) /\
  p_run c (snd (run_writer (c_sp c) (pops_forest d f ps) [])) [RAll] = items_forest 0 f ++ [ONone] /\
  map out_tag (items_forest 0 f) = map Some (flat (wtags (pops_forest d f ps))).
Proof. exact mixed_write_read_roundtrip_known_strong. Qed.

(* write -> read for the second class without start hypothesis, consistent specification (on the outcome list).  Hypotheses:
   [strict c], [c_buffered c = []], [c_emit_eof c = true], [consistent (c_sp c)], [Forall (wconfg (c_sp c) d []) f],
   [Forall (rconf c) f], every master of known size.  Every write succeeds, the reader yields exactly the items of the document
   then ONone, and their tags are the written tags. *)
Theorem C01_roundtrip_known_consistent_partial_strong : forall c d f, strict c -> c_buffered c = [] -> c_emit_eof c = true ->
  consistent (c_sp c) -> Forall (wconfg (c_sp c) d []) f -> Forall (rconf c) f -> Forall all_known f ->
  Forall (fun r => fst r = WOk) (fst (run_writer (c_sp c) (wops_forest d f) [])) /\
  p_run c (snd (run_writer (c_sp c) (wops_forest d f) [])) [RAll] = items_forest 0 f ++ [ONone] /\
  map out_tag (items_forest 0 f) = map op_tag (wops_forest d f).
Proof. exact write_read_roundtrip_known_consistent_strong. Qed.

(* ... with every top-level master given as one Full item ([fconfg] in place of [wconfg]) *)
Theorem C01_full_roundtrip_known_consistent_partial_strong : forall c d f, strict c -> c_buffered c = [] -> c_emit_eof c = true ->
  consistent (c_sp c) -> Forall (fconfg (c_sp c) d []) f -> Forall (rconf c) f -> Forall all_known f ->
  Forall (fun r => fst r = WOk) (fst (run_writer (c_sp c) (fops d f) [])) /\
  p_run c (snd (run_writer (c_sp c) (fops d f) [])) [RAll] = items_forest 0 f ++ [ONone] /\
  map out_tag (items_forest 0 f) = map Some (flat (map full_tag f)).
Proof. exact full_write_read_roundtrip_known_consistent_strong. Qed.

(* ... and with any mix of Full items and separate Start / End calls ([pconfg_forest (c_sp c) d [] f ps]) *)
Theorem C01_mixed_roundtrip_known_consistent_partial_strong : forall c d f ps, strict c -> c_buffered c = [] -> c_emit_eof c = true ->
  consistent (c_sp c) -> pconfg_forest (c_sp c) d [] f ps -> Forall (rconf c) f -> Forall all_known f ->
  Forall (fun r => fst r = WOk) (fst (run_writer (c_sp c) (pops_forest d f ps) [])) /\
  p_run c (snd (run_writer (c_sp c) (pops_forest d f ps) [])) [RAll] = items_forest 0 f ++ [ONone] /\
  map out_tag (items_forest 0 f) = map Some (flat (wtags (pops_forest d f ps))).
Proof. exact mixed_write_read_roundtrip_known_consistent_strong. Qed.

(* every presentation of a document written with default options whose masters all have a known size conforms: as Full items
   ([fconfg]) and as any mix of Full items and separate Start / End calls ([pconfg_forest], every [ps]) *)
Theorem C01_known_default_every_presentation : forall sp ids f ps, Forall (wconfg sp true ids) f -> Forall all_known f ->
  Forall (fconfg sp true ids) f /\ pconfg_forest sp true ids f ps.
Proof. intros sp ids f ps Hw Hk. split; [apply wconfg_fconfg_forest; assumption|apply wconfg_pconfg_forest; assumption]. Qed.

(* the document of C01k_doc with the payloads and size widths the writer chooses under default options:
   Top { Void } Root { Void Seg { Val 5 Void Rec { Leaf } } Rec { Leaf Rec { Void Leaf } Void } Void } Root { } *)
Definition C01g_leaf : rtree := RLeaf 16642 (VB [7]) [7] 1%nat.
Definition C01g_doc : list rtree :=
  [ RNode 132 (Some 1%nat) [ C01k_void ];
    RNode 129 (Some 1%nat)
      [ C01k_void;
        RNode 130 (Some 1%nat) [ RLeaf 16641 (VU 5) [5] 1%nat; C01k_void; RNode 131 (Some 1%nat) [ C01g_leaf ] ];
        RNode 131 (Some 1%nat) [ C01g_leaf; RNode 131 (Some 1%nat) [ C01k_void; C01g_leaf ]; C01k_void ];
        C01k_void ];
    RNode 129 (Some 1%nat) [] ].

Example C01_ex_global_wconf :
  Forall (wconfg C01k_sp true []) C01g_doc /\ Forall (rconf C01k_cfg) C01g_doc /\ Forall all_known C01g_doc /\ dstart C01k_cfg C01g_doc.
Proof.
  assert (I1 : idok 129) by (exists 1%nat, 1; repeat split; cbn; lia).
  assert (I2 : idok 130) by (exists 1%nat, 2; repeat split; cbn; lia).
  assert (I3 : idok 131) by (exists 1%nat, 3; repeat split; cbn; lia).
  assert (I4 : idok 132) by (exists 1%nat, 4; repeat split; cbn; lia).
  assert (I5 : idok 236) by (exists 1%nat, 108; repeat split; cbn; lia).
  assert (I6 : idok 16641) by (exists 2%nat, 257; repeat split; cbn; lia).
  assert (I7 : idok 16642) by (exists 2%nat, 258; repeat split; cbn; lia).
  assert (F1 : forall n, n < 127 -> field_ok true 1 n).
  { intros n Hn. split; [lia|]. split; [change (2 ^ (7 * N.of_nat 1) - 1) with 127; exact Hn|]. intros _. symmetry. apply find_size_len_small, Hn. }
  split; [|split; [|split]].
  - assert (V : forall ids, path_matches [PGlobal (Some 1) None] ids = true -> wconfg C01k_sp true ids C01k_void).
    { intros ids Hp. split; [exact Hp|]. exists DBinary. split; [reflexivity|]. split; [discriminate|]. split; [exact I|].
      split; [reflexivity|apply F1; cbn; lia]. }
    assert (L : forall ids, path_matches [PId 129; PGlobal None None; PId 131] ids = true -> wconfg C01k_sp true ids C01g_leaf).
    { intros ids Hp. split; [exact Hp|]. exists DBinary. split; [reflexivity|]. split; [discriminate|]. split; [exact I|].
      split; [reflexivity|apply F1; cbn; lia]. }
    assert (N : forall ids id cs, get_type C01k_sp id = Some DMaster -> path_matches (get_path C01k_sp id) ids = true -> flen cs < 127 ->
              Forall (wconfg C01k_sp true (ids ++ [id])) cs -> wconfg C01k_sp true ids (RNode id (Some 1%nat) cs)).
    { intros ids id cs H1 H2 H3 H4. apply wconfg_node. split; [exact H2|]. split; [exact H1|]. split; [|exact H4].
      intros sl Hsl. injection Hsl as <-. apply F1, H3. }
    constructor; [|constructor; [|constructor; [|constructor]]].
    + apply N; [reflexivity|reflexivity|vm_compute; reflexivity|]. constructor; [apply V; reflexivity|constructor].
    + apply N; [reflexivity|reflexivity|vm_compute; reflexivity|].
      constructor; [apply V; reflexivity|]. constructor; [|constructor; [|constructor; [apply V; reflexivity|constructor]]].
      * apply N; [reflexivity|reflexivity|vm_compute; reflexivity|].
        constructor; [|constructor; [apply V; reflexivity|constructor; [|constructor]]].
        -- split; [reflexivity|]. exists DUInt. split; [reflexivity|]. split; [discriminate|]. split; [exact I|].
           split; [reflexivity|apply F1; cbn; lia].
        -- apply N; [reflexivity|reflexivity|vm_compute; reflexivity|]. constructor; [apply L; reflexivity|constructor].
      * apply N; [reflexivity|reflexivity|vm_compute; reflexivity|].
        constructor; [apply L; reflexivity|]. constructor; [|constructor; [apply V; reflexivity|constructor]].
        apply N; [reflexivity|reflexivity|vm_compute; reflexivity|].
        constructor; [apply V; reflexivity|constructor; [apply L; reflexivity|constructor]].
    + apply N; [reflexivity|reflexivity|vm_compute; reflexivity|]. constructor.
  - assert (V : rconf C01k_cfg C01k_void).
    { split; [exact I5|]. split; [repeat constructor; lia|vm_compute; discriminate]. }
    assert (L : rconf C01k_cfg C01g_leaf).
    { split; [exact I7|]. split; [repeat constructor; lia|vm_compute; discriminate]. }
    assert (N : forall id cs, idok id -> flen cs <= 4000000000 -> Forall (rconf C01k_cfg) cs -> rconf C01k_cfg (RNode id (Some 1%nat) cs)).
    { intros id cs H1 H2 H3. apply rconf_node. split; [exact H1|]. split; [exact H2|exact H3]. }
    constructor; [|constructor; [|constructor; [|constructor]]].
    + apply N; [assumption|vm_compute; discriminate|]. constructor; [exact V|constructor].
    + apply N; [assumption|vm_compute; discriminate|].
      constructor; [exact V|]. constructor; [|constructor; [|constructor; [exact V|constructor]]].
      * apply N; [assumption|vm_compute; discriminate|].
        constructor; [|constructor; [exact V|constructor; [|constructor]]].
        -- split; [exact I6|]. split; [vm_compute; reflexivity|vm_compute; discriminate].
        -- apply N; [assumption|vm_compute; discriminate|]. constructor; [exact L|constructor].
      * apply N; [assumption|vm_compute; discriminate|].
        constructor; [exact L|]. constructor; [|constructor; [exact V|constructor]].
        apply N; [assumption|vm_compute; discriminate|]. constructor; [exact V|constructor; [exact L|constructor]].
    + apply N; [assumption|vm_compute; discriminate|]. constructor.
  - repeat constructor; discriminate.
  - cbn [dstart C01g_doc]. right. split; [reflexivity|]. left. reflexivity.
Qed.

(* global elements at depths 1, 2 and 3, a recursive master nested in itself and below a named master, a global master before
   the first root, written tag by tag with default options: every call succeeds (nothing leaves the writer while a known-size
   master is open: 5, then 46, then 48 bytes delivered), the bytes are the structural encoding, and the strict reader yields
   the written tags *)
Example C01_ex_global_roundtrip :
  map fst (fst (run_writer C01k_sp (wops_forest true C01g_doc) [])) = repeat WOk 24 /\
  map snd (fst (run_writer C01k_sp (wops_forest true C01g_doc) [])) = (repeat 0 2 ++ repeat 5 19 ++ [46; 46; 48])%nat /\
  snd (run_writer C01k_sp (wops_forest true C01g_doc) []) = enc_forest C01g_doc /\
  map out_tag (p_run C01k_cfg (snd (run_writer C01k_sp (wops_forest true C01g_doc) [])) [RAll]) =
    map op_tag (wops_forest true C01g_doc) ++ [None] /\
  map op_tag (wops_forest true C01g_doc) =
    [Some (TStart 132); Some (TElem 236 (VB [0])); Some (TEnd 132);
     Some (TStart 129); Some (TElem 236 (VB [0]));
     Some (TStart 130); Some (TElem 16641 (VU 5)); Some (TElem 236 (VB [0])); Some (TStart 131); Some (TElem 16642 (VB [7])); Some (TEnd 131);
     Some (TEnd 130);
     Some (TStart 131); Some (TElem 16642 (VB [7])); Some (TStart 131); Some (TElem 236 (VB [0])); Some (TElem 16642 (VB [7])); Some (TEnd 131);
     Some (TElem 236 (VB [0])); Some (TEnd 131);
     Some (TElem 236 (VB [0])); Some (TEnd 129); Some (TStart 129); Some (TEnd 129)].
Proof. vm_compute. repeat split; reflexivity. Qed.

(* the hypotheses of C01_full_roundtrip_known_partial(_strong) and C01_mixed_roundtrip_known_partial(_strong) hold for that
   document (default options): every top-level master as one Full item ([fconfg]), and a mix ([pconfg_forest]) in which Top is a
   Full item, the first Root is written with separate Start / End calls, inside it Seg is a Full item and the outer Rec is
   written separately with its inner Rec as a Full item, and the second Root is written separately *)
Definition C01g_pres : list pres := [ PFull; PSep [ PFull; PFull; PSep [ PFull; PFull; PFull ]; PFull ]; PSep [] ].

Example C01_ex_global_presentations :
  Forall (fconfg C01k_sp true []) C01g_doc /\ pconfg_forest C01k_sp true [] C01g_doc C01g_pres /\
  Forall (rconf C01k_cfg) C01g_doc /\ Forall all_known C01g_doc /\ dstart C01k_cfg C01g_doc.
Proof.
  destruct C01_ex_global_wconf as [Hw [Hr [Hk Hd]]].
  destruct (C01_known_default_every_presentation C01k_sp [] C01g_doc C01g_pres Hw Hk) as [H1 H2].
  split; [exact H1|]. split; [exact H2|]. split; [exact Hr|]. split; assumption.
Qed.

(* the calls of the mix (Full items, Starts and Ends), all successful; the bytes are the structural encoding; the strict reader
   yields exactly the items of the document, then the clean end; written as Full items only, the same *)
Example C01_ex_mixed_roundtrip :
  wtags (pops_forest true C01g_doc C01g_pres) =
    [TFull 132 [TElem 236 (VB [0])];
     TStart 129; TElem 236 (VB [0]);
     TFull 130 [TElem 16641 (VU 5); TElem 236 (VB [0]); TFull 131 [TElem 16642 (VB [7])]];
     TStart 131; TElem 16642 (VB [7]); TFull 131 [TElem 236 (VB [0]); TElem 16642 (VB [7])]; TElem 236 (VB [0]); TEnd 131;
     TElem 236 (VB [0]); TEnd 129;
     TStart 129; TEnd 129] /\
  map fst (fst (run_writer C01k_sp (pops_forest true C01g_doc C01g_pres) [])) = repeat WOk 13 /\
  snd (run_writer C01k_sp (pops_forest true C01g_doc C01g_pres) []) = enc_forest C01g_doc /\
  p_run C01k_cfg (snd (run_writer C01k_sp (pops_forest true C01g_doc C01g_pres) [])) [RAll] = items_forest 0 C01g_doc ++ [ONone] /\
  map fst (fst (run_writer C01k_sp (fops true C01g_doc) [])) = repeat WOk 3 /\
  p_run C01k_cfg (snd (run_writer C01k_sp (fops true C01g_doc) [])) [RAll] = items_forest 0 C01g_doc ++ [ONone] /\
  last (items_forest 0 C01g_doc ++ [ONone]) OPanic = ONone.
Proof. vm_compute. repeat split; reflexivity. Qed.
