(* C01 — write→read round trip.  Statements only.
   Reader half (this file, first part): the strict reader yields exactly the items of every conforming encoded document.
   [rtree] (Model/Encode.v) is a document together with all the choices an encoder may make: the width of every size field,
   known or unknown size per master, the payload bytes of every element (any bytes the element's type decodes to the value).
   [conf c ids t] says the tree conforms to the specification: ids are well-formed vints, every element is declared with
   exactly the chain of masters it sits in as its path, payloads decode, sizes fit their fields and the configured limit.
   PARTIAL: declared paths without global placeholders; tags written as Full are covered through C09_full_decomposes
   (a Full is written as Start, children, End); raw tags are covered by the correspondence check only. *)
From Ebml Require Import Base Tools Spec Writer Reader Pure Encode Proofs.Tactics Proofs.ReaderIO Proofs.Refine Proofs.PureProofs Proofs.RoundTrip.

(* every conforming document — any nesting depth, any payloads, any size widths, any subset of masters of unknown size — is
   read back as exactly its items (masters as Start/End pairs, offsets of the first byte of each element), then None *)
Theorem C01_reader_roundtrip_partial : forall c f, strict c -> c_buffered c = [] -> c_emit_eof c = true -> Forall (conf c []) f ->
  p_run c (enc_forest f) [RAll] = items_forest 0 f ++ [ONone].
Proof. exact reader_roundtrip. Qed.

(* ... by the buffered reader too, for every buffer capacity and every way the source chunks its reads *)
Theorem C01_reader_roundtrip_buffered_partial : forall c f cap0 script, calm script -> strict c -> c_buffered c = [] ->
  c_emit_eof c = true -> Forall (conf c []) f -> run_reader c cap0 script (enc_forest f) [RAll] = items_forest 0 f ++ [ONone].
Proof. exact reader_roundtrip_buffered. Qed.

(* the tags alone *)
Theorem C01_reader_roundtrip_tags_partial : forall c f, strict c -> c_buffered c = [] -> c_emit_eof c = true -> Forall (conf c []) f ->
  map out_tag (p_run c (enc_forest f) [RAll]) = map Some (tags_forest f) ++ [None].
Proof. exact reader_roundtrip_tags. Qed.

(* the hypotheses are satisfiable: a document with an unknown-size master nested in an unknown-size master, closed by a
   sibling of the inner one; a second root closes the first *)
Definition C01_sp : spec :=
  [ {| e_id := 129; e_ty := DMaster; e_path := [] |}; {| e_id := 16643; e_ty := DMaster; e_path := [PId 129] |};
    {| e_id := 16642; e_ty := DBinary; e_path := [PId 129; PId 16643] |}; {| e_id := 16641; e_ty := DUInt; e_path := [PId 129] |} ].
Definition C01_cfg : cfg :=
  {| c_sp := C01_sp; c_allow_id := false; c_allow_hier := false; c_allow_over := false; c_max := Some 4000000000; c_buffered := [];
     c_emit_eof := true |}.
Definition C01_doc : list rtree :=
  [ RNode 129 None [ RNode 16643 None [ RLeaf 16642 (VB [7]) [7] 1%nat ]; RLeaf 16641 (VU 5) [0; 5] 2%nat ]; RNode 129 (Some 1%nat) [] ].

Example C01_ex_conf : strict C01_cfg /\ Forall (conf C01_cfg []) C01_doc.
Proof.
  assert (I1 : idok 129) by (exists 1%nat, 1; repeat split; cbn; lia).
  assert (I2 : idok 16643) by (exists 2%nat, 259; repeat split; cbn; lia).
  assert (I3 : idok 16642) by (exists 2%nat, 258; repeat split; cbn; lia).
  assert (I4 : idok 16641) by (exists 2%nat, 257; repeat split; cbn; lia).
  split; [repeat split|].
  assert (L1 : conf C01_cfg [129; 16643] (RLeaf 16642 (VB [7]) [7] 1%nat)).
  { cbn [conf]. repeat split; try assumption; try lia; try (cbn; lia); try (repeat constructor; lia).
    exists DBinary. repeat split. discriminate. }
  assert (L2 : conf C01_cfg [129] (RLeaf 16641 (VU 5) [0; 5] 2%nat)).
  { cbn [conf]. repeat split; try assumption; try lia; try (cbn; lia); try (repeat constructor; lia).
    exists DUInt. repeat split. discriminate. }
  assert (N1 : conf C01_cfg [129] (RNode 16643 None [RLeaf 16642 (VB [7]) [7] 1%nat])).
  { apply conf_node. split; [exact I2|]. split; [intros sl Hsl; discriminate Hsl|]. repeat split. constructor; [exact L1|constructor]. }
  constructor; [|constructor; [|constructor]].
  - apply conf_node. split; [exact I1|]. split; [intros sl Hsl; discriminate Hsl|]. repeat split.
    constructor; [exact N1|constructor; [exact L2|constructor]].
  - apply conf_node. split; [exact I1|]. split; [intros sl Hsl; injection Hsl as <-; split; [lia|vm_compute; reflexivity]|]. repeat split; [vm_compute; discriminate|constructor].
Qed.

Example C01_ex_run :
  p_run C01_cfg (enc_forest C01_doc) [RAll] =
    [OItem (TStart 129) 0; OItem (TStart 16643) 9; OItem (TElem 16642 (VB [7])) 19; OItem (TEnd 16643) 9;
     OItem (TElem 16641 (VU 5)) 23; OItem (TEnd 129) 0; OItem (TStart 129) 29; OItem (TEnd 129) 29; ONone].
Proof. vm_compute. reflexivity. Qed.
