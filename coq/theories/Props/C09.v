(* C09 — writer output does not depend on how the same document is presented.  Statements only. *)
From Ebml Require Import Base Tools Spec Writer Reader Pure Encode Proofs.Tactics Proofs.SpecProofs Proofs.WriterProofs Proofs.RoundTrip Proofs.WriteEnc Proofs.WriteFull Proofs.WriteMixed Proofs.WriteEncG Proofs.WriteScripts Proofs.AuditWriter.

(* the deprecated unknown-size call is the option-based one *)
Theorem C09_deprecated : forall sp st t, wstep sp st (OpWriteUnknown t) = wstep sp st (OpWrite t {| o_len := None; o_unknown := true |}).
Proof. reflexivity. Qed.

(* a Full item is buffered as: its Start (same options), its children (default options), its End *)
Theorem C09_full_decomposes : forall sp id cs o st st2,
  buffer_tag sp (TFull id cs) o st = (st2, WOk) ->
  exists st1 stc, buffer_tag sp (TStart id) o st = (st1, WOk) /\
                  children_loop sp (S (length (w_open st))) cs st1 = (stc, WOk) /\
                  buffer_tag sp (TEnd id) o_default stc = (st2, WOk).
Proof. exact full_is_start_children_end. Qed.

(* an element write appends exactly id ++ size field ++ payload; the payload depends on the value only, an explicit width
   is honoured exactly by the size field and touches nothing else *)
Theorem C09_element_layout : forall st id ty v sl st1, write_element st id ty v sl = (st1, WOk) ->
  exists field, w_buf st1 = w_buf st ++ id_bytes id ++ field ++ payload_of v /\ w_open st1 = w_open st /\
                ((1 <= sl <= 8)%nat -> length field = sl).
Proof. exact element_layout. Qed.

Theorem C09_width_exact : forall n w f, size_to_vint n (S w) = Some f -> length f = S w.
Proof. exact size_to_vint_width. Qed.

(* the delivered bytes are a function of the call sequence: however the destination splits the writes (any script without a
   hard error), write_all delivers exactly the data *)
Theorem C09_write_all_complete : forall script data dest d s, write_all script data dest = (d, s, None) -> d = dest ++ data.
Proof.
  induction script as [|w script IH]; intros data dest d s H.
  - unfold write_all in H. destruct data; inversion H; subst; [rewrite app_nil_r|]; reflexivity.
  - destruct data as [|b data]; [cbn in H; inversion H; subst; rewrite app_nil_r; reflexivity|].
    cbn [write_all] in H. destruct w as [n| | |c]; try (inversion H; fail).
    + destruct n; [inversion H|]. apply IH in H. rewrite H, <- app_assoc. f_equal. apply firstn_skipn.
    + apply IH in H. exact H.
Qed.

(* ... and so does every whole run: for every specification and every call sequence (rejected calls, raw writes, flush and
   into_inner included), a destination that never fails hard (every write() accepts at least one byte or is Interrupted:
   [benign]) sees the same result for every call, the same number of delivered bytes after every call and the same final
   bytes as the destination that accepts everything at once (the empty script) *)
Theorem C09_script_irrelevant : forall sp ops s, benign s -> run_writer sp ops s = run_writer sp ops [].
Proof. exact script_irrelevant. Qed.

(* hence any two such destinations agree *)
Theorem C09_script_irrelevant2 : forall sp ops s1 s2, benign s1 -> benign s2 -> run_writer sp ops s1 = run_writer sp ops s2.
Proof. exact script_irrelevant2. Qed.

(* a run with a rejected call (16642 outside of its parent), a raw write, known- and unknown-size masters and a final
   into_inner, against a destination that takes a few bytes at a time (the last write offers more room than
   there are bytes left) with Interrupted errors in between *)
Example C09_script_ex :
  let sp := [ {| e_id := 129; e_ty := DMaster; e_path := [] |}; {| e_id := 16643; e_ty := DMaster; e_path := [PId 129] |};
              {| e_id := 16642; e_ty := DBinary; e_path := [PId 129; PId 16643] |} ] in
  let u := {| o_len := None; o_unknown := true |} in
  let ops := [OpWrite (TStart 129) u; OpWrite (TElem 16642 (VB [7; 8])) o_default; OpWrite (TStart 16643) o_default;
              OpWrite (TElem 16642 (VB [7; 8])) o_default; OpRaw 16642 [9; 10; 11]; OpFlush;
              OpWrite (TFull 129 [TFull 16643 [TElem 16642 (VB [1; 2; 3])]]) o_default; OpIntoInner] in
  let s := [WAcc 1; WInt; WAcc 2; WInt; WInt; WAcc 1; WAcc 1; WInt; WAcc 2; WAcc 1; WInt; WAcc 1; WAcc 2; WAcc 1; WInt;
            WAcc 1; WAcc 1; WAcc 2; WInt; WInt; WAcc 1; WAcc 1; WAcc 2; WAcc 1; WInt; WAcc 3; WAcc 1; WAcc 1; WInt; WAcc 1;
            WAcc 2; WInt; WAcc 1; WAcc 7] in
  benign s /\ run_writer sp ops s = run_writer sp ops [] /\
  map fst (fst (run_writer sp ops s)) =
    [WOk; WErr (EUnexpectedTag 16642 [129]); WOk; WOk; WOk; WOk; WOk; WOk] /\
  map snd (fst (run_writer sp ops s)) = [9; 9; 9; 9; 9; 23; 34; 34]%nat.
Proof.
  split; [repeat constructor|]. vm_compute. repeat split; reflexivity.
Qed.

Example C09_ex :
  let sp := [ {| e_id := 129; e_ty := DMaster; e_path := [] |}; {| e_id := 16643; e_ty := DMaster; e_path := [PId 129] |};
              {| e_id := 16642; e_ty := DBinary; e_path := [PId 129; PId 16643] |} ] in
  let u := {| o_len := None; o_unknown := true |} in
  (* Full with the unknown-size option = Start(unknown), children, End *)
  snd (run_writer sp [OpWrite (TFull 129 [TFull 16643 [TElem 16642 (VB [7; 8])]]) u; OpIntoInner] []) =
  snd (run_writer sp [OpWrite (TStart 129) u; OpWrite (TStart 16643) o_default; OpWrite (TElem 16642 (VB [7; 8])) o_default;
                      OpWrite (TEnd 16643) o_default; OpWrite (TEnd 129) o_default; OpIntoInner] [WAcc 1; WInt; WAcc 3]).
Proof. vm_compute. reflexivity. Qed.

(* ------------------------------------------------------------------ whole documents (Proofs/WriteEnc.v, Proofs/WriteFull.v,
   Proofs/WriteMixed.v) *)
(* The flag d is global to a document: d = true — every call is made with default options (masters of unknown size by option), and the
   conformance predicates then require every recorded width to be the shortest one; d = false — every call names its width
   explicitly.  Mixing defaults and explicit widths inside one document is outside these theorems.  The destination is the one that
   accepts everything (empty script; other benign destinations: C09_script_irrelevant); a failure of the destination's own flush()
   after delivery is not modelled. *)
(* a document f every tree of which conforms for writing ([wconf sp d []]: declared paths without placeholders, values of the declared
   types, sizes that fit the widths, d as above), written tag by tag (Start / elements / End; unknown size by option): every call
   succeeds and the output is its structural encoding [enc_forest], in which options show up only in the size fields they govern *)
Theorem C09_separate_calls_encode : forall sp d f, Forall (wconf sp d []) f ->
  Forall (fun r => fst r = WOk) (fst (run_writer sp (wops_forest d f) [])) /\ snd (run_writer sp (wops_forest d f) []) = enc_forest f.
Proof. exact writer_encodes. Qed.

(* a document every top-level tree of which conforms as one Full item ([fconf sp d []]: the item's own size option follows d; everything
   inside a Full is written with default options, so every master inside has a known size, [all_known], and the shortest widths),
   written with one call per top-level tree: every call succeeds and the output is the same structural encoding ... *)
Theorem C09_full_items_encode : forall sp d f, Forall (fconf sp d []) f ->
  Forall (fun r => fst r = WOk) (fst (run_writer sp (fops d f) [])) /\ snd (run_writer sp (fops d f) []) = enc_forest f.
Proof. exact full_encodes. Qed.

(* ... hence byte-identical output for the two presentations, although the separate calls flush in between whenever only
   unknown-size masters are open and the Full call does not.  Restricted to d = true (default options everywhere) and to documents
   in which EVERY master, the top-level ones included, has a known size ([all_known]) and which conform as Full items *)
Theorem C09_full_equals_separate : forall sp f, Forall (fconf sp true []) f -> Forall all_known f ->
  snd (run_writer sp (fops true f) []) = snd (run_writer sp (wops_forest true f) []).
Proof. exact full_equals_separate. Qed.

(* arbitrary mixes: at every master independently, either one Full item (everything inside is part of the item: default
   options, known sizes) or Start, children (each by its own choice, [pres]), End.  [pops_forest d f ps] are the calls,
   [pconf_forest sp d [] f ps] the conformance the chosen presentation needs; the bytes are the structural encoding, which
   does not mention the presentation ... *)
Theorem C09_mixed_encodes : forall sp d f ps, pconf_forest sp d [] f ps ->
  Forall (fun r => fst r = WOk) (fst (run_writer sp (pops_forest d f ps) [])) /\
  snd (run_writer sp (pops_forest d f ps) []) = enc_forest f.
Proof. exact mixed_encodes. Qed.

(* ... hence any two presentations of the same document give byte-identical output *)
Theorem C09_presentation_irrelevant : forall sp d f ps1 ps2, pconf_forest sp d [] f ps1 -> pconf_forest sp d [] f ps2 ->
  snd (run_writer sp (pops_forest d f ps1) []) = snd (run_writer sp (pops_forest d f ps2) []).
Proof. exact presentation_irrelevant. Qed.

(* the two extreme presentations above are instances: all separate = [map all_sep f], all Full = [[]] *)
Theorem C09_mixed_all_separate : forall sp d f, Forall (wconf sp d []) f ->
  pops_forest d f (map all_sep f) = wops_forest d f /\ pconf_forest sp d [] f (map all_sep f).
Proof. exact mixed_all_separate. Qed.

Theorem C09_mixed_all_full : forall sp d f, Forall (fconf sp d []) f ->
  pops_forest d f [] = fops d f /\ pconf_forest sp d [] f [].
Proof. exact mixed_all_full. Qed.

(* an unknown-size master 129 holding an element, a master 16643 (with an element and a nested master 16647) and a master
   16645, written (1) call by call: 12 calls, (2) as one Full item with the unknown-size option: 1 call, (3) mixed: 129 by
   Start(unknown) / End, 16643 with everything inside as one Full item, its siblings call by call: 7 calls.  Identical bytes,
   the structural encoding. *)
Example C09_mixed_ex :
  let sp := [ {| e_id := 129; e_ty := DMaster; e_path := [] |};
              {| e_id := 16644; e_ty := DUInt; e_path := [PId 129] |};
              {| e_id := 16643; e_ty := DMaster; e_path := [PId 129] |};
              {| e_id := 16642; e_ty := DBinary; e_path := [PId 129; PId 16643] |};
              {| e_id := 16647; e_ty := DMaster; e_path := [PId 129; PId 16643] |};
              {| e_id := 16648; e_ty := DUInt; e_path := [PId 129; PId 16643; PId 16647] |};
              {| e_id := 16645; e_ty := DMaster; e_path := [PId 129] |};
              {| e_id := 16646; e_ty := DUtf8; e_path := [PId 129; PId 16645] |} ] in
  let f := [ RNode 129 None
               [ RLeaf 16644 (VU 5) [5%N] 1%nat;
                 RNode 16643 (Some 1%nat) [ RLeaf 16642 (VB [7%N; 8%N]) [7%N; 8%N] 1%nat;
                                            RNode 16647 (Some 1%nat) [ RLeaf 16648 (VU 300) [1%N; 44%N] 1%nat ] ];
                 RNode 16645 (Some 1%nat) [ RLeaf 16646 (VS [104%N; 105%N]) [104%N; 105%N] 1%nat ] ] ] in
  let separate := map all_sep f in
  let full := [PFull] in
  let mixed := [PSep [PFull; PFull; PSep [PFull]]] in
  let out ps := snd (run_writer sp (pops_forest true f ps) []) in
  let calls ps := map fst (fst (run_writer sp (pops_forest true f ps) [])) in
  pops_forest true f mixed =
    [OpWrite (TStart 129) {| o_len := None; o_unknown := true |};
     OpWrite (TElem 16644 (VU 5)) o_default;
     OpWrite (TFull 16643 [TElem 16642 (VB [7%N; 8%N]); TFull 16647 [TElem 16648 (VU 300)]]) o_default;
     OpWrite (TStart 16645) o_default; OpWrite (TElem 16646 (VS [104%N; 105%N])) o_default; OpWrite (TEnd 16645) o_default;
     OpWrite (TEnd 129) o_default] /\
  calls separate = repeat WOk 12 /\ calls full = repeat WOk 1 /\ calls mixed = repeat WOk 7 /\
  out separate = out full /\ out full = out mixed /\ out mixed = enc_forest f.
Proof. vm_compute. repeat split; reflexivity. Qed.

(* ---- the hypotheses of the document-level theorems are satisfiable (Proofs/AuditWriter.v): [c09_sp] and [c09_doc None] are the
   specification and the document of C09_mixed_ex (top master of unknown size), [c09_doc (Some 1)] the same with a known-size top master,
   [c09_wide] a document with explicit 3-, 2- and 4-byte size fields and an unknown-size master, [c09_wide_full] a Full item with an
   explicit 3-byte size field, [c09_mixed] the mixed presentation of C09_mixed_ex *)

(* C09_separate_calls_encode: d = true (unknown- and known-size top master) and d = false *)
Example C09_ex_hyp_separate :
  Forall (wconf c09_sp true []) (c09_doc None) /\ Forall (wconf c09_sp true []) (c09_doc (Some 1%nat)) /\
  Forall (wconf c09_sp false []) c09_wide.
Proof. split; [apply c09_sep_conf; left; reflexivity|split; [apply c09_sep_conf; right; reflexivity|exact c09_sep_wide_conf]]. Qed.

(* C09_full_items_encode: d = true with the unknown-size option on the item, d = true with a known size, d = false;
   C09_full_equals_separate: the known-size document is [all_known] *)
Example C09_ex_hyp_full :
  Forall (fconf c09_sp true []) (c09_doc None) /\ Forall (fconf c09_sp true []) (c09_doc (Some 1%nat)) /\
  Forall (fconf c09_sp false []) c09_wide_full /\ Forall all_known (c09_doc (Some 1%nat)).
Proof.
  split; [apply c09_full_conf; left; reflexivity|split; [apply c09_full_conf; right; reflexivity|split; [exact c09_full_wide_conf|exact c09_all_known]]].
Qed.

(* C09_mixed_encodes / C09_presentation_irrelevant: the mixed presentation, the all-separate one and the all-Full one *)
Example C09_ex_hyp_mixed :
  pconf_forest c09_sp true [] (c09_doc None) c09_mixed /\
  pconf_forest c09_sp true [] (c09_doc None) (map all_sep (c09_doc None)) /\ pconf_forest c09_sp true [] (c09_doc None) [].
Proof. exact c09_mixed_conf. Qed.

(* the theorems applied to these documents: all four presentations of the known-size document, and explicit widths *)
Example C09_ex_applied :
  snd (run_writer c09_sp (fops true (c09_doc (Some 1%nat))) []) = snd (run_writer c09_sp (wops_forest true (c09_doc (Some 1%nat))) []) /\
  snd (run_writer c09_sp (pops_forest true (c09_doc None) c09_mixed) []) = enc_forest (c09_doc None) /\
  snd (run_writer c09_sp (wops_forest false c09_wide) []) = enc_forest c09_wide /\
  enc_forest c09_wide = [129; 32; 0; 23; 65; 4; 64; 1; 5; 65; 3; 1; 255; 255; 255; 255; 255; 255; 255; 65; 2; 16; 0; 0; 2; 7; 8].
Proof.
  split; [apply C09_full_equals_separate; [apply c09_full_conf; right; reflexivity|exact c09_all_known]|].
  split; [apply C09_mixed_encodes; apply c09_mixed_conf|].
  split; [apply C09_separate_calls_encode; exact c09_sep_wide_conf|vm_compute; reflexivity].
Qed.

(* ------------------------------------------------------------------ declared paths with global placeholders
   The whole-document statements above use the conformance [wconf] / [fconf] / [pconf] of placeholder-free paths.  With
   [wconfg] / [fconfg] / [pconfg] (Proofs/WriteEncG.v) a declared path only has to MATCH the chain of open masters, so global
   elements at any depth and recursive masters are covered: whatever the presentation (any mix of Full items and separate
   calls, [pres]), every call succeeds and the bytes are the structural encoding ... *)
Theorem C09_mixed_encodes_global : forall sp d f ps, pconfg_forest sp d [] f ps ->
  Forall (fun r => fst r = WOk) (fst (run_writer sp (pops_forest d f ps) [])) /\
  snd (run_writer sp (pops_forest d f ps) []) = enc_forest f.
Proof. exact mixed_encodes_g. Qed.

(* ... hence any two presentations of the same document give byte-identical output *)
Theorem C09_presentation_irrelevant_global : forall sp d f ps1 ps2, pconfg_forest sp d [] f ps1 -> pconfg_forest sp d [] f ps2 ->
  snd (run_writer sp (pops_forest d f ps1) []) = snd (run_writer sp (pops_forest d f ps2) []).
Proof. exact presentation_irrelevant_g. Qed.

(* the placeholder-free conformance is a special case *)
Theorem C09_pconf_is_pconfg : forall sp d t ids p, pconf sp d ids t p -> pconfg sp d ids t p.
Proof. intros sp d t ids p. apply pconf_pconfg. Qed.

(* Root(129) { Void(236, declared (-)); Rec(130, declared Root/(-)) { Void } } written as one Full item (1 call), as Start Root /
   Void / Full Rec / End Root (4 calls) and call by call (6 calls): the three presentations conform and give the structural
   encoding *)
Definition C09g_sp : spec :=
  [ {| e_id := 129; e_ty := DMaster; e_path := [] |}; {| e_id := 130; e_ty := DMaster; e_path := [PId 129; PGlobal None None] |};
    {| e_id := 236; e_ty := DBinary; e_path := [PGlobal None None] |} ].
Definition C09g_void : rtree := RLeaf 236 (VB [0]) [0] 1%nat.
Definition C09g_rec : rtree := RNode 130 (Some 1%nat) [ C09g_void ].
Definition C09g_doc : list rtree := [ RNode 129 (Some 1%nat) [ C09g_void; C09g_rec ] ].
Definition C09g_p1 : list pres := [].
Definition C09g_p2 : list pres := [PSep [PFull; PFull]].
Definition C09g_p3 : list pres := map all_sep C09g_doc.
Lemma C09g_void_ok ids : path_matches [PGlobal None None] ids = true -> wconfg C09g_sp true ids C09g_void.
Proof.
  intros Hp. unfold C09g_void. cbn [wconfg]. split; [exact Hp|]. exists DBinary. split; [reflexivity|]. split; [discriminate|].
  split; [vm_compute; tauto|]. split; [reflexivity|]. unfold field_ok. split; [lia|]. split; [vm_compute; reflexivity|]. intros _. vm_compute. reflexivity.
Qed.
Ltac c09g_fok := let sl := fresh "sl" in let E := fresh "E" in
  intros sl E; injection E as <-; unfold field_ok; split; [lia|]; split; [vm_compute; reflexivity|intros _; vm_compute; reflexivity].
Lemma C09g_rec_w : wconfg C09g_sp true [129] C09g_rec.
Proof.
  unfold C09g_rec. cbn [wconfg]. split; [vm_compute; reflexivity|]. split; [reflexivity|]. split; [c09g_fok|].
  split; [apply C09g_void_ok; vm_compute; reflexivity|exact I].
Qed.
Lemma C09g_rec_f : fconfg C09g_sp true [129] C09g_rec.
Proof.
  unfold C09g_rec. cbn [fconfg]. split; [vm_compute; reflexivity|]. split; [reflexivity|]. split; [c09g_fok|].
  split; [constructor; [apply C09g_void_ok; vm_compute; reflexivity|constructor]|]. constructor; [exact I|constructor].
Qed.
Example C09_ex_global :
  pconfg_forest C09g_sp true [] C09g_doc C09g_p1 /\ pconfg_forest C09g_sp true [] C09g_doc C09g_p2 /\ pconfg_forest C09g_sp true [] C09g_doc C09g_p3 /\
  snd (run_writer C09g_sp (pops_forest true C09g_doc C09g_p1) []) = enc_forest C09g_doc /\
  snd (run_writer C09g_sp (pops_forest true C09g_doc C09g_p2) []) = enc_forest C09g_doc /\
  snd (run_writer C09g_sp (pops_forest true C09g_doc C09g_p3) []) = enc_forest C09g_doc /\
  map (@length wop) [pops_forest true C09g_doc C09g_p1; pops_forest true C09g_doc C09g_p2; pops_forest true C09g_doc C09g_p3] = [1; 4; 6]%nat.
Proof.
  assert (V1 : wconfg C09g_sp true [129] C09g_void) by (apply C09g_void_ok; vm_compute; reflexivity).
  split.
  { unfold C09g_doc, C09g_p1. cbn [pconfg_forest phd tl]. split; [|exact I]. rewrite pconfg_full. cbn [fconfg].
    split; [vm_compute; reflexivity|]. split; [reflexivity|]. split; [c09g_fok|].
    split; [constructor; [exact V1|constructor; [exact C09g_rec_w|constructor]]|]. constructor; [exact I|constructor; [|constructor]]. apply all_known_node. split; [discriminate|repeat constructor]. }
  split.
  { unfold C09g_doc, C09g_p2. cbn [pconfg_forest phd tl]. split; [|exact I]. apply pconfg_sep.
    split; [vm_compute; reflexivity|]. split; [reflexivity|]. split; [c09g_fok|].
    cbn [pconfg_forest phd tl app]. split; [exact V1|]. split; [|exact I]. exact C09g_rec_f. }
  split.
  { unfold C09g_doc, C09g_p3, C09g_rec, C09g_void. cbn [map all_sep]. cbn [pconfg_forest phd tl]. split; [|exact I]. apply pconfg_sep.
    split; [vm_compute; reflexivity|]. split; [reflexivity|]. split; [c09g_fok|].
    cbn [pconfg_forest phd tl app]. split; [exact V1|]. split; [|exact I]. apply pconfg_sep.
    split; [vm_compute; reflexivity|]. split; [reflexivity|]. split; [c09g_fok|].
    cbn [pconfg_forest phd tl app]. split; [|exact I]. apply C09g_void_ok. vm_compute. reflexivity. }
  vm_compute. repeat split; reflexivity.
Qed.
