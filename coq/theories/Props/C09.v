(* C09 — writer output does not depend on how the same document is presented.  Statements only. *)
From Ebml Require Import Base Tools Spec Writer Reader Pure Encode Proofs.Tactics Proofs.SpecProofs Proofs.WriterProofs Proofs.RoundTrip Proofs.WriteEnc Proofs.WriteFull.

(* the deprecated unknown-size call is the option-based one *)
Theorem C09_deprecated : forall sp st t, wstep sp st (OpWriteUnknown t) = wstep sp st (OpWrite t {| o_len := None; o_unknown := true |}).
Proof. reflexivity. Qed.

(* a Full item is buffered as: its Start (same options), its children (default options), its End *)
Theorem C09_full_decomposes : forall sp id cs o st st2,
  buffer_tag sp (TFull id cs) o st = (st2, WOk) ->
  exists st1 stc, buffer_tag sp (TStart id) o st = (st1, WOk) /\
                  children_loop sp (S (length (w_open st))) cs st1 = (stc, WOk) /\
                  buffer_tag sp (TEnd id) o_default stc = (st2, WOk).
Proof. exact full_is_start_children_end. Qed.

(* an element write appends exactly id ++ size field ++ payload; the payload depends on the value only, an explicit width
   is honoured exactly by the size field and touches nothing else *)
Theorem C09_element_layout : forall st id ty v sl st1, write_element st id ty v sl = (st1, WOk) ->
  exists field, w_buf st1 = w_buf st ++ id_bytes id ++ field ++ payload_of v /\ w_open st1 = w_open st /\
                ((1 <= sl <= 8)%nat -> length field = sl).
Proof. exact element_layout. Qed.

Theorem C09_width_exact : forall n w f, size_to_vint n (S w) = Some f -> length f = S w.
Proof. exact size_to_vint_width. Qed.

(* the delivered bytes are a function of the call sequence: however the destination splits the writes (any script without a
   hard error), write_all delivers exactly the data *)
Theorem C09_write_all_complete : forall script data dest d s, write_all script data dest = (d, s, None) -> d = dest ++ data.
Proof.
  induction script as [|w script IH]; intros data dest d s H.
  - unfold write_all in H. destruct data; inversion H; subst; [rewrite app_nil_r|]; reflexivity.
  - destruct data as [|b data]; [cbn in H; inversion H; subst; rewrite app_nil_r; reflexivity|].
    cbn [write_all] in H. destruct w as [n| | |c]; try (inversion H; fail).
    + destruct n; [inversion H|]. apply IH in H. rewrite H, <- app_assoc. f_equal. apply firstn_skipn.
    + apply IH in H. exact H.
Qed.

Example C09_ex :
  let sp := [ {| e_id := 129; e_ty := DMaster; e_path := [] |}; {| e_id := 16643; e_ty := DMaster; e_path := [PId 129] |};
              {| e_id := 16642; e_ty := DBinary; e_path := [PId 129; PId 16643] |} ] in
  let u := {| o_len := None; o_unknown := true |} in
  (* Full with the unknown-size option = Start(unknown), children, End *)
  snd (run_writer sp [OpWrite (TFull 129 [TFull 16643 [TElem 16642 (VB [7; 8])]]) u; OpIntoInner] []) =
  snd (run_writer sp [OpWrite (TStart 129) u; OpWrite (TStart 16643) o_default; OpWrite (TElem 16642 (VB [7; 8])) o_default;
                      OpWrite (TEnd 16643) o_default; OpWrite (TEnd 129) o_default; OpIntoInner] [WAcc 1; WInt; WAcc 3]).
Proof. vm_compute. reflexivity. Qed.

(* ------------------------------------------------------------------ whole documents (Proofs/WriteEnc.v, Proofs/WriteFull.v) *)
(* a conforming document written tag by tag (Start / elements / End; explicit widths or defaults; unknown size by option)
   gives its structural encoding [enc_forest], in which options show up only in the size fields they govern *)
Theorem C09_separate_calls_encode : forall sp d f, Forall (wconf sp d []) f ->
  Forall (fun r => fst r = WOk) (fst (run_writer sp (wops_forest d f) [])) /\ snd (run_writer sp (wops_forest d f) []) = enc_forest f.
Proof. exact writer_encodes. Qed.

(* the same document with every master given as one Full item gives the same structural encoding ... *)
Theorem C09_full_items_encode : forall sp d f, Forall (fconf sp d []) f ->
  Forall (fun r => fst r = WOk) (fst (run_writer sp (fops d f) [])) /\ snd (run_writer sp (fops d f) []) = enc_forest f.
Proof. exact full_encodes. Qed.

(* ... hence byte-identical output for the two presentations, although the separate calls flush in between whenever only
   unknown-size masters are open and the Full call does not *)
Theorem C09_full_equals_separate : forall sp f, Forall (fconf sp true []) f -> Forall all_known f ->
  snd (run_writer sp (fops true f) []) = snd (run_writer sp (wops_forest true f) []).
Proof. exact full_equals_separate. Qed.
