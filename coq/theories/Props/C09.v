From Ebml Require Import Base Tools Spec Writer.
Example C09_ex : size_to_vint 127 0 = Some [64; 127].
Proof. vm_compute. reflexivity. Qed.
