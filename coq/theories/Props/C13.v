(* C13 — each tolerance switch relaxes only its own check; relaxing never loses tags.  Statements only. *)
From Ebml Require Import Base Tools Spec Reader Pure Proofs.Tactics Proofs.ReaderIO Proofs.Refine Proofs.CapBound Proofs.PureProofs.

(* Tolerating a class makes that error kind impossible, and in strict mode no successful item is (or contains) a raw tag: for
   every configuration, every input and every sequence of next()/try_recover() calls, every result of the abstract reader's
   run satisfies rout_ok (an error of kind InvalidTagId / HierarchyError / OversizedChildElement appears only if that class is
   not tolerated; with unknown ids not tolerated no item is a raw tag) *)
Theorem C13_tolerated_kinds_impossible : forall c input ops, Forall (rout_ok c) (p_run c input ops).
Proof. exact run_respects_tolerances. Qed.

(* ... and so for the buffered machine under every chunking and capacity *)
Theorem C13_tolerated_kinds_impossible_buffered : forall c cap0 script input ops, calm script ->
  Forall (rout_ok c) (run_reader c cap0 script input ops).
Proof. exact buffered_run_respects_tolerances. Qed.

(* the switches silence nothing else: the only errors a header check can produce are of a class the configuration does
   not tolerate, or one of the never-tolerated kinds (end of file, invalid tag data, size above the limit) *)
Theorem C13_header_errors : forall c st st' e, p_header c st = (st', Err e) -> allowed c e.
Proof. exact p_header_err. Qed.

(* the size limit is enforced under every tolerance setting (stated on the buffered machine) *)
Theorem C13_limit_always : forall c st id ty n hl m,
  snd (peek_header c st) = Ok (id, ty, SKnown n, hl) -> c_max c = Some m -> n <= m.
Proof. exact peek_header_size_ok. Qed.

(* PARTIAL: "the strict items are a prefix of every more tolerant parse" (monotonicity) is not proved; it is covered by the
   correspondence groups over all 8 tolerance subsets. *)

Example C13_ex :
  let sp := [ {| e_id := 129; e_ty := DMaster; e_path := [] |}; {| e_id := 16641; e_ty := DUInt; e_path := [PId 129] |} ] in
  let mk a := {| c_sp := sp; c_allow_id := a; c_allow_hier := false; c_allow_over := false; c_max := Some 4000000000; c_buffered := []; c_emit_eof := true |} in
  (* an unknown id 0x99 inside Root: its own error kind at its offset in strict mode, a raw tag when tolerated *)
  p_run (mk false) [129; 135; 153; 129; 7; 65; 1; 129; 5] [RAll] = [OItem (TStart 129) 0; OErr (RInvalidTagId 2 153)] /\
  p_run (mk true) [129; 135; 153; 129; 7; 65; 1; 129; 5] [RAll] =
    [OItem (TStart 129) 0; OItem (TElem 153 (VRaw [7])) 2; OItem (TElem 16641 (VU 5)) 5; OItem (TEnd 129) 0; ONone].
Proof. vm_compute. split; reflexivity. Qed.
