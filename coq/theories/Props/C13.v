(* C13 — each tolerance switch relaxes only its own check; relaxing never loses tags.  Statements only. *)
From Ebml Require Import Base Tools Spec Reader Pure Proofs.Tactics Proofs.ReaderIO Proofs.Refine Proofs.CapBound Proofs.PureProofs
  Proofs.ErrKinds Proofs.RoundTrip Proofs.Monotone Proofs.RawOnlyUndeclared Proofs.AuditErrKinds.

(* Tolerating a class makes that error kind impossible, and in strict mode no successful item is (or contains) a raw tag: for
   every configuration, every input and every sequence of next()/try_recover() calls, every result of the abstract reader's
   run satisfies rout_ok (an error of kind InvalidTagId / HierarchyError / OversizedChildElement appears only if that class is
   not tolerated; with unknown ids not tolerated no item is a raw tag) *)
Theorem C13_tolerated_kinds_impossible : forall c input ops, Forall (rout_ok c) (p_run c input ops).
Proof. exact run_respects_tolerances. Qed.

(* ... and so for the buffered machine under every chunking and capacity *)
Theorem C13_tolerated_kinds_impossible_buffered : forall c cap0 script input ops, calm script ->
  Forall (rout_ok c) (run_reader c cap0 script input ops).
Proof. exact buffered_run_respects_tolerances. Qed.

(* the switches silence nothing else: the only errors a header check can produce are of a class the configuration does
   not tolerate, or one of the never-tolerated kinds (end of file, invalid tag data, size above the limit) *)
Theorem C13_header_errors : forall c st st' e, p_header c st = (st', Err e) -> allowed c e.
Proof. exact p_header_err. Qed.

(* the size limit is enforced under every tolerance setting (stated on the buffered machine) *)
Theorem C13_limit_always : forall c st id ty n hl m,
  snd (peek_header c st) = Ok (id, ty, SKnown n, hl) -> c_max c = Some m -> n <= m.
Proof. exact peek_header_size_ok. Qed.

(* Monotonicity (Proofs/Monotone.v): "for inputs that start at a root element, the successful items of the strict parse are
   always a prefix of those of any more tolerant parse of the same bytes".
   - [strict cs]: all three switches off; [same_but_tolerances cs ct]: ct has the same specification, size limit, buffered
     masters and end-of-input behaviour as cs, and any setting of the three switches;
   - [starts_at_root cs input]: if the input begins with an element id at all, that id is declared with the empty path (so
     the strict reader's seeding of implied ancestors adds nothing; a first element that is a global element or an element
     from inside a document is excluded - there the strict reader opens, and later closes, implied masters that a reader
     tolerating hierarchy problems never opens);
   - [items_before_error outs]: the items (tag AND offset) of a run up to its first outcome that is not an item;
   - the run is a full drain ([RAll]) of the abstract reader. *)
Theorem C13_strict_is_prefix : forall cs ct input, strict cs -> same_but_tolerances cs ct -> starts_at_root cs input -> wf_bytes input ->
  exists rest, items_before_error (p_run ct input [RAll]) = items_before_error (p_run cs input [RAll]) ++ rest.
Proof. exact strict_is_prefix. Qed.

(* without buffered masters the input need not consist of bytes *)
Theorem C13_strict_is_prefix_unbuffered : forall cs ct input, strict cs -> same_but_tolerances cs ct -> starts_at_root cs input ->
  c_buffered cs = [] ->
  exists rest, items_before_error (p_run ct input [RAll]) = items_before_error (p_run cs input [RAll]) ++ rest.
Proof. exact strict_is_prefix_unbuffered. Qed.

(* ... and for the buffered machine under every chunking and capacity *)
Theorem C13_strict_is_prefix_buffered : forall cs ct input cap1 cap2 s1 s2, calm s1 -> calm s2 ->
  strict cs -> same_but_tolerances cs ct -> starts_at_root cs input -> wf_bytes input ->
  exists rest, items_before_error (run_reader ct cap2 s2 input [RAll]) = items_before_error (run_reader cs cap1 s1 input [RAll]) ++ rest.
Proof. intros cs ct input cap1 cap2 s1 s2 H1 H2. rewrite !buffered_refines_pure by assumption. apply strict_is_prefix. Qed.

(* PARTIAL only in this: with buffered masters the monotonicity theorem assumes [wf_bytes input] (every element of the input
   list is below 256).  The model's inputs are lists of N; on a non-byte the size decoder reaches its overflow panic, and a
   tolerant reader that got past the strict reader's fault INSIDE a buffered master can hit it while Ends that the strict
   reader still delivers are queued in front of the buffered master ([C13_nonbyte_ex] below).  Real inputs are bytes. *)

(* the specific error kind, at the offending element's offset: every error of a header check carries the cursor offset, and
   its kind is that of the first failing check — id bytes incomplete / size field incomplete (UnexpectedEof), malformed size or
   numeric size above 8 (InvalidTagData), id unknown to the specification (InvalidTagId, only when not tolerated), remaining
   chain does not match the declared path (HierarchyError, only when not tolerated), the element would overrun an enclosing
   known-size master (OversizedChildElement, only when not tolerated), declared size above the configured limit (InvalidTagSize) *)
Theorem C13_header_error_kinds : forall c st st' e, p_header c st = (st', Err e) ->
  (exists oid, e = REof (b_off st) oid None None) \/
  exists id idl, p_tag_id st = Ok (id, idl) /\
    (e = RInvalidTagData (b_off st) id \/
     (e = RInvalidTagId (b_off st) id /\ get_type (c_sp c) id = None /\ c_allow_id c = false) \/
     (e = RHierarchy id (match b_stack st' with f :: _ => Some (f_id f) | [] => None end) /\ c_allow_hier c = false /\
      get_type (c_sp c) id <> None /\ validate_tag_path (c_sp c) id (stack_view (b_stack st')) = false) \/
     (exists n hl, e = ROversized (b_off st) id n /\ c_allow_over c = false /\ p_invalid_tag_size st' (N.of_nat hl + n) = true) \/
     (exists n m, e = RInvalidSize (b_off st) id n /\ c_max c = Some m /\ m < n)).
Proof. exact header_error_kinds. Qed.

(* ------------------------------------------------------------------ completeness and priority: the FIRST failing check *)
(* C13_header_error_kinds is soundness only (a reported kind implies its own cause).  The header check IS the decision list
   [first_failure] (Proofs/AuditErrKinds.v): the checks are made in the order of the code, each only if all earlier ones passed,
   and the first that fails determines the result (error and state); if none fails the header is returned:
     1. id bytes present                                   else REof (cursor) None None None
     2. size field a complete, well-formed vint            else RInvalidTagData (malformed) / REof (cursor) (Some id) None None
     3. a numeric element (unsigned/signed/float) declares at most 8 bytes          else RInvalidTagData
     4. id known to the specification, or unknown ids tolerated                     else RInvalidTagId
     5. hierarchy step [p_hier_step]: no check if hierarchy problems are tolerated, if the id is unknown, or if the document
        position is undetermined and the declared path has a placeholder; otherwise the open masters (seeded with the implied
        parents while the position is undetermined) must match the declared path   else RHierarchy
     6. the element ends inside every enclosing known-size master, or oversized children are tolerated
                                                           else ROversized, judged with header length = id bytes + size-field bytes
     7. no size limit, or unknown size, or declared size <= limit                    else RInvalidSize
   There is no "corrupt id" error in the code or the model: a first byte 0x00 is read as the one-byte id 0.
   Every error carries the cursor offset (= the offset of the offending element) EXCEPT RHierarchy, which has no position
   field at all (HierarchyError { found_tag_id, current_parent_id } in errors.rs): "at the element's offset" does not apply to it. *)
Theorem C13_header_error_priority : forall c st, p_header c st = first_failure c st.
Proof. exact header_decision. Qed.

(* the same, check by check.  1: the id bytes are incomplete *)
Theorem C13_reports_id_incomplete : forall c st e, p_tag_id st = Err e ->
  p_header c st = (st, Err e) /\ e = REof (b_off st) None None None.
Proof. exact reports_id_incomplete. Qed.

(* 2: the id was decoded, the size field is malformed / incomplete *)
Theorem C13_reports_size_malformed : forall c st id idl x, p_tag_id st = Ok (id, idl) ->
  read_vint (firstn 8 (skipn idl (b_bytes st))) = Err x -> p_header c st = (st, Err (RInvalidTagData (b_off st) id)).
Proof. intros c st id idl x H1 H2. exact (reports_size_malformed c st id idl H1 x H2). Qed.
Theorem C13_reports_size_incomplete : forall c st id idl, p_tag_id st = Ok (id, idl) ->
  read_vint (firstn 8 (skipn idl (b_bytes st))) = Ok None -> p_header c st = (st, Err (REof (b_off st) (Some id) None None)).
Proof. exact reports_size_incomplete. Qed.

(* 3: id and size field decoded, the element is numeric and declares more than 8 bytes *)
Theorem C13_reports_numeric_size : forall c st id idl size sl, p_tag_id st = Ok (id, idl) ->
  read_vint (firstn 8 (skipn idl (b_bytes st))) = Ok (Some (size, sl)) ->
  is_numeric (get_type (c_sp c) id) = true -> 8 < size -> p_header c st = (st, Err (RInvalidTagData (b_off st) id)).
Proof. intros. eapply reports_numeric_size; eassumption. Qed.

(* 4: id and size field decoded, the id is unknown and unknown ids are not tolerated: InvalidTagId at the element's offset,
   whatever the other switches, the open masters and the declared size (an unknown id is never numeric, so check 3 passes) *)
Theorem C13_reports_unknown_id : forall c st id idl size sl, p_tag_id st = Ok (id, idl) ->
  read_vint (firstn 8 (skipn idl (b_bytes st))) = Ok (Some (size, sl)) ->
  get_type (c_sp c) id = None -> c_allow_id c = false -> p_header c st = (st, Err (RInvalidTagId (b_off st) id)).
Proof. intros. eapply reports_unknown_id; eassumption. Qed.

(* 5: id and size field decoded, check 3 passes, the id is known (so check 4 passes), hierarchy problems are not tolerated, the
   document position is determined, and the open masters do not match the declared path: HierarchyError with the found id and
   the innermost open master ([top_id]); no offset *)
Theorem C13_reports_hierarchy : forall c st id idl size sl d, p_tag_id st = Ok (id, idl) ->
  read_vint (firstn 8 (skipn idl (b_bytes st))) = Ok (Some (size, sl)) ->
  is_numeric (get_type (c_sp c) id) && (8 <? size) = false ->
  get_type (c_sp c) id = Some d -> c_allow_hier c = false -> b_det st = true ->
  validate_tag_path (c_sp c) id (stack_view (b_stack st)) = false ->
  p_header c st = (st, Err (RHierarchy id (top_id (b_stack st)))).
Proof. intros. eapply reports_hierarchy; eassumption. Qed.

(* 5, position undetermined, declared path without placeholder: the element is judged against the open masters plus its
   implied parents [stk] (which the state returned then has open) *)
Theorem C13_reports_hierarchy_seeded : forall c st id idl size sl d stk, p_tag_id st = Ok (id, idl) ->
  read_vint (firstn 8 (skipn idl (b_bytes st))) = Ok (Some (size, sl)) ->
  is_numeric (get_type (c_sp c) id) && (8 <? size) = false ->
  get_type (c_sp c) id = Some d -> c_allow_hier c = false -> b_det st = false ->
  all_ids (get_path (c_sp c) id) = true -> implied_stack (c_sp c) (get_path (c_sp c) id) = Some stk ->
  validate_tag_path (c_sp c) id (stack_view (b_stack st ++ stk)) = false ->
  p_header c st = (pset_stack st (b_stack st ++ stk) true, Err (RHierarchy id (top_id (b_stack st ++ stk)))).
Proof. intros. eapply reports_hierarchy_seeded; eassumption. Qed.

(* [checks_1_to_5 c st id idl size sl st1]: checks 1-5 pass - the id decodes to id (idl bytes), the size field to size (sl bytes),
   a numeric element declares at most 8 bytes, the id is known or unknown ids are tolerated, and the hierarchy step raises no
   error and no bad-specification panic, leaving the state st1 (st itself, or st with the implied parents opened).
   6: then, oversized children not being tolerated, an element that overruns an enclosing known-size master - judged with the
   header length idl + sl actually decoded - is reported as OversizedChildElement at the element's offset with its declared
   size ([ksz]: the known size, 0 for an unknown size) *)
Theorem C13_reports_oversized_child : forall c st id idl size sl st1, checks_1_to_5 c st id idl size sl st1 ->
  c_allow_over c = false -> p_invalid_tag_size st1 (N.of_nat (idl + sl) + ksz (ebml_size size sl)) = true ->
  p_header c st = (st1, Err (ROversized (b_off st) id (ksz (ebml_size size sl)))).
Proof. intros c st id idl size sl st1 [H1 [H2 [H3 [H4 [H5 H6]]]]]. exact (reports_oversized_child c st id idl H1 size sl H2 H3 st1 H4 H5 H6). Qed.

(* 7: checks 1-6 pass and the declared size is known and above the limit: InvalidTagSize at the element's offset with that size,
   under every setting of the three tolerance switches that lets checks 4-6 pass *)
Theorem C13_reports_size_limit : forall c st id idl size sl st1 m n, checks_1_to_5 c st id idl size sl st1 ->
  negb (c_allow_over c) && p_invalid_tag_size st1 (N.of_nat (idl + sl) + ksz (ebml_size size sl)) = false ->
  c_max c = Some m -> ebml_size size sl = SKnown n -> m < n ->
  p_header c st = (st1, Err (RInvalidSize (b_off st) id n)).
Proof. intros c st id idl size sl st1 m n [H1 [H2 [H3 [H4 [H5 H6]]]]] H7. exact (reports_size_limit c st id idl H1 size sl H2 H3 st1 H4 H5 H6 H7 m n). Qed.

(* all seven pass: the header is returned - id, type, size, header length idl + sl *)
Theorem C13_header_accepted : forall c st id idl size sl st1, checks_1_to_5 c st id idl size sl st1 ->
  negb (c_allow_over c) && p_invalid_tag_size st1 (N.of_nat (idl + sl) + ksz (ebml_size size sl)) = false ->
  (forall m n, c_max c = Some m -> ebml_size size sl = SKnown n -> n <= m) ->
  p_header c st = (st1, Ok (id, get_type (c_sp c) id, ebml_size size sl, (idl + sl)%nat)).
Proof. intros c st id idl size sl st1 [H1 [H2 [H3 [H4 [H5 H6]]]]]. exact (header_accepted c st id idl H1 size sl H2 H3 st1 H4 H5 H6). Qed.

(* and back, for the errors that C13_header_error_kinds leaves loose: an OversizedChildElement / InvalidTagSize / InvalidTagId
   error implies that every earlier check passed, with the header length actually decoded (not an existential one) *)
Theorem C13_oversized_error_fields : forall c st st' pos id n, p_header c st = (st', Err (ROversized pos id n)) ->
  exists idl size sl, checks_1_to_5 c st id idl size sl st' /\ pos = b_off st /\ n = ksz (ebml_size size sl) /\
    c_allow_over c = false /\ p_invalid_tag_size st' (N.of_nat (idl + sl) + n) = true.
Proof. exact oversized_error_fields. Qed.
Theorem C13_invalid_size_error_fields : forall c st st' pos id n, p_header c st = (st', Err (RInvalidSize pos id n)) ->
  exists idl size sl m, checks_1_to_5 c st id idl size sl st' /\ pos = b_off st /\
    negb (c_allow_over c) && p_invalid_tag_size st' (N.of_nat (idl + sl) + n) = false /\
    c_max c = Some m /\ ebml_size size sl = SKnown n /\ m < n.
Proof. exact invalid_size_error_fields. Qed.
Theorem C13_invalid_id_error_fields : forall c st st' pos id, p_header c st = (st', Err (RInvalidTagId pos id)) ->
  st' = st /\ pos = b_off st /\ get_type (c_sp c) id = None /\ c_allow_id c = false /\
  exists idl size sl, p_tag_id st = Ok (id, idl) /\ read_vint (firstn 8 (skipn idl (b_bytes st))) = Ok (Some (size, sl)).
Proof. exact invalid_id_error_fields. Qed.

(* priority, concretely: one element with three faults - unknown id 0x99, not inside any master it could belong to, and
   declaring 2^56-2 bytes against a limit of 5 and inside a Root of 3 bytes.  Strict: the id check (4) wins; tolerating unknown
   ids: the containment check (6) wins (check 5 is skipped for an unknown id); tolerating that too: the size limit (7) *)
Example C13_priority_ex :
  let mk a o := {| c_sp := [ {| e_id := 129; e_ty := DMaster; e_path := [] |} ]; c_allow_id := a; c_allow_hier := false; c_allow_over := o; c_max := Some 5; c_buffered := []; c_emit_eof := true |} in
  let input := [129; 131; 153; 1; 255; 255; 255; 255; 255; 255; 254] in
  p_run (mk false false) input [RAll] = [OItem (TStart 129) 0; OErr (RInvalidTagId 2 153)] /\
  p_run (mk true false) input [RAll] = [OItem (TStart 129) 0; OErr (ROversized 2 153 72057594037927934)] /\
  p_run (mk true true) input [RAll] = [OItem (TStart 129) 0; OErr (RInvalidSize 2 153 72057594037927934)].
Proof. vm_compute. repeat split; reflexivity. Qed.

Example C13_ex :
  let sp := [ {| e_id := 129; e_ty := DMaster; e_path := [] |}; {| e_id := 16641; e_ty := DUInt; e_path := [PId 129] |} ] in
  let mk a := {| c_sp := sp; c_allow_id := a; c_allow_hier := false; c_allow_over := false; c_max := Some 4000000000; c_buffered := []; c_emit_eof := true |} in
  (* an unknown id 0x99 inside Root: its own error kind at its offset in strict mode, a raw tag when tolerated *)
  p_run (mk false) [129; 135; 153; 129; 7; 65; 1; 129; 5] [RAll] = [OItem (TStart 129) 0; OErr (RInvalidTagId 2 153)] /\
  p_run (mk true) [129; 135; 153; 129; 7; 65; 1; 129; 5] [RAll] =
    [OItem (TStart 129) 0; OItem (TElem 153 (VRaw [7])) 2; OItem (TElem 16641 (VU 5)) 5; OItem (TEnd 129) 0; ONone].
Proof. vm_compute. split; reflexivity. Qed.

(* Root { UInt 5; f1; f2; f3; UInt 6 } where the three faults, in some order, are
     U = an element with the unknown id 0x99,
     M = a Bin (declared inside Root/Parent) directly inside Root: misplaced,
     O = a Parent declared 3 bytes long whose child Bin needs 5: oversized child. *)
Definition C13_sp : spec :=
  [ {| e_id := 129; e_ty := DMaster; e_path := [] |}; {| e_id := 16643; e_ty := DMaster; e_path := [PId 129] |};
    {| e_id := 16642; e_ty := DBinary; e_path := [PId 129; PId 16643] |}; {| e_id := 16641; e_ty := DUInt; e_path := [PId 129] |} ].
Definition C13_cfg (a h o : bool) : cfg :=
  {| c_sp := C13_sp; c_allow_id := a; c_allow_hier := h; c_allow_over := o; c_max := Some 4000000000; c_buffered := []; c_emit_eof := true |}.
Definition C13_U : list N := [153; 129; 7].
Definition C13_M : list N := [65; 2; 129; 9].
Definition C13_O : list N := [65; 3; 131; 65; 2; 130; 1; 2].
Definition C13_doc (f1 f2 f3 : list N) : list N := [129; 151; 65; 1; 129; 5] ++ f1 ++ f2 ++ f3 ++ [65; 1; 129; 6].

(* faults in the order U, M, O: the strict run stops at the first fault; tolerating unknown ids gets past U and stops at M;
   tolerating only hierarchy problems or only oversized children changes nothing (the first fault is not theirs); with two
   switches the run stops at O, with all three it is complete.  Every run extends the strict one. *)
Example C13_faults_ex :
  p_run (C13_cfg false false false) (C13_doc C13_U C13_M C13_O) [RAll] =
    [OItem (TStart 129) 0; OItem (TElem 16641 (VU 5)) 2; OErr (RInvalidTagId 6 153)] /\
  p_run (C13_cfg true false false) (C13_doc C13_U C13_M C13_O) [RAll] =
    [OItem (TStart 129) 0; OItem (TElem 16641 (VU 5)) 2; OItem (TElem 153 (VRaw [7])) 6; OErr (RHierarchy 16642 (Some 129))] /\
  p_run (C13_cfg false true false) (C13_doc C13_U C13_M C13_O) [RAll] =
    [OItem (TStart 129) 0; OItem (TElem 16641 (VU 5)) 2; OErr (RInvalidTagId 6 153)] /\
  p_run (C13_cfg false false true) (C13_doc C13_U C13_M C13_O) [RAll] =
    [OItem (TStart 129) 0; OItem (TElem 16641 (VU 5)) 2; OErr (RInvalidTagId 6 153)] /\
  p_run (C13_cfg true true false) (C13_doc C13_U C13_M C13_O) [RAll] =
    [OItem (TStart 129) 0; OItem (TElem 16641 (VU 5)) 2; OItem (TElem 153 (VRaw [7])) 6; OItem (TElem 16642 (VB [9])) 9;
     OItem (TStart 16643) 13; OErr (ROversized 16 16642 2)] /\
  p_run (C13_cfg true true true) (C13_doc C13_U C13_M C13_O) [RAll] =
    [OItem (TStart 129) 0; OItem (TElem 16641 (VU 5)) 2; OItem (TElem 153 (VRaw [7])) 6; OItem (TElem 16642 (VB [9])) 9;
     OItem (TStart 16643) 13; OItem (TElem 16642 (VB [1; 2])) 16; OItem (TEnd 16643) 13; OItem (TElem 16641 (VU 6)) 21;
     OItem (TEnd 129) 0; ONone].
Proof. vm_compute. repeat split. Qed.

(* the same three faults with M first, and with O first: the single switch for the first fault gets past exactly that fault
   and stops at the next one; the other two single switches leave the strict run as it is *)
Example C13_own_fault_ex :
  (* M, O, U *)
  p_run (C13_cfg false false false) (C13_doc C13_M C13_O C13_U) [RAll] =
    [OItem (TStart 129) 0; OItem (TElem 16641 (VU 5)) 2; OErr (RHierarchy 16642 (Some 129))] /\
  p_run (C13_cfg false true false) (C13_doc C13_M C13_O C13_U) [RAll] =
    [OItem (TStart 129) 0; OItem (TElem 16641 (VU 5)) 2; OItem (TElem 16642 (VB [9])) 6; OItem (TStart 16643) 10;
     OErr (ROversized 13 16642 2)] /\
  p_run (C13_cfg true false false) (C13_doc C13_M C13_O C13_U) [RAll] = p_run (C13_cfg false false false) (C13_doc C13_M C13_O C13_U) [RAll] /\
  p_run (C13_cfg false false true) (C13_doc C13_M C13_O C13_U) [RAll] = p_run (C13_cfg false false false) (C13_doc C13_M C13_O C13_U) [RAll] /\
  (* O, U, M *)
  p_run (C13_cfg false false false) (C13_doc C13_O C13_U C13_M) [RAll] =
    [OItem (TStart 129) 0; OItem (TElem 16641 (VU 5)) 2; OItem (TStart 16643) 6; OErr (ROversized 9 16642 2)] /\
  p_run (C13_cfg false false true) (C13_doc C13_O C13_U C13_M) [RAll] =
    [OItem (TStart 129) 0; OItem (TElem 16641 (VU 5)) 2; OItem (TStart 16643) 6; OItem (TElem 16642 (VB [1; 2])) 9;
     OItem (TEnd 16643) 6; OErr (RInvalidTagId 14 153)] /\
  p_run (C13_cfg true false false) (C13_doc C13_O C13_U C13_M) [RAll] = p_run (C13_cfg false false false) (C13_doc C13_O C13_U C13_M) [RAll] /\
  p_run (C13_cfg false true false) (C13_doc C13_O C13_U C13_M) [RAll] = p_run (C13_cfg false false false) (C13_doc C13_O C13_U C13_M) [RAll].
Proof. vm_compute. repeat split. Qed.

(* the documents start at a root element, so the theorem applies to them *)
Example C13_faults_start_at_root : starts_at_root (C13_cfg false false false) (C13_doc C13_U C13_M C13_O).
Proof. intros id len H. vm_compute in H. inversion H; subst. reflexivity. Qed.

(* why the input has to start at a root element: Parent { } read from the middle of a document.  The strict reader opens
   the implied Root around it and closes it at the end of the input; a reader tolerating hierarchy problems never opens it. *)
Example C13_not_at_root_ex :
  p_run (C13_cfg false false false) [65; 3; 128] [RAll] = [OItem (TStart 16643) 0; OItem (TEnd 16643) 0; OItem (TEnd 129) 0; ONone] /\
  p_run (C13_cfg false true false) [65; 3; 128] [RAll] = [OItem (TStart 16643) 0; OItem (TEnd 16643) 0; ONone].
Proof. vm_compute. split; reflexivity. Qed.

(* why buffered masters need bytes: Root { M2 (empty); Parent (buffered) { unknown id 0x99; UInt whose size field contains the
   non-byte 2^64 } }.  One read_next of the strict reader closes M2 and fails on the unknown id inside the buffered Parent:
   it delivers End(M2), then the error.  The reader tolerating unknown ids goes on inside the same read_next, reaches the
   overflow panic of the size decoder, and End(M2) is never delivered. *)
Example C13_nonbyte_ex :
  let sp := C13_sp ++ [ {| e_id := 16644; e_ty := DMaster; e_path := [PId 129] |} ] in
  let mk a := {| c_sp := sp; c_allow_id := a; c_allow_hier := false; c_allow_over := false; c_max := None; c_buffered := [16643]; c_emit_eof := true |} in
  let input := [129; 255; 65; 4; 128; 65; 3; 255; 153; 129; 7; 65; 1; 1; 0; 0; 0; 0; 0; 0; 18446744073709551616] in
  p_run (mk false) input [RAll] = [OItem (TStart 129) 0; OItem (TStart 16644) 2; OItem (TEnd 16644) 2; OErr (RInvalidTagId 8 153)] /\
  p_run (mk true) input [RAll] = [OItem (TStart 129) 0; OItem (TStart 16644) 2; OPanic].
Proof. vm_compute. split; reflexivity. Qed.

(* Tolerating unknown ids changes nothing for the ids the specification declares: under EVERY configuration, input and call sequence a raw
   tag - on its own or anywhere inside a buffered (Full) master - is handed out only for an id the specification does not declare
   ([raw_undeclared sp t]: every raw (sub)tag of t has get_type sp id = None) ... *)
Theorem C13_raw_only_for_undeclared_ids : forall c input ops,
  Forall (fun o => match o with OItem t _ => raw_undeclared (c_sp c) t | _ => True end) (p_run c input ops).
Proof. exact run_raw_only_undeclared. Qed.

(* ... also on the buffered machine for every capacity and chunking ... *)
Theorem C13_raw_only_for_undeclared_ids_buffered : forall c cap0 script input ops, calm script ->
  Forall (fun o => match o with OItem t _ => raw_undeclared (c_sp c) t | _ => True end) (run_reader c cap0 script input ops).
Proof. exact buffered_run_raw_only_undeclared. Qed.

(* ... and per tag: the tag read for an id is raw exactly when the id is undeclared *)
Theorem C13_raw_iff_undeclared : forall c st st' p, p_read_tag c st = (st', Ok p) ->
  (get_type (c_sp c) (tag_id (p_tag p)) = None <-> exists bs, p_tag p = TElem (tag_id (p_tag p)) (VRaw bs)).
Proof. exact p_read_tag_raw_iff. Qed.
