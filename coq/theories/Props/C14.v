(* C14 — recovery after inserted junk resumes at the next tag and loses nothing else.  Statements only.
   A damaged document [ddoc] (Proofs/Recover.v): the masters open at the insertion point (any depth, known or unknown
   size), the complete trees f1 before it at that level, the junk, the next tree x and its following siblings f2, and for every
   open master what still follows inside its parent ([d_rights], innermost first, the last entry being the top level).
   [undamaged d] is the same document without the junk; its conformance is the only structural hypothesis.
   PARTIAL: two classes of documents.  (1) [conf_zdoc]: declared paths without global placeholders, masters of known or
   unknown size (Proofs/Recover.v).  (2) [kconf_zdoc]: every master of known size, declared paths only have to MATCH the chain
   of masters an element sits in, so global placeholders are allowed — global elements at any depth, recursive masters
   (Proofs/RecoverKnown.v); there the junk has to come after the position in the document is determined ([jstart]: in reading
   order an element with a placeholder-free path has been read before the junk, the first such being a root element;
   [C14_known_root_start]: e.g. the document starts with a root element).  In both classes "cannot begin a valid tag" is the
   semantic hypothesis [junk_run]: at the junk's first byte and at each later junk position the header check fails in the
   reader's state there.  Two SYNTACTIC sufficient conditions for it, recognisable from the bytes and the specification alone,
   are given at the end of the file (Proofs/RecoverSyntactic.v): every junk byte is an undeclared one-byte id ([junk_byte]:
   0 or 128..255, not declared), or more generally the id decoded at every junk position is not declared ([junk_ids]). *)
From Ebml Require Import Base Tools Spec Writer Reader Pure Encode Proofs.Tactics Proofs.ReaderIO Proofs.Refine Proofs.PureProofs Proofs.RoundTrip Proofs.RoundTripKnown Proofs.Nesting Proofs.Partial Proofs.PartialKnown Proofs.Recover Proofs.RecoverKnown Proofs.RecoverSyntactic Proofs.AuditIO.

(* the complete run: the tags before the junk unchanged (with the Ends of the masters that are complete there), exactly one
   error, try_recover() succeeds, then all remaining tags; the premise "the following tag still fits inside every enclosing
   known-size master after the shift" is [room (d_stk d) ...] *)
Theorem C14_damaged_run_partial : forall c d, strict c -> c_buffered c = [] -> c_emit_eof c = true -> conf_zdoc c (undamaged d) ->
  d_junk d <> [] -> wf_bytes (d_junk d) -> (d_levels d <> [] \/ d_f1 d <> []) ->
  room (d_stk d) (d_off2 d + N.of_nat (length (d_junk d)) + tlen (d_x d)) ->
  junk_run c (junk_state d) (length (d_junk d)) ->
  exists e0, p_run c (enc_ddoc d) [RAll; RRecover; RAll] = out_ddoc d e0.
Proof. exact damaged_run'. Qed.

(* ... and apart from that error and the recovery, the tag sequence is exactly that of the undamaged document *)
Theorem C14_recovery_loses_nothing_partial : forall c d, strict c -> c_buffered c = [] -> c_emit_eof c = true -> conf_zdoc c (undamaged d) ->
  d_junk d <> [] -> wf_bytes (d_junk d) -> (d_levels d <> [] \/ d_f1 d <> []) ->
  room (d_stk d) (d_off2 d + N.of_nat (length (d_junk d)) + tlen (d_x d)) ->
  junk_run c (junk_state d) (length (d_junk d)) ->
  out_tags (p_run c (enc_ddoc d) [RAll; RRecover; RAll]) = out_tags (p_run c (enc_zdoc (undamaged d)) [RAll]).
Proof. exact recovery_loses_nothing'. Qed.

(* the undamaged document, seen from the same position, reads as its items *)
Theorem C14_undamaged_run_partial : forall c z, strict c -> c_buffered c = [] -> c_emit_eof c = true -> conf_zdoc c z ->
  p_run c (enc_zdoc z) [RAll] = out_zdoc z.
Proof. exact zipper_run. Qed.

(* in every case try_recover() never moves backwards and fails only by reporting the end of the input; it never panics
   (C05_no_panic).  The buffered reader can additionally report a source I/O error, and does report it: a Fail event that
   try_recover() consumes from the source is the last event it consumes and is returned as Some (RIo code) - also when it is
   met while peeking at a candidate header (C14_recover_reports_io_error = C05_try_recover_returns_fail; the defect D25,
   repaired, swallowed it there); the buffered try_recover() has no other error (C14_recover_errors_buffered) *)
Theorem C14_recover_forward : forall c st, b_off st <= b_off (fst (p_try_recover c st)).
Proof. exact try_recover_forward. Qed.
Theorem C14_recover_errors : forall c st e, snd (p_try_recover c st) = Some e -> exists o, e = REof o None None None.
Proof. exact try_recover_errors. Qed.
Theorem C14_recover_reports_io_error : forall c st code,
  adv (r_script st) (r_script (fst (try_recover c st))) (Some code) -> snd (try_recover c st) = Some (RIo code).
Proof. exact try_recover_reports_fail. Qed.
Theorem C14_recover_errors_buffered : forall c st e, snd (try_recover c st) = Some e ->
  (exists o, e = REof o None None None) \/ exists code, e = RIo code.
Proof. exact try_recover_errors_buffered. Qed.

(* header checks depend only on the parse fields of the state, so the junk hypothesis is about the document, not about
   incidental reader state *)
Theorem C14_header_check_extensional : forall c s1 s2, same_parse s1 s2 -> snd (p_header c s1) = snd (p_header c s2).
Proof. exact p_header_cong. Qed.

Definition C14_sp : spec :=
  [ {| e_id := 129; e_ty := DMaster; e_path := [] |}; {| e_id := 16643; e_ty := DMaster; e_path := [PId 129] |};
    {| e_id := 16642; e_ty := DBinary; e_path := [PId 129; PId 16643] |}; {| e_id := 16641; e_ty := DUInt; e_path := [PId 129] |} ].
Definition C14_cfg : cfg :=
  {| c_sp := C14_sp; c_allow_id := false; c_allow_hier := false; c_allow_over := false; c_max := Some 4000000000; c_buffered := [];
     c_emit_eof := true |}.
(* Root (known size 15) { UInt 5; <junk FF FE FD>; Parent { Bin [7] }; UInt 6 } *)
Definition C14_doc : ddoc :=
  {| d_levels := [ {| lv_f := []; lv_id := 129; lv_sl := 1; lv_size := Some 15 |} ];
     d_f1 := [RLeaf 16641 (VU 5) [5] 1%nat]; d_junk := [255; 254; 253];
     d_x := RNode 16643 (Some 1%nat) [RLeaf 16642 (VB [7]) [7] 1%nat]; d_f2 := [RLeaf 16641 (VU 6) [6] 1%nat];
     d_rights := [ [] ] |}.

Example C14_ex_hyps :
  strict C14_cfg /\ conf_zdoc C14_cfg (undamaged C14_doc) /\
  room (d_stk C14_doc) (d_off2 C14_doc + N.of_nat (length (d_junk C14_doc)) + tlen (d_x C14_doc)) /\
  junk_run C14_cfg (junk_state C14_doc) (length (d_junk C14_doc)).
Proof.
  assert (I1 : idok 129) by (exists 1%nat, 1; repeat split; cbn; lia).
  assert (I2 : idok 16643) by (exists 2%nat, 259; repeat split; cbn; lia).
  assert (I3 : idok 16642) by (exists 2%nat, 258; repeat split; cbn; lia).
  assert (I4 : idok 16641) by (exists 2%nat, 257; repeat split; cbn; lia).
  assert (L1 : forall v, v < 256 -> conf C14_cfg [129] (RLeaf 16641 (VU v) [v] 1%nat)).
  { intros v Hv. split; [exact I4|]. split; [lia|]. split; [vm_compute; reflexivity|]. split; [repeat constructor; exact Hv|].
    split; [exists DUInt; split; [reflexivity|split; [discriminate|]]|].
    - cbn [decodes]. unfold arr_to_u64, from_be, from_be_acc. cbn [length Nat.ltb Nat.leb fold_left]. f_equal; lia.
    - split; [reflexivity|vm_compute; discriminate]. }
  assert (L2 : conf C14_cfg [129; 16643] (RLeaf 16642 (VB [7]) [7] 1%nat)).
  { split; [exact I3|]. split; [lia|]. split; [vm_compute; reflexivity|]. split; [repeat constructor; lia|].
    split; [exists DBinary; split; [reflexivity|split; [discriminate|reflexivity]]|]. split; [reflexivity|vm_compute; discriminate]. }
  assert (N1 : conf C14_cfg [129] (RNode 16643 (Some 1%nat) [RLeaf 16642 (VB [7]) [7] 1%nat])).
  { apply conf_node. split; [exact I2|]. split; [intros sl Hsl; injection Hsl as <-; split; [lia|vm_compute; reflexivity]|].
    split; [reflexivity|]. split; [reflexivity|]. split; [vm_compute; discriminate|]. constructor; [exact L2|constructor]. }
  split; [repeat split|]. split; [|split].
  - split.
    + cbn [undamaged z_levels z_rights C14_doc d_levels d_f1 d_x d_f2 d_rights hd conf_levels lv_f lv_id lv_sl lv_size].
      split; [constructor|]. split; [exact I1|]. split; [reflexivity|]. split; [reflexivity|]. split; [split; [lia|vm_compute; reflexivity]|].
      split; [vm_compute; discriminate|]. split; [|exact I]. intros n Hn. injection Hn as <-. vm_compute. discriminate.
    + cbn [undamaged z_levels z_rights C14_doc d_levels d_f1 d_x d_f2 d_rights]. apply rights_ok_cons. split.
      * constructor; [apply L1; lia|constructor; [exact N1|constructor; [apply L1; lia|constructor]]].
      * split; [vm_compute; repeat constructor; discriminate|]. split; [right; vm_compute; eexists; split; reflexivity|].
        apply rights_ok_cons. split; [constructor|]. split; [constructor|reflexivity].
  - vm_compute. repeat constructor. discriminate.
  - split; [eexists; vm_compute; reflexivity|]. cbn [length Nat.sub junk C14_doc d_junk]. repeat split; eexists; vm_compute; reflexivity.
Qed.

Example C14_ex_run :
  enc_ddoc C14_doc = [129; 143; 65; 1; 129; 5; 255; 254; 253; 65; 3; 132; 65; 2; 129; 7; 65; 1; 129; 6] /\
  p_run C14_cfg (enc_ddoc C14_doc) [RAll; RRecover; RAll] =
    [OItem (TStart 129) 0; OItem (TElem 16641 (VU 5)) 2; OErr (RInvalidTagId 6 255); ORecOk;
     OItem (TStart 16643) 9; OItem (TElem 16642 (VB [7])) 12; OItem (TEnd 16643) 9; OItem (TElem 16641 (VU 6)) 16; OItem (TEnd 129) 0; ONone] /\
  p_run C14_cfg (enc_zdoc (undamaged C14_doc)) [RAll] =
    [OItem (TStart 129) 0; OItem (TElem 16641 (VU 5)) 2;
     OItem (TStart 16643) 6; OItem (TElem 16642 (VB [7])) 9; OItem (TEnd 16643) 6; OItem (TElem 16641 (VU 6)) 13; OItem (TEnd 129) 0; ONone].
Proof. vm_compute. repeat split; reflexivity. Qed.

(* ------------------------------------------------------------------ the second class: known sizes, global placeholders *)
(* the complete run of a damaged known-size document: all pending masters end at the junk ([d_k1 d] is their number), exactly
   one error, try_recover() succeeds and enlarges EVERY open master by the length of the junk, then all remaining tags *)
Theorem C14_damaged_run_known_partial : forall c d, strict c -> c_buffered c = [] -> c_emit_eof c = true ->
  kconf_zdoc c (undamaged d) -> jstart c d -> d_junk d <> [] -> wf_bytes (d_junk d) ->
  room (d_stk d) (d_off2 d + N.of_nat (length (d_junk d)) + tlen (d_x d)) ->
  junk_run c (junk_state d) (length (d_junk d)) ->
  exists e0, p_run c (enc_ddoc d) [RAll; RRecover; RAll] = out_ddoc d e0.
Proof. exact damaged_run_known'. Qed.

(* ... and apart from that error and the recovery, the tag sequence is exactly that of the undamaged document *)
Theorem C14_recovery_loses_nothing_known_partial : forall c d, strict c -> c_buffered c = [] -> c_emit_eof c = true ->
  kconf_zdoc c (undamaged d) -> jstart c d -> d_junk d <> [] -> wf_bytes (d_junk d) ->
  room (d_stk d) (d_off2 d + N.of_nat (length (d_junk d)) + tlen (d_x d)) ->
  junk_run c (junk_state d) (length (d_junk d)) ->
  out_tags (p_run c (enc_ddoc d) [RAll; RRecover; RAll]) = out_tags (p_run c (enc_zdoc (undamaged d)) [RAll]).
Proof. exact recovery_loses_nothing_known'. Qed.

(* the undamaged known-size document, seen from the same position, reads as its items *)
Theorem C14_undamaged_run_known_partial : forall c z, strict c -> c_buffered c = [] -> c_emit_eof c = true ->
  kconf_zdoc c z -> zstart c z -> p_run c (enc_zdoc z) [RAll] = out_zdoc z.
Proof. exact zipper_run_known. Qed.

(* the start hypothesis holds in particular when the very first element of the document is a root element (and stands
   before the junk) *)
Theorem C14_known_root_start : forall c d,
  match ddoc_first_id d with Some id => get_path (c_sp c) id = [] | None => False end -> jstart c d.
Proof. exact ddoc_root_start. Qed.

(* Root 129; Void 236 global at depth >= 1, declared (1-); Rec 131 a recursive master, declared Root/(-)/Rec; Leaf 16642 below Rec
   at any depth *)
Definition C14k_sp : spec :=
  [ {| e_id := 129; e_ty := DMaster; e_path := [] |};
    {| e_id := 236; e_ty := DBinary; e_path := [PGlobal (Some 1) None] |};
    {| e_id := 131; e_ty := DMaster; e_path := [PId 129; PGlobal None None] |};
    {| e_id := 16642; e_ty := DBinary; e_path := [PId 129; PGlobal None None; PId 131] |} ].
Definition C14k_cfg : cfg :=
  {| c_sp := C14k_sp; c_allow_id := false; c_allow_hier := false; c_allow_over := false; c_max := Some 4000000000; c_buffered := [];
     c_emit_eof := true |}.
Definition C14k_void : rtree := RLeaf 236 (VB [0]) [0] 1%nat.
Definition C14k_void3 : rtree := RLeaf 236 (VB [1; 2; 3]) [1; 2; 3] 1%nat.
Definition C14k_leaf : rtree := RLeaf 16642 (VB [7]) [7] 2%nat.
(* Root (33) { Void; Rec (25) { Leaf; Rec (15) { Leaf; <junk FF FE FD>; Void[1;2;3]; Leaf }; Void }; Void } *)
Definition C14k_doc : ddoc :=
  {| d_levels := [ {| lv_f := []; lv_id := 129; lv_sl := 1; lv_size := Some 33 |};
                   {| lv_f := [C14k_void]; lv_id := 131; lv_sl := 1; lv_size := Some 25 |};
                   {| lv_f := [C14k_leaf]; lv_id := 131; lv_sl := 1; lv_size := Some 15 |} ];
     d_f1 := [C14k_leaf]; d_junk := [255; 254; 253];
     d_x := C14k_void3; d_f2 := [C14k_leaf];
     d_rights := [ [C14k_void]; [C14k_void]; [] ] |}.

Example C14_ex_known_hyps :
  strict C14k_cfg /\ kconf_zdoc C14k_cfg (undamaged C14k_doc) /\ jstart C14k_cfg C14k_doc /\
  room (d_stk C14k_doc) (d_off2 C14k_doc + N.of_nat (length (d_junk C14k_doc)) + tlen (d_x C14k_doc)) /\
  junk_run C14k_cfg (junk_state C14k_doc) (length (d_junk C14k_doc)).
Proof.
  assert (I1 : idok 129) by (exists 1%nat, 1; repeat split; cbn; lia).
  assert (I3 : idok 131) by (exists 1%nat, 3; repeat split; cbn; lia).
  assert (I5 : idok 236) by (exists 1%nat, 108; repeat split; cbn; lia).
  assert (I7 : idok 16642) by (exists 2%nat, 258; repeat split; cbn; lia).
  assert (V : forall ids bs, wf_bytes bs -> N.of_nat (length bs) < 126 -> path_matches [PGlobal (Some 1) None] ids = true ->
            kconf C14k_cfg ids (RLeaf 236 (VB bs) bs 1%nat)).
  { intros ids bs Hw Hl Hp. cbn [kconf]. split; [exact I5|]. split; [lia|]. split; [change (2 ^ (7 * N.of_nat 1) - 1) with 127; lia|].
    split; [exact Hw|]. split; [exists DBinary; split; [reflexivity|split; [discriminate|reflexivity]]|]. split; [exact Hp|]. cbn. lia. }
  assert (L : forall ids, path_matches [PId 129; PGlobal None None; PId 131] ids = true -> kconf C14k_cfg ids C14k_leaf).
  { intros ids Hp. cbn [kconf C14k_leaf]. split; [exact I7|]. split; [lia|]. split; [cbn; lia|]. split; [repeat constructor; lia|].
    split; [exists DBinary; split; [reflexivity|split; [discriminate|reflexivity]]|]. split; [exact Hp|vm_compute; discriminate]. }
  assert (V1 : forall ids, path_matches [PGlobal (Some 1) None] ids = true -> kconf C14k_cfg ids C14k_void).
  { intros ids Hp. apply V; [repeat constructor; lia|vm_compute; reflexivity|exact Hp]. }
  assert (V3 : forall ids, path_matches [PGlobal (Some 1) None] ids = true -> kconf C14k_cfg ids C14k_void3).
  { intros ids Hp. apply V; [repeat constructor; lia|vm_compute; reflexivity|exact Hp]. }
  split; [repeat split|]. split; [|split; [|split]].
  - split.
    + cbn [undamaged z_levels z_rights C14k_doc d_levels d_f1 d_x d_f2 d_rights hd kconf_levels lv_f lv_id lv_sl lv_size app].
      split; [constructor|]. split; [exact I1|]. split; [reflexivity|]. split; [reflexivity|].
      split; [exists 33; split; [reflexivity|vm_compute; discriminate]|]. split; [split; [lia|vm_compute; reflexivity]|].
      split; [vm_compute; discriminate|].
      split; [constructor; [apply V1; reflexivity|constructor]|]. split; [exact I3|]. split; [reflexivity|]. split; [reflexivity|].
      split; [exists 25; split; [reflexivity|vm_compute; discriminate]|]. split; [split; [lia|vm_compute; reflexivity]|].
      split; [vm_compute; discriminate|].
      split; [constructor; [apply L; reflexivity|constructor]|]. split; [exact I3|]. split; [reflexivity|]. split; [reflexivity|].
      split; [exists 15; split; [reflexivity|vm_compute; discriminate]|]. split; [split; [lia|vm_compute; reflexivity]|].
      split; [vm_compute; discriminate|exact I].
    + cbn [undamaged z_levels z_rights C14k_doc d_levels d_f1 d_x d_f2 d_rights app]. apply krights_ok_cons. split.
      * constructor; [apply L; reflexivity|constructor; [apply V3; reflexivity|constructor; [apply L; reflexivity|constructor]]].
      * split; [vm_compute; repeat (constructor; [eexists; split; [reflexivity|discriminate]|]); constructor|].
        split; [vm_compute; eexists; split; reflexivity|].
        apply krights_ok_cons. split; [constructor; [apply V1; reflexivity|constructor]|].
        split; [vm_compute; repeat (constructor; [eexists; split; [reflexivity|discriminate]|]); constructor|].
        split; [vm_compute; eexists; split; reflexivity|].
        apply krights_ok_cons. split; [constructor; [apply V1; reflexivity|constructor]|].
        split; [vm_compute; repeat (constructor; [eexists; split; [reflexivity|discriminate]|]); constructor|].
        split; [vm_compute; eexists; split; reflexivity|].
        apply krights_ok_cons. split; [constructor|]. split; [constructor|reflexivity].
  - apply C14_known_root_start. reflexivity.
  - vm_compute. repeat constructor; discriminate.
  - split; [eexists; vm_compute; reflexivity|]. cbn [length Nat.sub junk C14k_doc d_junk]. repeat split; eexists; vm_compute; reflexivity.
Qed.

(* the junk stands inside three nested known-size masters (Root, and the recursive master Rec twice), between a Leaf and a
   global element (Void, declared (1-)); all three masters grow by 3, nothing but the junk is lost *)
Example C14_ex_known_run :
  enc_ddoc C14k_doc = [129; 161; 236; 129; 0; 131; 153; 65; 2; 64; 1; 7; 131; 143; 65; 2; 64; 1; 7; 255; 254; 253;
                       236; 131; 1; 2; 3; 65; 2; 64; 1; 7; 236; 129; 0; 236; 129; 0] /\
  p_run C14k_cfg (enc_ddoc C14k_doc) [RAll; RRecover; RAll] =
    [OItem (TStart 129) 0; OItem (TElem 236 (VB [0])) 2; OItem (TStart 131) 5; OItem (TElem 16642 (VB [7])) 7;
     OItem (TStart 131) 12; OItem (TElem 16642 (VB [7])) 14; OErr (RInvalidTagId 19 255); ORecOk;
     OItem (TElem 236 (VB [1; 2; 3])) 22; OItem (TElem 16642 (VB [7])) 27; OItem (TEnd 131) 12; OItem (TElem 236 (VB [0])) 32;
     OItem (TEnd 131) 5; OItem (TElem 236 (VB [0])) 35; OItem (TEnd 129) 0; ONone] /\
  p_run C14k_cfg (enc_zdoc (undamaged C14k_doc)) [RAll] =
    [OItem (TStart 129) 0; OItem (TElem 236 (VB [0])) 2; OItem (TStart 131) 5; OItem (TElem 16642 (VB [7])) 7;
     OItem (TStart 131) 12; OItem (TElem 16642 (VB [7])) 14;
     OItem (TElem 236 (VB [1; 2; 3])) 19; OItem (TElem 16642 (VB [7])) 24; OItem (TEnd 131) 12; OItem (TElem 236 (VB [0])) 29;
     OItem (TEnd 131) 5; OItem (TElem 236 (VB [0])) 32; OItem (TEnd 129) 0; ONone] /\
  out_ddoc C14k_doc (RInvalidTagId 19 255) = p_run C14k_cfg (enc_ddoc C14k_doc) [RAll; RRecover; RAll] /\
  out_zdoc (undamaged C14k_doc) = p_run C14k_cfg (enc_zdoc (undamaged C14k_doc)) [RAll].
Proof. vm_compute. repeat split; reflexivity. Qed.

(* ------------------------------------------------------------------ syntactic junk conditions (Proofs/RecoverSyntactic.v) *)
(* [id_at bs] is the element id (with its length in bytes) the reader decodes at the head of the bytes bs, None when bs ends
   before the id does: it is the reader's id decoder as a function of the remaining input alone *)
Theorem C14_id_at_is_the_id_decoder : forall st,
  p_tag_id st = match id_at (b_bytes st) with Some r => Ok r | None => Err (REof (b_off st) None None None) end.
Proof. exact p_tag_id_id_at. Qed.

(* what the decoder does with single bytes: a byte 128..254 is the one-byte id of that value; so is 255 (the one-byte vint with all
   value bits set is not treated specially); a first byte 0 is read as the one-byte id 0 whatever follows; a byte 1..127
   announces a longer id (127: two bytes, here cut short by the end of the input; 64 1: the two-byte id 16385) *)
Example C14_ex_one_byte_ids :
  id_at [200; 7] = Some (200, 1%nat) /\ id_at [255; 7] = Some (255, 1%nat) /\ id_at [0; 7] = Some (0, 1%nat) /\
  id_at [127] = None /\ id_at [64; 1] = Some (16385, 2%nat).
Proof. vm_compute. repeat split; reflexivity. Qed.

(* [junk_byte c b]: the byte b is 0 or lies in 128..255 and, as an element id, is not declared in the specification of c *)
Theorem C14_junk_byte_def : forall c b, junk_byte c b <-> ((b = 0 \/ 128 <= b <= 255) /\ get_type (c_sp c) b = None).
Proof. intros c b. reflexivity. Qed.

(* [junk_ids c jk rest]: at every position k of the junk jk, the id decoded from the rest of the junk followed by the bytes
   rest after it is not declared in the specification of c (or the input ends before that id does) *)
Theorem C14_junk_ids_def : forall c jk rest, junk_ids c jk rest <->
  forall k, (k < length jk)%nat ->
    match id_at (skipn k (jk ++ rest)) with Some (id, _) => get_type (c_sp c) id = None | None => True end.
Proof. intros c jk rest. reflexivity. Qed.

(* a header check fails, with an invalid-id, invalid-data or end-of-input error, in every state whose remaining input consists of
   bytes < 256 and starts with an undeclared id (or is too short to hold its id), when unknown ids are not tolerated *)
Theorem C14_undeclared_header_fails : forall c st, c_allow_id c = false -> wf_bytes (b_bytes st) -> undeclared_at c (b_bytes st) ->
  exists e, snd (p_header c st) = Err e /\
    ((exists pos id, e = RInvalidTagId pos id) \/ (exists pos id, e = RInvalidTagData pos id) \/ (exists pos oid, e = REof pos oid None None)).
Proof. exact header_fails_undeclared. Qed.

(* the syntactic conditions imply the semantic one: if unknown ids are not tolerated, the remaining input of the state st is the
   non-empty junk jk followed by rest, rest consists of bytes < 256 and every junk byte is an undeclared one-byte id, then the
   header check fails at the first junk byte and at every later junk position ... *)
Theorem C14_junk_run_of_undeclared_one_byte_ids : forall c st jk rest, c_allow_id c = false -> b_bytes st = jk ++ rest -> jk <> [] ->
  wf_bytes rest -> Forall (junk_byte c) jk -> junk_run c st (length jk).
Proof. exact junk_run_of_undeclared_one_byte_ids. Qed.

(* ... and the same when, more generally, jk and rest consist of bytes < 256 and the id decoded at every junk position is not
   declared (such an id may span several junk bytes or run into the bytes after the junk) *)
Theorem C14_junk_run_of_undeclared_ids : forall c st jk rest, c_allow_id c = false -> b_bytes st = jk ++ rest -> jk <> [] ->
  wf_bytes jk -> wf_bytes rest -> junk_ids c jk rest -> junk_run c st (length jk).
Proof. exact junk_run_of_undeclared_ids. Qed.

(* one-byte junk is a special case of the general condition *)
Theorem C14_junk_ids_of_bytes : forall c rest jk, Forall (junk_byte c) jk -> junk_ids c jk rest.
Proof. exact junk_ids_of_bytes. Qed.

(* C14_damaged_run_partial with the syntactic junk condition: strict configuration, no buffered masters, Ends emitted at the end of
   the input, the undamaged document conforms (first class), the junk is not empty, something precedes it, the following tag still
   fits after the shift, and EVERY JUNK BYTE IS 0 OR IN 128..255 AND IS NOT A DECLARED ID: then the run is the tags before the junk,
   exactly one error, a successful try_recover(), and all remaining tags *)
Theorem C14_damaged_run_syntactic_partial : forall c d, strict c -> c_buffered c = [] -> c_emit_eof c = true -> conf_zdoc c (undamaged d) ->
  d_junk d <> [] -> (d_levels d <> [] \/ d_f1 d <> []) ->
  room (d_stk d) (d_off2 d + N.of_nat (length (d_junk d)) + tlen (d_x d)) ->
  Forall (junk_byte c) (d_junk d) ->
  exists e0, p_run c (enc_ddoc d) [RAll; RRecover; RAll] = out_ddoc d e0.
Proof. exact damaged_run_syntactic. Qed.

(* ... and under the same hypotheses the tag sequence is exactly that of the undamaged document *)
Theorem C14_recovery_loses_nothing_syntactic_partial : forall c d, strict c -> c_buffered c = [] -> c_emit_eof c = true -> conf_zdoc c (undamaged d) ->
  d_junk d <> [] -> (d_levels d <> [] \/ d_f1 d <> []) ->
  room (d_stk d) (d_off2 d + N.of_nat (length (d_junk d)) + tlen (d_x d)) ->
  Forall (junk_byte c) (d_junk d) ->
  out_tags (p_run c (enc_ddoc d) [RAll; RRecover; RAll]) = out_tags (p_run c (enc_zdoc (undamaged d)) [RAll]).
Proof. exact recovery_loses_nothing_syntactic. Qed.

(* the same two for the second class (known sizes, global placeholders, position determined before the junk) *)
Theorem C14_damaged_run_known_syntactic_partial : forall c d, strict c -> c_buffered c = [] -> c_emit_eof c = true ->
  kconf_zdoc c (undamaged d) -> jstart c d -> d_junk d <> [] ->
  room (d_stk d) (d_off2 d + N.of_nat (length (d_junk d)) + tlen (d_x d)) ->
  Forall (junk_byte c) (d_junk d) ->
  exists e0, p_run c (enc_ddoc d) [RAll; RRecover; RAll] = out_ddoc d e0.
Proof. exact damaged_run_known_syntactic. Qed.
Theorem C14_recovery_loses_nothing_known_syntactic_partial : forall c d, strict c -> c_buffered c = [] -> c_emit_eof c = true ->
  kconf_zdoc c (undamaged d) -> jstart c d -> d_junk d <> [] ->
  room (d_stk d) (d_off2 d + N.of_nat (length (d_junk d)) + tlen (d_x d)) ->
  Forall (junk_byte c) (d_junk d) ->
  out_tags (p_run c (enc_ddoc d) [RAll; RRecover; RAll]) = out_tags (p_run c (enc_zdoc (undamaged d)) [RAll]).
Proof. exact recovery_loses_nothing_known_syntactic. Qed.

(* the four theorems with the general syntactic condition: the junk consists of bytes < 256 and the id decoded at every junk
   position, from the rest of the junk followed by the bytes [d_after d] that follow the junk in the document, is not declared *)
Theorem C14_after_def : forall d, d_after d = enc_rights ((d_x d :: d_f2 d) :: d_rights d) /\
  b_bytes (junk_state d) = d_junk d ++ d_after d.
Proof. intros d. split; reflexivity. Qed.
Theorem C14_damaged_run_ids_partial : forall c d, strict c -> c_buffered c = [] -> c_emit_eof c = true -> conf_zdoc c (undamaged d) ->
  d_junk d <> [] -> wf_bytes (d_junk d) -> (d_levels d <> [] \/ d_f1 d <> []) ->
  room (d_stk d) (d_off2 d + N.of_nat (length (d_junk d)) + tlen (d_x d)) ->
  junk_ids c (d_junk d) (d_after d) ->
  exists e0, p_run c (enc_ddoc d) [RAll; RRecover; RAll] = out_ddoc d e0.
Proof. exact damaged_run_ids. Qed.
Theorem C14_recovery_loses_nothing_ids_partial : forall c d, strict c -> c_buffered c = [] -> c_emit_eof c = true -> conf_zdoc c (undamaged d) ->
  d_junk d <> [] -> wf_bytes (d_junk d) -> (d_levels d <> [] \/ d_f1 d <> []) ->
  room (d_stk d) (d_off2 d + N.of_nat (length (d_junk d)) + tlen (d_x d)) ->
  junk_ids c (d_junk d) (d_after d) ->
  out_tags (p_run c (enc_ddoc d) [RAll; RRecover; RAll]) = out_tags (p_run c (enc_zdoc (undamaged d)) [RAll]).
Proof. exact recovery_loses_nothing_ids. Qed.
Theorem C14_damaged_run_known_ids_partial : forall c d, strict c -> c_buffered c = [] -> c_emit_eof c = true ->
  kconf_zdoc c (undamaged d) -> jstart c d -> d_junk d <> [] -> wf_bytes (d_junk d) ->
  room (d_stk d) (d_off2 d + N.of_nat (length (d_junk d)) + tlen (d_x d)) ->
  junk_ids c (d_junk d) (d_after d) ->
  exists e0, p_run c (enc_ddoc d) [RAll; RRecover; RAll] = out_ddoc d e0.
Proof. exact damaged_run_known_ids. Qed.
Theorem C14_recovery_loses_nothing_known_ids_partial : forall c d, strict c -> c_buffered c = [] -> c_emit_eof c = true ->
  kconf_zdoc c (undamaged d) -> jstart c d -> d_junk d <> [] -> wf_bytes (d_junk d) ->
  room (d_stk d) (d_off2 d + N.of_nat (length (d_junk d)) + tlen (d_x d)) ->
  junk_ids c (d_junk d) (d_after d) ->
  out_tags (p_run c (enc_ddoc d) [RAll; RRecover; RAll]) = out_tags (p_run c (enc_zdoc (undamaged d)) [RAll]).
Proof. exact recovery_loses_nothing_known_ids. Qed.

(* the junk FF FE FD of the two example documents satisfies the one-byte condition in their specifications, so the syntactic
   theorems apply to them (their other hypotheses are in C14_ex_hyps / C14_ex_known_hyps) *)
Example C14_ex_syntactic_hyps : Forall (junk_byte C14_cfg) (d_junk C14_doc) /\ Forall (junk_byte C14k_cfg) (d_junk C14k_doc).
Proof. split; repeat (constructor; [split; [right; cbn; lia|vm_compute; reflexivity]|]); constructor. Qed.
Example C14_ex_syntactic_applies :
  (exists e0, p_run C14_cfg (enc_ddoc C14_doc) [RAll; RRecover; RAll] = out_ddoc C14_doc e0) /\
  (exists e0, p_run C14k_cfg (enc_ddoc C14k_doc) [RAll; RRecover; RAll] = out_ddoc C14k_doc e0).
Proof.
  destruct C14_ex_hyps as [H1 [H2 [H3 _]]]. destruct C14_ex_known_hyps as [K1 [K2 [K3 [K4 _]]]]. destruct C14_ex_syntactic_hyps as [J1 J2]. split.
  - apply C14_damaged_run_syntactic_partial; try assumption; try reflexivity; [discriminate|right; discriminate].
  - apply C14_damaged_run_known_syntactic_partial; try assumption; try reflexivity; discriminate.
Qed.

(* the error reported at the junk is not always the invalid-id error: with the junk FF 00 C8 (each byte an undeclared one-byte
   id, so the theorems apply) the byte after the id FF is 00, which is not a valid size, and the one error is InvalidTagData *)
Definition C14_doc_ff00 : ddoc :=
  {| d_levels := d_levels C14_doc; d_f1 := d_f1 C14_doc; d_junk := [255; 0; 200];
     d_x := d_x C14_doc; d_f2 := d_f2 C14_doc; d_rights := d_rights C14_doc |}.
Example C14_ex_syntactic_error_kind :
  Forall (junk_byte C14_cfg) (d_junk C14_doc_ff00) /\
  p_run C14_cfg (enc_ddoc C14_doc_ff00) [RAll; RRecover; RAll] =
    [OItem (TStart 129) 0; OItem (TElem 16641 (VU 5)) 2; OErr (RInvalidTagData 6 255); ORecOk;
     OItem (TStart 16643) 9; OItem (TElem 16642 (VB [7])) 12; OItem (TEnd 16643) 9; OItem (TElem 16641 (VU 6)) 16; OItem (TEnd 129) 0; ONone].
Proof.
  split; [|vm_compute; reflexivity].
  constructor; [split; [right; cbn; lia|vm_compute; reflexivity]|]. constructor; [split; [left; reflexivity|vm_compute; reflexivity]|].
  constructor; [split; [right; cbn; lia|vm_compute; reflexivity]|]. constructor.
Qed.

(* junk that is not made of one-byte ids but satisfies the general condition: 40 05 is the undeclared two-byte id 16389, and at
   the second junk byte 05 announces a six-byte id that runs into the following tag (05 41 03 84 41 02) and is not declared either *)
Definition C14_doc_4005 : ddoc :=
  {| d_levels := d_levels C14_doc; d_f1 := d_f1 C14_doc; d_junk := [64; 5];
     d_x := d_x C14_doc; d_f2 := d_f2 C14_doc; d_rights := d_rights C14_doc |}.
Example C14_ex_ids :
  junk_ids C14_cfg (d_junk C14_doc_4005) (d_after C14_doc_4005) /\
  map (fun k => id_at (skipn k (d_junk C14_doc_4005 ++ d_after C14_doc_4005))) [0; 1]%nat = [Some (16389, 2%nat); Some (5776790012162, 6%nat)] /\
  p_run C14_cfg (enc_ddoc C14_doc_4005) [RAll; RRecover; RAll] =
    [OItem (TStart 129) 0; OItem (TElem 16641 (VU 5)) 2; OErr (RInvalidTagId 6 16389); ORecOk;
     OItem (TStart 16643) 8; OItem (TElem 16642 (VB [7])) 11; OItem (TEnd 16643) 8; OItem (TElem 16641 (VU 6)) 15; OItem (TEnd 129) 0; ONone].
Proof.
  split; [|split; vm_compute; reflexivity].
  intros k Hk. destruct k as [|[|k]]; [vm_compute; reflexivity|vm_compute; reflexivity|cbn in Hk; lia].
Qed.

(* the condition "not declared" cannot be dropped: the single junk byte 81 is the declared id of Root; here the header check still
   fails (Root may not stand inside Root) and the recovery still works, but with a hierarchy error - such junk is covered only by
   the semantic hypothesis [junk_run], not by the syntactic ones *)
Definition C14_doc_81 : ddoc :=
  {| d_levels := d_levels C14_doc; d_f1 := d_f1 C14_doc; d_junk := [129];
     d_x := d_x C14_doc; d_f2 := d_f2 C14_doc; d_rights := d_rights C14_doc |}.
Example C14_ex_declared_junk_byte :
  ~ junk_byte C14_cfg 129 /\
  p_run C14_cfg (enc_ddoc C14_doc_81) [RAll; RRecover; RAll] =
    [OItem (TStart 129) 0; OItem (TElem 16641 (VU 5)) 2; OErr (RHierarchy 129 (Some 129)); ORecOk;
     OItem (TStart 16643) 7; OItem (TElem 16642 (VB [7])) 10; OItem (TEnd 16643) 7; OItem (TElem 16641 (VU 6)) 14; OItem (TEnd 129) 0; ONone].
Proof. split; [intros [_ H]; vm_compute in H; discriminate|vm_compute; reflexivity]. Qed.
