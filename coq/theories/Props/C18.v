(* C18 — derived specifications mean what was declared and are internally consistent.  Statements only.
   [derive] (Model/Derive.v) mirrors specification-derive/src/{ast,attr,pathing}.rs on an abstract syntax of enum
   declarations (variants with their attributes in source order); [with_globals d] = d followed by the Crc32 and Void
   variants the macro appends.  rustc, syn and quote are not modelled (see props/c18.py TRUSTED). *)
From Ebml Require Import Base Tools Spec Reader Derive Proofs.Tactics Proofs.DeriveProofs.

(* ---- accepted declarations: the table is exactly what was declared ------------------------------------------- *)

(* ids of the generated table are pairwise distinct: "first matching arm wins" is unambiguous *)
Theorem C18_ids_distinct : forall d sp, derive d = Some sp -> NoDup (map e_id sp).
Proof. exact accepted_distinct. Qed.

(* every variant (declared, or appended by the macro) reports its declared type under its declared id ... *)
Theorem C18_type : forall d sp, derive d = Some sp -> forall v i ty,
  In v (with_globals d) -> In (AId i) (v_attrs v) -> In (AType (Some ty)) (v_attrs v) -> get_type sp i = Some ty.
Proof. exact accepted_type. Qed.

(* ... and its declared path, identifiers replaced by the id of a variant of that name, placeholders unchanged ... *)
Theorem C18_path : forall d sp, derive d = Some sp -> forall v i p,
  In v (with_globals d) -> In (AId i) (v_attrs v) -> In (APath p) (v_attrs v) ->
  Forall2 (resolved (with_globals d)) p (get_path sp i).
Proof. exact accepted_path. Qed.

(* ... the empty path when it declares none *)
Theorem C18_root : forall d sp, derive d = Some sp -> forall v i,
  In v (with_globals d) -> In (AId i) (v_attrs v) -> (forall p, ~ In (APath p) (v_attrs v)) -> get_path sp i = [].
Proof. exact accepted_no_path. Qed.

(* every other id is unknown and has the empty path *)
Theorem C18_undeclared : forall d sp, derive d = Some sp -> forall i,
  (forall v, In v (with_globals d) -> ~ In (AId i) (v_attrs v)) -> get_type sp i = None /\ get_path sp i = [].
Proof. exact accepted_undeclared. Qed.

(* the global elements are present *)
Theorem C18_globals : forall d sp, derive d = Some sp ->
  get_type sp 191 = Some DBinary /\ get_path sp 191 = [PGlobal (Some 1) None] /\
  get_type sp 236 = Some DBinary /\ get_path sp 236 = [PGlobal None None].
Proof. exact accepted_globals. Qed.

(* ---- internal consistency -------------------------------------------------------------------------------------- *)

(* every identifier in a path of the table is a master of the table; hence the iterator's implied-parent seeding
   (Reader.implied_stack: "Bad specification implementation" panic when get_master_tag fails) always succeeds *)
Theorem C18_spec_ok : forall d sp, derive d = Some sp -> spec_ok sp.
Proof. exact accepted_spec_ok. Qed.

Theorem C18_no_bad_spec_panic : forall d sp, derive d = Some sp -> forall id, implied_stack sp (get_path sp id) <> None.
Proof. exact accepted_implied. Qed.

Theorem C18_spec_ok_suffices : forall sp, spec_ok sp -> forall id, implied_stack sp (get_path sp id) <> None.
Proof. exact spec_ok_implied. Qed.

(* get_<ty>_tag(id, _) constructs a tag iff the table gives id the type ty *)
Theorem C18_ctor : forall d pvs, derive_full d = Some pvs -> forall ty id,
  (exists nm, ctor_result pvs ty id = Some nm) <-> get_type (get_impl pvs) id = Some ty.
Proof. exact ctor_iff. Qed.

(* the constructed tag reports the id it was constructed for and answers exactly the accessor of its type
   (hypotheses: what rustc enforces on the rewritten enum — distinct variant names, none called RawTag) *)
Theorem C18_accessors : forall d pvs, derive_full d = Some pvs ->
  NoDup (names_of d) -> ~ In rawtag_name (names_of d) ->
  forall ty id nm self, ctor_result pvs ty id = Some nm ->
    get_id_result pvs nm self = Some id /\ forall ty', acc_result pvs ty' nm = true <-> ty' = ty.
Proof. exact ctor_accessors. Qed.

(* the raw-tag variant reports its own id and answers only as_binary *)
Theorem C18_raw : forall pvs self, ~ In rawtag_name (map pv_name pvs) ->
  get_id_result pvs rawtag_name self = Some self /\ forall ty, acc_result pvs ty rawtag_name = true <-> ty = DBinary.
Proof. exact raw_accessors. Qed.

(* the table of the two generated match expressions is the per-variant table *)
Theorem C18_table_shape : forall pvs, NoDup (map pv_id pvs) -> get_impl pvs = map (entry_of pvs) pvs.
Proof. exact get_impl_eq. Qed.

(* the recursion of validate_path always has enough fuel *)
Theorem C18_fuel : forall pvs f1 f2 o,
  (length (path_or_empty o) < f1)%nat -> (length (path_or_empty o) < f2)%nat ->
  validate_path pvs f1 o = validate_path pvs f2 o.
Proof. exact validate_path_fuel. Qed.

(* easy_ebml lowering: `Path/To/Name : Type = id` is the variant Name with #[id], #[data_type] and, unless the
   prefix is empty, #[doc_path(Path/To)]; both front-ends then run the same code *)
Theorem C18_easy_lower : forall ev v, easy_lower ev = Some v ->
  exists pre, ev_path ev = pre ++ [PPIdent (v_name v)] /\
    v_attrs v = [AId (ev_id ev); AType (ev_ty ev)] ++ match pre with [] => [] | _ => [APath pre] end.
Proof. exact easy_lower_spec. Qed.

(* ---- rejections: one theorem per malformation class, for arbitrary declarations containing it ---------------- *)

Theorem C18_reject_duplicate_id : forall d l1 v1 l2 v2 l3 i, with_globals d = l1 ++ v1 :: l2 ++ v2 :: l3 ->
  In (AId i) (v_attrs v1) -> In (AId i) (v_attrs v2) -> derive d = None.
Proof. exact reject_dup_id. Qed.

Theorem C18_reject_global_id : forall d v, In v d -> In (AId 191) (v_attrs v) \/ In (AId 236) (v_attrs v) -> derive d = None.
Proof. exact reject_global_id. Qed.

Theorem C18_reject_unknown_parent : forall d v p n, In v (with_globals d) -> In (APath p) (v_attrs v) ->
  In (PPIdent n) p -> ~ In n (names_of d) -> derive d = None.
Proof. exact reject_unknown_ident. Qed.

(* the parent (last identifier of the path) is not declared a master by any variant of that name *)
Theorem C18_reject_non_master_parent : forall d v pre n post, In v (with_globals d) ->
  In (APath (pre ++ PPIdent n :: post)) (v_attrs v) -> no_ident post ->
  (forall w, In w (with_globals d) -> v_name w = n -> ~ In (AType (Some DMaster)) (v_attrs w)) ->
  derive d = None.
Proof. exact reject_non_master_parent. Qed.

(* the part of the path before the parent is not the parent's own declared path (shorter, longer or different) *)
Theorem C18_reject_path_mismatch : forall d v pre n post, In v (with_globals d) ->
  In (APath (pre ++ PPIdent n :: post)) (v_attrs v) -> no_ident post ->
  (forall w, In w (with_globals d) -> v_name w = n -> ~ declared_path w pre) ->
  derive d = None.
Proof. exact reject_path_mismatch. Qed.

Theorem C18_reject_zero_maximum : forall d v p mn, In v (with_globals d) -> In (APath p) (v_attrs v) ->
  In (PPGlobal mn (Some 0)) p -> derive d = None.
Proof. exact reject_max0. Qed.

Theorem C18_reject_adjacent_globals : forall d v pre a1 a2 b1 b2 post, In v (with_globals d) ->
  In (APath (pre ++ PPGlobal a1 a2 :: PPGlobal b1 b2 :: post)) (v_attrs v) -> derive d = None.
Proof. exact reject_adjacent. Qed.

Theorem C18_reject_missing_id : forall d v, In v (with_globals d) -> (forall i, ~ In (AId i) (v_attrs v)) -> derive d = None.
Proof. exact reject_missing_id. Qed.

Theorem C18_reject_missing_type : forall d v, In v (with_globals d) -> (forall t, ~ In (AType t) (v_attrs v)) -> derive d = None.
Proof. exact reject_missing_type. Qed.

Theorem C18_reject_unknown_type : forall d v, In v (with_globals d) -> In (AType None) (v_attrs v) -> derive d = None.
Proof. exact reject_unknown_type. Qed.

Theorem C18_reject_duplicate_attribute : forall d v l1 x l2 y l3, In v (with_globals d) ->
  v_attrs v = l1 ++ x :: l2 ++ y :: l3 -> same_kind x y = true -> derive d = None.
Proof. exact reject_dup_attr. Qed.

Theorem C18_reject_empty_path : forall d v, In v (with_globals d) -> In (APath []) (v_attrs v) -> derive d = None.
Proof. exact reject_empty_path. Qed.

Theorem C18_reject_id_overflow : forall d v i, In v (with_globals d) -> In (AId i) (v_attrs v) -> u64_max < i -> derive d = None.
Proof. exact reject_id_overflow. Qed.

(* ---- non-vacuity (vm_compute) ---------------------------------------------------------------------------------- *)

(* the repository's test specification (tests/test_spec.rs) is accepted with exactly its table *)
Example C18_ex_test_spec : derive test_decl = Some
  [ e 0x81 DMaster []; e 0x4101 DUInt [PId 0x81]; e 0x4102 DUtf8 [PId 0x81]; e 0x4103 DMaster [PId 0x81];
    e 0x210301 DUInt [PId 0x81; PId 0x4103]; e 0x1a45dfa3 DMaster []; e 0x18538067 DMaster [];
    e 0x83 DUInt [PId 0x18538067]; e 0x1F43B675 DMaster [PId 0x18538067];
    e 0x97 DUInt [PId 0x18538067; PId 0x1F43B675]; e 0x4100 DUInt [PId 0x18538067; PId 0x1F43B675];
    e 0xa1 DBinary [PId 0x18538067; PId 0x1F43B675]; e 0xa3 DBinary [PId 0x18538067; PId 0x1F43B675];
    e 0xbf DBinary [PGlobal (Some 1) None]; e 0xec DBinary [PGlobal None None] ].
Proof. exact ex_test_spec. Qed.

(* shuffled attributes, an unrelated attribute, a recursive master behind a trailing placeholder with an element below
   it, an 8-byte id *)
Example C18_ex_recursive : derive rec_decl = Some
  [ e 0x81 DMaster []; e 0x4301 DMaster [PId 0x81; PGlobal (Some 0) None];
    e 0x01ffffffffffffff DFloat [PId 0x81; PGlobal (Some 0) None; PId 0x4301];
    e 0x4302 DSInt [PId 0x81; PGlobal None (Some 2)];
    e 0xbf DBinary [PGlobal (Some 1) None]; e 0xec DBinary [PGlobal None None] ].
Proof. exact ex_rec_spec. Qed.

(* one concrete rejected declaration per class, and their repaired neighbours are accepted *)
Example C18_ex_rejections :
  derive [m 3 0x81 DMaster []; m 4 0x81 DUInt [PPIdent 3]] = None /\
  derive [m 3 0x81 DMaster []; m 4 0xbf DBinary [PPIdent 3]] = None /\
  derive [m 3 0x81 DMaster []; m 4 0x82 DUInt [PPIdent 9]] = None /\
  derive [m 3 0x81 DMaster []; m 4 0x82 DUInt [PPIdent 3]; m 5 0x83 DMaster [PPIdent 3; PPIdent 4]] = None /\
  derive [m 3 0x81 DMaster []; m 4 0x82 DMaster [PPIdent 3]; m 5 0x83 DUInt [PPIdent 4]] = None /\
  derive [m 3 0x81 DMaster []; m 4 0x82 DMaster [PPIdent 3]; m 5 0x83 DUInt [PPIdent 3; PPIdent 3; PPIdent 4]] = None /\
  derive [m 3 0x81 DMaster []; m 6 0x84 DMaster []; m 4 0x82 DMaster [PPIdent 3]; m 5 0x83 DUInt [PPIdent 6; PPIdent 4]] = None /\
  derive [m 3 0x81 DMaster []; m 4 0x82 DMaster [PPIdent 3]; m 5 0x83 DUInt [PPIdent 3; PPGlobal None None; PPIdent 4]] = None /\
  derive [m 3 0x81 DMaster []; m 4 0x82 DUInt [PPIdent 3; PPGlobal None (Some 0)]] = None /\
  derive [m 3 0x81 DMaster []; m 4 0x82 DUInt [PPIdent 3; PPGlobal None None; PPGlobal (Some 1) None]] = None /\
  derive [{| v_name := 3; v_attrs := [AType (Some DMaster)] |}] = None /\
  derive [{| v_name := 3; v_attrs := [AId 0x81] |}] = None /\
  derive [{| v_name := 3; v_attrs := [AId 0x81; AType None] |}] = None /\
  derive [{| v_name := 3; v_attrs := [AId 0x81; AType (Some DMaster); AId 0x81] |}] = None.
Proof. exact ex_rejections. Qed.

Example C18_ex_accepted_neighbours :
  derive [m 3 0x81 DMaster []; m 4 0x82 DUInt [PPIdent 3]] <> None /\
  derive [m 3 0x81 DMaster []; m 4 0x82 DMaster [PPIdent 3]; m 5 0x83 DUInt [PPIdent 3; PPIdent 4]] <> None /\
  derive [m 3 0x81 DMaster []; m 4 0x82 DUInt [PPIdent 3; PPGlobal None (Some 1)]] <> None /\
  derive [m 3 0x81 DMaster []; m 4 0x82 DUInt [PPIdent 3; PPGlobal None None]] <> None /\
  derive [] <> None.
Proof. exact ex_accepted_neighbours. Qed.

Example C18_ex_easy :
  easy_derive [ {| ev_path := [PPIdent 3]; ev_ty := Some DMaster; ev_id := 0x81 |};
                {| ev_path := [PPIdent 3; PPIdent 4]; ev_ty := Some DUInt; ev_id := 0x4101 |};
                {| ev_path := [PPIdent 3; PPIdent 6]; ev_ty := Some DMaster; ev_id := 0x4103 |};
                {| ev_path := [PPIdent 3; PPIdent 6; PPIdent 7]; ev_ty := Some DUInt; ev_id := 0x210301 |} ]
  = derive [m 3 0x81 DMaster []; m 4 0x4101 DUInt [PPIdent 3]; m 6 0x4103 DMaster [PPIdent 3];
            m 7 0x210301 DUInt [PPIdent 3; PPIdent 6]] /\
  easy_derive [ {| ev_path := [PPIdent 3; PPGlobal None None]; ev_ty := Some DMaster; ev_id := 0x81 |} ] = None.
Proof. exact ex_easy. Qed.
