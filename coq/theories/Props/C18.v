(* C18 — derived specifications mean what was declared and are internally consistent.  Statements only.
   [derive] (Model/Derive.v) mirrors specification-derive/src/{ast,attr,pathing}.rs on an abstract syntax of enum
   declarations (variants with their attributes in source order); [with_globals d] = d followed by the Crc32 and Void
   variants the macro appends.  rustc, syn and quote are not modelled (see props/c18.py TRUSTED).
   Scope of "no Bad-specification panic": the theorems below cover the READER's implied-parent seeding (C18_no_implied_parent_panic),
   the generated constructors/accessors of the declared variants, and the WRITER: no call sequence whose tags are consistent with the
   specification (a variant fixes id and value kind; RawTag may carry any id) makes the writer model panic (C18_writer_no_panic).
   The writer used to panic when handed RawTag(id, _) with an id that the specification declares with a type other than Binary;
   repaired as D27 (/repo commit ec71884; Writer.raw_type): such a tag is now written as is (C18_writer_raw_written).
   "Accepted" is characterised exactly by C18_accepted_iff.  Both front-ends run the same code by definition of [easy_derive]
   (C18_easy_lower describes the lowering); of the attributes, only an unrecognised data_type VALUE is rejected — attributes the
   macro does not know ([AOther]) are ignored, as in the Rust code. *)
From Ebml Require Import Base Tools Spec Writer Reader Derive Proofs.Tactics Proofs.DeriveProofs Proofs.AuditMisc Proofs.WriterProofs Proofs.WriterNoPanic.
From Ebml Require Import Proofs.DStart.

(* ---- accepted declarations: the table is exactly what was declared ------------------------------------------- *)

(* ids of the generated table are pairwise distinct: "first matching arm wins" is unambiguous *)
Theorem C18_ids_distinct : forall d sp, derive d = Some sp -> NoDup (map e_id sp).
Proof. exact accepted_distinct. Qed.

(* every variant (declared, or appended by the macro) reports its declared type under its declared id ... *)
Theorem C18_type : forall d sp, derive d = Some sp -> forall v i ty,
  In v (with_globals d) -> In (AId i) (v_attrs v) -> In (AType (Some ty)) (v_attrs v) -> get_type sp i = Some ty.
Proof. exact accepted_type. Qed.

(* ... and its declared path, identifiers replaced by the id of a variant of that name, placeholders unchanged ... *)
Theorem C18_path : forall d sp, derive d = Some sp -> forall v i p,
  In v (with_globals d) -> In (AId i) (v_attrs v) -> In (APath p) (v_attrs v) ->
  Forall2 (resolved (with_globals d)) p (get_path sp i).
Proof. exact accepted_path. Qed.

(* ... and the table is consistent: whenever the path of a row ends in an identifier p ([e_path e = q ++ [PId p]]), p is a
   master of the table and the path is p's own path followed by p (a child's path extends its parent's path; paths that end in
   a placeholder are not constrained).  This is what makes the reader's start hypothesis [dstart] hold by itself
   (C01_consistent_dstart). *)
Theorem C18_derive_consistent : forall d sp, derive d = Some sp ->
  forall e q p, In e sp -> e_path e = q ++ [PId p] -> get_type sp p = Some DMaster /\ get_path sp p ++ [PId p] = e_path e.
Proof. exact derive_consistent. Qed.

(* ... the empty path when it declares none *)
Theorem C18_root : forall d sp, derive d = Some sp -> forall v i,
  In v (with_globals d) -> In (AId i) (v_attrs v) -> (forall p, ~ In (APath p) (v_attrs v)) -> get_path sp i = [].
Proof. exact accepted_no_path. Qed.

(* every other id is unknown and has the empty path *)
Theorem C18_undeclared : forall d sp, derive d = Some sp -> forall i,
  (forall v, In v (with_globals d) -> ~ In (AId i) (v_attrs v)) -> get_type sp i = None /\ get_path sp i = [].
Proof. exact accepted_undeclared. Qed.

(* the global elements are present *)
Theorem C18_globals : forall d sp, derive d = Some sp ->
  get_type sp 191 = Some DBinary /\ get_path sp 191 = [PGlobal (Some 1) None] /\
  get_type sp 236 = Some DBinary /\ get_path sp 236 = [PGlobal None None].
Proof. exact accepted_globals. Qed.

(* ---- internal consistency -------------------------------------------------------------------------------------- *)

(* every identifier in a path of the table is a master of the table; hence the iterator's implied-parent seeding
   (Reader.implied_stack: "Bad specification implementation" panic when get_master_tag fails) always succeeds *)
Theorem C18_spec_ok : forall d sp, derive d = Some sp -> spec_ok sp.
Proof. exact accepted_spec_ok. Qed.

Theorem C18_no_implied_parent_panic : forall d sp, derive d = Some sp -> forall id, implied_stack sp (get_path sp id) <> None.
Proof. exact accepted_implied. Qed.

Theorem C18_spec_ok_suffices : forall sp, spec_ok sp -> forall id, implied_stack sp (get_path sp id) <> None.
Proof. exact spec_ok_implied. Qed.

(* ---- the writer ------------------------------------------------------------------------------------------------------ *)

(* a RawTag value answers as_binary only.  Handing the writer RawTag(id, _) with an id the specification declares as anything but
   Binary used to reach `tag.as_<type>().unwrap_or_else(|| panic!("Bad specification implementation ..."))` in
   /repo/src/tag_writer.rs (RawTag is a public variant).  Repaired as D27: the declared type is looked up only when it is Binary or
   the tag does not answer as_binary(); otherwise the tag is written as is, like one with an undeclared id (no hierarchy check).
   With the repository's test specification [test_sp], default options, shown as (state, result) of buffer_tag:
   RawTag(0x4101 declared UnsignedInt, [1]) inside its parent 0x81: the bytes 41 01 81 01 are appended, Ok;
   RawTag(0x81 declared Master, []) at the root: 81 80 appended, Ok;
   RawTag(0xa1 declared Binary, [1]) at the root: treated as the declared element, refused as misplaced, state unchanged;
   RawTag(0x4242 undeclared, [1]): 42 42 81 01 appended, Ok;
   and the run Start(0x81), RawTag(0x4101,[1]), End(0x81) against a destination that accepts everything: three Ok, the destination
   holds 81 84 41 01 81 01.  No WPanic anywhere *)
Example C18_writer_raw_written_ex :
  buffer_tag test_sp (TElem 0x4101 (VRaw [1])) o_default (fst (buffer_tag test_sp (TStart 0x81) o_default (w_init []))) =
    ({| w_open := [(0x81, WKnown 0, O)]; w_buf := [0x41; 0x01; 0x81; 1]; w_dest := []; w_script := [] |}, WOk) /\
  buffer_tag test_sp (TElem 0x81 (VRaw [])) o_default (w_init []) =
    ({| w_open := []; w_buf := [0x81; 0x80]; w_dest := []; w_script := [] |}, WOk) /\
  buffer_tag test_sp (TElem 0xa1 (VRaw [1])) o_default (w_init []) = (w_init [], WErr (EUnexpectedTag 0xa1 [])) /\
  buffer_tag test_sp (TElem 0x4242 (VRaw [1])) o_default (w_init []) =
    ({| w_open := []; w_buf := [0x42; 0x42; 0x81; 1]; w_dest := []; w_script := [] |}, WOk) /\
  run_writer test_sp [OpWrite (TStart 0x81) o_default; OpWrite (TElem 0x4101 (VRaw [1])) o_default; OpWrite (TEnd 0x81) o_default] [] =
    ([(WOk, 0%nat); (WOk, 0%nat); (WOk, 6%nat)], [0x81; 0x84; 0x41; 0x01; 0x81; 1]).
Proof. exact writer_raw_written_ex. Qed.

(* in general, for every specification, state and options: buffering RawTag(id, data) where id is declared with a type ty other than
   Binary (Master included), the unknown-size option is off, id is a well-formed vint (is_vint: the check the writer applies to ids it
   does not look up) and the size field f exists for the requested width ([size_len_of o]: the explicit width 1..8, or 0 = shortest):
   the result is Ok and the working buffer grows by exactly id ++ f ++ data; open masters, destination and script are unchanged; the
   hierarchy is not consulted *)
Theorem C18_writer_raw_written : forall sp id data o st ty f, get_type sp id = Some ty -> ty <> DBinary -> o_unknown o = false ->
  is_vint id = true -> size_to_vint (N.of_nat (length data)) (size_len_of o) = Some f ->
  buffer_tag sp (TElem id (VRaw data)) o st = (append st (id_bytes id ++ f ++ data), WOk).
Proof. exact writer_raw_written. Qed.

(* under default options the size field exists as soon as the payload is shorter than 2^56-1 bytes *)
Theorem C18_writer_raw_written_default : forall sp id data st ty, get_type sp id = Some ty -> ty <> DBinary -> is_vint id = true ->
  N.of_nat (length data) < 2 ^ 56 - 1 ->
  exists f, size_to_vint (N.of_nat (length data)) O = Some f /\
            buffer_tag sp (TElem id (VRaw data)) o_default st = (append st (id_bytes id ++ f ++ data), WOk).
Proof. exact writer_raw_written_default. Qed.

(* without any hypothesis: buffering a RawTag never panics - whatever the specification, the id, the payload, the options, the state *)
Theorem C18_writer_raw_never_panics : forall sp id data o st, snd (buffer_tag sp (TElem id (VRaw data)) o st) <> WPanic.
Proof. exact buffer_raw_never_panics. Qed.

(* [tag_consistent sp t] (Proofs/WriterNoPanic.v): what the typing of a generated enum guarantees about a tag value - a variant fixes
   the id and the kind of value, so an unsigned/signed/float/utf8/binary-valued element carries an id declared with that type, a
   Start/End/Full carries an id declared Master, and every child of a Full is consistent; RawTag may carry any id *)
Example C18_tag_consistent_reading : forall sp id cs n z b s bs data,
  (tag_consistent sp (TElem id (VU n)) <-> get_type sp id = Some DUInt) /\
  (tag_consistent sp (TElem id (VI z)) <-> get_type sp id = Some DSInt) /\
  (tag_consistent sp (TElem id (VF b)) <-> get_type sp id = Some DFloat) /\
  (tag_consistent sp (TElem id (VS s)) <-> get_type sp id = Some DUtf8) /\
  (tag_consistent sp (TElem id (VB bs)) <-> get_type sp id = Some DBinary) /\
  (tag_consistent sp (TElem id (VRaw data)) <-> True) /\
  (tag_consistent sp (TStart id) <-> get_type sp id = Some DMaster) /\
  (tag_consistent sp (TEnd id) <-> get_type sp id = Some DMaster) /\
  (tag_consistent sp (TFull id cs) <-> get_type sp id = Some DMaster /\ Forall (tag_consistent sp) cs).
Proof. intros. repeat (split; [reflexivity|]). apply tag_consistent_full. Qed.

(* the writer half of "used with the iterator and writer it never triggers the 'bad specification' panics": for EVERY specification
   sp (derived or not), every destination script (what the destination's successive write() calls do: accept n bytes, Interrupted,
   accept 0, fail) and every call sequence in which the tag of every write / write_advanced (OpWrite, any options) and every
   write_unknown_size (OpWriteUnknown) is consistent with sp - write_raw, flush and into_inner calls are unrestricted - no call of
   the run returns the panic outcome.  ([op_consistent sp op] is [tag_consistent sp t] for OpWrite t _ / OpWriteUnknown t, True
   otherwise.)  Covered panic sites of the model: the accessor unwraps ("Bad specification implementation"), a master tag under a
   non-master id and vice versa, an undeclared id on a non-binary tag, the size-field encoders (widths are 0 or 1..8), and the
   `working_buffer.len() - start` underflow when a known-size master is ended *)
Theorem C18_writer_no_panic : forall sp ops script, Forall (op_consistent sp) ops ->
  Forall (fun x => fst x <> WPanic) (fst (run_writer sp ops script)).
Proof. exact writer_no_panic. Qed.

(* the same from any writer state that satisfies the invariant [winv] (every open known-size master started inside of the working
   buffer; the initial state does: winv_init), and each call preserves the invariant *)
Theorem C18_writer_no_panic_step : forall sp st op st1 r, winv st -> op_consistent sp op -> wstep sp st op = (st1, r) ->
  r <> WPanic /\ winv st1.
Proof. exact wstep_no_panic. Qed.

(* non-vacuity: a consistent call sequence over the test specification - Start(0x81), an unsigned element, a RawTag with an id
   declared Utf8, a Full master (explicit width 2) with a typed child and an undeclared raw child, a RawTag with the id of a master,
   an unknown-size Start, write_raw, flush, and an End that is refused because flush closed everything - run against a destination
   that accepts 3 bytes, is interrupted, then fails, and against one that accepts everything *)
Example C18_writer_no_panic_ex :
  let ops := [OpWrite (TStart 0x81) o_default; OpWrite (TElem 0x4101 (VU 5)) o_default; OpWrite (TElem 0x4102 (VRaw [1; 2])) o_default;
              OpWrite (TFull 0x4103 [TElem 0x210301 (VU 7); TElem 0x4242 (VRaw [9])]) {| o_len := Some 2%nat; o_unknown := false |};
              OpWrite (TElem 0x81 (VRaw [])) o_default; OpWriteUnknown (TStart 0x4103); OpRaw 0xec [0]; OpFlush;
              OpWrite (TEnd 0x81) o_default] in
  Forall (op_consistent test_sp) ops /\
  run_writer test_sp ops [WAcc 3; WInt; WFail 7] =
    ([(WOk, 0%nat); (WOk, 0%nat); (WOk, 0%nat); (WOk, 0%nat); (WOk, 0%nat); (WOk, 0%nat); (WOk, 0%nat);
      (WErr (EIo (IoCode 7)), 3%nat); (WErr (EClose 0x81 None), 3%nat)], [0x81; 0xa5; 0x41]) /\
  run_writer test_sp ops [] =
    ([(WOk, 0%nat); (WOk, 0%nat); (WOk, 0%nat); (WOk, 0%nat); (WOk, 0%nat); (WOk, 0%nat); (WOk, 0%nat);
      (WOk, 39%nat); (WErr (EClose 0x81 None), 39%nat)],
     [0x81; 0xa5; 0x41; 0x01; 0x81; 5; 0x41; 0x02; 0x82; 1; 2; 0x41; 0x03; 0x40; 9; 0x21; 0x03; 0x01; 0x81; 7; 0x42; 0x42; 0x81; 9;
      0x81; 0x80; 0x41; 0x03; 0x01; 0xff; 0xff; 0xff; 0xff; 0xff; 0xff; 0xff; 0xec; 0x81; 0]).
Proof. cbv zeta. split; [repeat constructor|]. vm_compute. split; reflexivity. Qed.

(* get_<ty>_tag(id, _) constructs a tag iff the table gives id the type ty *)
Theorem C18_ctor : forall d pvs, derive_full d = Some pvs -> forall ty id,
  (exists nm, ctor_result pvs ty id = Some nm) <-> get_type (get_impl pvs) id = Some ty.
Proof. exact ctor_iff. Qed.

(* the constructed tag reports the id it was constructed for and answers exactly the accessor of its type
   (hypotheses: what rustc enforces on the rewritten enum — distinct variant names, none called RawTag) *)
Theorem C18_accessors : forall d pvs, derive_full d = Some pvs ->
  NoDup (names_of d) -> ~ In rawtag_name (names_of d) ->
  forall ty id nm self, ctor_result pvs ty id = Some nm ->
    get_id_result pvs nm self = Some id /\ forall ty', acc_result pvs ty' nm = true <-> ty' = ty.
Proof. exact ctor_accessors. Qed.

(* the raw-tag variant reports its own id and answers only as_binary *)
Theorem C18_raw : forall pvs self, ~ In rawtag_name (map pv_name pvs) ->
  get_id_result pvs rawtag_name self = Some self /\ forall ty, acc_result pvs ty rawtag_name = true <-> ty = DBinary.
Proof. exact raw_accessors. Qed.

(* the table of the two generated match expressions is the per-variant table *)
Theorem C18_table_shape : forall pvs, NoDup (map pv_id pvs) -> get_impl pvs = map (entry_of pvs) pvs.
Proof. exact get_impl_eq. Qed.

(* the recursion of validate_path always has enough fuel *)
Theorem C18_fuel : forall pvs f1 f2 o,
  (length (path_or_empty o) < f1)%nat -> (length (path_or_empty o) < f2)%nat ->
  validate_path pvs f1 o = validate_path pvs f2 o.
Proof. exact validate_path_fuel. Qed.

(* easy_ebml lowering: `Path/To/Name : Type = id` is the variant Name with #[id], #[data_type] and, unless the
   prefix is empty, #[doc_path(Path/To)]; both front-ends then run the same code *)
Theorem C18_easy_lower : forall ev v, easy_lower ev = Some v ->
  exists pre, ev_path ev = pre ++ [PPIdent (v_name v)] /\
    v_attrs v = [AId (ev_id ev); AType (ev_ty ev)] ++ match pre with [] => [] | _ => [APath pre] end.
Proof. exact easy_lower_spec. Qed.

(* ---- acceptance, exactly -------------------------------------------------------------------------------------------- *)

(* the macro turns the declaration d into the parsed variant list pvs iff (1) pvs lists, in order, the variants of d followed by Crc32
   and Void, each with the same name and [variant_ok]: exactly one #[id], fitting u64; exactly one #[data_type], of a recognised type;
   at most one #[doc_path], and then non-empty with [parts_ok]: every identifier is a variant name of the enum, every placeholder bound
   fits u64, no placeholder has maximum 0, no two placeholders are adjacent; (2) the ids are pairwise distinct; (3) [parent_ok]: for
   every variant with a path that contains an identifier, the last identifier names (the last variant of that name wins) a variant of
   type Master whose own declared path (empty if none) is exactly the part of the path before that identifier *)
Theorem C18_derive_full_iff : forall d pvs, derive_full d = Some pvs <->
  Forall2 (variant_ok (names_of d)) (with_globals d) pvs /\ NoDup (map pv_id pvs) /\ Forall (parent_ok pvs) pvs.
Proof. exact derive_full_iff. Qed.

(* the macro accepts d iff such a list exists *)
Theorem C18_accepted_iff : forall d, derive d <> None <->
  exists pvs, Forall2 (variant_ok (names_of d)) (with_globals d) pvs /\ NoDup (map pv_id pvs) /\ Forall (parent_ok pvs) pvs.
Proof. exact accepted_iff. Qed.

(* the ingredients: the attribute scan of one variant, and the well-formedness of a path, as readable predicates *)
Theorem C18_variant_ok_iff : forall names v pv, variant_from_syn names v = Some pv <-> variant_ok names v pv.
Proof. exact from_syn_iff. Qed.
Theorem C18_parts_ok_iff : forall names p, check_parts names false p = true <-> parts_ok names p.
Proof. exact check_parts_iff. Qed.
Theorem C18_parent_ok_iff : forall pvs, validate_all pvs = true <-> Forall (parent_ok pvs) pvs.
Proof. exact validate_all_iff. Qed.

(* ---- rejections: one theorem per malformation class, for arbitrary declarations containing it ---------------- *)

Theorem C18_reject_duplicate_id : forall d l1 v1 l2 v2 l3 i, with_globals d = l1 ++ v1 :: l2 ++ v2 :: l3 ->
  In (AId i) (v_attrs v1) -> In (AId i) (v_attrs v2) -> derive d = None.
Proof. exact reject_dup_id. Qed.

Theorem C18_reject_global_id : forall d v, In v d -> In (AId 191) (v_attrs v) \/ In (AId 236) (v_attrs v) -> derive d = None.
Proof. exact reject_global_id. Qed.

Theorem C18_reject_unknown_parent : forall d v p n, In v (with_globals d) -> In (APath p) (v_attrs v) ->
  In (PPIdent n) p -> ~ In n (names_of d) -> derive d = None.
Proof. exact reject_unknown_ident. Qed.

(* the parent (last identifier of the path) is not declared a master by any variant of that name *)
Theorem C18_reject_non_master_parent : forall d v pre n post, In v (with_globals d) ->
  In (APath (pre ++ PPIdent n :: post)) (v_attrs v) -> no_ident post ->
  (forall w, In w (with_globals d) -> v_name w = n -> ~ In (AType (Some DMaster)) (v_attrs w)) ->
  derive d = None.
Proof. exact reject_non_master_parent. Qed.

(* the part of the path before the parent is not the parent's own declared path (shorter, longer or different) *)
Theorem C18_reject_path_mismatch : forall d v pre n post, In v (with_globals d) ->
  In (APath (pre ++ PPIdent n :: post)) (v_attrs v) -> no_ident post ->
  (forall w, In w (with_globals d) -> v_name w = n -> ~ declared_path w pre) ->
  derive d = None.
Proof. exact reject_path_mismatch. Qed.

Theorem C18_reject_zero_maximum : forall d v p mn, In v (with_globals d) -> In (APath p) (v_attrs v) ->
  In (PPGlobal mn (Some 0)) p -> derive d = None.
Proof. exact reject_max0. Qed.

Theorem C18_reject_adjacent_globals : forall d v pre a1 a2 b1 b2 post, In v (with_globals d) ->
  In (APath (pre ++ PPGlobal a1 a2 :: PPGlobal b1 b2 :: post)) (v_attrs v) -> derive d = None.
Proof. exact reject_adjacent. Qed.

Theorem C18_reject_missing_id : forall d v, In v (with_globals d) -> (forall i, ~ In (AId i) (v_attrs v)) -> derive d = None.
Proof. exact reject_missing_id. Qed.

Theorem C18_reject_missing_type : forall d v, In v (with_globals d) -> (forall t, ~ In (AType t) (v_attrs v)) -> derive d = None.
Proof. exact reject_missing_type. Qed.

Theorem C18_reject_unknown_type : forall d v, In v (with_globals d) -> In (AType None) (v_attrs v) -> derive d = None.
Proof. exact reject_unknown_type. Qed.

Theorem C18_reject_duplicate_attribute : forall d v l1 x l2 y l3, In v (with_globals d) ->
  v_attrs v = l1 ++ x :: l2 ++ y :: l3 -> same_kind x y = true -> derive d = None.
Proof. exact reject_dup_attr. Qed.

Theorem C18_reject_empty_path : forall d v, In v (with_globals d) -> In (APath []) (v_attrs v) -> derive d = None.
Proof. exact reject_empty_path. Qed.

Theorem C18_reject_id_overflow : forall d v i, In v (with_globals d) -> In (AId i) (v_attrs v) -> u64_max < i -> derive d = None.
Proof. exact reject_id_overflow. Qed.

(* ---- non-vacuity (vm_compute) ---------------------------------------------------------------------------------- *)

(* the repository's test specification (tests/test_spec.rs) is accepted with exactly its table *)
Example C18_ex_test_spec : derive test_decl = Some
  [ e 0x81 DMaster []; e 0x4101 DUInt [PId 0x81]; e 0x4102 DUtf8 [PId 0x81]; e 0x4103 DMaster [PId 0x81];
    e 0x210301 DUInt [PId 0x81; PId 0x4103]; e 0x1a45dfa3 DMaster []; e 0x18538067 DMaster [];
    e 0x83 DUInt [PId 0x18538067]; e 0x1F43B675 DMaster [PId 0x18538067];
    e 0x97 DUInt [PId 0x18538067; PId 0x1F43B675]; e 0x4100 DUInt [PId 0x18538067; PId 0x1F43B675];
    e 0xa1 DBinary [PId 0x18538067; PId 0x1F43B675]; e 0xa3 DBinary [PId 0x18538067; PId 0x1F43B675];
    e 0xbf DBinary [PGlobal (Some 1) None]; e 0xec DBinary [PGlobal None None] ].
Proof. exact ex_test_spec. Qed.

(* shuffled attributes, an unrelated attribute, a recursive master behind a trailing placeholder with an element below
   it, an 8-byte id *)
Example C18_ex_recursive : derive rec_decl = Some
  [ e 0x81 DMaster []; e 0x4301 DMaster [PId 0x81; PGlobal (Some 0) None];
    e 0x01ffffffffffffff DFloat [PId 0x81; PGlobal (Some 0) None; PId 0x4301];
    e 0x4302 DSInt [PId 0x81; PGlobal None (Some 2)];
    e 0xbf DBinary [PGlobal (Some 1) None]; e 0xec DBinary [PGlobal None None] ].
Proof. exact ex_rec_spec. Qed.

(* one concrete rejected declaration per class, and their repaired neighbours are accepted *)
Example C18_ex_rejections :
  derive [m 3 0x81 DMaster []; m 4 0x81 DUInt [PPIdent 3]] = None /\
  derive [m 3 0x81 DMaster []; m 4 0xbf DBinary [PPIdent 3]] = None /\
  derive [m 3 0x81 DMaster []; m 4 0x82 DUInt [PPIdent 9]] = None /\
  derive [m 3 0x81 DMaster []; m 4 0x82 DUInt [PPIdent 3]; m 5 0x83 DMaster [PPIdent 3; PPIdent 4]] = None /\
  derive [m 3 0x81 DMaster []; m 4 0x82 DMaster [PPIdent 3]; m 5 0x83 DUInt [PPIdent 4]] = None /\
  derive [m 3 0x81 DMaster []; m 4 0x82 DMaster [PPIdent 3]; m 5 0x83 DUInt [PPIdent 3; PPIdent 3; PPIdent 4]] = None /\
  derive [m 3 0x81 DMaster []; m 6 0x84 DMaster []; m 4 0x82 DMaster [PPIdent 3]; m 5 0x83 DUInt [PPIdent 6; PPIdent 4]] = None /\
  derive [m 3 0x81 DMaster []; m 4 0x82 DMaster [PPIdent 3]; m 5 0x83 DUInt [PPIdent 3; PPGlobal None None; PPIdent 4]] = None /\
  derive [m 3 0x81 DMaster []; m 4 0x82 DUInt [PPIdent 3; PPGlobal None (Some 0)]] = None /\
  derive [m 3 0x81 DMaster []; m 4 0x82 DUInt [PPIdent 3; PPGlobal None None; PPGlobal (Some 1) None]] = None /\
  derive [{| v_name := 3; v_attrs := [AType (Some DMaster)] |}] = None /\
  derive [{| v_name := 3; v_attrs := [AId 0x81] |}] = None /\
  derive [{| v_name := 3; v_attrs := [AId 0x81; AType None] |}] = None /\
  derive [{| v_name := 3; v_attrs := [AId 0x81; AType (Some DMaster); AId 0x81] |}] = None.
Proof. exact ex_rejections. Qed.

Example C18_ex_accepted_neighbours :
  derive [m 3 0x81 DMaster []; m 4 0x82 DUInt [PPIdent 3]] <> None /\
  derive [m 3 0x81 DMaster []; m 4 0x82 DMaster [PPIdent 3]; m 5 0x83 DUInt [PPIdent 3; PPIdent 4]] <> None /\
  derive [m 3 0x81 DMaster []; m 4 0x82 DUInt [PPIdent 3; PPGlobal None (Some 1)]] <> None /\
  derive [m 3 0x81 DMaster []; m 4 0x82 DUInt [PPIdent 3; PPGlobal None None]] <> None /\
  derive [] <> None.
Proof. exact ex_accepted_neighbours. Qed.

Example C18_ex_easy :
  easy_derive [ {| ev_path := [PPIdent 3]; ev_ty := Some DMaster; ev_id := 0x81 |};
                {| ev_path := [PPIdent 3; PPIdent 4]; ev_ty := Some DUInt; ev_id := 0x4101 |};
                {| ev_path := [PPIdent 3; PPIdent 6]; ev_ty := Some DMaster; ev_id := 0x4103 |};
                {| ev_path := [PPIdent 3; PPIdent 6; PPIdent 7]; ev_ty := Some DUInt; ev_id := 0x210301 |} ]
  = derive [m 3 0x81 DMaster []; m 4 0x4101 DUInt [PPIdent 3]; m 6 0x4103 DMaster [PPIdent 3];
            m 7 0x210301 DUInt [PPIdent 3; PPIdent 6]] /\
  easy_derive [ {| ev_path := [PPIdent 3; PPGlobal None None]; ev_ty := Some DMaster; ev_id := 0x81 |} ] = None.
Proof. exact ex_easy. Qed.
