(* C18 — derived specifications mean what was declared and are internally consistent.  Statements only.
   [derive] (Model/Derive.v) mirrors specification-derive/src/{ast,attr,pathing}.rs on an abstract syntax of enum
   declarations (variants with their attributes in source order); [with_globals d] = d followed by the Crc32 and Void
   variants the macro appends.  rustc, syn and quote are not modelled (see props/c18.py TRUSTED).
   Scope of "no Bad-specification panic": the theorems below cover the READER's implied-parent seeding (C18_no_implied_parent_panic)
   and the generated constructors/accessors of the declared variants.  The WRITER still panics, for an accepted specification, when it is
   handed RawTag(id, _) with an id that the specification declares with a type other than Binary: C18_writer_raw_panics.
   "Accepted" is characterised exactly by C18_accepted_iff.  Both front-ends run the same code by definition of [easy_derive]
   (C18_easy_lower describes the lowering); of the attributes, only an unrecognised data_type VALUE is rejected — attributes the
   macro does not know ([AOther]) are ignored, as in the Rust code. *)
From Ebml Require Import Base Tools Spec Writer Reader Derive Proofs.Tactics Proofs.DeriveProofs Proofs.AuditMisc.

(* ---- accepted declarations: the table is exactly what was declared ------------------------------------------- *)

(* ids of the generated table are pairwise distinct: "first matching arm wins" is unambiguous *)
Theorem C18_ids_distinct : forall d sp, derive d = Some sp -> NoDup (map e_id sp).
Proof. exact accepted_distinct. Qed.

(* every variant (declared, or appended by the macro) reports its declared type under its declared id ... *)
Theorem C18_type : forall d sp, derive d = Some sp -> forall v i ty,
  In v (with_globals d) -> In (AId i) (v_attrs v) -> In (AType (Some ty)) (v_attrs v) -> get_type sp i = Some ty.
Proof. exact accepted_type. Qed.

(* ... and its declared path, identifiers replaced by the id of a variant of that name, placeholders unchanged ... *)
Theorem C18_path : forall d sp, derive d = Some sp -> forall v i p,
  In v (with_globals d) -> In (AId i) (v_attrs v) -> In (APath p) (v_attrs v) ->
  Forall2 (resolved (with_globals d)) p (get_path sp i).
Proof. exact accepted_path. Qed.

(* ... the empty path when it declares none *)
Theorem C18_root : forall d sp, derive d = Some sp -> forall v i,
  In v (with_globals d) -> In (AId i) (v_attrs v) -> (forall p, ~ In (APath p) (v_attrs v)) -> get_path sp i = [].
Proof. exact accepted_no_path. Qed.

(* every other id is unknown and has the empty path *)
Theorem C18_undeclared : forall d sp, derive d = Some sp -> forall i,
  (forall v, In v (with_globals d) -> ~ In (AId i) (v_attrs v)) -> get_type sp i = None /\ get_path sp i = [].
Proof. exact accepted_undeclared. Qed.

(* the global elements are present *)
Theorem C18_globals : forall d sp, derive d = Some sp ->
  get_type sp 191 = Some DBinary /\ get_path sp 191 = [PGlobal (Some 1) None] /\
  get_type sp 236 = Some DBinary /\ get_path sp 236 = [PGlobal None None].
Proof. exact accepted_globals. Qed.

(* ---- internal consistency -------------------------------------------------------------------------------------- *)

(* every identifier in a path of the table is a master of the table; hence the iterator's implied-parent seeding
   (Reader.implied_stack: "Bad specification implementation" panic when get_master_tag fails) always succeeds *)
Theorem C18_spec_ok : forall d sp, derive d = Some sp -> spec_ok sp.
Proof. exact accepted_spec_ok. Qed.

Theorem C18_no_implied_parent_panic : forall d sp, derive d = Some sp -> forall id, implied_stack sp (get_path sp id) <> None.
Proof. exact accepted_implied. Qed.

Theorem C18_spec_ok_suffices : forall sp, spec_ok sp -> forall id, implied_stack sp (get_path sp id) <> None.
Proof. exact spec_ok_implied. Qed.

(* NOT covered — the writer: a RawTag value answers as_binary only, so handing the writer RawTag(id, _) with an id the specification
   declares as anything but Binary reaches `tag.as_<type>().unwrap_or_else(|| panic!("Bad specification implementation ..."))`
   (/repo/src/tag_writer.rs: line 360/367 as_master for a declared Master, lines 404-420 for the other types; RawTag is a public
   variant, the derive's as_binary arm is specification-derive/src/attr.rs:355).  The writer model has the same panic.  With the
   repository's test specification [test_sp]: RawTag(0x4101 declared UnsignedInt) inside its parent 0x81 and RawTag(0x81 declared
   Master) panic; RawTag(0xa1 declared Binary) does not (it is refused as misplaced at the root); an undeclared id is written *)
Example C18_writer_raw_panics :
  snd (buffer_tag test_sp (TElem 0x4101 (VRaw [1])) o_default (fst (buffer_tag test_sp (TStart 0x81) o_default (w_init [])))) = WPanic /\
  snd (buffer_tag test_sp (TElem 0x81 (VRaw [])) o_default (w_init [])) = WPanic /\
  snd (buffer_tag test_sp (TElem 0xa1 (VRaw [1])) o_default (w_init [])) = WErr (EUnexpectedTag 0xa1 []) /\
  buffer_tag test_sp (TElem 0x4242 (VRaw [1])) o_default (w_init []) =
    ({| w_open := []; w_buf := [0x42; 0x42; 0x81; 1]; w_dest := []; w_script := [] |}, WOk).
Proof. exact writer_raw_panics. Qed.

(* in general, for every specification: buffering RawTag(id, data) panics whenever id is declared with a type ty other than Binary, the
   unknown-size option is off, and (unless ty is Master, which panics before validation) the element is allowed where it is written *)
Theorem C18_writer_raw_panic_general : forall sp id data o st ty, get_type sp id = Some ty -> ty <> DBinary -> o_unknown o = false ->
  (ty = DMaster \/ w_validate sp id (w_open st) = true) ->
  snd (buffer_tag sp (TElem id (VRaw data)) o st) = WPanic.
Proof. exact writer_raw_panic_general. Qed.

(* get_<ty>_tag(id, _) constructs a tag iff the table gives id the type ty *)
Theorem C18_ctor : forall d pvs, derive_full d = Some pvs -> forall ty id,
  (exists nm, ctor_result pvs ty id = Some nm) <-> get_type (get_impl pvs) id = Some ty.
Proof. exact ctor_iff. Qed.

(* the constructed tag reports the id it was constructed for and answers exactly the accessor of its type
   (hypotheses: what rustc enforces on the rewritten enum — distinct variant names, none called RawTag) *)
Theorem C18_accessors : forall d pvs, derive_full d = Some pvs ->
  NoDup (names_of d) -> ~ In rawtag_name (names_of d) ->
  forall ty id nm self, ctor_result pvs ty id = Some nm ->
    get_id_result pvs nm self = Some id /\ forall ty', acc_result pvs ty' nm = true <-> ty' = ty.
Proof. exact ctor_accessors. Qed.

(* the raw-tag variant reports its own id and answers only as_binary *)
Theorem C18_raw : forall pvs self, ~ In rawtag_name (map pv_name pvs) ->
  get_id_result pvs rawtag_name self = Some self /\ forall ty, acc_result pvs ty rawtag_name = true <-> ty = DBinary.
Proof. exact raw_accessors. Qed.

(* the table of the two generated match expressions is the per-variant table *)
Theorem C18_table_shape : forall pvs, NoDup (map pv_id pvs) -> get_impl pvs = map (entry_of pvs) pvs.
Proof. exact get_impl_eq. Qed.

(* the recursion of validate_path always has enough fuel *)
Theorem C18_fuel : forall pvs f1 f2 o,
  (length (path_or_empty o) < f1)%nat -> (length (path_or_empty o) < f2)%nat ->
  validate_path pvs f1 o = validate_path pvs f2 o.
Proof. exact validate_path_fuel. Qed.

(* easy_ebml lowering: `Path/To/Name : Type = id` is the variant Name with #[id], #[data_type] and, unless the
   prefix is empty, #[doc_path(Path/To)]; both front-ends then run the same code *)
Theorem C18_easy_lower : forall ev v, easy_lower ev = Some v ->
  exists pre, ev_path ev = pre ++ [PPIdent (v_name v)] /\
    v_attrs v = [AId (ev_id ev); AType (ev_ty ev)] ++ match pre with [] => [] | _ => [APath pre] end.
Proof. exact easy_lower_spec. Qed.

(* ---- acceptance, exactly -------------------------------------------------------------------------------------------- *)

(* the macro turns the declaration d into the parsed variant list pvs iff (1) pvs lists, in order, the variants of d followed by Crc32
   and Void, each with the same name and [variant_ok]: exactly one #[id], fitting u64; exactly one #[data_type], of a recognised type;
   at most one #[doc_path], and then non-empty with [parts_ok]: every identifier is a variant name of the enum, every placeholder bound
   fits u64, no placeholder has maximum 0, no two placeholders are adjacent; (2) the ids are pairwise distinct; (3) [parent_ok]: for
   every variant with a path that contains an identifier, the last identifier names (the last variant of that name wins) a variant of
   type Master whose own declared path (empty if none) is exactly the part of the path before that identifier *)
Theorem C18_derive_full_iff : forall d pvs, derive_full d = Some pvs <->
  Forall2 (variant_ok (names_of d)) (with_globals d) pvs /\ NoDup (map pv_id pvs) /\ Forall (parent_ok pvs) pvs.
Proof. exact derive_full_iff. Qed.

(* the macro accepts d iff such a list exists *)
Theorem C18_accepted_iff : forall d, derive d <> None <->
  exists pvs, Forall2 (variant_ok (names_of d)) (with_globals d) pvs /\ NoDup (map pv_id pvs) /\ Forall (parent_ok pvs) pvs.
Proof. exact accepted_iff. Qed.

(* the ingredients: the attribute scan of one variant, and the well-formedness of a path, as readable predicates *)
Theorem C18_variant_ok_iff : forall names v pv, variant_from_syn names v = Some pv <-> variant_ok names v pv.
Proof. exact from_syn_iff. Qed.
Theorem C18_parts_ok_iff : forall names p, check_parts names false p = true <-> parts_ok names p.
Proof. exact check_parts_iff. Qed.
Theorem C18_parent_ok_iff : forall pvs, validate_all pvs = true <-> Forall (parent_ok pvs) pvs.
Proof. exact validate_all_iff. Qed.

(* ---- rejections: one theorem per malformation class, for arbitrary declarations containing it ---------------- *)

Theorem C18_reject_duplicate_id : forall d l1 v1 l2 v2 l3 i, with_globals d = l1 ++ v1 :: l2 ++ v2 :: l3 ->
  In (AId i) (v_attrs v1) -> In (AId i) (v_attrs v2) -> derive d = None.
Proof. exact reject_dup_id. Qed.

Theorem C18_reject_global_id : forall d v, In v d -> In (AId 191) (v_attrs v) \/ In (AId 236) (v_attrs v) -> derive d = None.
Proof. exact reject_global_id. Qed.

Theorem C18_reject_unknown_parent : forall d v p n, In v (with_globals d) -> In (APath p) (v_attrs v) ->
  In (PPIdent n) p -> ~ In n (names_of d) -> derive d = None.
Proof. exact reject_unknown_ident. Qed.

(* the parent (last identifier of the path) is not declared a master by any variant of that name *)
Theorem C18_reject_non_master_parent : forall d v pre n post, In v (with_globals d) ->
  In (APath (pre ++ PPIdent n :: post)) (v_attrs v) -> no_ident post ->
  (forall w, In w (with_globals d) -> v_name w = n -> ~ In (AType (Some DMaster)) (v_attrs w)) ->
  derive d = None.
Proof. exact reject_non_master_parent. Qed.

(* the part of the path before the parent is not the parent's own declared path (shorter, longer or different) *)
Theorem C18_reject_path_mismatch : forall d v pre n post, In v (with_globals d) ->
  In (APath (pre ++ PPIdent n :: post)) (v_attrs v) -> no_ident post ->
  (forall w, In w (with_globals d) -> v_name w = n -> ~ declared_path w pre) ->
  derive d = None.
Proof. exact reject_path_mismatch. Qed.

Theorem C18_reject_zero_maximum : forall d v p mn, In v (with_globals d) -> In (APath p) (v_attrs v) ->
  In (PPGlobal mn (Some 0)) p -> derive d = None.
Proof. exact reject_max0. Qed.

Theorem C18_reject_adjacent_globals : forall d v pre a1 a2 b1 b2 post, In v (with_globals d) ->
  In (APath (pre ++ PPGlobal a1 a2 :: PPGlobal b1 b2 :: post)) (v_attrs v) -> derive d = None.
Proof. exact reject_adjacent. Qed.

Theorem C18_reject_missing_id : forall d v, In v (with_globals d) -> (forall i, ~ In (AId i) (v_attrs v)) -> derive d = None.
Proof. exact reject_missing_id. Qed.

Theorem C18_reject_missing_type : forall d v, In v (with_globals d) -> (forall t, ~ In (AType t) (v_attrs v)) -> derive d = None.
Proof. exact reject_missing_type. Qed.

Theorem C18_reject_unknown_type : forall d v, In v (with_globals d) -> In (AType None) (v_attrs v) -> derive d = None.
Proof. exact reject_unknown_type. Qed.

Theorem C18_reject_duplicate_attribute : forall d v l1 x l2 y l3, In v (with_globals d) ->
  v_attrs v = l1 ++ x :: l2 ++ y :: l3 -> same_kind x y = true -> derive d = None.
Proof. exact reject_dup_attr. Qed.

Theorem C18_reject_empty_path : forall d v, In v (with_globals d) -> In (APath []) (v_attrs v) -> derive d = None.
Proof. exact reject_empty_path. Qed.

Theorem C18_reject_id_overflow : forall d v i, In v (with_globals d) -> In (AId i) (v_attrs v) -> u64_max < i -> derive d = None.
Proof. exact reject_id_overflow. Qed.

(* ---- non-vacuity (vm_compute) ---------------------------------------------------------------------------------- *)

(* the repository's test specification (tests/test_spec.rs) is accepted with exactly its table *)
Example C18_ex_test_spec : derive test_decl = Some
  [ e 0x81 DMaster []; e 0x4101 DUInt [PId 0x81]; e 0x4102 DUtf8 [PId 0x81]; e 0x4103 DMaster [PId 0x81];
    e 0x210301 DUInt [PId 0x81; PId 0x4103]; e 0x1a45dfa3 DMaster []; e 0x18538067 DMaster [];
    e 0x83 DUInt [PId 0x18538067]; e 0x1F43B675 DMaster [PId 0x18538067];
    e 0x97 DUInt [PId 0x18538067; PId 0x1F43B675]; e 0x4100 DUInt [PId 0x18538067; PId 0x1F43B675];
    e 0xa1 DBinary [PId 0x18538067; PId 0x1F43B675]; e 0xa3 DBinary [PId 0x18538067; PId 0x1F43B675];
    e 0xbf DBinary [PGlobal (Some 1) None]; e 0xec DBinary [PGlobal None None] ].
Proof. exact ex_test_spec. Qed.

(* shuffled attributes, an unrelated attribute, a recursive master behind a trailing placeholder with an element below
   it, an 8-byte id *)
Example C18_ex_recursive : derive rec_decl = Some
  [ e 0x81 DMaster []; e 0x4301 DMaster [PId 0x81; PGlobal (Some 0) None];
    e 0x01ffffffffffffff DFloat [PId 0x81; PGlobal (Some 0) None; PId 0x4301];
    e 0x4302 DSInt [PId 0x81; PGlobal None (Some 2)];
    e 0xbf DBinary [PGlobal (Some 1) None]; e 0xec DBinary [PGlobal None None] ].
Proof. exact ex_rec_spec. Qed.

(* one concrete rejected declaration per class, and their repaired neighbours are accepted *)
Example C18_ex_rejections :
  derive [m 3 0x81 DMaster []; m 4 0x81 DUInt [PPIdent 3]] = None /\
  derive [m 3 0x81 DMaster []; m 4 0xbf DBinary [PPIdent 3]] = None /\
  derive [m 3 0x81 DMaster []; m 4 0x82 DUInt [PPIdent 9]] = None /\
  derive [m 3 0x81 DMaster []; m 4 0x82 DUInt [PPIdent 3]; m 5 0x83 DMaster [PPIdent 3; PPIdent 4]] = None /\
  derive [m 3 0x81 DMaster []; m 4 0x82 DMaster [PPIdent 3]; m 5 0x83 DUInt [PPIdent 4]] = None /\
  derive [m 3 0x81 DMaster []; m 4 0x82 DMaster [PPIdent 3]; m 5 0x83 DUInt [PPIdent 3; PPIdent 3; PPIdent 4]] = None /\
  derive [m 3 0x81 DMaster []; m 6 0x84 DMaster []; m 4 0x82 DMaster [PPIdent 3]; m 5 0x83 DUInt [PPIdent 6; PPIdent 4]] = None /\
  derive [m 3 0x81 DMaster []; m 4 0x82 DMaster [PPIdent 3]; m 5 0x83 DUInt [PPIdent 3; PPGlobal None None; PPIdent 4]] = None /\
  derive [m 3 0x81 DMaster []; m 4 0x82 DUInt [PPIdent 3; PPGlobal None (Some 0)]] = None /\
  derive [m 3 0x81 DMaster []; m 4 0x82 DUInt [PPIdent 3; PPGlobal None None; PPGlobal (Some 1) None]] = None /\
  derive [{| v_name := 3; v_attrs := [AType (Some DMaster)] |}] = None /\
  derive [{| v_name := 3; v_attrs := [AId 0x81] |}] = None /\
  derive [{| v_name := 3; v_attrs := [AId 0x81; AType None] |}] = None /\
  derive [{| v_name := 3; v_attrs := [AId 0x81; AType (Some DMaster); AId 0x81] |}] = None.
Proof. exact ex_rejections. Qed.

Example C18_ex_accepted_neighbours :
  derive [m 3 0x81 DMaster []; m 4 0x82 DUInt [PPIdent 3]] <> None /\
  derive [m 3 0x81 DMaster []; m 4 0x82 DMaster [PPIdent 3]; m 5 0x83 DUInt [PPIdent 3; PPIdent 4]] <> None /\
  derive [m 3 0x81 DMaster []; m 4 0x82 DUInt [PPIdent 3; PPGlobal None (Some 1)]] <> None /\
  derive [m 3 0x81 DMaster []; m 4 0x82 DUInt [PPIdent 3; PPGlobal None None]] <> None /\
  derive [] <> None.
Proof. exact ex_accepted_neighbours. Qed.

Example C18_ex_easy :
  easy_derive [ {| ev_path := [PPIdent 3]; ev_ty := Some DMaster; ev_id := 0x81 |};
                {| ev_path := [PPIdent 3; PPIdent 4]; ev_ty := Some DUInt; ev_id := 0x4101 |};
                {| ev_path := [PPIdent 3; PPIdent 6]; ev_ty := Some DMaster; ev_id := 0x4103 |};
                {| ev_path := [PPIdent 3; PPIdent 6; PPIdent 7]; ev_ty := Some DUInt; ev_id := 0x210301 |} ]
  = derive [m 3 0x81 DMaster []; m 4 0x4101 DUInt [PPIdent 3]; m 6 0x4103 DMaster [PPIdent 3];
            m 7 0x210301 DUInt [PPIdent 3; PPIdent 6]] /\
  easy_derive [ {| ev_path := [PPIdent 3; PPGlobal None None]; ev_ty := Some DMaster; ev_id := 0x81 |} ] = None.
Proof. exact ex_easy. Qed.
