(* C08 — buffered (Full) masters are exactly the flat stream rolled up.  Statements only.
   The algebraic core (rolling up a well-nested item sequence and unrolling it again is the identity, for every nesting
   including masters inside masters of the same id — the D17 defect) and the run-level simulation are proved: when the run
   with a buffered set completes without an error outcome, unrolling every Full item recursively gives exactly the tag
   sequence of the run of the same reader with nothing buffered (buffered masters nested in each other included).
   The run with nothing buffered yields more items, so it alone can be cut by the per-run item limit (4 * input length + 64);
   the statement therefore comes in three forms: up to that cut, under "the unbuffered run is not cut", and under "the
   unrolled sequence is shorter than the limit".  C08_limit_ex shows the side condition is needed.
   The error directions (Proofs/BufferSimErr.v), for readers that close the open masters at the end of the input
   (c_emit_eof = true; with that option off an input ending inside a buffered master is the recorded defect "buffer_master is
   not resumable"), on well-formed bytes and a specification whose path ids are masters (no panic site, no budget outcome):
   if the run with nothing buffered ends cleanly so does the buffered run (C08_clean_stays_clean; its unrolling is then the
   unbuffered tag sequence); if it ends in an error the buffered run ends in the same error after items whose unrolling is a
   prefix of the unbuffered items (C08_error_prefix; what is missing is the Start and the partial children of the buffered
   masters open at the error).  The "master never ended" error of buffer_master is unreachable (C08_master_end_found).
   C08_error_ex: a buffered master whose third child is corrupted.
   How the drains END (last part of this file, Proofs/BufferedEof.v): a buffered drain that ends with None means, for EVERY
   configuration, a drain with nothing buffered that ends with None after the unrolled items, unless that drain is cut at its
   item limit (C08_buffered_none_export, C08_buffered_none_unbuffered_none); with end-of-input closing the two drains end with
   None together (C08_none_iff).  WITHOUT end-of-input closing (c_emit_eof = false): C08_error_prefix holds unchanged
   (C08_error_prefix_any); C08_clean_stays_clean holds when the drain with nothing buffered leaves no master with a buffered id
   open (C08_clean_stays_clean_open) and fails otherwise (C08_noeof_counterexample: the recorded defect D18). *)
From Ebml Require Import Base Tools Spec Reader Pure Proofs.Tactics Proofs.NoPanic Proofs.RollUp Proofs.Nesting Proofs.BufferSim
  Proofs.BufferSimErr Proofs.BufferedEof.

(* the Full item a buffered master becomes unrolls to its Start, the flattening of the items queued for it, and its End *)
Theorem C08_unroll_rollup_partial : forall tid children, Bal children ->
  flat [roll_up_children tid children] = TStart tid :: flat children ++ [TEnd tid].
Proof. exact rolled_master_unrolls. Qed.

(* when nothing inside was buffered itself, the original Start/End sequence is recovered exactly *)
Theorem C08_recovers_flat_partial : forall tid children, Bal children -> no_full children ->
  flat [roll_up_children tid children] = TStart tid :: children ++ [TEnd tid].
Proof. exact rolled_master_recovers. Qed.

(* grouping never lets an inner End close an outer child: a balanced body is skipped whatever ids it contains *)
Theorem C08_same_id_nesting : forall cid body l, Bal body -> split_child cid O (body ++ TEnd cid :: l) = (body, l).
Proof. exact split_child_group. Qed.

Example C08_ex :
  (* Rec{ Rec{Void 1} Void 2 } Child : same-id nesting groups correctly *)
  roll_up_children 16643 [TStart 17153; TStart 17153; TElem 236 (VB [1]); TEnd 17153; TElem 236 (VB [2]); TEnd 17153; TElem 16642 (VB [])] =
  TFull 16643 [TFull 17153 [TFull 17153 [TElem 236 (VB [1])]; TElem 236 (VB [2])]; TElem 16642 (VB [])].
Proof. vm_compute. reflexivity. Qed.

(* ------------------------------------------------------------------ the run-level simulation *)
(* [unbuffered c]: the configuration c with an empty buffered set.
   One buffered read_next step = one or more unbuffered steps, queuing the same tags once Full items are unrolled *)
Theorem C08_step_simulation : forall c fuel sb,
  b_bad (p_read_next fuel c sb) = None ->
  exists new_b, b_queue (p_read_next fuel c sb) = b_queue sb ++ new_b /\
    (okq new_b ->
       exists n new_u, (forall Q l, usteps (S n) c (recore sb Q l) = recore (p_read_next fuel c sb) (Q ++ new_u) l) /\
                       Unr new_b new_u).
Proof.
  intros c fuel sb Hb. destruct (rn_bm_sim c fuel) as [H _]. destruct (H sb Hb) as [_ [new_b [Hq Hs]]].
  exists new_b. split; [exact Hq|]. intros Ho. destruct (Hs Ho) as [_ Hr]. exact Hr.
Qed.

(* [Unr b u] (items with offsets): u is b with every top-level Full item replaced by Start, unrolled children, End; on tags
   this is [flat] *)
Theorem C08_unr_is_flat : forall b u, Unr b u -> qtags u = flat (qtags b).
Proof. intros b u H. apply (Unr_tags b u H). Qed.

(* whole runs: the buffered run has no error / panic / budget / limit outcome *)
Theorem C08_buffered_run_unrolls : forall c input,
  let outs := p_run c input [RAll] in
  (forall o, In o outs -> match o with OItem _ _ | ONone => True | _ => False end) ->
  ~ In OLimit (p_run (unbuffered c) input [RAll]) ->
  flat (out_tags outs) = out_tags (p_run (unbuffered c) input [RAll]).
Proof. exact buffered_run_unrolls. Qed.

Theorem C08_buffered_run_unrolls_short : forall c input,
  let outs := p_run c input [RAll] in
  (forall o, In o outs -> match o with OItem _ _ | ONone => True | _ => False end) ->
  (length (flat (out_tags outs)) < 4 * length input + 64)%nat ->
  flat (out_tags outs) = out_tags (p_run (unbuffered c) input [RAll]).
Proof. exact buffered_run_unrolls_short. Qed.

(* without a side condition: the unbuffered run yields a prefix, and all of it unless it stops at its item limit *)
Theorem C08_buffered_run_unrolls_upto_limit : forall c input,
  let outs := p_run c input [RAll] in
  (forall o, In o outs -> match o with OItem _ _ | ONone => True | _ => False end) ->
  exists rest, flat (out_tags outs) = out_tags (p_run (unbuffered c) input [RAll]) ++ rest /\
               (~ In OLimit (p_run (unbuffered c) input [RAll]) -> rest = []).
Proof. exact buffered_run_unrolls_upto_limit. Qed.

(* with offsets: a Full item stands for the Start and the End of its master, both reported at the offset of the Full item (the
   offset of the master's Start); every other top-level item is reported with the same offset in both runs *)
Theorem C08_buffered_run_unrolls_items : forall c input,
  let outs := p_run c input [RAll] in
  (forall o, In o outs -> match o with OItem _ _ | ONone => True | _ => False end) ->
  ~ In OLimit (p_run (unbuffered c) input [RAll]) ->
  Unr (out_items outs) (out_items (p_run (unbuffered c) input [RAll])).
Proof. exact buffered_run_unrolls_items. Qed.

Theorem C08_buffered_run_unrolls_items_short : forall c input,
  let outs := p_run c input [RAll] in
  (forall o, In o outs -> match o with OItem _ _ | ONone => True | _ => False end) ->
  (length (flat (out_tags outs)) < 4 * length input + 64)%nat ->
  Unr (out_items outs) (out_items (p_run (unbuffered c) input [RAll])).
Proof. exact buffered_run_unrolls_items_short. Qed.

Theorem C08_buffered_run_unrolls_items_upto_limit : forall c input,
  let outs := p_run c input [RAll] in
  (forall o, In o outs -> match o with OItem _ _ | ONone => True | _ => False end) ->
  exists T rest, Unr (out_items outs) T /\ T = out_items (p_run (unbuffered c) input [RAll]) ++ rest /\
                 (~ In OLimit (p_run (unbuffered c) input [RAll]) -> rest = []).
Proof. exact buffered_run_unrolls_items_upto_limit. Qed.

(* Root{ A{ B{ x = -200 } y = 7 } } with A and B buffered, B nested in A *)
Example C08_run_ex :
  let sp := [ {| e_id := 129; e_ty := DMaster; e_path := [] |}; {| e_id := 16643; e_ty := DMaster; e_path := [PId 129] |};
              {| e_id := 16645; e_ty := DMaster; e_path := [PId 129; PId 16643] |};
              {| e_id := 16641; e_ty := DSInt; e_path := [PId 129; PId 16643; PId 16645] |};
              {| e_id := 16642; e_ty := DUInt; e_path := [PId 129; PId 16643] |} ] in
  let c := {| c_sp := sp; c_allow_id := false; c_allow_hier := false; c_allow_over := false; c_max := Some 4000000000;
              c_buffered := [16643; 16645]; c_emit_eof := true |} in
  let input := [129; 143; 65; 3; 140; 65; 5; 133; 65; 1; 130; 255; 56; 65; 2; 129; 7] in
  p_run c input [RAll] =
    [OItem (TStart 129) 0; OItem (TFull 16643 [TFull 16645 [TElem 16641 (VI (-200))]; TElem 16642 (VU 7)]) 2;
     OItem (TEnd 129) 0; ONone] /\
  p_run (unbuffered c) input [RAll] =
    [OItem (TStart 129) 0; OItem (TStart 16643) 2; OItem (TStart 16645) 5; OItem (TElem 16641 (VI (-200))) 8;
     OItem (TEnd 16645) 5; OItem (TElem 16642 (VU 7)) 13; OItem (TEnd 16643) 2; OItem (TEnd 129) 0; ONone] /\
  flat (out_tags (p_run c input [RAll])) = out_tags (p_run (unbuffered c) input [RAll]).
Proof. vm_compute. repeat split; reflexivity. Qed.

(* the side condition is needed: a specification whose element path names 88 ancestors makes the reader close 88 implied
   masters at the end of a 7-byte input; with two buffered (empty) masters the buffered run needs 92 calls of next() (the
   limit), the unbuffered one 94: it is cut after 92 items while the buffered run completes with None *)
Example C08_limit_ex :
  let chain k := map (fun i => 1000 + N.of_nat i) (seq 0 k) in
  let sp := map (fun i => {| e_id := 1000 + N.of_nat i; e_ty := DMaster; e_path := map PId (chain i) |}) (seq 0 88) ++
            [ {| e_id := 129; e_ty := DMaster; e_path := [PGlobal None None] |};
              {| e_id := 130; e_ty := DUInt; e_path := map PId (chain 88%nat) |} ] in
  let c := {| c_sp := sp; c_allow_id := false; c_allow_hier := false; c_allow_over := false; c_max := None;
              c_buffered := [129]; c_emit_eof := true |} in
  let input := [129; 128; 129; 128; 130; 129; 7] in
  (forall o, In o (p_run c input [RAll]) -> match o with OItem _ _ | ONone => True | _ => False end) /\
  last (p_run (unbuffered c) input [RAll]) ONone = OLimit /\
  length (flat (out_tags (p_run c input [RAll]))) = 93%nat /\
  length (out_tags (p_run (unbuffered c) input [RAll])) = 92%nat.
Proof.
  cbv zeta. split; [|vm_compute; repeat split; reflexivity].
  apply Forall_forall. vm_compute. repeat constructor.
Qed.

(* ------------------------------------------------------------------ the error directions *)
(* [is_item o]: o is an OItem.  A clean run with nothing buffered means a clean run with the buffered set *)
Theorem C08_clean_stays_clean : forall c input items,
  c_emit_eof c = true -> implied_ok (c_sp c) -> wf_bytes input ->
  p_run (unbuffered c) input [RAll] = items ++ [ONone] -> Forall is_item items ->
  exists items', p_run c input [RAll] = items' ++ [ONone] /\ Forall is_item items' /\
                 flat (out_tags items') = out_tags items.
Proof. exact clean_stays_clean. Qed.

(* a run with nothing buffered that ends in an error means a buffered run ending in the same error, after items whose
   unrolling is a prefix of the unbuffered items *)
Theorem C08_error_prefix : forall c input items e,
  c_emit_eof c = true -> implied_ok (c_sp c) -> wf_bytes input ->
  p_run (unbuffered c) input [RAll] = items ++ [OErr e] -> Forall is_item items ->
  exists items' rest, p_run c input [RAll] = items' ++ [OErr e] /\ Forall is_item items' /\
                      out_tags items = flat (out_tags items') ++ rest.
Proof. exact error_prefix. Qed.

(* the same with "no panic site / budget outcome in the buffered run" ([nobad]) as the hypothesis, and with offsets *)
Theorem C08_clean_stays_clean_gen : forall c input items,
  c_emit_eof c = true -> nobad (p_run c input [RAll]) ->
  p_run (unbuffered c) input [RAll] = items ++ [ONone] -> Forall is_item items ->
  exists items', p_run c input [RAll] = items' ++ [ONone] /\ Forall is_item items' /\
                 Unr (out_items items') (out_items items) /\ flat (out_tags items') = out_tags items.
Proof. exact clean_stays_clean_gen. Qed.

Theorem C08_error_prefix_gen : forall c input items e,
  c_emit_eof c = true -> nobad (p_run c input [RAll]) ->
  p_run (unbuffered c) input [RAll] = items ++ [OErr e] -> Forall is_item items ->
  exists items' T extra, p_run c input [RAll] = items' ++ [OErr e] /\ Forall is_item items' /\
    Unr (out_items items') T /\ out_items items = T ++ extra /\
    out_tags items = flat (out_tags items') ++ qtags extra.
Proof. exact error_prefix_gen. Qed.

(* with end-of-input closing, buffer_master never reports "the master never ended": while the buffered master F is open (no
   End of F among the items [ch] queued since its Start) every read_next makes the queue longer, so the branch that pushes
   REof tag_start (Some tid) None None is not taken *)
Theorem C08_master_end_found : forall c, c_emit_eof c = true -> forall f F S0 ch st,
  mem_id (f_id F) (c_buffered c) = true -> no_end (f_id F) (qtags ch) -> Tr (c_buffered c) (F :: S0) ch (b_stack st) ->
  b_bad (p_read_next f c st) = None ->
  (length (b_queue (p_read_next f c st)) <=? length (b_queue st))%nat = false.
Proof. exact bm_reads_grow. Qed.

(* Root{ e = 5, A{ x = 7, x = 8, <unknown id 0x4110> } } with A buffered, unknown ids rejected: the run with nothing buffered
   yields Start(A) and the two children before the error; the buffered run yields the items before A and the same error (the
   partial children are dropped) *)
Example C08_error_ex :
  let sp := [ {| e_id := 129; e_ty := DMaster; e_path := [] |}; {| e_id := 16643; e_ty := DMaster; e_path := [PId 129] |};
              {| e_id := 16644; e_ty := DUInt; e_path := [PId 129] |};
              {| e_id := 16642; e_ty := DUInt; e_path := [PId 129; PId 16643] |} ] in
  let c := {| c_sp := sp; c_allow_id := false; c_allow_hier := false; c_allow_over := false; c_max := Some 4000000000;
              c_buffered := [16643]; c_emit_eof := true |} in
  let input := [129; 147; 65; 4; 129; 5; 65; 3; 140; 65; 2; 129; 7; 65; 2; 129; 8; 65; 16; 129; 9] in
  p_run (unbuffered c) input [RAll] =
    [OItem (TStart 129) 0; OItem (TElem 16644 (VU 5)) 2; OItem (TStart 16643) 6; OItem (TElem 16642 (VU 7)) 9;
     OItem (TElem 16642 (VU 8)) 13; OErr (RInvalidTagId 17 16656)] /\
  p_run c input [RAll] =
    [OItem (TStart 129) 0; OItem (TElem 16644 (VU 5)) 2; OErr (RInvalidTagId 17 16656)].
Proof. vm_compute. split; reflexivity. Qed.

(* ================================================================== how the drains end (Proofs/BufferedEof.v)
   Vocabulary.  [run_u c input lim]: the outcomes of the drain of [unbuffered c] on [input] with the item limit [lim], i.e.
   [snd (p_run_all lim (unbuffered c) (p_init input))]; [p_run (unbuffered c) input [RAll]] is [run_u c input (4 * |input| + 64)]
   (C08_run_u_p_run).  A drain yields items and then exactly one other outcome (C08_drain_items), so "the drain is
   [outs ++ [ONone]]" says: it yielded the items [outs], no error, no panic-site, budget or item-limit outcome, and ended with
   None.
   [final_u c input]: the reader state in which the drain of [unbuffered c] on [input] ends;
   [nobuf c stk]: no frame of the stack [stk] (open masters, started or implied as ancestors) has an id in [c_buffered c]. *)
Theorem C08_run_u_p_run : forall c input, run_u c input (4 * length input + 64) = p_run (unbuffered c) input [RAll].
Proof. exact run_u_p_run. Qed.

(* every configuration, every input: all outcomes of a drain but the last are items *)
Theorem C08_drain_items : forall c input outs fin, p_run c input [RAll] = outs ++ [fin] -> Forall is_item outs.
Proof. exact drain_items. Qed.

(* The export.  EVERY configuration (any buffered set, any tolerances, c_emit_eof on or off), every input: if the buffered drain
   yields the items [outs] and ends with None, there is an unrolling [T] of these items (Start and End of each Full item at the
   offset of the Full item; its tags are the recursively unrolled tags of [outs]) such that, for every item limit [lim], the
   drain with nothing buffered yields exactly [T] and ends with None - provided it is not cut at its limit, which cannot happen
   when [lim] exceeds the number of unrolled tags. *)
Theorem C08_buffered_none_export : forall c input outs, p_run c input [RAll] = outs ++ [ONone] ->
  exists T, Unr (out_items outs) T /\ qtags T = flat (out_tags outs) /\ length T = length (flat (out_tags outs)) /\
    forall lim, ~ In OLimit (run_u c input lim) \/ (length (flat (out_tags outs)) < lim)%nat ->
                run_u c input lim = map item_out T ++ [ONone].
Proof. exact buffered_none_export. Qed.

(* the same for the drain [p_run (unbuffered c) input [RAll]] (item limit 4 * |input| + 64): every configuration, every input; if
   the buffered drain yields the items [outs] and ends with None, and the drain with nothing buffered has no item-limit outcome
   or the unrolled tags of [outs] are fewer than 4 * |input| + 64, then the drain with nothing buffered yields items [outsU]
   and ends with None, [outsU] is an unrolling of [outs], and its tags are the unrolled tags of [outs]. *)
Theorem C08_buffered_none_unbuffered_none : forall c input outs, p_run c input [RAll] = outs ++ [ONone] ->
  ~ In OLimit (p_run (unbuffered c) input [RAll]) \/ (length (flat (out_tags outs)) < 4 * length input + 64)%nat ->
  exists outsU, p_run (unbuffered c) input [RAll] = outsU ++ [ONone] /\ Forall is_item outsU /\
                Unr (out_items outs) (out_items outsU) /\ flat (out_tags outs) = out_tags outsU.
Proof. exact buffered_none_unbuffered_none. Qed.

(* With end-of-input closing, no panic-site / budget outcome in the buffered drain, and the drain with nothing buffered not cut
   at its item limit: the buffered drain ends with None (after items only) if and only if the drain with nothing buffered does.
   (Left to right is C08_buffered_none_unbuffered_none, right to left C08_clean_stays_clean_gen.  The side condition about the
   limit is needed: in C08_limit_ex the buffered drain ends with None and the unbuffered one is cut.) *)
Theorem C08_none_iff : forall c input, c_emit_eof c = true -> nobad (p_run c input [RAll]) ->
  ~ In OLimit (p_run (unbuffered c) input [RAll]) ->
  ((exists outs, p_run c input [RAll] = outs ++ [ONone]) <-> (exists outsU, p_run (unbuffered c) input [RAll] = outsU ++ [ONone])).
Proof. exact none_iff. Qed.

(* ------------------------------------------------------------------ without end-of-input closing
   The two theorems that follow make no assumption on c_emit_eof; with c_emit_eof = true they are C08_error_prefix_gen and
   C08_clean_stays_clean_gen (the extra hypothesis of the second then holds: C08_eof_final_stack_empty). *)

(* C08_error_prefix_gen without the assumption c_emit_eof c = true.  Every configuration, every input: if the buffered drain has
   no panic-site / budget outcome and the drain with nothing buffered yields the items [outsU] and ends in the error [e], then
   the buffered drain yields items [outs] and ends in the same error [e]; [outs] has an unrolling [T] that is a prefix of the
   unbuffered items, the rest [extra] being successful items. *)
Theorem C08_error_prefix_any : forall c input outsU e,
  nobad (p_run c input [RAll]) -> p_run (unbuffered c) input [RAll] = outsU ++ [OErr e] ->
  exists outs T extra, p_run c input [RAll] = outs ++ [OErr e] /\ Forall is_item outs /\
    Unr (out_items outs) T /\ out_items outsU = T ++ extra /\
    out_tags outsU = flat (out_tags outs) ++ qtags extra.
Proof. exact error_prefix_any. Qed.

(* the same on well-formed bytes and a specification whose path ids are masters (as C08_error_prefix, minus c_emit_eof c = true) *)
Theorem C08_error_prefix_any_wf : forall c input outsU e,
  implied_ok (c_sp c) -> wf_bytes input -> p_run (unbuffered c) input [RAll] = outsU ++ [OErr e] ->
  exists outs rest, p_run c input [RAll] = outs ++ [OErr e] /\ Forall is_item outs /\
                    out_tags outsU = flat (out_tags outs) ++ rest.
Proof. exact error_prefix_any_wf. Qed.

(* C08_clean_stays_clean_gen with the assumption c_emit_eof c = true replaced by "the drain with nothing buffered closes every
   master with a buffered id".  Every configuration, every input: if the buffered drain has no panic-site / budget outcome, the
   drain with nothing buffered yields the items [outsU] and ends with None, and in the state in which that drain ends no open
   master (started or implied as an ancestor) has a buffered id, then the buffered drain yields items [outs] and ends with None,
   [outsU] is an unrolling of [outs], and the unrolled tags of [outs] are the tags of [outsU]. *)
Theorem C08_clean_stays_clean_open : forall c input outsU,
  nobad (p_run c input [RAll]) -> p_run (unbuffered c) input [RAll] = outsU ++ [ONone] ->
  nobuf c (b_stack (final_u c input)) ->
  exists outs, p_run c input [RAll] = outs ++ [ONone] /\ Forall is_item outs /\
               Unr (out_items outs) (out_items outsU) /\ flat (out_tags outs) = out_tags outsU.
Proof. exact clean_stays_clean_open. Qed.

Theorem C08_clean_stays_clean_open_wf : forall c input outsU,
  implied_ok (c_sp c) -> wf_bytes input -> p_run (unbuffered c) input [RAll] = outsU ++ [ONone] ->
  nobuf c (b_stack (final_u c input)) ->
  exists outs, p_run c input [RAll] = outs ++ [ONone] /\ Forall is_item outs /\ flat (out_tags outs) = out_tags outsU.
Proof. exact clean_stays_clean_open_wf. Qed.

(* with end-of-input closing a drain with nothing buffered that ends with None leaves nothing open at all *)
Theorem C08_eof_final_stack_empty : forall c input outsU, c_emit_eof c = true ->
  p_run (unbuffered c) input [RAll] = outsU ++ [ONone] -> b_stack (final_u c input) = [].
Proof. exact eof_final_stack_empty. Qed.

(* Root(129) > A(16643, buffered) > x(16642); y(16644) is a child of Root.  End-of-input closing OFF. *)
Definition C08_noeof_sp : spec :=
  [ {| e_id := 129; e_ty := DMaster; e_path := [] |}; {| e_id := 16643; e_ty := DMaster; e_path := [PId 129] |};
    {| e_id := 16644; e_ty := DUInt; e_path := [PId 129] |};
    {| e_id := 16642; e_ty := DUInt; e_path := [PId 129; PId 16643] |} ].
Definition C08_noeof_cfg : cfg :=
  {| c_sp := C08_noeof_sp; c_allow_id := false; c_allow_hier := false; c_allow_over := false; c_max := Some 4000000000;
     c_buffered := [16643]; c_emit_eof := false |}.

(* Root{ A{ x = 7 } y = 9 }, Root and A of unknown size: A is closed by y, the input ends inside Root only.  The drain with
   nothing buffered ends with None, its final stack is [Root]: the hypotheses of C08_clean_stays_clean_open hold, and the buffered
   drain is clean and unrolls to the unbuffered one (neither has an End of Root: nothing closes it). *)
Example C08_noeof_ex :
  let input := [129; 255; 65; 3; 255; 65; 2; 129; 7; 65; 4; 129; 9] in
  p_run (unbuffered C08_noeof_cfg) input [RAll] =
    [OItem (TStart 129) 0; OItem (TStart 16643) 2; OItem (TElem 16642 (VU 7)) 5; OItem (TEnd 16643) 2;
     OItem (TElem 16644 (VU 9)) 9; ONone] /\
  map f_id (b_stack (final_u C08_noeof_cfg input)) = [129] /\
  nobuf C08_noeof_cfg (b_stack (final_u C08_noeof_cfg input)) /\
  p_run C08_noeof_cfg input [RAll] =
    [OItem (TStart 129) 0; OItem (TFull 16643 [TElem 16642 (VU 7)]) 2; OItem (TElem 16644 (VU 9)) 9; ONone].
Proof.
  cbv zeta. split; [vm_compute; reflexivity|]. split; [vm_compute; reflexivity|]. split; [|vm_compute; reflexivity].
  unfold nobuf. vm_compute. repeat constructor.
Qed.

(* The hypothesis cannot be dropped (finding D18).  Root{ A{ x = 7 } } with A of unknown size and the input ending inside A (the
   same happens when A declares more bytes than the input has).  The drain with nothing buffered is clean: Start Root, Start A,
   x, None, and A (a buffered id) is still open in its final state.  The buffered drain is NOT clean: it yields Start Root, then
   the child x of A WITHOUT a Start or Full item of A, then the error "the master at offset 2 never ended".  So
   C08_clean_stays_clean fails with end-of-input closing off, and the conclusion of C08_clean_stays_clean_open fails when a
   buffered master is left open. *)
Example C08_noeof_counterexample :
  let input := [129; 255; 65; 3; 255; 65; 2; 129; 7] in
  p_run (unbuffered C08_noeof_cfg) input [RAll] =
    [OItem (TStart 129) 0; OItem (TStart 16643) 2; OItem (TElem 16642 (VU 7)) 5; ONone] /\
  map f_id (b_stack (final_u C08_noeof_cfg input)) = [16643; 129] /\
  ~ nobuf C08_noeof_cfg (b_stack (final_u C08_noeof_cfg input)) /\
  p_run C08_noeof_cfg input [RAll] =
    [OItem (TStart 129) 0; OItem (TElem 16642 (VU 7)) 5; OErr (REof 2 (Some 16643) None None)] /\
  p_run C08_noeof_cfg [129; 139; 65; 3; 136; 65; 2; 129; 7] [RAll] =
    [OItem (TStart 129) 0; OItem (TElem 16642 (VU 7)) 5; OErr (REof 2 (Some 16643) None None)].
Proof.
  cbv zeta. split; [vm_compute; reflexivity|]. split; [vm_compute; reflexivity|]. split; [|split; vm_compute; reflexivity].
  unfold nobuf. vm_compute. intros H. apply Forall_cons_iff in H. destruct H as [H _]. discriminate H.
Qed.

(* The hypothesis is sufficient, not necessary: it also counts masters that are open as IMPLIED ancestors.  Reading starts at x
   (declared Root/A/x): Root and A are implied, never started, so buffer_master never runs for A; with end-of-input closing off
   they stay open; both drains are clean and equal although a frame with the buffered id A is on the final stack. *)
Example C08_noeof_implied_ex :
  let input := [65; 2; 129; 7] in
  p_run (unbuffered C08_noeof_cfg) input [RAll] = [OItem (TElem 16642 (VU 7)) 0; ONone] /\
  map f_id (b_stack (final_u C08_noeof_cfg input)) = [16643; 129] /\
  p_run C08_noeof_cfg input [RAll] = [OItem (TElem 16642 (VU 7)) 0; ONone].
Proof. vm_compute. repeat split; reflexivity. Qed.

(* C08_error_prefix_any at work with end-of-input closing off: an unknown id (0x4110 at offset 9) inside the open buffered
   master A, and a header truncated by the end of the input inside A: the buffered drain ends in the same error *)
Example C08_noeof_error_ex :
  let bad_id := [129; 255; 65; 3; 255; 65; 2; 129; 7; 65; 16; 129; 9] in
  let cut := [129; 255; 65; 3; 255; 65; 2; 129; 7; 65] in
  p_run (unbuffered C08_noeof_cfg) bad_id [RAll] =
    [OItem (TStart 129) 0; OItem (TStart 16643) 2; OItem (TElem 16642 (VU 7)) 5; OErr (RInvalidTagId 9 16656)] /\
  p_run C08_noeof_cfg bad_id [RAll] = [OItem (TStart 129) 0; OErr (RInvalidTagId 9 16656)] /\
  p_run (unbuffered C08_noeof_cfg) cut [RAll] =
    [OItem (TStart 129) 0; OItem (TStart 16643) 2; OItem (TElem 16642 (VU 7)) 5; OErr (REof 9 None None None)] /\
  p_run C08_noeof_cfg cut [RAll] = [OItem (TStart 129) 0; OErr (REof 9 None None None)].
Proof. vm_compute. repeat split; reflexivity. Qed.
