(* C08 — buffered (Full) masters are exactly the flat stream rolled up.  Statements only.
   PARTIAL: the algebraic core is proved (rolling up a well-nested item sequence and unrolling it again is the identity, for
   every nesting including masters inside masters of the same id — the D17 defect); that the buffered run of the iterator
   collects exactly the items the unbuffered run emits between a master's Start and End (a simulation between two runs of
   different granularity) is covered by the correspondence groups over buffered sets, not proved. *)
From Ebml Require Import Base Tools Spec Reader Pure Proofs.Tactics Proofs.RollUp.

(* the Full item a buffered master becomes unrolls to its Start, the flattening of the items queued for it, and its End *)
Theorem C08_unroll_rollup_partial : forall tid children, Bal children ->
  flat [roll_up_children tid children] = TStart tid :: flat children ++ [TEnd tid].
Proof. exact rolled_master_unrolls. Qed.

(* when nothing inside was buffered itself, the original Start/End sequence is recovered exactly *)
Theorem C08_recovers_flat_partial : forall tid children, Bal children -> no_full children ->
  flat [roll_up_children tid children] = TStart tid :: children ++ [TEnd tid].
Proof. exact rolled_master_recovers. Qed.

(* grouping never lets an inner End close an outer child: a balanced body is skipped whatever ids it contains *)
Theorem C08_same_id_nesting : forall cid body l, Bal body -> split_child cid O (body ++ TEnd cid :: l) = (body, l).
Proof. exact split_child_group. Qed.

Example C08_ex :
  (* Rec{ Rec{Void 1} Void 2 } Child : same-id nesting groups correctly *)
  roll_up_children 16643 [TStart 17153; TStart 17153; TElem 236 (VB [1]); TEnd 17153; TElem 236 (VB [2]); TEnd 17153; TElem 16642 (VB [])] =
  TFull 16643 [TFull 17153 [TFull 17153 [TElem 236 (VB [1])]; TElem 236 (VB [2])]; TElem 16642 (VB [])].
Proof. vm_compute. reflexivity. Qed.
