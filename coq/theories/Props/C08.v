(* C08 — buffered (Full) masters are exactly the flat stream rolled up.  Statements only.
   The algebraic core (rolling up a well-nested item sequence and unrolling it again is the identity, for every nesting
   including masters inside masters of the same id — the D17 defect) and the run-level simulation are proved: when the run
   with a buffered set completes without an error outcome, unrolling every Full item recursively gives exactly the tag
   sequence of the run of the same reader with nothing buffered (buffered masters nested in each other included).
   The run with nothing buffered yields more items, so it alone can be cut by the per-run item limit (4 * input length + 64);
   the statement therefore comes in three forms: up to that cut, under "the unbuffered run is not cut", and under "the
   unrolled sequence is shorter than the limit".  C08_limit_ex shows the side condition is needed.
   The error directions (Proofs/BufferSimErr.v), for readers that close the open masters at the end of the input
   (c_emit_eof = true; with that option off an input ending inside a buffered master is the recorded defect "buffer_master is
   not resumable"), on well-formed bytes and a specification whose path ids are masters (no panic site, no budget outcome):
   if the run with nothing buffered ends cleanly so does the buffered run (C08_clean_stays_clean; its unrolling is then the
   unbuffered tag sequence); if it ends in an error the buffered run ends in the same error after items whose unrolling is a
   prefix of the unbuffered items (C08_error_prefix; what is missing is the Start and the partial children of the buffered
   masters open at the error).  The "master never ended" error of buffer_master is unreachable (C08_master_end_found).
   C08_error_ex: a buffered master whose third child is corrupted. *)
From Ebml Require Import Base Tools Spec Reader Pure Proofs.Tactics Proofs.NoPanic Proofs.RollUp Proofs.Nesting Proofs.BufferSim
  Proofs.BufferSimErr.

(* the Full item a buffered master becomes unrolls to its Start, the flattening of the items queued for it, and its End *)
Theorem C08_unroll_rollup_partial : forall tid children, Bal children ->
  flat [roll_up_children tid children] = TStart tid :: flat children ++ [TEnd tid].
Proof. exact rolled_master_unrolls. Qed.

(* when nothing inside was buffered itself, the original Start/End sequence is recovered exactly *)
Theorem C08_recovers_flat_partial : forall tid children, Bal children -> no_full children ->
  flat [roll_up_children tid children] = TStart tid :: children ++ [TEnd tid].
Proof. exact rolled_master_recovers. Qed.

(* grouping never lets an inner End close an outer child: a balanced body is skipped whatever ids it contains *)
Theorem C08_same_id_nesting : forall cid body l, Bal body -> split_child cid O (body ++ TEnd cid :: l) = (body, l).
Proof. exact split_child_group. Qed.

Example C08_ex :
  (* Rec{ Rec{Void 1} Void 2 } Child : same-id nesting groups correctly *)
  roll_up_children 16643 [TStart 17153; TStart 17153; TElem 236 (VB [1]); TEnd 17153; TElem 236 (VB [2]); TEnd 17153; TElem 16642 (VB [])] =
  TFull 16643 [TFull 17153 [TFull 17153 [TElem 236 (VB [1])]; TElem 236 (VB [2])]; TElem 16642 (VB [])].
Proof. vm_compute. reflexivity. Qed.

(* ------------------------------------------------------------------ the run-level simulation *)
(* [unbuffered c]: the configuration c with an empty buffered set.
   One buffered read_next step = one or more unbuffered steps, queuing the same tags once Full items are unrolled *)
Theorem C08_step_simulation : forall c fuel sb,
  b_bad (p_read_next fuel c sb) = None ->
  exists new_b, b_queue (p_read_next fuel c sb) = b_queue sb ++ new_b /\
    (okq new_b ->
       exists n new_u, (forall Q l, usteps (S n) c (recore sb Q l) = recore (p_read_next fuel c sb) (Q ++ new_u) l) /\
                       Unr new_b new_u).
Proof.
  intros c fuel sb Hb. destruct (rn_bm_sim c fuel) as [H _]. destruct (H sb Hb) as [_ [new_b [Hq Hs]]].
  exists new_b. split; [exact Hq|]. intros Ho. destruct (Hs Ho) as [_ Hr]. exact Hr.
Qed.

(* [Unr b u] (items with offsets): u is b with every top-level Full item replaced by Start, unrolled children, End; on tags
   this is [flat] *)
Theorem C08_unr_is_flat : forall b u, Unr b u -> qtags u = flat (qtags b).
Proof. intros b u H. apply (Unr_tags b u H). Qed.

(* whole runs: the buffered run has no error / panic / budget / limit outcome *)
Theorem C08_buffered_run_unrolls : forall c input,
  let outs := p_run c input [RAll] in
  (forall o, In o outs -> match o with OItem _ _ | ONone => True | _ => False end) ->
  ~ In OLimit (p_run (unbuffered c) input [RAll]) ->
  flat (out_tags outs) = out_tags (p_run (unbuffered c) input [RAll]).
Proof. exact buffered_run_unrolls. Qed.

Theorem C08_buffered_run_unrolls_short : forall c input,
  let outs := p_run c input [RAll] in
  (forall o, In o outs -> match o with OItem _ _ | ONone => True | _ => False end) ->
  (length (flat (out_tags outs)) < 4 * length input + 64)%nat ->
  flat (out_tags outs) = out_tags (p_run (unbuffered c) input [RAll]).
Proof. exact buffered_run_unrolls_short. Qed.

(* without a side condition: the unbuffered run yields a prefix, and all of it unless it stops at its item limit *)
Theorem C08_buffered_run_unrolls_upto_limit : forall c input,
  let outs := p_run c input [RAll] in
  (forall o, In o outs -> match o with OItem _ _ | ONone => True | _ => False end) ->
  exists rest, flat (out_tags outs) = out_tags (p_run (unbuffered c) input [RAll]) ++ rest /\
               (~ In OLimit (p_run (unbuffered c) input [RAll]) -> rest = []).
Proof. exact buffered_run_unrolls_upto_limit. Qed.

(* with offsets: a Full item stands for the Start and the End of its master, both reported at the offset of the Full item (the
   offset of the master's Start); every other top-level item is reported with the same offset in both runs *)
Theorem C08_buffered_run_unrolls_items : forall c input,
  let outs := p_run c input [RAll] in
  (forall o, In o outs -> match o with OItem _ _ | ONone => True | _ => False end) ->
  ~ In OLimit (p_run (unbuffered c) input [RAll]) ->
  Unr (out_items outs) (out_items (p_run (unbuffered c) input [RAll])).
Proof. exact buffered_run_unrolls_items. Qed.

Theorem C08_buffered_run_unrolls_items_short : forall c input,
  let outs := p_run c input [RAll] in
  (forall o, In o outs -> match o with OItem _ _ | ONone => True | _ => False end) ->
  (length (flat (out_tags outs)) < 4 * length input + 64)%nat ->
  Unr (out_items outs) (out_items (p_run (unbuffered c) input [RAll])).
Proof. exact buffered_run_unrolls_items_short. Qed.

Theorem C08_buffered_run_unrolls_items_upto_limit : forall c input,
  let outs := p_run c input [RAll] in
  (forall o, In o outs -> match o with OItem _ _ | ONone => True | _ => False end) ->
  exists T rest, Unr (out_items outs) T /\ T = out_items (p_run (unbuffered c) input [RAll]) ++ rest /\
                 (~ In OLimit (p_run (unbuffered c) input [RAll]) -> rest = []).
Proof. exact buffered_run_unrolls_items_upto_limit. Qed.

(* Root{ A{ B{ x = -200 } y = 7 } } with A and B buffered, B nested in A *)
Example C08_run_ex :
  let sp := [ {| e_id := 129; e_ty := DMaster; e_path := [] |}; {| e_id := 16643; e_ty := DMaster; e_path := [PId 129] |};
              {| e_id := 16645; e_ty := DMaster; e_path := [PId 129; PId 16643] |};
              {| e_id := 16641; e_ty := DSInt; e_path := [PId 129; PId 16643; PId 16645] |};
              {| e_id := 16642; e_ty := DUInt; e_path := [PId 129; PId 16643] |} ] in
  let c := {| c_sp := sp; c_allow_id := false; c_allow_hier := false; c_allow_over := false; c_max := Some 4000000000;
              c_buffered := [16643; 16645]; c_emit_eof := true |} in
  let input := [129; 143; 65; 3; 140; 65; 5; 133; 65; 1; 130; 255; 56; 65; 2; 129; 7] in
  p_run c input [RAll] =
    [OItem (TStart 129) 0; OItem (TFull 16643 [TFull 16645 [TElem 16641 (VI (-200))]; TElem 16642 (VU 7)]) 2;
     OItem (TEnd 129) 0; ONone] /\
  p_run (unbuffered c) input [RAll] =
    [OItem (TStart 129) 0; OItem (TStart 16643) 2; OItem (TStart 16645) 5; OItem (TElem 16641 (VI (-200))) 8;
     OItem (TEnd 16645) 5; OItem (TElem 16642 (VU 7)) 13; OItem (TEnd 16643) 2; OItem (TEnd 129) 0; ONone] /\
  flat (out_tags (p_run c input [RAll])) = out_tags (p_run (unbuffered c) input [RAll]).
Proof. vm_compute. repeat split; reflexivity. Qed.

(* the side condition is needed: a specification whose element path names 88 ancestors makes the reader close 88 implied
   masters at the end of a 7-byte input; with two buffered (empty) masters the buffered run needs 92 calls of next() (the
   limit), the unbuffered one 94: it is cut after 92 items while the buffered run completes with None *)
Example C08_limit_ex :
  let chain k := map (fun i => 1000 + N.of_nat i) (seq 0 k) in
  let sp := map (fun i => {| e_id := 1000 + N.of_nat i; e_ty := DMaster; e_path := map PId (chain i) |}) (seq 0 88) ++
            [ {| e_id := 129; e_ty := DMaster; e_path := [PGlobal None None] |};
              {| e_id := 130; e_ty := DUInt; e_path := map PId (chain 88%nat) |} ] in
  let c := {| c_sp := sp; c_allow_id := false; c_allow_hier := false; c_allow_over := false; c_max := None;
              c_buffered := [129]; c_emit_eof := true |} in
  let input := [129; 128; 129; 128; 130; 129; 7] in
  (forall o, In o (p_run c input [RAll]) -> match o with OItem _ _ | ONone => True | _ => False end) /\
  last (p_run (unbuffered c) input [RAll]) ONone = OLimit /\
  length (flat (out_tags (p_run c input [RAll]))) = 93%nat /\
  length (out_tags (p_run (unbuffered c) input [RAll])) = 92%nat.
Proof.
  cbv zeta. split; [|vm_compute; repeat split; reflexivity].
  apply Forall_forall. vm_compute. repeat constructor.
Qed.

(* ------------------------------------------------------------------ the error directions *)
(* [is_item o]: o is an OItem.  A clean run with nothing buffered means a clean run with the buffered set *)
Theorem C08_clean_stays_clean : forall c input items,
  c_emit_eof c = true -> implied_ok (c_sp c) -> wf_bytes input ->
  p_run (unbuffered c) input [RAll] = items ++ [ONone] -> Forall is_item items ->
  exists items', p_run c input [RAll] = items' ++ [ONone] /\ Forall is_item items' /\
                 flat (out_tags items') = out_tags items.
Proof. exact clean_stays_clean. Qed.

(* a run with nothing buffered that ends in an error means a buffered run ending in the same error, after items whose
   unrolling is a prefix of the unbuffered items *)
Theorem C08_error_prefix : forall c input items e,
  c_emit_eof c = true -> implied_ok (c_sp c) -> wf_bytes input ->
  p_run (unbuffered c) input [RAll] = items ++ [OErr e] -> Forall is_item items ->
  exists items' rest, p_run c input [RAll] = items' ++ [OErr e] /\ Forall is_item items' /\
                      out_tags items = flat (out_tags items') ++ rest.
Proof. exact error_prefix. Qed.

(* the same with "no panic site / budget outcome in the buffered run" ([nobad]) as the hypothesis, and with offsets *)
Theorem C08_clean_stays_clean_gen : forall c input items,
  c_emit_eof c = true -> nobad (p_run c input [RAll]) ->
  p_run (unbuffered c) input [RAll] = items ++ [ONone] -> Forall is_item items ->
  exists items', p_run c input [RAll] = items' ++ [ONone] /\ Forall is_item items' /\
                 Unr (out_items items') (out_items items) /\ flat (out_tags items') = out_tags items.
Proof. exact clean_stays_clean_gen. Qed.

Theorem C08_error_prefix_gen : forall c input items e,
  c_emit_eof c = true -> nobad (p_run c input [RAll]) ->
  p_run (unbuffered c) input [RAll] = items ++ [OErr e] -> Forall is_item items ->
  exists items' T extra, p_run c input [RAll] = items' ++ [OErr e] /\ Forall is_item items' /\
    Unr (out_items items') T /\ out_items items = T ++ extra /\
    out_tags items = flat (out_tags items') ++ qtags extra.
Proof. exact error_prefix_gen. Qed.

(* with end-of-input closing, buffer_master never reports "the master never ended": while the buffered master F is open (no
   End of F among the items [ch] queued since its Start) every read_next makes the queue longer, so the branch that pushes
   REof tag_start (Some tid) None None is not taken *)
Theorem C08_master_end_found : forall c, c_emit_eof c = true -> forall f F S0 ch st,
  mem_id (f_id F) (c_buffered c) = true -> no_end (f_id F) (qtags ch) -> Tr (c_buffered c) (F :: S0) ch (b_stack st) ->
  b_bad (p_read_next f c st) = None ->
  (length (b_queue (p_read_next f c st)) <=? length (b_queue st))%nat = false.
Proof. exact bm_reads_grow. Qed.

(* Root{ e = 5, A{ x = 7, x = 8, <unknown id 0x4110> } } with A buffered, unknown ids rejected: the run with nothing buffered
   yields Start(A) and the two children before the error; the buffered run yields the items before A and the same error (the
   partial children are dropped) *)
Example C08_error_ex :
  let sp := [ {| e_id := 129; e_ty := DMaster; e_path := [] |}; {| e_id := 16643; e_ty := DMaster; e_path := [PId 129] |};
              {| e_id := 16644; e_ty := DUInt; e_path := [PId 129] |};
              {| e_id := 16642; e_ty := DUInt; e_path := [PId 129; PId 16643] |} ] in
  let c := {| c_sp := sp; c_allow_id := false; c_allow_hier := false; c_allow_over := false; c_max := Some 4000000000;
              c_buffered := [16643]; c_emit_eof := true |} in
  let input := [129; 147; 65; 4; 129; 5; 65; 3; 140; 65; 2; 129; 7; 65; 2; 129; 8; 65; 16; 129; 9] in
  p_run (unbuffered c) input [RAll] =
    [OItem (TStart 129) 0; OItem (TElem 16644 (VU 5)) 2; OItem (TStart 16643) 6; OItem (TElem 16642 (VU 7)) 9;
     OItem (TElem 16642 (VU 8)) 13; OErr (RInvalidTagId 17 16656)] /\
  p_run c input [RAll] =
    [OItem (TStart 129) 0; OItem (TElem 16644 (VU 5)) 2; OErr (RInvalidTagId 17 16656)].
Proof. vm_compute. split; reflexivity. Qed.
