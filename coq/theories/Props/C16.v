(* C16 — fixed-width payload decoders are total and invert the writer's encodings.
   Statements only; every proof is [exact <lemma of Proofs/DecodersProofs, Proofs/AuditCodec>].
   Floats are bit patterns throughout: a float value is the 64-bit pattern of the f64 (N below 2^64); "the identical value" for floats
   means the identical bit pattern.  [widen32] (f32 pattern -> f64 pattern, Model/Tools.v) has no IEEE specification in Coq: that it is
   Rust's `f32 as f64` is checked only by the correspondence run. *)
From Ebml Require Import Base Tools Spec Writer Proofs.Tactics Proofs.BytesProofs Proofs.DecodersProofs Proofs.AuditCodec.

(* unsigned: big-endian value for lengths 0-8 (the empty slice is 0), an error beyond *)
Theorem C16_u64_value : forall a, (length a <= 8)%nat -> arr_to_u64 a = Ok (from_be a).
Proof. exact arr_to_u64_ok. Qed.
Theorem C16_u64_error : forall a, (8 < length a)%nat -> arr_to_u64 a = Err (ReadU64Overflow a).
Proof. exact arr_to_u64_err. Qed.

(* signed: two's complement, sign-extended from the slice length; the empty slice is 0 *)
Theorem C16_i64_value : forall a, wf_bytes a -> (length a <= 8)%nat -> arr_to_i64 a = Ok (sext_bytes a).
Proof. exact arr_to_i64_ok. Qed.
Theorem C16_i64_error : forall a, (8 < length a)%nat -> arr_to_i64 a = Err (ReadI64Overflow a).
Proof. exact arr_to_i64_err. Qed.

(* float: the 8-byte pattern as is, the 4-byte pattern widened, an error for every other length *)
Theorem C16_f64_8 : forall a, length a = 8%nat -> arr_to_f64 a = Ok (from_be a).
Proof. exact arr_to_f64_8. Qed.
Theorem C16_f64_4 : forall a, length a = 4%nat -> arr_to_f64 a = Ok (widen32 (from_be a)).
Proof. exact arr_to_f64_4. Qed.
Theorem C16_f64_error : forall a, length a <> 4%nat -> length a <> 8%nat -> arr_to_f64 a = Err (ReadF64Mismatch a).
Proof. exact arr_to_f64_err. Qed.

(* none of them panics, on any slice.  This holds by the shape of the model: the three model decoders have no Panic branch at all (slice
   indexing and shifts are totalised there), so the theorem records a modelling decision; that the Rust functions do not panic is
   checked by the correspondence run on every slice length 0-9 and beyond *)
Theorem C16_total : forall a, arr_to_u64 a <> Panic /\ arr_to_i64 a <> Panic /\ arr_to_f64 a <> Panic.
Proof. exact decoders_total. Qed.

(* they invert the writer's payload encoders (Writer.write_element): every u64 / i64 / f64 decodes to the identical
   value from a payload of the minimal 1/2/4/8-byte width *)
Theorem C16_writer_uint : forall v, v < 2 ^ 64 ->
  arr_to_u64 (be_bytes (uint_width v) v) = Ok v /\ length (be_bytes (uint_width v) v) = uint_width v.
Proof. exact writer_uint_inverted. Qed.
Theorem C16_writer_uint_minimal : forall v w, (w = 1 \/ w = 2 \/ w = 4 \/ w = 8)%nat -> v < 256 ^ N.of_nat w -> (uint_width v <= w)%nat.
Proof. exact uint_width_minimal. Qed.
Theorem C16_writer_sint : forall z, (- 2 ^ 63 <= z < 2 ^ 63)%Z ->
  arr_to_i64 (be_bytes (sint_width z) (to_u64 z)) = Ok z /\ length (be_bytes (sint_width z) (to_u64 z)) = sint_width z.
Proof. exact writer_sint_inverted. Qed.
(* the signed width is minimal as well: whenever the value fits the two's-complement range of a width w of 1, 2, 4 or 8 bytes, the
   writer's width is at most w ... *)
Theorem C16_writer_sint_minimal : forall z w, (w = 1 \/ w = 2 \/ w = 4 \/ w = 8)%nat ->
  (- 2 ^ (8 * Z.of_nat w - 1) <= z < 2 ^ (8 * Z.of_nat w - 1))%Z -> (sint_width z <= w)%nat.
Proof. exact sint_width_minimal. Qed.
(* ... and the writer's width is itself one of 1, 2, 4, 8 and the value fits it (every i64; likewise every u64) *)
Theorem C16_writer_sint_fits : forall z, (- 2 ^ 63 <= z < 2 ^ 63)%Z ->
  let w := sint_width z in (w = 1 \/ w = 2 \/ w = 4 \/ w = 8)%nat /\ (- 2 ^ (8 * Z.of_nat w - 1) <= z < 2 ^ (8 * Z.of_nat w - 1))%Z.
Proof. exact sint_width_fits. Qed.
Theorem C16_writer_uint_fits : forall v, v < 2 ^ 64 ->
  let w := uint_width v in (w = 1 \/ w = 2 \/ w = 4 \/ w = 8)%nat /\ v < 256 ^ N.of_nat w.
Proof. exact uint_width_fits. Qed.
Theorem C16_writer_float : forall bits, bits < 2 ^ 64 -> arr_to_f64 (be_bytes 8 bits) = Ok bits.
Proof. exact writer_float_inverted. Qed.

(* the writer really emits these payloads: a concrete element write *)
Example C16_ex : arr_to_u64 [] = Ok 0 /\ arr_to_i64 [] = Ok 0%Z /\ arr_to_i64 [255; 56] = Ok (-200)%Z
  /\ arr_to_f64 [63; 192; 0; 0] = Ok 4609434218613702656 /\ arr_to_u64 [1;2;3;4;5;6;7;8;9] = Err (ReadU64Overflow [1;2;3;4;5;6;7;8;9])
  /\ write_element (w_init []) 130 (Some DSInt) (VI (-200)) 0 =
       ({| w_open := []; w_buf := [130; 130; 255; 56]; w_dest := []; w_script := [] |}, WOk).
Proof. vm_compute. repeat split; reflexivity. Qed.

(* the widths at the boundaries of the signed ranges *)
Example C16_ex_sint_widths :
  map sint_width [-128; -129; 127; 128; -32768; -32769; 32767; 32768; -2147483648; -2147483649; 2147483647; 2147483648]%Z =
    [1; 2; 1; 2; 2; 4; 2; 4; 4; 8; 4; 8]%nat.
Proof. vm_compute. reflexivity. Qed.
