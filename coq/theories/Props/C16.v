(* C16 — placeholder until the lemmas are proved (replaced below in this session). *)
From Ebml Require Import Base Tools.
Example C16_ex : arr_to_u64 [] = Ok 0 /\ arr_to_i64 [] = Ok 0%Z /\ arr_to_i64 [255; 56] = Ok (-200)%Z
  /\ arr_to_f64 [63; 192; 0; 0] = Ok 4609434218613702656 /\ arr_to_u64 [1;2;3;4;5;6;7;8;9] = Err (ReadU64Overflow [1;2;3;4;5;6;7;8;9]).
Proof. vm_compute. repeat split; reflexivity. Qed.
