(* C16 — fixed-width payload decoders are total and invert the writer's encodings.
   Statements only; every proof is [exact <lemma of Proofs/DecodersProofs>]. *)
From Ebml Require Import Base Tools Spec Writer Proofs.Tactics Proofs.BytesProofs Proofs.DecodersProofs.

(* unsigned: big-endian value for lengths 0-8 (the empty slice is 0), an error beyond *)
Theorem C16_u64_value : forall a, (length a <= 8)%nat -> arr_to_u64 a = Ok (from_be a).
Proof. exact arr_to_u64_ok. Qed.
Theorem C16_u64_error : forall a, (8 < length a)%nat -> arr_to_u64 a = Err (ReadU64Overflow a).
Proof. exact arr_to_u64_err. Qed.

(* signed: two's complement, sign-extended from the slice length; the empty slice is 0 *)
Theorem C16_i64_value : forall a, wf_bytes a -> (length a <= 8)%nat -> arr_to_i64 a = Ok (sext_bytes a).
Proof. exact arr_to_i64_ok. Qed.
Theorem C16_i64_error : forall a, (8 < length a)%nat -> arr_to_i64 a = Err (ReadI64Overflow a).
Proof. exact arr_to_i64_err. Qed.

(* float: the 8-byte pattern as is, the 4-byte pattern widened, an error for every other length *)
Theorem C16_f64_8 : forall a, length a = 8%nat -> arr_to_f64 a = Ok (from_be a).
Proof. exact arr_to_f64_8. Qed.
Theorem C16_f64_4 : forall a, length a = 4%nat -> arr_to_f64 a = Ok (widen32 (from_be a)).
Proof. exact arr_to_f64_4. Qed.
Theorem C16_f64_error : forall a, length a <> 4%nat -> length a <> 8%nat -> arr_to_f64 a = Err (ReadF64Mismatch a).
Proof. exact arr_to_f64_err. Qed.

(* none of them panics, on any slice *)
Theorem C16_total : forall a, arr_to_u64 a <> Panic /\ arr_to_i64 a <> Panic /\ arr_to_f64 a <> Panic.
Proof. exact decoders_total. Qed.

(* they invert the writer's payload encoders (Writer.write_element): every u64 / i64 / f64 decodes to the identical
   value from a payload of the minimal 1/2/4/8-byte width *)
Theorem C16_writer_uint : forall v, v < 2 ^ 64 ->
  arr_to_u64 (be_bytes (uint_width v) v) = Ok v /\ length (be_bytes (uint_width v) v) = uint_width v.
Proof. exact writer_uint_inverted. Qed.
Theorem C16_writer_uint_minimal : forall v w, (w = 1 \/ w = 2 \/ w = 4 \/ w = 8)%nat -> v < 256 ^ N.of_nat w -> (uint_width v <= w)%nat.
Proof. exact uint_width_minimal. Qed.
Theorem C16_writer_sint : forall z, (- 2 ^ 63 <= z < 2 ^ 63)%Z ->
  arr_to_i64 (be_bytes (sint_width z) (to_u64 z)) = Ok z /\ length (be_bytes (sint_width z) (to_u64 z)) = sint_width z.
Proof. exact writer_sint_inverted. Qed.
Theorem C16_writer_float : forall bits, bits < 2 ^ 64 -> arr_to_f64 (be_bytes 8 bits) = Ok bits.
Proof. exact writer_float_inverted. Qed.

(* the writer really emits these payloads: a concrete element write *)
Example C16_ex : arr_to_u64 [] = Ok 0 /\ arr_to_i64 [] = Ok 0%Z /\ arr_to_i64 [255; 56] = Ok (-200)%Z
  /\ arr_to_f64 [63; 192; 0; 0] = Ok 4609434218613702656 /\ arr_to_u64 [1;2;3;4;5;6;7;8;9] = Err (ReadU64Overflow [1;2;3;4;5;6;7;8;9])
  /\ write_element (w_init []) 130 (Some DSInt) (VI (-200)) 0 =
       ({| w_open := []; w_buf := [130; 130; 255; 56]; w_dest := []; w_script := [] |}, WOk).
Proof. vm_compute. repeat split; reflexivity. Qed.
