(* C20 — async iterator yields what the blocking iterator yields.  Statements only.
   On the pinned code the property does not hold for every poll schedule (known finding D15: a schedule on which a parse step
   finds the inner iterator short of data before the source is exhausted yields a spurious end-of-file); what is proved is the
   part that holds — the schedules that keep the delivered data ahead of the parser — and the refutation witness is exhibited. *)
From Ebml Require Import Base Tools Spec Reader Pure Proofs.Tactics Proofs.ReaderIO Proofs.Refine Proofs.AsyncProofs Proofs.AsyncAhead.

(* PARTIAL (C20_first_read_partial): if the source delivers the whole input (at most 64 KiB) with its first read, the
   non-blocking iterator yields exactly the items, offsets and errors of the abstract reader — which is what the blocking
   iterator yields for every chunking and capacity (C04_refines) — and ends once *)
Theorem C20_first_read_partial : forall c input script n rest_script,
  N.of_nat (length input) <= 65536 ->
  (script = [] \/ (script = Chunk n :: rest_script /\ N.of_nat (length input) <= n /\ rest_script = [])) ->
  run_async c script input = snd (p_run_all (4 * length input + 64) c (p_init input)).
Proof. exact async_first_read. Qed.

(* PREFIX MONOTONICITY of the abstract reader (AsyncAhead.ext st y = st with y appended to its remaining input, all else equal).
   A step that yields an item and does not depend on where the input ends is the same step on every longer input.  "Does not
   depend on where the input ends" is: after the step 16 bytes are still unread (a header look-ahead is at most 8 + 8 bytes,
   payloads are consumed exactly) and no end-of-file error is waiting in the queue ([noeof]: a payload that is longer than the
   rest of the input is the one place where the reader depends on more than 16 bytes; the error is queued behind the End items
   of the masters that closed just before, so the call itself can still yield an item).  Slack alone is not sufficient.
   Holds for every configuration, buffered masters included. *)
Theorem C20_prefix_monotone : forall c st y t off st1,
  p_next c st = (st1, NItem t off) ->
  (16 <= length (b_bytes st1))%nat -> noeof (b_queue st1) ->
  p_next c (ext st y) = (ext st1 y, NItem t off).
Proof. exact p_next_ext. Qed.

(* the same for any result that is not an end-of-file error (other errors, bad states) *)
Theorem C20_prefix_monotone_gen : forall c st y st1 r,
  p_next c st = (st1, r) ->
  (16 <= length (b_bytes st1))%nat -> noeof (b_queue st1) -> nres_noeof r ->
  p_next c (ext st y) = (ext st1 y, r).
Proof. exact p_next_ext_gen. Qed.

(* ONE CALL of the wrapper ([afull a] = the input the inner iterator has not consumed followed by what the source has not
   delivered): if the source does not fail and after the call either everything has been delivered or the inner iterator is
   still ahead ([step_ahead]: 16 delivered bytes unread, no end of file reported or queued), the call is one step of the
   abstract reader on the whole remaining input *)
Theorem C20_one_call : forall c a,
  Good (a_inner a) -> a_slen a = N.of_nat (length (a_src a)) -> no_fail_head (a_script a) = true ->
  step_ahead (fst (anext c a)) (snd (anext c a)) = true ->
  p_next c (afull a) = (afull (fst (anext c a)), snd (anext c a)).
Proof. exact anext_ahead. Qed.

(* PARTIAL (C20_ahead_partial): on every schedule that keeps the wrapper ahead along its run ([aheadb], a computable check
   mirroring [arun]: the source never fails — it may pause —, and after every call either the source has delivered everything
   or the inner iterator still holds 16 unread delivered bytes and has neither reported nor queued an end of file), the
   non-blocking iterator yields exactly the run of the abstract reader on the whole input ... *)
Theorem C20_ahead_partial : forall c script input,
  aheadb (4 * length input + 64) c (a_init script input) = true ->
  run_async c script input = snd (p_run_all (4 * length input + 64) c (p_init input)).
Proof. exact async_ahead. Qed.

(* ... that is, what the blocking iterator yields for every buffer capacity and every chunking of its source *)
Theorem C20_ahead_blocking : forall c script input cap0 s, calm s ->
  aheadb (4 * length input + 64) c (a_init script input) = true ->
  run_async c script input = run_reader c cap0 s input [RAll].
Proof. exact async_ahead_blocking. Qed.

(* the criterion covers C20_first_read_partial (with any later schedule that does not fail) *)
Theorem C20_ahead_covers_first_read : forall c input script,
  N.of_nat (length input) <= 65536 -> nofail script = true ->
  (match script with Chunk n :: _ => N.of_nat (length input) <= n | Pause :: _ => input = [] | _ => True end) ->
  aheadb (4 * length input + 64) c (a_init script input) = true.
Proof. exact aheadb_first_read. Qed.

(* the full statement is false of the faithful model: witness = a 14-byte document whose first read delivers 1 byte *)
Theorem C20_refuted : exists c input script,
  run_async c script input <> run_reader c 65536 [] input [RAll].
Proof.
  exists {| c_sp := [ {| e_id := 129; e_ty := DMaster; e_path := [] |}; {| e_id := 16643; e_ty := DMaster; e_path := [PId 129] |};
                      {| e_id := 16641; e_ty := DUInt; e_path := [PId 129; PId 16643] |}; {| e_id := 16642; e_ty := DBinary; e_path := [PId 129; PId 16643] |} ];
            c_allow_id := false; c_allow_hier := false; c_allow_over := false; c_max := Some 4000000000; c_buffered := []; c_emit_eof := true |},
         [129; 140; 65; 3; 137; 65; 1; 129; 5; 65; 2; 130; 1; 2], [Chunk 1].
  vm_compute. discriminate.
Qed.

Example C20_ex :
  let sp := [ {| e_id := 129; e_ty := DMaster; e_path := [] |}; {| e_id := 16641; e_ty := DUInt; e_path := [PId 129] |} ] in
  let c := {| c_sp := sp; c_allow_id := false; c_allow_hier := false; c_allow_over := false; c_max := Some 4000000000;
              c_buffered := []; c_emit_eof := true |} in
  run_async c [] [129; 132; 65; 1; 129; 7] = [OItem (TStart 129) 0; OItem (TElem 16641 (VU 7)) 2; OItem (TEnd 129) 0; ONone].
Proof. vm_compute. reflexivity. Qed.

(* a 303-byte document (a root master with six 50-byte masters: an unsigned integer and a 40-byte binary each) read through
   the wrapper: with a first read of 60 bytes and then 13 bytes per call (19 reads; a master of 50 bytes takes 4 calls) the
   schedule stays ahead and the run is the blocking run; with a first read of 10 bytes and then 1 byte per call the inner
   iterator starves at the first binary payload and the wrapper reports an end of file at offset 10 *)
Example C20_ahead_ex :
  let sp := [ {| e_id := 129; e_ty := DMaster; e_path := [] |}; {| e_id := 16643; e_ty := DMaster; e_path := [PId 129] |};
              {| e_id := 16641; e_ty := DUInt; e_path := [PId 129; PId 16643] |}; {| e_id := 16642; e_ty := DBinary; e_path := [PId 129; PId 16643] |} ] in
  let c := {| c_sp := sp; c_allow_id := false; c_allow_hier := false; c_allow_over := false; c_max := Some 4000000000;
              c_buffered := []; c_emit_eof := true |} in
  let blk (v : N) : list N := [65; 3; 175; 65; 1; 129; v; 65; 2; 168] ++ repeat v 40 in
  let doc : list N := [129; 65; 44] ++ concat (map blk [1; 2; 3; 4; 5; 6]) in
  let ahead := Chunk 60 :: repeat (Chunk 13) 19 in
  let starved := Chunk 10 :: repeat (Chunk 1) 3 in
  length doc = 303%nat /\
  aheadb (4 * length doc + 64) c (a_init ahead doc) = true /\
  run_async c ahead doc = run_reader c 65536 [] doc [RAll] /\
  aheadb (4 * length doc + 64) c (a_init starved doc) = false /\
  run_async c starved doc =
    [OItem (TStart 129) 0; OItem (TStart 16643) 3; OItem (TElem 16641 (VU 1)) 6; OErr (REof 10 (Some 16642) (Some 40) (Some []))] /\
  run_async c starved doc <> run_reader c 65536 [] doc [RAll].
Proof. vm_compute. split; [reflexivity|]. split; [reflexivity|]. split; [reflexivity|]. split; [reflexivity|]. split; [reflexivity|discriminate]. Qed.
