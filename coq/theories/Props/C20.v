(* C20 — async iterator yields what the blocking iterator yields.  Statements only.
   On the pinned code the property does not hold for every poll schedule (known finding D15: a schedule on which a parse step
   finds the inner iterator short of data before the source is exhausted yields a spurious end-of-file); what is proved is the
   part that holds, and the refutation witness is exhibited. *)
From Ebml Require Import Base Tools Spec Reader Pure Proofs.Tactics Proofs.ReaderIO Proofs.Refine Proofs.AsyncProofs.

(* PARTIAL (C20_first_read_partial): if the source delivers the whole input (at most 64 KiB) with its first read, the
   non-blocking iterator yields exactly the items, offsets and errors of the abstract reader — which is what the blocking
   iterator yields for every chunking and capacity (C04_refines) — and ends once *)
Theorem C20_first_read_partial : forall c input script n rest_script,
  N.of_nat (length input) <= 65536 ->
  (script = [] \/ (script = Chunk n :: rest_script /\ N.of_nat (length input) <= n /\ rest_script = [])) ->
  run_async c script input = snd (p_run_all (4 * length input + 64) c (p_init input)).
Proof. exact async_first_read. Qed.

(* the full statement is false of the faithful model: witness = a 14-byte document whose first read delivers 1 byte *)
Theorem C20_refuted : exists c input script,
  run_async c script input <> run_reader c 65536 [] input [RAll].
Proof.
  exists {| c_sp := [ {| e_id := 129; e_ty := DMaster; e_path := [] |}; {| e_id := 16643; e_ty := DMaster; e_path := [PId 129] |};
                      {| e_id := 16641; e_ty := DUInt; e_path := [PId 129; PId 16643] |}; {| e_id := 16642; e_ty := DBinary; e_path := [PId 129; PId 16643] |} ];
            c_allow_id := false; c_allow_hier := false; c_allow_over := false; c_max := Some 4000000000; c_buffered := []; c_emit_eof := true |},
         [129; 140; 65; 3; 137; 65; 1; 129; 5; 65; 2; 130; 1; 2], [Chunk 1].
  vm_compute. discriminate.
Qed.

Example C20_ex :
  let sp := [ {| e_id := 129; e_ty := DMaster; e_path := [] |}; {| e_id := 16641; e_ty := DUInt; e_path := [PId 129] |} ] in
  let c := {| c_sp := sp; c_allow_id := false; c_allow_hier := false; c_allow_over := false; c_max := Some 4000000000;
              c_buffered := []; c_emit_eof := true |} in
  run_async c [] [129; 132; 65; 1; 129; 7] = [OItem (TStart 129) 0; OItem (TElem 16641 (VU 7)) 2; OItem (TEnd 129) 0; ONone].
Proof. vm_compute. reflexivity. Qed.
