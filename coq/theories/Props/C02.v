(* C02 — reading, re-writing and reading again is a fixpoint.  Statements only.
   PARTIAL: proved for the byte streams that are encodings of conforming documents (Model/Encode.v rtree: any nesting, any
   payload bytes the declared type decodes — zero-padded or empty integers, 4-byte floats —, any size width, any subset of
   masters of unknown size, closed by a following element or the end of input), with declared paths without global
   placeholders.  Streams the strict reader accepts only up to an error, mid-document starts and global elements are
   covered by the correspondence run (read → write → read on mutated and hand-crafted streams). *)
From Ebml Require Import Base Tools Spec Writer Reader Pure Encode Proofs.Tactics Proofs.WriterProofs Proofs.PureProofs Proofs.RoundTrip Proofs.WriteEnc Proofs.Fixpoint.

(* [canon f]: the same tags in the writer's default encoding; [sized c t]: its sizes stay below 2^56-1 and the reader's limit.
   The writer accepts every tag the reader emitted (in particular everything the reader accepts as hierarchy-valid), emits the
   canonical encoding, and the second read yields the tags of the first. *)
Theorem C02_fixpoint_partial : forall c f, strict c -> c_buffered c = [] -> c_emit_eof c = true -> Forall (conf c []) f ->
  Forall (sized c) (map canon f) ->
  let first := p_run c (enc_forest f) [RAll] in
  let written := run_writer (c_sp c) (map default_write (run_tags first)) [] in
  Forall (fun r => fst r = WOk) (fst written) /\
  snd written = enc_forest (map canon f) /\
  map out_tag (p_run c (snd written) [RAll]) = map out_tag first.
Proof. exact read_write_read. Qed.

(* decoded values are always in the range the encoders invert: the decoders' results re-encode to payloads that decode to
   the same value (with C16_writer_uint / _sint / _float) *)
Theorem C02_values_in_range : forall ty pl v, wf_bytes pl -> ty <> DMaster -> decodes (Some ty) pl v -> vshape ty v /\ vok v.
Proof. exact decodes_shape. Qed.

Definition C02_sp : spec :=
  [ {| e_id := 129; e_ty := DMaster; e_path := [] |}; {| e_id := 16641; e_ty := DUInt; e_path := [PId 129] |};
    {| e_id := 16644; e_ty := DFloat; e_path := [PId 129] |}; {| e_id := 16645; e_ty := DSInt; e_path := [PId 129] |} ].
Definition C02_cfg : cfg :=
  {| c_sp := C02_sp; c_allow_id := false; c_allow_hier := false; c_allow_over := false; c_max := Some 4000000000; c_buffered := [];
     c_emit_eof := true |}.
(* unknown-size root closed by the end of input; a zero-padded unsigned 5 behind an 8-byte size field; the 4-byte float 1.5;
   an empty signed integer (= 0) *)
Definition C02_doc : list rtree :=
  [ RNode 129 None [ RLeaf 16641 (VU 5) [0; 0; 5] 8%nat; RLeaf 16644 (VF 4609434218613702656) [63; 192; 0; 0] 1%nat;
                     RLeaf 16645 (VI 0) [] 2%nat ] ].

Example C02_ex_hyps : strict C02_cfg /\ Forall (conf C02_cfg []) C02_doc /\ Forall (sized C02_cfg) (map canon C02_doc).
Proof.
  assert (I1 : idok 129) by (exists 1%nat, 1; repeat split; cbn; lia).
  assert (I2 : idok 16641) by (exists 2%nat, 257; repeat split; cbn; lia).
  assert (I3 : idok 16644) by (exists 2%nat, 260; repeat split; cbn; lia).
  assert (I4 : idok 16645) by (exists 2%nat, 261; repeat split; cbn; lia).
  split; [repeat split|]. split.
  - assert (L1 : conf C02_cfg [129] (RLeaf 16641 (VU 5) [0; 0; 5] 8%nat)).
    { split; [exact I2|]. split; [lia|]. split; [vm_compute; reflexivity|]. split; [repeat constructor; lia|].
      split; [exists DUInt; split; [reflexivity|split; [discriminate|reflexivity]]|]. split; [reflexivity|vm_compute; discriminate]. }
    assert (L2 : conf C02_cfg [129] (RLeaf 16644 (VF 4609434218613702656) [63; 192; 0; 0] 1%nat)).
    { split; [exact I3|]. split; [lia|]. split; [vm_compute; reflexivity|]. split; [repeat constructor; lia|].
      split; [exists DFloat; split; [reflexivity|split; [discriminate|reflexivity]]|]. split; [reflexivity|vm_compute; discriminate]. }
    assert (L3 : conf C02_cfg [129] (RLeaf 16645 (VI 0) [] 2%nat)).
    { split; [exact I4|]. split; [lia|]. split; [vm_compute; reflexivity|]. split; [constructor|].
      split; [exists DSInt; split; [reflexivity|split; [discriminate|reflexivity]]|]. split; [reflexivity|vm_compute; discriminate]. }
    constructor; [|constructor]. apply conf_node. split; [exact I1|]. split; [intros sl Hsl; discriminate Hsl|].
    split; [reflexivity|]. split; [reflexivity|]. split; [exact I|].
    constructor; [exact L1|constructor; [exact L2|constructor; [exact L3|constructor]]].
  - constructor; [|constructor]. cbn [map]. rewrite canon_node. apply sized_node.
    split; [vm_compute; reflexivity|]. split; [vm_compute; discriminate|].
    repeat constructor; try (vm_compute; reflexivity); try (vm_compute; discriminate).
Qed.

Example C02_ex_run :
  let first := p_run C02_cfg (enc_forest C02_doc) [RAll] in
  let written := run_writer C02_sp (map default_write (run_tags first)) [] in
  map out_tag first = [Some (TStart 129); Some (TElem 16641 (VU 5)); Some (TElem 16644 (VF 4609434218613702656)); Some (TElem 16645 (VI 0));
                       Some (TEnd 129); None] /\
  snd written = [129; 147; 65; 1; 129; 5; 65; 4; 136; 63; 248; 0; 0; 0; 0; 0; 0; 65; 5; 129; 0] /\
  map out_tag (p_run C02_cfg (snd written) [RAll]) = map out_tag first.
Proof. vm_compute. repeat split; reflexivity. Qed.
