(* C02 — reading, re-writing and reading again is a fixpoint.  Statements only.
   PARTIAL: proved for the byte streams that are encodings of conforming documents (Model/Encode.v rtree: any nesting, any
   payload bytes the declared type decodes — zero-padded or empty integers, 4-byte floats —, any size width), of two classes:
   (1) declared paths without global placeholders, any subset of masters of unknown size, closed by a following element or
   the end of input (C02_fixpoint_partial); such documents cut on a tag boundary (C02_fixpoint_cut_partial: the masters open
   at the cut may declare more bytes than are present — the end of the input closes them);
   (2) every master of known size, declared paths with GLOBAL PLACEHOLDERS allowed — a path only has to match the chain of
   masters the element sits in —, global elements anywhere (C02_fixpoint_known_partial; start hypothesis [dstart] of
   Proofs/RoundTripKnown.v).
   For both classes one round reaches the fixpoint at the byte level: the re-encoding is idempotent (C02_canon_idempotent) and
   re-writing the second read reproduces the bytes of the first re-write exactly (C02_rewrite_stable).
   Streams the strict reader accepts only up to an error, mid-document starts, and global elements inside masters of unknown
   size are covered by the correspondence run (read → write → read on mutated and hand-crafted streams).
   Each fixpoint theorem has a sibling [..._strong] that determines BOTH outcome lists (items with offsets, then the clean end
   ONone: both reads are error-free), where the original compares them only through [out_tag]. *)
From Ebml Require Import Base Tools Spec Writer Reader Pure Encode Proofs.Tactics Proofs.WriterProofs Proofs.PureProofs Proofs.RoundTrip Proofs.RoundTripKnown Proofs.WriteEnc Proofs.WriteEncG Proofs.Fixpoint Proofs.FixpointKnown Proofs.Partial Proofs.CutExists Proofs.Snapshots Proofs.FixpointCut Proofs.BufferSimErr Proofs.AuditRoundTrip.
From Ebml Require Import Proofs.DStart.

(* [canon f]: the same tags in the writer's default encoding; [sized c t]: its sizes stay below 2^56-1 and the reader's limit.
   The writer accepts every tag the reader emitted (in particular everything the reader accepts as hierarchy-valid), emits the
   canonical encoding, and the second read yields the tags of the first. *)
Theorem C02_fixpoint_partial : forall c f, strict c -> c_buffered c = [] -> c_emit_eof c = true -> Forall (conf c []) f ->
  Forall (sized c) (map canon f) ->
  let first := p_run c (enc_forest f) [RAll] in
  let written := run_writer (c_sp c) (map default_write (run_tags first)) [] in
  Forall (fun r => fst r = WOk) (fst written) /\
  snd written = enc_forest (map canon f) /\
  map out_tag (p_run c (snd written) [RAll]) = map out_tag first.
Proof. exact read_write_read. Qed.

(* [out_tag] maps ONone and every error / budget outcome alike to None, so "the second read yields the tags of the first" above does
   not by itself say that either read is error-free.  On the outcome lists themselves (same hypotheses): the first read is
   EXACTLY the items of the document - tags with the offsets of their first bytes - followed by the clean end ONone; every write
   call succeeds and the bytes written are the canonical encoding; the second read is EXACTLY the items of the canonical
   document (same tags; offsets those of the re-written bytes) followed by the clean end ONone. *)
Theorem C02_fixpoint_partial_strong : forall c f, strict c -> c_buffered c = [] -> c_emit_eof c = true -> Forall (conf c []) f ->
  Forall (sized c) (map canon f) ->
  let first := p_run c (enc_forest f) [RAll] in
  let written := run_writer (c_sp c) (map default_write (run_tags first)) [] in
  let second := p_run c (snd written) [RAll] in
  Forall (fun r => fst r = WOk) (fst written) /\
  snd written = enc_forest (map canon f) /\
  first = items_forest 0 f ++ [ONone] /\
  second = items_forest 0 (map canon f) ++ [ONone] /\
  map out_tag second = map out_tag first.
Proof. exact read_write_read_strong. Qed.

(* the items of a document are items (none of them is an error or budget outcome), and re-encoding keeps the tags *)
Theorem C02_items_are_items : forall f off, Forall is_item (items_forest off f).
Proof. exact items_forest_are_items. Qed.

Theorem C02_canon_same_tags : forall f, tags_forest (map canon f) = tags_forest f.
Proof. exact canon_tags_forest. Qed.

(* decoded values are always in the range the encoders invert: the decoders' results re-encode to payloads that decode to
   the same value (with C16_writer_uint / _sint / _float) *)
Theorem C02_values_in_range : forall ty pl v, wf_bytes pl -> ty <> DMaster -> decodes (Some ty) pl v -> vshape ty v /\ vok v.
Proof. exact decodes_shape. Qed.

Definition C02_sp : spec :=
  [ {| e_id := 129; e_ty := DMaster; e_path := [] |}; {| e_id := 16641; e_ty := DUInt; e_path := [PId 129] |};
    {| e_id := 16644; e_ty := DFloat; e_path := [PId 129] |}; {| e_id := 16645; e_ty := DSInt; e_path := [PId 129] |} ].
Definition C02_cfg : cfg :=
  {| c_sp := C02_sp; c_allow_id := false; c_allow_hier := false; c_allow_over := false; c_max := Some 4000000000; c_buffered := [];
     c_emit_eof := true |}.
(* unknown-size root closed by the end of input; a zero-padded unsigned 5 behind an 8-byte size field; the 4-byte float 1.5;
   an empty signed integer (= 0) *)
Definition C02_doc : list rtree :=
  [ RNode 129 None [ RLeaf 16641 (VU 5) [0; 0; 5] 8%nat; RLeaf 16644 (VF 4609434218613702656) [63; 192; 0; 0] 1%nat;
                     RLeaf 16645 (VI 0) [] 2%nat ] ].

Example C02_ex_hyps : strict C02_cfg /\ Forall (conf C02_cfg []) C02_doc /\ Forall (sized C02_cfg) (map canon C02_doc).
Proof.
  assert (I1 : idok 129) by (exists 1%nat, 1; repeat split; cbn; lia).
  assert (I2 : idok 16641) by (exists 2%nat, 257; repeat split; cbn; lia).
  assert (I3 : idok 16644) by (exists 2%nat, 260; repeat split; cbn; lia).
  assert (I4 : idok 16645) by (exists 2%nat, 261; repeat split; cbn; lia).
  split; [repeat split|]. split.
  - assert (L1 : conf C02_cfg [129] (RLeaf 16641 (VU 5) [0; 0; 5] 8%nat)).
    { split; [exact I2|]. split; [lia|]. split; [vm_compute; reflexivity|]. split; [repeat constructor; lia|].
      split; [exists DUInt; split; [reflexivity|split; [discriminate|reflexivity]]|]. split; [reflexivity|vm_compute; discriminate]. }
    assert (L2 : conf C02_cfg [129] (RLeaf 16644 (VF 4609434218613702656) [63; 192; 0; 0] 1%nat)).
    { split; [exact I3|]. split; [lia|]. split; [vm_compute; reflexivity|]. split; [repeat constructor; lia|].
      split; [exists DFloat; split; [reflexivity|split; [discriminate|reflexivity]]|]. split; [reflexivity|vm_compute; discriminate]. }
    assert (L3 : conf C02_cfg [129] (RLeaf 16645 (VI 0) [] 2%nat)).
    { split; [exact I4|]. split; [lia|]. split; [vm_compute; reflexivity|]. split; [constructor|].
      split; [exists DSInt; split; [reflexivity|split; [discriminate|reflexivity]]|]. split; [reflexivity|vm_compute; discriminate]. }
    constructor; [|constructor]. apply conf_node. split; [exact I1|]. split; [intros sl Hsl; discriminate Hsl|].
    split; [reflexivity|]. split; [reflexivity|]. split; [exact I|].
    constructor; [exact L1|constructor; [exact L2|constructor; [exact L3|constructor]]].
  - constructor; [|constructor]. cbn [map]. rewrite canon_node. apply sized_node.
    split; [vm_compute; reflexivity|]. split; [vm_compute; discriminate|].
    repeat constructor; try (vm_compute; reflexivity); try (vm_compute; discriminate).
Qed.

Example C02_ex_run :
  let first := p_run C02_cfg (enc_forest C02_doc) [RAll] in
  let written := run_writer C02_sp (map default_write (run_tags first)) [] in
  map out_tag first = [Some (TStart 129); Some (TElem 16641 (VU 5)); Some (TElem 16644 (VF 4609434218613702656)); Some (TElem 16645 (VI 0));
                       Some (TEnd 129); None] /\
  snd written = [129; 147; 65; 1; 129; 5; 65; 4; 136; 63; 248; 0; 0; 0; 0; 0; 0; 65; 5; 129; 0] /\
  map out_tag (p_run C02_cfg (snd written) [RAll]) = map out_tag first.
Proof. vm_compute. repeat split; reflexivity. Qed.

(* both outcome lists: items with offsets (those of the original 25 bytes, then those of the 21 re-written bytes), then ONone *)
Example C02_ex_run_strong :
  let first := p_run C02_cfg (enc_forest C02_doc) [RAll] in
  let written := run_writer C02_sp (map default_write (run_tags first)) [] in
  first = [OItem (TStart 129) 0; OItem (TElem 16641 (VU 5)) 9; OItem (TElem 16644 (VF 4609434218613702656)) 22;
           OItem (TElem 16645 (VI 0)) 29; OItem (TEnd 129) 0; ONone] /\
  p_run C02_cfg (snd written) [RAll] =
          [OItem (TStart 129) 0; OItem (TElem 16641 (VU 5)) 2; OItem (TElem 16644 (VF 4609434218613702656)) 6;
           OItem (TElem 16645 (VI 0)) 17; OItem (TEnd 129) 0; ONone] /\
  first = items_forest 0 C02_doc ++ [ONone] /\
  p_run C02_cfg (snd written) [RAll] = items_forest 0 (map canon C02_doc) ++ [ONone].
Proof. vm_compute. repeat split; reflexivity. Qed.

(* ---- documents cut on a tag boundary.  [snapshot_doc L f] (Proofs/Partial.v, Proofs/Snapshots.v): the masters open at the
   cut, outermost first — each with the complete sibling trees in front of it, its id, size-field width and DECLARED size,
   which may exceed the bytes that are there — and the complete trees [f] at the innermost level.  The strict reader reads
   such a stream without error (the end of the input closes every open master); the tags it yields are those of the complete
   document [close_levels L f] (every open master closed around what is there), the writer accepts them under default options
   and emits that document in canonical encoding (with the sizes of the ACTUAL content), and the second read yields the tags
   of the first. *)
Theorem C02_fixpoint_cut_partial : forall c L f, strict c -> c_buffered c = [] -> c_emit_eof c = true ->
  conf_tdoc c (snapshot_doc L f) -> Forall (sized c) (map canon (close_levels L f)) ->
  let first := p_run c (enc_tdoc (snapshot_doc L f)) [RAll] in
  let written := run_writer (c_sp c) (map default_write (run_tags first)) [] in
  Forall (fun r => fst r = WOk) (fst written) /\
  snd written = enc_forest (map canon (close_levels L f)) /\
  map out_tag (p_run c (snd written) [RAll]) = map out_tag first.
Proof. exact read_write_read_cut. Qed.

(* on the outcome lists (same hypotheses): the first read is exactly [out_tdoc (snapshot_doc L f)] (Proofs/Partial.v: the items
   of everything complete with their offsets, the Ends of the open masters, ONone), which consists of items followed by the clean
   end ONone; the second read is exactly the items of the canonical closed document followed by ONone *)
Theorem C02_fixpoint_cut_partial_strong : forall c L f, strict c -> c_buffered c = [] -> c_emit_eof c = true ->
  conf_tdoc c (snapshot_doc L f) -> Forall (sized c) (map canon (close_levels L f)) ->
  let first := p_run c (enc_tdoc (snapshot_doc L f)) [RAll] in
  let written := run_writer (c_sp c) (map default_write (run_tags first)) [] in
  let second := p_run c (snd written) [RAll] in
  Forall (fun r => fst r = WOk) (fst written) /\
  snd written = enc_forest (map canon (close_levels L f)) /\
  first = out_tdoc (snapshot_doc L f) /\
  (exists items, first = items ++ [ONone] /\ Forall is_item items) /\
  second = items_forest 0 (map canon (close_levels L f)) ++ [ONone] /\
  map out_tag second = map out_tag first.
Proof. exact read_write_read_cut_strong. Qed.

(* the tags of both reads: everything complete, then the Ends of the open masters innermost first, then the end of input *)
Theorem C02_cut_tags : forall c L f, strict c -> c_buffered c = [] -> c_emit_eof c = true -> conf_tdoc c (snapshot_doc L f) ->
  map out_tag (p_run c (enc_tdoc (snapshot_doc L f)) [RAll]) = map Some (tags_levels L ++ tags_forest f ++ open_ends L) ++ [None].
Proof. exact read_write_read_cut_tags. Qed.

(* every prefix of a complete conforming document that ends on a tag boundary is such a stream ([cut_doc], C12) *)
Theorem C02_fixpoint_prefix_partial : forall c f k, strict c -> c_buffered c = [] -> c_emit_eof c = true ->
  Forall (conf c []) f -> (k <= length (enc_forest f))%nat -> td_tail (cut_doc f k) = CutBoundary ->
  let closed := close_levels (td_levels (cut_doc f k)) (td_f (cut_doc f k)) in
  Forall (sized c) (map canon closed) ->
  let first := p_run c (firstn k (enc_forest f)) [RAll] in
  let written := run_writer (c_sp c) (map default_write (run_tags first)) [] in
  Forall (fun r => fst r = WOk) (fst written) /\
  snd written = enc_forest (map canon closed) /\
  map out_tag (p_run c (snd written) [RAll]) = map out_tag first.
Proof. exact read_write_read_prefix. Qed.

(* on the outcome lists (same hypotheses): the first read is exactly [out_tdoc (cut_doc f k)], items followed by the clean end
   ONone; the second read is exactly the items of the canonical closed document followed by ONone *)
Theorem C02_fixpoint_prefix_partial_strong : forall c f k, strict c -> c_buffered c = [] -> c_emit_eof c = true ->
  Forall (conf c []) f -> (k <= length (enc_forest f))%nat -> td_tail (cut_doc f k) = CutBoundary ->
  let closed := close_levels (td_levels (cut_doc f k)) (td_f (cut_doc f k)) in
  Forall (sized c) (map canon closed) ->
  let first := p_run c (firstn k (enc_forest f)) [RAll] in
  let written := run_writer (c_sp c) (map default_write (run_tags first)) [] in
  let second := p_run c (snd written) [RAll] in
  Forall (fun r => fst r = WOk) (fst written) /\
  snd written = enc_forest (map canon closed) /\
  first = out_tdoc (cut_doc f k) /\
  (exists items, first = items ++ [ONone] /\ Forall is_item items) /\
  second = items_forest 0 (map canon closed) ++ [ONone] /\
  map out_tag second = map out_tag first.
Proof. exact read_write_read_prefix_strong. Qed.

Definition C02_cut_sp : spec :=
  [ {| e_id := 129; e_ty := DMaster; e_path := [] |}; {| e_id := 16643; e_ty := DMaster; e_path := [PId 129] |};
    {| e_id := 16642; e_ty := DBinary; e_path := [PId 129; PId 16643] |}; {| e_id := 16641; e_ty := DUInt; e_path := [PId 129] |} ].
Definition C02_cut_cfg : cfg :=
  {| c_sp := C02_cut_sp; c_allow_id := false; c_allow_hier := false; c_allow_over := false; c_max := Some 4000000000; c_buffered := [];
     c_emit_eof := true |}.
(* Root (declared 40 bytes) { UInt 5 (zero-padded, 2-byte size field); Parent (2-byte size field, declared 20 bytes) { Bin [7];
   <end of input> } }: 16 bytes are there *)
Definition C02_cut_levels : list level :=
  [ {| lv_f := []; lv_id := 129; lv_sl := 1; lv_size := Some 40 |};
    {| lv_f := [RLeaf 16641 (VU 5) [0; 5] 2%nat]; lv_id := 16643; lv_sl := 2; lv_size := Some 20 |} ].
Definition C02_cut_f : list rtree := [RLeaf 16642 (VB [7]) [7] 1%nat].

Example C02_cut_ex_hyps : strict C02_cut_cfg /\ conf_tdoc C02_cut_cfg (snapshot_doc C02_cut_levels C02_cut_f) /\
  Forall (sized C02_cut_cfg) (map canon (close_levels C02_cut_levels C02_cut_f)).
Proof.
  assert (I1 : idok 129) by (exists 1%nat, 1; repeat split; cbn; lia).
  assert (I2 : idok 16643) by (exists 2%nat, 259; repeat split; cbn; lia).
  assert (I3 : idok 16642) by (exists 2%nat, 258; repeat split; cbn; lia).
  assert (I4 : idok 16641) by (exists 2%nat, 257; repeat split; cbn; lia).
  assert (L1 : conf C02_cut_cfg [129] (RLeaf 16641 (VU 5) [0; 5] 2%nat)).
  { split; [exact I4|]. split; [lia|]. split; [vm_compute; reflexivity|]. split; [repeat constructor; lia|].
    split; [exists DUInt; split; [reflexivity|split; [discriminate|reflexivity]]|]. split; [reflexivity|vm_compute; discriminate]. }
  assert (L2 : conf C02_cut_cfg [129; 16643] (RLeaf 16642 (VB [7]) [7] 1%nat)).
  { split; [exact I3|]. split; [lia|]. split; [vm_compute; reflexivity|]. split; [repeat constructor; lia|].
    split; [exists DBinary; split; [reflexivity|split; [discriminate|reflexivity]]|]. split; [reflexivity|vm_compute; discriminate]. }
  split; [repeat split|]. split.
  - split; [|split; [constructor; [exact L2|constructor]|exact I]].
    cbn [snapshot_doc td_levels td_f td_tail conf_levels C02_cut_levels lv_f lv_id lv_sl lv_size].
    split; [constructor|]. split; [exact I1|]. split; [reflexivity|]. split; [reflexivity|]. split; [split; [lia|vm_compute; reflexivity]|].
    split; [vm_compute; discriminate|]. split; [intros n Hn; injection Hn as <-; vm_compute; discriminate|].
    split; [constructor; [exact L1|constructor]|]. split; [exact I2|]. split; [reflexivity|]. split; [reflexivity|].
    split; [split; [lia|vm_compute; reflexivity]|]. split; [vm_compute; discriminate|]. split; [|exact I].
    intros n Hn. injection Hn as <-. vm_compute. discriminate.
  - cbn [close_levels C02_cut_levels C02_cut_f lv_f lv_id lv_sl app map]. constructor; [|constructor].
    rewrite canon_node. apply sized_node. split; [vm_compute; reflexivity|]. split; [vm_compute; discriminate|].
    cbn [map]. constructor; [split; [vm_compute; reflexivity|vm_compute; discriminate]|]. constructor; [|constructor].
    rewrite canon_node. apply sized_node. split; [vm_compute; reflexivity|]. split; [vm_compute; discriminate|].
    cbn [map]. constructor; [split; [vm_compute; reflexivity|vm_compute; discriminate]|constructor].
Qed.

(* the 16 bytes that are there; the first read ends with the Ends of both open masters; the re-written document is complete,
   with the sizes of the actual content (11 and 4 instead of the declared 40 and 20) and canonical widths and payloads; the
   second read yields the same tags *)
Example C02_cut_ex_run :
  let input := enc_tdoc (snapshot_doc C02_cut_levels C02_cut_f) in
  let first := p_run C02_cut_cfg input [RAll] in
  let written := run_writer C02_cut_sp (map default_write (run_tags first)) [] in
  input = [129; 168; 65; 1; 64; 2; 0; 5; 65; 3; 64; 20; 65; 2; 129; 7] /\
  map out_tag first = [Some (TStart 129); Some (TElem 16641 (VU 5)); Some (TStart 16643); Some (TElem 16642 (VB [7]));
                       Some (TEnd 16643); Some (TEnd 129); None] /\
  Forall (fun r => fst r = WOk) (fst written) /\
  snd written = [129; 139; 65; 1; 129; 5; 65; 3; 132; 65; 2; 129; 7] /\
  snd written = enc_forest (map canon (close_levels C02_cut_levels C02_cut_f)) /\
  map out_tag (p_run C02_cut_cfg (snd written) [RAll]) = map out_tag first.
Proof. vm_compute. repeat split; try reflexivity. repeat constructor. Qed.

(* ---- second class: every master of known size, declared paths with global placeholders.  [kconf c ids t]
   (Proofs/RoundTripKnown.v): every element of t is declared with a path — placeholders allowed — that matches the chain of
   masters it sits in, payloads decode, sizes fit their fields; [dstart c f]: the first element of the document declared with a
   placeholder-free path is a top-level element.  The writer accepts every tag of the first read under default options, emits
   the canonical encoding, and the second read yields the tags of the first. *)
Theorem C02_fixpoint_known_partial : forall c f, strict c -> c_buffered c = [] -> c_emit_eof c = true -> Forall (kconf c []) f ->
  dstart c f -> Forall (sized c) (map canon f) ->
  let first := p_run c (enc_forest f) [RAll] in
  let written := run_writer (c_sp c) (map default_write (run_tags first)) [] in
  Forall (fun r => fst r = WOk) (fst written) /\
  snd written = enc_forest (map canon f) /\
  map out_tag (p_run c (snd written) [RAll]) = map out_tag first.
Proof. exact read_write_read_known. Qed.

(* on the outcome lists (same hypotheses): both reads are exactly the items of the document / of the canonical document followed
   by the clean end ONone *)
Theorem C02_fixpoint_known_partial_strong : forall c f, strict c -> c_buffered c = [] -> c_emit_eof c = true ->
  Forall (kconf c []) f -> dstart c f -> Forall (sized c) (map canon f) ->
  let first := p_run c (enc_forest f) [RAll] in
  let written := run_writer (c_sp c) (map default_write (run_tags first)) [] in
  let second := p_run c (snd written) [RAll] in
  Forall (fun r => fst r = WOk) (fst written) /\
  snd written = enc_forest (map canon f) /\
  first = items_forest 0 f ++ [ONone] /\
  second = items_forest 0 (map canon f) ++ [ONone] /\
  map out_tag second = map out_tag first.
Proof. exact read_write_read_known_strong. Qed.

(* the same without start hypothesis, for a consistent specification ([consistent (c_sp c)], Proofs/DStart.v: every declared
   path that ends in an identifier is that master's declared path followed by it - true of every specification the derive macro
   generates, C01_derive_consistent).  Hypotheses: [strict c], [c_buffered c = []], [c_emit_eof c = true], [consistent (c_sp c)],
   [Forall (kconf c []) f], [Forall (sized c) (map canon f)]. *)
Theorem C02_fixpoint_known_consistent_partial_strong : forall c f, strict c -> c_buffered c = [] -> c_emit_eof c = true ->
  consistent (c_sp c) -> Forall (kconf c []) f -> Forall (sized c) (map canon f) ->
  let first := p_run c (enc_forest f) [RAll] in
  let written := run_writer (c_sp c) (map default_write (run_tags first)) [] in
  let second := p_run c (snd written) [RAll] in
  Forall (fun r => fst r = WOk) (fst written) /\
  snd written = enc_forest (map canon f) /\
  first = items_forest 0 f ++ [ONone] /\
  second = items_forest 0 (map canon f) ++ [ONone] /\
  map out_tag second = map out_tag first.
Proof. exact read_write_read_known_consistent_strong. Qed.

(* the canonical re-encoding is idempotent: payloads and size widths depend on the values and their lengths only *)
Theorem C02_canon_idempotent : forall t, canon (canon t) = canon t.
Proof. exact canon_idem. Qed.

(* a document of the first class is, after one round, in both classes (all its masters have a known size) *)
Theorem C02_canon_both_classes : forall c f, Forall (conf c []) f -> Forall (sized c) (map canon f) ->
  Forall (conf c []) (map canon f) /\ Forall (kconf c []) (map canon f) /\ dstart c (map canon f).
Proof. exact canon_in_both_classes. Qed.

(* one round reaches the fixpoint at the byte level, for both classes: the writer accepts the tags of the second read and
   emits exactly the bytes it emitted for the tags of the first read *)
Theorem C02_rewrite_stable : forall c f, strict c -> c_buffered c = [] -> c_emit_eof c = true ->
  (Forall (conf c []) f \/ (Forall (kconf c []) f /\ dstart c f)) -> Forall (sized c) (map canon f) ->
  let first := p_run c (enc_forest f) [RAll] in
  let written := run_writer (c_sp c) (map default_write (run_tags first)) [] in
  let second := p_run c (snd written) [RAll] in
  let written2 := run_writer (c_sp c) (map default_write (run_tags second)) [] in
  Forall (fun r => fst r = WOk) (fst written2) /\ snd written2 = snd written.
Proof. exact rewrite_is_stable. Qed.

(* ... for the second class without start hypothesis, consistent specification: [strict c], [c_buffered c = []],
   [c_emit_eof c = true], [consistent (c_sp c)], [Forall (kconf c []) f], [Forall (sized c) (map canon f)] *)
Theorem C02_rewrite_stable_known_consistent : forall c f, strict c -> c_buffered c = [] -> c_emit_eof c = true ->
  consistent (c_sp c) -> Forall (kconf c []) f -> Forall (sized c) (map canon f) ->
  let first := p_run c (enc_forest f) [RAll] in
  let written := run_writer (c_sp c) (map default_write (run_tags first)) [] in
  let second := p_run c (snd written) [RAll] in
  let written2 := run_writer (c_sp c) (map default_write (run_tags second)) [] in
  Forall (fun r => fst r = WOk) (fst written2) /\ snd written2 = snd written.
Proof. exact rewrite_is_stable_consistent. Qed.

(* Root = 129; Void = 236, a global element (1-): anywhere at depth >= 1; Rec = 131, a recursive master Root/(-): anywhere
   below Root, itself included; Val = 16641, Root/(-)/Rec *)
Definition C02k_sp : spec :=
  [ {| e_id := 129; e_ty := DMaster; e_path := [] |};
    {| e_id := 236; e_ty := DBinary; e_path := [PGlobal (Some 1) None] |};
    {| e_id := 131; e_ty := DMaster; e_path := [PId 129; PGlobal None None] |};
    {| e_id := 16641; e_ty := DUInt; e_path := [PId 129; PGlobal None None; PId 131] |} ].
Definition C02k_cfg : cfg :=
  {| c_sp := C02k_sp; c_allow_id := false; c_allow_hier := false; c_allow_over := false; c_max := Some 4000000000; c_buffered := [];
     c_emit_eof := true |}.
(* Root (8-byte size field) { Void (8-byte size field); Rec (8-byte size field) { Val 5 (zero-padded to 3 bytes, 8-byte size
   field); Void [1;2] (2-byte size field); Rec (2-byte size field) { Val 300 (zero-padded) } } }: global elements at depths 1
   and 2, the recursive master nested in itself *)
Definition C02k_doc : list rtree :=
  [ RNode 129 (Some 8%nat)
      [ RLeaf 236 (VB [0]) [0] 8%nat;
        RNode 131 (Some 8%nat)
          [ RLeaf 16641 (VU 5) [0; 0; 5] 8%nat;
            RLeaf 236 (VB [1; 2]) [1; 2] 2%nat;
            RNode 131 (Some 2%nat) [ RLeaf 16641 (VU 300) [0; 1; 44] 1%nat ] ] ] ].

Example C02k_ex_hyps : strict C02k_cfg /\ Forall (kconf C02k_cfg []) C02k_doc /\ dstart C02k_cfg C02k_doc /\
  Forall (sized C02k_cfg) (map canon C02k_doc).
Proof.
  assert (I1 : idok 129) by (exists 1%nat, 1; repeat split; cbn; lia).
  assert (I3 : idok 131) by (exists 1%nat, 3; repeat split; cbn; lia).
  assert (I5 : idok 236) by (exists 1%nat, 108; repeat split; cbn; lia).
  assert (I6 : idok 16641) by (exists 2%nat, 257; repeat split; cbn; lia).
  assert (V : forall ids pl sl, path_matches [PGlobal (Some 1) None] ids = true -> (1 <= sl <= 8)%nat ->
            N.of_nat (length pl) < 2 ^ (7 * N.of_nat sl) - 1 -> wf_bytes pl -> N.of_nat (length pl) <= 4000000000 ->
            kconf C02k_cfg ids (RLeaf 236 (VB pl) pl sl)).
  { intros ids pl sl Hp H1 H2 H3 H4. cbn [kconf]. split; [exact I5|]. split; [exact H1|]. split; [exact H2|]. split; [exact H3|].
    split; [exists DBinary; split; [reflexivity|split; [discriminate|reflexivity]]|]. split; [exact Hp|exact H4]. }
  assert (U : forall ids n pl sl, path_matches [PId 129; PGlobal None None; PId 131] ids = true -> (1 <= sl <= 8)%nat ->
            N.of_nat (length pl) < 2 ^ (7 * N.of_nat sl) - 1 -> wf_bytes pl -> N.of_nat (length pl) <= 4000000000 ->
            arr_to_u64 pl = Ok n -> kconf C02k_cfg ids (RLeaf 16641 (VU n) pl sl)).
  { intros ids n pl sl Hp H1 H2 H3 H4 H5. cbn [kconf]. split; [exact I6|]. split; [exact H1|]. split; [exact H2|]. split; [exact H3|].
    split; [exists DUInt; split; [reflexivity|split; [discriminate|exact H5]]|]. split; [exact Hp|exact H4]. }
  assert (N : forall ids id sl cs, idok id -> (1 <= sl <= 8)%nat -> flen cs < 2 ^ (7 * N.of_nat sl) - 1 ->
            get_type C02k_sp id = Some DMaster -> path_matches (get_path C02k_sp id) ids = true -> flen cs <= 4000000000 ->
            Forall (kconf C02k_cfg (ids ++ [id])) cs -> kconf C02k_cfg ids (RNode id (Some sl) cs)).
  { intros ids id sl cs H1 H2 H3 H4 H5 H6 H7. apply kconf_node. split; [exact H1|]. split; [exists sl; split; [reflexivity|split; assumption]|].
    split; [exact H4|]. split; [exact H5|]. split; [exact H6|exact H7]. }
  split; [repeat split|]. split; [|split].
  - constructor; [|constructor].
    apply N; [assumption|lia|vm_compute; reflexivity|reflexivity|reflexivity|vm_compute; discriminate|].
    constructor; [apply V; [reflexivity|lia|vm_compute; reflexivity|repeat constructor; lia|vm_compute; discriminate]|].
    constructor; [|constructor].
    apply N; [assumption|lia|vm_compute; reflexivity|reflexivity|reflexivity|vm_compute; discriminate|].
    constructor; [apply U; [reflexivity|lia|vm_compute; reflexivity|repeat constructor; lia|vm_compute; discriminate|reflexivity]|].
    constructor; [apply V; [reflexivity|lia|vm_compute; reflexivity|repeat constructor; lia|vm_compute; discriminate]|].
    constructor; [|constructor].
    apply N; [assumption|lia|vm_compute; reflexivity|reflexivity|reflexivity|vm_compute; discriminate|].
    constructor; [apply U; [reflexivity|lia|vm_compute; reflexivity|repeat constructor; lia|vm_compute; discriminate|reflexivity]|constructor].
  - cbn [dstart C02k_doc]. left. reflexivity.
  - constructor; [|constructor]. cbn [map C02k_doc]. rewrite canon_node. apply sized_node.
    split; [vm_compute; reflexivity|]. split; [vm_compute; discriminate|].
    cbn [map]. constructor; [split; [vm_compute; reflexivity|vm_compute; discriminate]|]. constructor; [|constructor].
    rewrite canon_node. apply sized_node. split; [vm_compute; reflexivity|]. split; [vm_compute; discriminate|].
    cbn [map]. constructor; [split; [vm_compute; reflexivity|vm_compute; discriminate]|].
    constructor; [split; [vm_compute; reflexivity|vm_compute; discriminate]|]. constructor; [|constructor].
    rewrite canon_node. apply sized_node. split; [vm_compute; reflexivity|]. split; [vm_compute; discriminate|].
    cbn [map]. constructor; [split; [vm_compute; reflexivity|vm_compute; discriminate]|constructor].
Qed.

(* the 55 bytes of the document; the first read; the re-written document: 22 bytes, one-byte size fields, minimal integer
   payloads, the global elements where they were; the second read yields the same tags; re-writing the second read gives the
   same 22 bytes *)
Example C02k_ex_run :
  let input := enc_forest C02k_doc in
  let first := p_run C02k_cfg input [RAll] in
  let written := run_writer C02k_sp (map default_write (run_tags first)) [] in
  let second := p_run C02k_cfg (snd written) [RAll] in
  let written2 := run_writer C02k_sp (map default_write (run_tags second)) [] in
  input = [129; 1; 0; 0; 0; 0; 0; 0; 46; 236; 1; 0; 0; 0; 0; 0; 0; 1; 0; 131; 1; 0; 0; 0; 0; 0; 0; 27;
           65; 1; 1; 0; 0; 0; 0; 0; 0; 3; 0; 0; 5; 236; 64; 2; 1; 2; 131; 64; 6; 65; 1; 131; 0; 1; 44] /\
  map out_tag first = [Some (TStart 129); Some (TElem 236 (VB [0])); Some (TStart 131); Some (TElem 16641 (VU 5));
                       Some (TElem 236 (VB [1; 2])); Some (TStart 131); Some (TElem 16641 (VU 300)); Some (TEnd 131);
                       Some (TEnd 131); Some (TEnd 129); None] /\
  Forall (fun r => fst r = WOk) (fst written) /\
  snd written = [129; 148; 236; 129; 0; 131; 143; 65; 1; 129; 5; 236; 130; 1; 2; 131; 133; 65; 1; 130; 1; 44] /\
  snd written = enc_forest (map canon C02k_doc) /\
  map out_tag second = map out_tag first /\
  Forall (fun r => fst r = WOk) (fst written2) /\
  snd written2 = snd written.
Proof. vm_compute. repeat split; try reflexivity; repeat constructor. Qed.
