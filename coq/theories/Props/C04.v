(* C04 — parse result is independent of read chunking, buffer capacity and EOF pauses.  Statements only.
   Part 1 (C04_refines .. C04_ex): sources that never report Ok(0) before the end — any chunking, any capacity.
   Part 2 (the C04_pause theorems): with end-of-stream closing disabled, sources that report a temporary end of file (Ok(0),
   then more data later) at tag boundaries: the call that meets the pause yields None and leaves the reader as it was;
   draining again after each None yields the items of the slice run, segment by segment (Proofs/Pauses.v).  A pause is "met
   at a tag boundary" when the read() that returns Ok(0) is the probe of read_tag_checked: the window and the queue are empty
   and no open master is exhausted.
   Part 3 (C04_step_lookahead_refines .. C04_lookahead_ex, for c_buffered = []): an Ok(0) met by the 16-byte look-ahead of
   the header peek (or the 8-byte one of the id peek) is not reported by the reader at all; it is harmless when the tag being
   read is already complete in the buffer — which is what a source that pauses at tag boundaries produces for tags shorter
   than the look-ahead (Proofs/PausesLookahead.v).  A pause met while a payload is being read gives UnexpectedEof.
   Part 4 (C04_step_calm_refines .. C04_io_error_ex): sources that FAIL.  Up to the moment the source error is reported the
   buffered reader behaves exactly like the abstract reader (Proofs/RefineFail.v). *)
From Ebml Require Import Base Tools Spec Reader Pure Proofs.Tactics Proofs.ReaderIO Proofs.Refine Proofs.NoPanic Proofs.Termination Proofs.Pauses Proofs.PausesLookahead Proofs.AuditIO Proofs.RefineFail.

(* For every configuration (tolerances, size limit, buffered set, EOF closing), every input, every initial capacity
   (0 included) and every read script in which the source never reports Ok(0) before the end and never fails — any split of
   the bytes into read() results — and every sequence of next()/try_recover() calls, the buffered reader machine produces
   exactly the run of the abstract reader (Model/Pure.v: the parser with the whole remaining input visible) *)
Theorem C04_refines : forall c cap0 script input ops, calm script ->
  run_reader c cap0 script input ops = p_run c input ops.
Proof. exact buffered_refines_pure. Qed.

(* ... hence identical items, offsets and errors for any two capacities and chunkings *)
Theorem C04_independent : forall c cap1 cap2 s1 s2 input ops, calm s1 -> calm s2 ->
  run_reader c cap1 s1 input ops = run_reader c cap2 s2 input ops.
Proof. exact chunking_capacity_independent. Qed.

(* in particular: equal to reading the whole input from a slice (one read that returns everything) with the default capacity *)
Theorem C04_equals_slice : forall c cap0 script input ops, calm script ->
  run_reader c cap0 script input ops = run_reader c 65536 [] input ops.
Proof. intros. apply chunking_capacity_independent; [assumption|constructor]. Qed.

(* the refill loop is transparent and its answer depends only on how much input remains: the lemma the refinement rests on *)
Theorem C04_refill_transparent : forall n st, WF st -> calm (r_script st) ->
  ensure_post n st (fst (ensure n st)) (snd (ensure n st)).
Proof. exact ensure_calm. Qed.
Theorem C04_refill_answer : forall n st, WF st -> calm (r_script st) ->
  snd (ensure n st) = Ok (n <=? r_wlen st + r_rlen st).
Proof. exact ensure_answer. Qed.

(* non-vacuity: a 14-byte document read one byte at a time into a zero-capacity buffer, and in one piece *)
Example C04_ex :
  let sp := [ {| e_id := 129; e_ty := DMaster; e_path := [] |}; {| e_id := 16643; e_ty := DMaster; e_path := [PId 129] |};
              {| e_id := 16641; e_ty := DUInt; e_path := [PId 129; PId 16643] |}; {| e_id := 16642; e_ty := DBinary; e_path := [PId 129; PId 16643] |} ] in
  let c := {| c_sp := sp; c_allow_id := false; c_allow_hier := false; c_allow_over := false; c_max := Some 4000000000;
              c_buffered := []; c_emit_eof := true |} in
  let doc := [129; 140; 65; 3; 137; 65; 1; 129; 5; 65; 2; 130; 1; 2] in
  calm (repeat (Chunk 1) 14) /\
  run_reader c 0 (repeat (Chunk 1) 14) doc [RAll] = run_reader c 65536 [] doc [RAll] /\
  run_reader c 65536 [] doc [RAll] =
    [OItem (TStart 129) 0; OItem (TStart 16643) 2; OItem (TElem 16641 (VU 5)) 5; OItem (TElem 16642 (VB [1; 2])) 9;
     OItem (TEnd 16643) 2; OItem (TEnd 129) 0; ONone].
Proof. split; [repeat constructor|]. vm_compute. split; reflexivity. Qed.

(* ------------------------------------------------------------------ temporary end of file at tag boundaries *)
(* the step: a Pause met with an empty window, an empty queue and no exhausted master, end-of-stream closing disabled —
   next() returns None; the state is unchanged but for the consumed script entry (and a zero capacity grown to 1) *)
Theorem C04_pause_boundary_noop : forall c st s,
  c_emit_eof c = false ->
  r_script st = Pause :: s -> r_wlen st = 0 -> r_queue st = [] -> exhausted_count (r_off st) (r_stack st) = O ->
  (1 <= r_fuel st)%nat ->
  next c st = (after_pause st s, NNone).
Proof. exact pause_boundary_noop. Qed.
Theorem C04_pause_state : forall st s, WF st ->
  WF (after_pause st s) /\ Abs (after_pause st s) = Abs st /\ r_script (after_pause st s) = s /\
  r_bad (after_pause st s) = r_bad st /\ r_fuel (after_pause st s) = r_fuel st /\ r_cap (after_pause st s) = N.max (r_cap st) 1.
Proof. exact after_pause_facts. Qed.

(* a call that consumes no Pause of the script (same number of Pause entries before and after) refines the abstract reader,
   whatever the script holds further on: scripts of Chunk n (n > 0) and Pause entries *)
Theorem C04_step_nopause_refines : forall c st, GoodP st -> np (fst (next c st)) = np st ->
  GoodP (fst (next c st)) /\ Abs (fst (next c st)) = fst (p_next c (Abs st)) /\ snd (next c st) = snd (p_next c (Abs st)).
Proof. exact next_refines_nopause. Qed.

(* one pause.  [steps c st a st']: successive next() calls from st yield the items a and lead to st'.  If the run on the
   script s1 ++ Pause :: s2 (s1, s2 calm) meets the Pause at a tag boundary after the items a, then a is a prefix of the
   slice run, and draining twice gives the slice run with one None inserted after a *)
Theorem C04_pause_run_one : forall c cap0 s1 s2 input a stp,
  c_emit_eof c = false -> calm s1 -> calm s2 ->
  steps c (r_init cap0 (s1 ++ Pause :: s2) input) a stp ->
  r_script stp = Pause :: s2 -> r_wlen stp = 0 -> r_queue stp = [] -> exhausted_count (r_off stp) (r_stack stp) = O ->
  ~ In OLimit (p_run c input [RAll]) ->
  exists b, b <> [] /\
    p_run c input [RAll] = a ++ b /\
    run_reader c cap0 (s1 ++ Pause :: s2) input [RAll; RAll] = a ++ [ONone] ++ b.
Proof. exact pause_one. Qed.

(* any number of pauses, each met at a tag boundary ([paused_run], Proofs/Pauses.v: the segments between them consume only
   the calm script part before the next Pause): m + 1 drains give the slice run with a None after each of the m segments *)
Theorem C04_pause_run_many : forall c cap0 script input segs st',
  c_emit_eof c = false ->
  paused_run c (r_init cap0 script input) segs st' -> calm (r_script st') ->
  ~ In OLimit (p_run c input [RAll]) ->
  exists b, b <> [] /\
    p_run c input [RAll] = concat segs ++ b /\
    run_reader c cap0 script input (repeat RAll (S (length segs))) = concat (map (fun a => a ++ [ONone]) segs) ++ b.
Proof. exact pauses_many. Qed.
(* the call bound is not reached on well-formed bytes for specifications of moderate depth (C05) *)
Theorem C04_pause_run_many_wf : forall c cap0 script input segs st',
  c_emit_eof c = false -> wf_bytes input -> (slack c < 2 * length input + 64)%nat ->
  paused_run c (r_init cap0 script input) segs st' -> calm (r_script st') ->
  exists b, b <> [] /\
    p_run c input [RAll] = concat segs ++ b /\
    run_reader c cap0 script input (repeat RAll (S (length segs))) = concat (map (fun a => a ++ [ONone]) segs) ++ b.
Proof. exact pauses_many_wf. Qed.

(* non-vacuity: a two-level document (60 bytes: two masters, three binary elements of 16, 16 and 23 bytes); the source
   delivers 21 bytes (up to the end of the first element), pauses, delivers the second element, pauses, delivers the rest *)
Module PauseEx.
Definition sp := [ {| e_id := 129; e_ty := DMaster; e_path := [] |}; {| e_id := 16643; e_ty := DMaster; e_path := [PId 129] |};
                   {| e_id := 16641; e_ty := DUInt; e_path := [PId 129; PId 16643] |};
                   {| e_id := 16642; e_ty := DBinary; e_path := [PId 129; PId 16643] |} ].
Definition c := {| c_sp := sp; c_allow_id := false; c_allow_hier := false; c_allow_over := false; c_max := Some 4000000000;
                   c_buffered := []; c_emit_eof := false |}.
Definition doc := [129; 186; 65; 3; 183;
                   65; 2; 141; 1; 2; 3; 4; 5; 6; 7; 8; 9; 10; 11; 12; 13;
                   65; 2; 141; 1; 2; 3; 4; 5; 6; 7; 8; 9; 10; 11; 12; 13;
                   65; 2; 148; 1; 2; 3; 4; 5; 6; 7; 8; 9; 10; 11; 12; 13; 14; 15; 16; 17; 18; 19; 20].
Definition script := [Chunk 21; Pause; Chunk 16; Pause; Chunk 23].
Definition el13 := TElem 16642 (VB [1; 2; 3; 4; 5; 6; 7; 8; 9; 10; 11; 12; 13]).
Definition el20 := TElem 16642 (VB [1; 2; 3; 4; 5; 6; 7; 8; 9; 10; 11; 12; 13; 14; 15; 16; 17; 18; 19; 20]).
Definition seg1 := [OItem (TStart 129) 0; OItem (TStart 16643) 2; OItem el13 5].
Definition seg2 := [OItem el13 21].
Definition tail := [OItem el20 37; OItem (TEnd 16643) 2; OItem (TEnd 129) 0; ONone].
End PauseEx.

(* the paused run next to the unpaused one *)
Example C04_pause_ex :
  run_reader PauseEx.c 65536 [] PauseEx.doc [RAll] = PauseEx.seg1 ++ PauseEx.seg2 ++ PauseEx.tail /\
  run_reader PauseEx.c 65536 PauseEx.script PauseEx.doc [RAll; RAll; RAll] =
    PauseEx.seg1 ++ [ONone] ++ PauseEx.seg2 ++ [ONone] ++ PauseEx.tail.
Proof. vm_compute. split; reflexivity. Qed.

(* the hypotheses of C04_pause_run_many hold for it *)
Example C04_pause_ex_hyp : exists st',
  paused_run PauseEx.c (r_init 65536 PauseEx.script PauseEx.doc) [PauseEx.seg1; PauseEx.seg2] st' /\ calm (r_script st') /\
  ~ In OLimit (p_run PauseEx.c PauseEx.doc [RAll]).
Proof.
  eexists. split; [|split].
  - match goal with |- paused_run ?c ?st _ _ => let st' := eval vm_compute in st in change st with st' end.
    eapply (pr_seg PauseEx.c _ [Chunk 21] [Chunk 16; Pause; Chunk 23]); [reflexivity|repeat constructor| | | | | | ].
    + unfold PauseEx.seg1. do 3 (eapply steps_cons; [vm_compute; reflexivity|reflexivity|]). apply steps_nil.
    + reflexivity.
    + reflexivity.
    + reflexivity.
    + reflexivity.
    + match goal with |- paused_run ?c ?st _ _ => let st' := eval vm_compute in st in change st with st' end.
      eapply (pr_seg PauseEx.c _ [Chunk 16] [Chunk 23]); [reflexivity|repeat constructor| | | | | | ].
      * unfold PauseEx.seg2. eapply steps_cons; [vm_compute; reflexivity|reflexivity|]. apply steps_nil.
      * reflexivity.
      * reflexivity.
      * reflexivity.
      * reflexivity.
      * match goal with |- paused_run ?c ?st _ _ => let st' := eval vm_compute in st in change st with st' end. apply pr_done.
  - cbn. repeat constructor.
  - vm_compute. intuition discriminate.
Qed.

(* why tag boundaries: a pause inside the payload of the third element (16 of its 23 bytes delivered) is reported as
   UnexpectedEof; and the same script read into a zero-capacity buffer meets both pauses in the look-ahead of a header peek,
   where they are swallowed (no None before the end) *)
Example C04_pause_inside_ex :
  run_reader PauseEx.c 65536 [Chunk 21; Chunk 16; Chunk 16; Pause; Chunk 7] PauseEx.doc [RAll] =
    PauseEx.seg1 ++ PauseEx.seg2 ++ [OErr (REof 37 (Some 16642) (Some 20) (Some [1; 2; 3; 4; 5; 6; 7; 8; 9; 10; 11; 12; 13]))] /\
  run_reader PauseEx.c 0 PauseEx.script PauseEx.doc [RAll; RAll; RAll] =
    PauseEx.seg1 ++ PauseEx.seg2 ++ PauseEx.tail ++ [ONone; ONone].
Proof. vm_compute. split; reflexivity. Qed.

(* ------------------------------------------------------------------ pauses swallowed by the look-ahead *)
(* [lookahead_ok c st]: in the state in which this call starts read_tag (after the probe, if the window was empty) the
   abstract reader reads a tag without error, and that tag ends inside the buffer window.  Such a call refines the abstract
   reader whatever its look-ahead reads meet (Pause entries included) *)
Theorem C04_step_lookahead_refines : forall c st, c_buffered c = [] -> GoodP st -> wf_bytes (total st) ->
  r_queue st = [] -> (1 <= r_fuel st)%nat -> lookahead_ok c st ->
  GoodP (fst (next c st)) /\ Abs (fst (next c st)) = fst (p_next c (Abs st)) /\ snd (next c st) = snd (p_next c (Abs st)).
Proof. exact next_refines_lookahead. Qed.

(* runs over any script of Chunk n (n > 0) and Pause entries.  [step_ok c st]: the call consumes no Pause, or
   [lookahead_ok]; [stepsL]: item-yielding calls that are all [step_ok]; [drainL]: all calls of a drain, the last one
   included, are [step_ok]; [paused_runL c st segs]: segments of [stepsL] calls, each ending in a state that meets a Pause
   at a tag boundary, then a [drainL] drain.  The result is the slice run with one None per boundary pause *)
Theorem C04_pause_run_lookahead : forall c cap0 script input segs,
  c_emit_eof c = false -> c_buffered c = [] -> wf_bytes input -> calmP script ->
  paused_runL c (r_init cap0 script input) segs ->
  ~ In OLimit (p_run c input [RAll]) ->
  exists b, b <> [] /\
    p_run c input [RAll] = concat segs ++ b /\
    run_reader c cap0 script input (repeat RAll (S (length segs))) = concat (map (fun a => a ++ [ONone]) segs) ++ b.
Proof. exact pauses_lookahead. Qed.

(* no boundary pause at all (any end-of-stream setting): the run is the slice run *)
Theorem C04_pause_swallowed : forall c cap0 script input,
  c_buffered c = [] -> wf_bytes input -> calmP script -> drainL c (r_init cap0 script input) ->
  run_reader c cap0 script input [RAll] = p_run c input [RAll].
Proof. exact pauses_swallowed. Qed.

(* non-vacuity: the 14-byte document of C04_ex (tags of 2, 3, 4 and 5 bytes); the source delivers the two master headers
   (5 bytes), then answers Ok(0) to the next five reads, then delivers the rest.  Four of the pauses are swallowed by the
   look-ahead while the two headers are parsed from the buffer; the fifth is met at the tag boundary *)
Module PauseEx2.
Definition c := {| c_sp := PauseEx.sp; c_allow_id := false; c_allow_hier := false; c_allow_over := false; c_max := Some 4000000000;
                   c_buffered := []; c_emit_eof := false |}.
Definition doc := [129; 140; 65; 3; 137; 65; 1; 129; 5; 65; 2; 130; 1; 2].
Definition script := [Chunk 5; Pause; Pause; Pause; Pause; Pause; Chunk 9].
Definition seg1 := [OItem (TStart 129) 0; OItem (TStart 16643) 2].
Definition tail := [OItem (TElem 16641 (VU 5)) 5; OItem (TElem 16642 (VB [1; 2])) 9; OItem (TEnd 16643) 2; OItem (TEnd 129) 0; ONone].
End PauseEx2.

Example C04_lookahead_ex :
  run_reader PauseEx2.c 65536 [] PauseEx2.doc [RAll] = PauseEx2.seg1 ++ PauseEx2.tail /\
  run_reader PauseEx2.c 65536 PauseEx2.script PauseEx2.doc [RAll; RAll] = PauseEx2.seg1 ++ [ONone] ++ PauseEx2.tail /\
  (* four pauses: all swallowed *)
  run_reader PauseEx2.c 65536 [Chunk 5; Pause; Pause; Pause; Pause; Chunk 9] PauseEx2.doc [RAll] = PauseEx2.seg1 ++ PauseEx2.tail.
Proof. vm_compute. repeat split; reflexivity. Qed.

Local Ltac la_ok := right; split; [reflexivity|]; unfold lookahead_ok; vm_compute; split; [discriminate|];
                    eexists; eexists; split; [reflexivity|discriminate].
Local Ltac np_ok := left; vm_compute; reflexivity.
Local Ltac ok := first [np_ok | la_ok].

Example C04_lookahead_ex_hyp :
  wf_bytes PauseEx2.doc /\ calmP PauseEx2.script /\
  paused_runL PauseEx2.c (r_init 65536 PauseEx2.script PauseEx2.doc) [PauseEx2.seg1] /\
  drainL PauseEx2.c (r_init 65536 [Chunk 5; Pause; Pause; Pause; Pause; Chunk 9] PauseEx2.doc).
Proof.
  split; [repeat constructor|]. split; [repeat constructor|]. split.
  - match goal with |- paused_runL ?c ?st _ => let st' := eval vm_compute in st in change st with st' end.
    eapply (prL_seg PauseEx2.c _ [Chunk 9]).
    + unfold PauseEx2.seg1. do 2 (eapply stepsL_cons; [vm_compute; reflexivity|reflexivity|ok|]). apply stepsL_nil.
    + reflexivity.
    + reflexivity.
    + reflexivity.
    + reflexivity.
    + match goal with |- paused_runL ?c ?st _ => let st' := eval vm_compute in st in change st with st' end.
      apply prL_done. do 4 (eapply drainL_item; [ok|vm_compute; reflexivity|reflexivity|]).
      apply drainL_end; [ok|right; intros t off; vm_compute; discriminate].
  - match goal with |- drainL ?c ?st => let st' := eval vm_compute in st in change st with st' end.
    do 6 (eapply drainL_item; [ok|vm_compute; reflexivity|reflexivity|]).
    apply drainL_end; [ok|right; intros t off; vm_compute; discriminate].
Qed.

(* ------------------------------------------------------------------ sources that fail *)
(* [cnt st]: the number of entries of the unread script that are not calm (Fail, Pause, Chunk 0).  A call of next(), resp.
   try_recover(), that consumes only calm entries of the script (the count is the same before and after) refines the abstract
   reader, whatever the script holds further on (a Fail included); [WF st]: the cached lengths of the state are right *)
Theorem C04_step_calm_refines : forall c st, WF st -> cnt (fst (next c st)) = cnt st ->
  WF (fst (next c st)) /\ Abs (fst (next c st)) = fst (p_next c (Abs st)) /\ snd (next c st) = snd (p_next c (Abs st)).
Proof. exact next_refines_calmstep. Qed.
Theorem C04_recover_calm_refines : forall c st, WF st -> cnt (fst (try_recover c st)) = cnt st ->
  WF (fst (try_recover c st)) /\ Abs (fst (try_recover c st)) = fst (p_try_recover c (Abs st)) /\
  snd (try_recover c st) = snd (p_try_recover c (Abs st)).
Proof. exact try_recover_refines_calmstep. Qed.

(* the call of next() that consumes the Fail.  [InvF code rest st]: cached lengths right, no panic site reached, and the unread
   script is pre ++ Fail code :: rest with pre calm.  If the call changes [cnt] (it consumed the Fail) and the abstract reader
   reaches no panic site / budget end in the same call, then: the buffered call reaches none either, it returns the source
   error itself, or it returns the same item as the abstract call and leaves the error queued behind items qa (none of them an
   error) that the abstract reader has queued as well ([Rel], second alternative: [Q2]) *)
Theorem C04_next_meets_fail : forall code rest c st, InvF code rest st -> b_bad (fst (p_next c (Abs st))) = None ->
  (snd (next c st) = NErr (RIo code) /\ r_bad (fst (next c st)) = None) \/
  (snd (next c st) = snd (p_next c (Abs st)) /\ r_bad (fst (next c st)) = None /\
   Rel code rest (fst (next c st)) (fst (p_next c (Abs st)))).
Proof. exact next_phase1. Qed.

(* C04 for a failing source.  For every configuration, input, initial capacity, sequence of next()/try_recover()/drain calls
   and every read script pre ++ Fail code :: rest in which every read before the failing one returns data while data remains
   (calm pre; rest is arbitrary), provided the abstract run reports neither a panic nor budget exhaustion (C05: true on all
   byte streams for specifications whose named parents are masters - C04_refines_until_io_error_wf), one of:
   (i)   the buffered run equals the abstract run (the source error is not reported during these calls: the failing read is
         not reached, or the calls end while the error is still queued behind Ends);
   (ii)  the buffered run is common ++ [e] ++ tail where common is a prefix of the abstract run - the same items, offsets and
         errors - and holds no source error, and e is the source error RIo code, returned by next() (OErr) or by
         try_recover() (ORecErr): up to the moment it is reported, the failing source changes nothing.  Nothing is said
         about tail (C05_after_io_error_unspecified);
   (iii) try_recover() is called - it is the call after ops1 - while the source error is still queued (behind the items qa,
         none of them an error): the outcomes of the calls ops1 are a prefix of the abstract run and hold no source error.
         (The outcome of that try_recover() need not be the abstract one: C05_recover_while_io_error_queued.) *)
Theorem C04_refines_until_io_error : forall c cap0 pre code rest input ops, calm pre ->
  ~ In OPanic (p_run c input ops) -> ~ In OFuel (p_run c input ops) ->
  run_reader c cap0 (pre ++ Fail code :: rest) input ops = p_run c input ops \/
  (exists common e tail m,
     run_reader c cap0 (pre ++ Fail code :: rest) input ops = common ++ [e] ++ tail /\
     p_run c input ops = common ++ m /\ outs_io common = [] /\
     (e = OErr (RIo code) \/ e = ORecErr (RIo code))) \/
  (exists ops1 ops2 qa tail m, ops = ops1 ++ RRecover :: ops2 /\
     r_queue (fst (run_reader_st c cap0 (pre ++ Fail code :: rest) input ops1)) = qa ++ [QErr (RIo code)] /\ noerr qa /\
     run_reader c cap0 (pre ++ Fail code :: rest) input ops = run_reader c cap0 (pre ++ Fail code :: rest) input ops1 ++ tail /\
     p_run c input ops = run_reader c cap0 (pre ++ Fail code :: rest) input ops1 ++ m /\
     outs_io (run_reader c cap0 (pre ++ Fail code :: rest) input ops1) = []).
Proof. exact refines_until_io_error. Qed.

(* ... when try_recover() is not among the calls (next() and drains only), alternative (iii) does not arise *)
Theorem C04_refines_until_io_error_next_only : forall c cap0 pre code rest input ops, calm pre ->
  ~ In RRecover ops -> ~ In OPanic (p_run c input ops) -> ~ In OFuel (p_run c input ops) ->
  run_reader c cap0 (pre ++ Fail code :: rest) input ops = p_run c input ops \/
  (exists common e tail m,
     run_reader c cap0 (pre ++ Fail code :: rest) input ops = common ++ [e] ++ tail /\
     p_run c input ops = common ++ m /\ outs_io common = [] /\
     (e = OErr (RIo code) \/ e = ORecErr (RIo code))).
Proof. exact refines_until_io_error_next_only. Qed.

(* ... and the side conditions hold for every specification whose named parents are masters (implied_ok: what Props/C18.v
   proves of every derived specification) on every stream of bytes (wf_bytes: every element below 256) *)
Theorem C04_refines_until_io_error_wf : forall c cap0 pre code rest input ops, calm pre -> implied_ok (c_sp c) -> wf_bytes input ->
  run_reader c cap0 (pre ++ Fail code :: rest) input ops = p_run c input ops \/
  (exists common e tail m,
     run_reader c cap0 (pre ++ Fail code :: rest) input ops = common ++ [e] ++ tail /\
     p_run c input ops = common ++ m /\ outs_io common = [] /\
     (e = OErr (RIo code) \/ e = ORecErr (RIo code))) \/
  (exists ops1 ops2 qa tail m, ops = ops1 ++ RRecover :: ops2 /\
     r_queue (fst (run_reader_st c cap0 (pre ++ Fail code :: rest) input ops1)) = qa ++ [QErr (RIo code)] /\ noerr qa /\
     run_reader c cap0 (pre ++ Fail code :: rest) input ops = run_reader c cap0 (pre ++ Fail code :: rest) input ops1 ++ tail /\
     p_run c input ops = run_reader c cap0 (pre ++ Fail code :: rest) input ops1 ++ m /\
     outs_io (run_reader c cap0 (pre ++ Fail code :: rest) input ops1) = []).
Proof. exact refines_until_io_error_wf. Qed.

(* non-vacuity of (ii), with items delivered between the failing read and its report.  Root{SInt}(5 bytes) Root{SInt 7}; the
   source delivers the 18 bytes and then fails.  Unbuffered: the third next() closes the first Root and meets the failure
   reading on; it returns the End - which the abstract reader yields there as well - and the error comes with the next call.
   With Root buffered the first Root is delivered whole, then the error.  In both runs common has three resp. one outcome *)
Example C04_io_error_ex :
  let sp := [ {| e_id := 129; e_ty := DMaster; e_path := [] |}; {| e_id := 16641; e_ty := DSInt; e_path := [PId 129] |} ] in
  let c := {| c_sp := sp; c_allow_id := false; c_allow_hier := false; c_allow_over := false; c_max := Some 4000000000; c_buffered := []; c_emit_eof := true |} in
  let cb := {| c_sp := sp; c_allow_id := false; c_allow_hier := false; c_allow_over := false; c_max := Some 4000000000; c_buffered := [129]; c_emit_eof := true |} in
  let doc := [129; 131; 65; 1; 128; 129; 139; 65; 1; 136; 0; 0; 0; 0; 0; 0; 0; 7] in
  run_reader c 65536 [Chunk 18; Fail 9] doc [RAll] =
    [OItem (TStart 129) 0; OItem (TElem 16641 (VI 0)) 2; OItem (TEnd 129) 0] ++ [OErr (RIo 9)] /\
  p_run c doc [RAll] =
    [OItem (TStart 129) 0; OItem (TElem 16641 (VI 0)) 2; OItem (TEnd 129) 0] ++
    [OItem (TStart 129) 5; OItem (TElem 16641 (VI 7)) 7; OItem (TEnd 129) 5; ONone] /\
  run_reader cb 65536 [Chunk 18; Fail 9] doc [RAll] = [OItem (TFull 129 [TElem 16641 (VI 0)]) 0] ++ [OErr (RIo 9)] /\
  p_run cb doc [RAll] = [OItem (TFull 129 [TElem 16641 (VI 0)]) 0] ++ [OItem (TFull 129 [TElem 16641 (VI 7)]) 5; ONone].
Proof. vm_compute. repeat split; reflexivity. Qed.
