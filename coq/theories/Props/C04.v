From Ebml Require Import Base Tools Spec Reader.
Example C04_ex : ebml_size 127 1 = SUnknown /\ ebml_size 127 2 = SKnown 127.
Proof. vm_compute. split; reflexivity. Qed.
