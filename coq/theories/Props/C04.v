(* C04 — parse result is independent of read chunking, buffer capacity and EOF pauses.  Statements only. *)
From Ebml Require Import Base Tools Spec Reader Pure Proofs.Tactics Proofs.ReaderIO Proofs.Refine.

(* For every configuration (tolerances, size limit, buffered set, EOF closing), every input, every initial capacity
   (0 included) and every read script in which the source never reports Ok(0) before the end and never fails — any split of
   the bytes into read() results — and every sequence of next()/try_recover() calls, the buffered reader machine produces
   exactly the run of the abstract reader (Model/Pure.v: the parser with the whole remaining input visible) *)
Theorem C04_refines : forall c cap0 script input ops, calm script ->
  run_reader c cap0 script input ops = p_run c input ops.
Proof. exact buffered_refines_pure. Qed.

(* ... hence identical items, offsets and errors for any two capacities and chunkings *)
Theorem C04_independent : forall c cap1 cap2 s1 s2 input ops, calm s1 -> calm s2 ->
  run_reader c cap1 s1 input ops = run_reader c cap2 s2 input ops.
Proof. exact chunking_capacity_independent. Qed.

(* in particular: equal to reading the whole input from a slice (one read that returns everything) with the default capacity *)
Theorem C04_equals_slice : forall c cap0 script input ops, calm script ->
  run_reader c cap0 script input ops = run_reader c 65536 [] input ops.
Proof. intros. apply chunking_capacity_independent; [assumption|constructor]. Qed.

(* the refill loop is transparent and its answer depends only on how much input remains: the lemma the refinement rests on *)
Theorem C04_refill_transparent : forall n st, WF st -> calm (r_script st) ->
  ensure_post n st (fst (ensure n st)) (snd (ensure n st)).
Proof. exact ensure_calm. Qed.
Theorem C04_refill_answer : forall n st, WF st -> calm (r_script st) ->
  snd (ensure n st) = Ok (n <=? r_wlen st + r_rlen st).
Proof. exact ensure_answer. Qed.

(* non-vacuity: a 14-byte document read one byte at a time into a zero-capacity buffer, and in one piece *)
Example C04_ex :
  let sp := [ {| e_id := 129; e_ty := DMaster; e_path := [] |}; {| e_id := 16643; e_ty := DMaster; e_path := [PId 129] |};
              {| e_id := 16641; e_ty := DUInt; e_path := [PId 129; PId 16643] |}; {| e_id := 16642; e_ty := DBinary; e_path := [PId 129; PId 16643] |} ] in
  let c := {| c_sp := sp; c_allow_id := false; c_allow_hier := false; c_allow_over := false; c_max := Some 4000000000;
              c_buffered := []; c_emit_eof := true |} in
  let doc := [129; 140; 65; 3; 137; 65; 1; 129; 5; 65; 2; 130; 1; 2] in
  calm (repeat (Chunk 1) 14) /\
  run_reader c 0 (repeat (Chunk 1) 14) doc [RAll] = run_reader c 65536 [] doc [RAll] /\
  run_reader c 65536 [] doc [RAll] =
    [OItem (TStart 129) 0; OItem (TStart 16643) 2; OItem (TElem 16641 (VU 5)) 5; OItem (TElem 16642 (VB [1; 2])) 9;
     OItem (TEnd 16643) 2; OItem (TEnd 129) 0; ONone].
Proof. split; [repeat constructor|]. vm_compute. split; reflexivity. Qed.
