(* C06 — strict mode emits only well-nested, hierarchy-valid sequences.  Statements only (proofs in Proofs/Nesting.v).

   The judgement is the independent checker [chk sp open det items] of Proofs/Nesting.v over the sequence of successfully
   emitted tags.  [open] is the chain of masters currently open (ids, innermost first), [det] says that an element with a
   placeholder-free path has been seen.  The checker fails (None) on
     - an End whose id is not the innermost open master (or with nothing open),
     - a Start / element whose id the specification does not know,
     - once [det] holds (it becomes true at the first element of known type whose declared path has no global
       placeholder, that element included): a Start / element whose declared path does not match the open chain,
     - a Full item (cannot occur when nothing is buffered);
   a Start pushes its id, an End pops, and the result is the final (open, det).
   "Strict": unknown ids and hierarchy errors are not tolerated and no master is buffered.
   With buffered masters (last part of this file, proofs in Proofs/BufferedNesting.v): for a drain that completes without an
   error outcome the same holds of the emitted tags once every Full item is unrolled (C06_buffered_clean_well_nested and
   following); for runs with an error inside a buffered master it is FALSE (C06_buffered_error_counterexample, finding D29).
   The end of the input closes every open master in buffered drains too (C06_buffered_eof_closes_all and following, at the end
   of this file, proofs in Proofs/BufferedEof.v).

   Byte ranges (second half of this file, proofs in Proofs/Extents.v): with oversized children not tolerated
   ([c_allow_over c = false]; the other tolerances arbitrary) and no master buffered, every element lies inside the byte range
   of each enclosing known-size master and the End of such a master is emitted exactly when its range is exhausted.
   PARTIAL only in this:
     - the run-level statement over WHOLE runs, errors and recoveries included (C06_whole_run_extents: a relaxed checker
       [chk_ext_run] over the complete outcome list and the input bytes, which at an error / try_recover outcome lets the
       cursor move forward and - after a successful try_recover - the ends of all open known-size masters grow by the skipped
       distance) needs the side condition [rec_sync]: try_recover is only called directly after an error, a None or another
       try_recover (or first of all), i.e. never while already parsed items wait in the reader's queue; without it the
       statement is false (C06_whole_run_stale_counterexample, C06_whole_run_stale_recovered_counterexample: the queued
       items are handed out after the recovery although they were parsed before it).  Without any side condition: the strict checker [chk_ext] accepts the items yielded
       before the first error or try_recover call (C06_run_extents; all items of a drain, C06_run_all_extents), and after
       errors and recoveries the same facts hold as an invariant of every reachable reader state together with what one
       read_next call does in such a state (C06_contained, C06_reachable, C06_element_inside, C06_end_at_exhaustion);
     - a try_recover call that fails has skipped to the end of the input without enlarging the open masters: from then on the
       cursor may lie past the end of an open known-size master, whose End then comes late (nothing else can come: no input
       is left).  Likewise at the end of a truncated input the Ends of the open masters are emitted (if so configured) although
       their ranges are not exhausted.  Both exceptions are part of the statements;
     - buffered masters (Full items) are covered for drains without an error outcome only (C06_buffered_clean_extents, last part
       of this file) and the oversize-tolerant configuration is not covered; the statements are about the
       abstract reader (the buffered machine yields the same items, Proofs/Refine.v). *)
From Ebml Require Import Base Tools Spec Reader Pure Proofs.RollUp Proofs.Nesting Proofs.BufferSim Proofs.Tiling Proofs.Extents
  Proofs.ExtentsRun Proofs.AuditNesting Proofs.BufferedNesting Proofs.BufferSimErr Proofs.BufferedEof.

(* For every input and every sequence of next() / try_recover() / drain operations (so also for the items that follow errors
   and recoveries), the emitted tags are accepted by the checker started with nothing determined and some base chain.  The
   base is empty for a document read from its root; when reading starts inside a document it is the chain of implied
   ancestors of the first placeholder-free element: every End closes the most recent unmatched Start or, when those are used
   up, an implied ancestor, innermost first.  (The statement itself only asserts SOME base; what the base is, is stated by
   C06_strict_items_well_nested_rooted, C06_clean_items_pinned and C06_strict_items_based below.) *)
Theorem C06_strict_items_well_nested : forall c input ops,
  c_allow_id c = false -> c_allow_hier c = false -> c_buffered c = [] ->
  exists base, chk (c_sp c) base false (out_tags (p_run c input ops)) <> None.
Proof. exact strict_items_well_nested. Qed.

(* With Ends emitted at the end of the input: when the complete run ends with None (no error, no cut), nothing is left open
   after the last item: every opened master and every implied ancestor has received its End. *)
Theorem C06_eof_closes_all : forall c input,
  c_allow_id c = false -> c_allow_hier c = false -> c_buffered c = [] -> c_emit_eof c = true ->
  forall outs, p_run c input [RAll] = outs ++ [ONone] ->
  exists base det, chk (c_sp c) base false (out_tags outs) = Some ([], det).
Proof. exact eof_closes_all. Qed.

(* the checker is compositional: judging a sequence is judging a prefix and then the rest from the state reached; in
   particular every prefix of an accepted sequence is accepted *)
Theorem C06_chk_app : forall sp a b open det,
  chk sp open det (a ++ b) = match chk sp open det a with Some (o, d) => chk sp o d b | None => None end.
Proof. exact chk_app. Qed.

(* Root(129) > Seg(130) > Val(16641); Void(236) may occur anywhere *)
Example C06_ex_run :
  let sp := [ {| e_id := 129; e_ty := DMaster; e_path := [] |}; {| e_id := 130; e_ty := DMaster; e_path := [PId 129] |};
              {| e_id := 16641; e_ty := DUInt; e_path := [PId 129; PId 130] |};
              {| e_id := 236; e_ty := DBinary; e_path := [PGlobal None None] |} ] in
  let c := {| c_sp := sp; c_allow_id := false; c_allow_hier := false; c_allow_over := false; c_max := Some 4000000000;
              c_buffered := []; c_emit_eof := true |} in
  (* a whole document: Root { Seg { Val 5 } Seg { Val 6 } } *)
  let doc := [129; 140; 130; 132; 65; 1; 129; 5; 130; 132; 65; 1; 129; 6] in
  (* reading starts inside a Seg: Void, Val 5, (end of that Seg) Seg { Val 6 } *)
  let mid := [236; 129; 0; 65; 1; 129; 5; 130; 132; 65; 1; 129; 6] in
  (* Val directly inside Root: hierarchy error, failed recovery, drain *)
  let bad := [129; 140; 130; 132; 65; 1; 129; 5; 65; 1; 129; 5; 130; 129; 0] in
  p_run c doc [RAll] =
    [OItem (TStart 129) 0; OItem (TStart 130) 2; OItem (TElem 16641 (VU 5)) 4; OItem (TEnd 130) 2;
     OItem (TStart 130) 8; OItem (TElem 16641 (VU 6)) 10; OItem (TEnd 130) 8; OItem (TEnd 129) 0; ONone] /\
  chk sp [] false (out_tags (p_run c doc [RAll])) = Some ([], true) /\
  p_run c mid [RAll] =
    [OItem (TElem 236 (VB [0])) 0; OItem (TElem 16641 (VU 5)) 3; OItem (TEnd 130) 0;
     OItem (TStart 130) 7; OItem (TElem 16641 (VU 6)) 9; OItem (TEnd 130) 7; OItem (TEnd 129) 0; ONone] /\
  chk sp [130; 129] false (out_tags (p_run c mid [RAll])) = Some ([], true) /\
  chk sp [] false (out_tags (p_run c mid [RAll])) = None /\
  p_run c bad [RAll; RRecover; RAll] =
    [OItem (TStart 129) 0; OItem (TStart 130) 2; OItem (TElem 16641 (VU 5)) 4; OItem (TEnd 130) 2;
     OErr (RHierarchy 16641 (Some 129)); ORecErr (REof 15 None None None); OItem (TEnd 129) 0; ONone] /\
  chk sp [] false (out_tags (p_run c bad [RAll; RRecover; RAll])) = Some ([], true).
Proof. vm_compute. repeat split; reflexivity. Qed.

(* the checker is not permissive: a crossed End, an element under the wrong parent, an unknown id, an End with nothing open and
   a missing End (something left open) are all told apart *)
Example C06_ex_reject :
  let sp := [ {| e_id := 129; e_ty := DMaster; e_path := [] |}; {| e_id := 130; e_ty := DMaster; e_path := [PId 129] |};
              {| e_id := 16641; e_ty := DUInt; e_path := [PId 129; PId 130] |} ] in
  chk sp [] false [TStart 129; TStart 130; TEnd 129; TEnd 130] = None /\
  chk sp [] false [TStart 129; TElem 16641 (VU 5); TEnd 129] = None /\
  chk sp [] false [TStart 129; TElem 153 (VRaw [7]); TEnd 129] = None /\
  chk sp [] false [TStart 129; TEnd 129; TEnd 129] = None /\
  chk sp [] false [TStart 129; TStart 130; TElem 16641 (VU 5); TEnd 130] = Some ([129], true) /\
  chk sp [] false [TStart 129; TStart 130; TElem 16641 (VU 5); TEnd 130; TEnd 129] = Some ([], true).
Proof. vm_compute. repeat split; reflexivity. Qed.

(* ------------------------------------------------------------------ the base chain is not arbitrary
   In C06_strict_items_well_nested and C06_eof_closes_all the base is existential, and a base absorbs any unmatched Ends that
   precede the first element with a placeholder-free declared path (C06_ex_base_absorbs below).  The statements that follow pin
   it.  Vocabulary (Proofs/AuditNesting.v): [is_se x]: x is a Start or an element item; [path_ids p]: the ids a declared path
   names, outermost first; [base_of sp id] = [rev (path_ids (get_path sp id))]: the chain of masters the declared path of [id]
   names, innermost first (for a placeholder-free path these are the reader's implied ancestors, C06_implied_ancestors). *)

(* Pure checker fact.  If the tags [pre] that precede a Start / element [x] whose declared path is placeholder-free are accepted
   from the EMPTY base without determining the position, leaving the chain [o] open, then every base from which [pre ++ x ::
   rest] is accepted satisfies: (o on top of base), outermost first, is exactly the list of ids the declared path of x names. *)
Theorem C06_base_determined : forall sp base pre o x rest,
  chk sp [] false pre = Some (o, false) -> is_se x = true -> all_ids (get_path sp (tag_id x)) = true ->
  chk sp base false (pre ++ x :: rest) <> None -> rev (o ++ base) = path_ids (get_path sp (tag_id x)).
Proof. exact chk_base_determined. Qed.

(* in particular a sequence that begins with a root element (declared with the empty path) is accepted from the empty base only *)
Theorem C06_root_forces_empty_base : forall sp base x rest, is_se x = true -> get_path sp (tag_id x) = [] ->
  chk sp base false (x :: rest) <> None -> base = [].
Proof. exact chk_root_base. Qed.

(* Rooted form of C06_strict_items_well_nested.  Unknown ids and hierarchy errors not tolerated, nothing buffered, every input,
   every sequence of next() / try_recover() / drain operations (items after errors and recoveries included): if the first item
   of the run is a Start or element whose id is declared with the empty path (a root element), the emitted tags are accepted by
   the checker started from the EMPTY base. *)
Theorem C06_strict_items_well_nested_rooted : forall c input ops,
  c_allow_id c = false -> c_allow_hier c = false -> c_buffered c = [] ->
  forall x rest, out_tags (p_run c input ops) = x :: rest -> is_se x = true -> get_path (c_sp c) (tag_id x) = [] ->
  chk (c_sp c) [] false (out_tags (p_run c input ops)) <> None.
Proof. exact strict_items_well_nested_rooted. Qed.

(* Rooted form of C06_eof_closes_all: with Ends emitted at the end of the input, when the drain ends with None and its first
   item is a root element, the checker started from the EMPTY base ends with nothing open (and the position determined). *)
Theorem C06_eof_closes_all_rooted : forall c input,
  c_allow_id c = false -> c_allow_hier c = false -> c_buffered c = [] -> c_emit_eof c = true ->
  forall outs x rest, p_run c input [RAll] = outs ++ [ONone] -> out_tags outs = x :: rest -> is_se x = true ->
  get_path (c_sp c) (tag_id x) = [] -> chk (c_sp c) [] false (out_tags outs) = Some ([], true).
Proof. exact eof_closes_all_rooted. Qed.

(* General form, for the items yielded before the first error or try_recover call ([clean_prefix], as in C06_run_extents).
   Unknown ids and hierarchy errors not tolerated, nothing buffered, every input, every sequence of operations.  EITHER the
   items are accepted from the EMPTY base and the checker is still undetermined (so no Start / element with a placeholder-free
   declared path is among them), OR they are [pre ++ map TEnd o ++ x :: rest] where [x] is a Start / element whose declared
   path is placeholder-free, [pre] is accepted from the EMPTY base, undetermined (so x is the first such element), leaving
   exactly the chain [o] open, the Ends that follow close ALL of [o], and the whole sequence is accepted from the base
   [base_of (c_sp c) (tag_id x)], the masters named by the declared path of x.  (By C06_base_determined no other base does.) *)
Theorem C06_clean_items_pinned : forall c input ops,
  c_allow_id c = false -> c_allow_hier c = false -> c_buffered c = [] ->
  let items := out_tags (clean_prefix (p_run c input ops)) in
  (exists o, chk (c_sp c) [] false items = Some (o, false)) \/
  (exists pre o x rest, items = pre ++ map TEnd o ++ x :: rest /\ chk (c_sp c) [] false pre = Some (o, false) /\
     is_se x = true /\ all_ids (get_path (c_sp c) (tag_id x)) = true /\
     chk (c_sp c) (base_of (c_sp c) (tag_id x)) false items <> None).
Proof. exact clean_items_pinned. Qed.

(* a drain stops at its first error: all its items *)
Theorem C06_drain_items_pinned : forall c input,
  c_allow_id c = false -> c_allow_hier c = false -> c_buffered c = [] ->
  let items := out_tags (p_run c input [RAll]) in
  (exists o, chk (c_sp c) [] false items = Some (o, false)) \/
  (exists pre o x rest, items = pre ++ map TEnd o ++ x :: rest /\ chk (c_sp c) [] false pre = Some (o, false) /\
     is_se x = true /\ all_ids (get_path (c_sp c) (tag_id x)) = true /\
     chk (c_sp c) (base_of (c_sp c) (tag_id x)) false items <> None).
Proof. exact drain_items_pinned. Qed.

(* C06_eof_closes_all with the base pinned: with Ends emitted at the end of the input, when the drain ends with None, EITHER
   the checker started from the EMPTY base ends with nothing open, undetermined, OR the items split as above and the checker
   started from the masters named by the declared path of the first placeholder-free element ends with nothing open. *)
Theorem C06_eof_closes_all_pinned : forall c input,
  c_allow_id c = false -> c_allow_hier c = false -> c_buffered c = [] -> c_emit_eof c = true ->
  forall outs, p_run c input [RAll] = outs ++ [ONone] ->
  chk (c_sp c) [] false (out_tags outs) = Some ([], false) \/
  (exists pre o x rest, out_tags outs = pre ++ map TEnd o ++ x :: rest /\ chk (c_sp c) [] false pre = Some (o, false) /\
     is_se x = true /\ all_ids (get_path (c_sp c) (tag_id x)) = true /\
     chk (c_sp c) (base_of (c_sp c) (tag_id x)) false (out_tags outs) = Some ([], true)).
Proof. exact eof_closes_all_pinned. Qed.

(* EVERY run, items after errors and recoveries included (where the general form above fails, see
   C06_ex_pinned_after_error_counterexample below).  [Based sp base items]: [base = []], or there is an id whose declared path is
   placeholder-free such that [base = base_of sp id], every id of [base] is declared a master, and [items = pre ++ post] with
   [pre] accepted from the EMPTY base, undetermined ([pre]: what the reader had produced when it met the header of that id and
   seeded its implied ancestors).  Unknown ids and hierarchy errors not tolerated, nothing buffered, every input, every
   sequence of operations: the emitted tags are accepted from a base that satisfies [Based].  In particular no undeclared id,
   and no chain other than one named by a declared path, ever serves as base. *)
Theorem C06_strict_items_based : forall c input ops,
  c_allow_id c = false -> c_allow_hier c = false -> c_buffered c = [] ->
  exists base, chk (c_sp c) base false (out_tags (p_run c input ops)) <> None /\ Based (c_sp c) base (out_tags (p_run c input ops)).
Proof. exact strict_items_based. Qed.

(* the reader's implied ancestors of a declared path are the masters the path names, innermost first *)
Theorem C06_implied_ancestors : forall sp p stk, implied_stack sp p = Some stk -> map f_id stk = rev (path_ids p).
Proof. exact implied_stack_ids. Qed.

(* Root(129) > Seg(130) > Val(16641); Void(236) may occur anywhere.  [strays]: two unmatched Ends - of ids the specification
   does not even declare - before the first placeholder-free element: a suitable base absorbs them, so the existential
   statement does not exclude them.  The pinned statements do: the empty base rejects the sequence, the only other candidate,
   the base named by Val's declared path, rejects it too, and its prefix before Val is not accepted from the empty base.
   [mid] (reading starts inside a Seg, C06_ex_run): the items are pre = [Void], no Ends, x = Val 5, and the base is [Seg; Root]. *)
Example C06_ex_base_absorbs :
  let sp := [ {| e_id := 129; e_ty := DMaster; e_path := [] |}; {| e_id := 130; e_ty := DMaster; e_path := [PId 129] |};
              {| e_id := 16641; e_ty := DUInt; e_path := [PId 129; PId 130] |};
              {| e_id := 236; e_ty := DBinary; e_path := [PGlobal None None] |} ] in
  let c := {| c_sp := sp; c_allow_id := false; c_allow_hier := false; c_allow_over := false; c_max := Some 4000000000;
              c_buffered := []; c_emit_eof := true |} in
  let strays := [TEnd 777; TEnd 5; TElem 16641 (VU 1); TEnd 130; TEnd 129] in
  let mid := [236; 129; 0; 65; 1; 129; 5; 130; 132; 65; 1; 129; 6] in
  chk sp [777; 5; 130; 129] false strays = Some ([], true) /\
  chk sp [] false strays = None /\
  base_of sp 16641 = [130; 129] /\
  chk sp (base_of sp 16641) false strays = None /\
  chk sp [] false [TEnd 777; TEnd 5] = None /\
  out_tags (p_run c mid [RAll]) = [TElem 236 (VB [0])] ++ map TEnd [] ++ TElem 16641 (VU 5) :: [TEnd 130; TStart 130; TElem 16641 (VU 6); TEnd 130; TEnd 129] /\
  chk sp [] false [TElem 236 (VB [0])] = Some ([], false) /\
  chk sp (base_of sp 16641) false (out_tags (p_run c mid [RAll])) = Some ([], true).
Proof. vm_compute. repeat split; reflexivity. Qed.

(* ... and the absorbing base of [strays] is excluded for every run by C06_strict_items_based: 777 is not a declared master *)
Example C06_ex_strays_not_based :
  let sp := [ {| e_id := 129; e_ty := DMaster; e_path := [] |}; {| e_id := 130; e_ty := DMaster; e_path := [PId 129] |};
              {| e_id := 16641; e_ty := DUInt; e_path := [PId 129; PId 130] |};
              {| e_id := 236; e_ty := DBinary; e_path := [PGlobal None None] |} ] in
  ~ Based sp [777; 5; 130; 129] [TEnd 777; TEnd 5; TElem 16641 (VU 1); TEnd 130; TEnd 129].
Proof.
  cbv zeta. intros [H|[id [pre [post [_ [_ [H3 _]]]]]]]; [discriminate H|].
  apply Forall_cons_iff in H3. destruct H3 as [H3 _]. vm_compute in H3. discriminate H3.
Qed.

(* The general form stops at the first error for a reason.  Top(132) is a global master, Leaf(16643) is declared Top/Leaf.
   Input: Top { Leaf }.  Leaf is the first element with a placeholder-free path and it is met inside an open Top: the reader
   seeds Leaf's implied ancestor Top below the open Top, the path no longer matches, hierarchy error (C01_ex_known_needs_dstart).
   After the failed recovery the drain emits the End of the open Top and the End of the seeded Top: three items, none with a
   placeholder-free path, NOT accepted from the empty base; they are accepted from [Top], the implied ancestors of an element
   that was never emitted (so C06_strict_items_well_nested holds, the pinned form does not extend past the error). *)
Example C06_ex_pinned_after_error_counterexample :
  let sp := [ {| e_id := 129; e_ty := DMaster; e_path := [] |}; {| e_id := 132; e_ty := DMaster; e_path := [PGlobal None None] |};
              {| e_id := 16643; e_ty := DBinary; e_path := [PId 132] |} ] in
  let c := {| c_sp := sp; c_allow_id := false; c_allow_hier := false; c_allow_over := false; c_max := Some 4000000000;
              c_buffered := []; c_emit_eof := true |} in
  let input := [132; 132; 65; 3; 129; 7] in
  p_run c input [RAll; RRecover; RAll] =
    [OItem (TStart 132) 0; OErr (RHierarchy 16643 (Some 132)); ORecErr (REof 6 None None None);
     OItem (TEnd 132) 0; OItem (TEnd 132) 0; ONone] /\
  chk sp [] false (out_tags (p_run c input [RAll; RRecover; RAll])) = None /\
  chk sp [132] false (out_tags (p_run c input [RAll; RRecover; RAll])) = Some ([], false) /\
  base_of sp 16643 = [132] /\
  out_tags (clean_prefix (p_run c input [RAll; RRecover; RAll])) = [TStart 132] /\
  chk sp [] false [TStart 132] = Some ([132], false).
Proof. vm_compute. repeat split; reflexivity. Qed.

(* ================================================================== byte ranges *)
(* Vocabulary (Proofs/Extents.v).  A frame [f] of the reader's stack is an open master: [f_data f] is the offset of its first
   content byte, [f_size f] its declared size; the range of a known-size master is [f_data f, f_data f + n).
     within hi f   : [hi <= f_data f + n] if [f_size f = SKnown n], no constraint otherwise
     contained st  : Forall (within (b_off st)) (b_stack st)  - the cursor is not past the end of any open known-size master
     started st    : every open master's content starts at or before the cursor
     nested st     : along the stack (innermost first) the range of each known-size master ends no later than the range of
                     every known-size master below it
     CInv st       : started st /\ nested st /\ contained st
     WInv st       : started st /\ nested st /\ (contained st \/ b_bytes st = [])
     ksize e       : n for [SKnown n], 0 for [SUnknown]
     rec_failed o  : the outcome [o] is a failed try_recover ([ORecErr _]) *)

(* The state every run ends in - and so every state it passes through, these being the final states of the runs of the
   prefixes of [ops] -: ranges nested, contents started, and the cursor inside every open known-size master as long as input
   is left, or no try_recover call has failed. *)
Theorem C06_contained : forall c input ops, c_allow_over c = false -> c_buffered c = [] ->
  let st := fst (p_run_ops c (4 * length input + 64) (p_init input) ops) in
  let inside := Forall (fun f => match f_size f with SKnown n => b_off st <= f_data f + n | SUnknown => True end) (b_stack st) in
  started st /\ nested st /\ (b_bytes st <> [] -> inside) /\
  (existsb rec_failed (p_run c input ops) = false -> b_bad st = None -> inside).
Proof. exact run_ranges. Qed.

(* The step form.  The three properties hold initially; next() preserves them; so does a successful try_recover(), which
   enlarges every open known-size master by exactly the distance it skipped; a failed try_recover() has used up the input. *)
Theorem C06_contained_init : forall input, CInv (p_init input).
Proof. exact CInv_init. Qed.

Theorem C06_contained_preserved : forall c st, c_allow_over c = false -> c_buffered c = [] -> CInv st ->
  CInv (fst (p_next c st)) /\
  (snd (p_try_recover c st) = None -> CInv (fst (p_try_recover c st))) /\
  (forall e, snd (p_try_recover c st) = Some e ->
     started (fst (p_try_recover c st)) /\ nested (fst (p_try_recover c st)) /\ b_bytes (fst (p_try_recover c st)) = []).
Proof. exact CInv_preserved. Qed.

(* [Reach c input st]: [st] is obtained from the initial state by next() and try_recover() calls; runs end in such states *)
Theorem C06_reachable : forall c input st, c_allow_over c = false -> c_buffered c = [] -> Reach c input st -> WInv st.
Proof. exact reach_invariant. Qed.

Theorem C06_run_reachable : forall c input ops, Reach c input (fst (p_run_ops c (4 * length input + 64) (p_init input) ops)).
Proof. exact run_reach. Qed.

(* Every tag read_tag accepts, in any state whose open masters have started (every reachable state): the item reports the
   cursor as its offset; its bytes are [p_start p, b_off st') - header only for a master, header and payload for an element -;
   for every open known-size master [f] (the stack after the read is the stack before it plus, possibly, implied ancestors of
   unknown size): the tag begins at or after the master's first content byte, ends at or before the end of its range, and
   if the tag is itself a master of known size m its whole declared range [p_data p, p_data p + m) ends there too - this is
   the test is_invalid_tag_size makes. *)
Theorem C06_element_inside : forall c st st' p, c_allow_over c = false -> started st -> p_read_tag c st = (st', Ok p) ->
  p_start p = b_off st /\ p_start p <= p_data p /\ b_off st' <= p_data p + ksize (p_size p) /\
  (forall id, p_tag p = TStart id -> b_off st' = p_data p) /\
  (forall id v, p_tag p = TElem id v -> exists m, p_size p = SKnown m /\ b_off st' = p_data p + m) /\
  ext_of (b_stack st) (b_stack st') /\
  forall f n, In f (b_stack st') -> f_size f = SKnown n ->
    f_data f <= p_start p /\ b_off st' <= f_data f + n /\ p_data p + ksize (p_size p) <= f_data f + n.
Proof. exact tag_inside. Qed.

(* One read_next call in a state [st] satisfying the invariant.  It first queues the Ends of the [k1] topmost open masters
   (C06_read_next_queue below): each known-size one among them ends exactly at the cursor, and every open known-size master
   that ends at the cursor is among them.  The tag it then reads begins strictly before the end of every known-size master
   still open, and lies inside each of them as in C06_element_inside. *)
Theorem C06_end_at_exhaustion : forall c st, c_allow_over c = false -> started st -> nested st -> contained st ->
  let k1 := exhausted_count (b_off st) (b_stack st) in
  let st1 := ppop_frames st k1 in
  (forall f n, In f (firstn k1 (b_stack st)) -> f_size f = SKnown n -> f_data f + n = b_off st) /\
  (forall f n, In f (b_stack st) -> f_size f = SKnown n -> f_data f + n = b_off st -> In f (firstn k1 (b_stack st))) /\
  (forall st2 p, p_read_tag c st1 = (st2, Ok p) ->
     forall f n, In f (b_stack st2) -> f_size f = SKnown n ->
       f_data f <= p_start p /\ p_start p < f_data f + n /\ b_off st2 <= f_data f + n /\
       p_data p + ksize (p_size p) <= f_data f + n).
Proof. exact read_next_extents. Qed.

(* What one read_next call appends to the queue: the Ends of the exhausted masters; then the Ends of the masters the tag ends
   by its place in the hierarchy followed by the tag, or an error, or nothing (panic site), or - at the end of the input, if so
   configured - the Ends of everything still open.  The masters ended by hierarchy are all of unknown size: the End of a
   known-size master is queued only when its range is exhausted or the input is. *)
Theorem C06_read_next_queue : forall c f st, c_buffered c = [] ->
  let k1 := exhausted_count (b_off st) (b_stack st) in
  let st1 := ppop_frames st k1 in
  b_queue st1 = b_queue st ++ map end_item (firstn k1 (b_stack st)) /\
  b_queue (p_read_next (S f) c st) = b_queue st1 ++
    match p_read_tag_checked c st1 with
    | (st2, Some (Ok p)) =>
        map end_item (firstn (count_ended (c_sp c) (tag_id (p_tag p)) (stack_view (b_stack st2))) (b_stack st2)) ++
        [QOk (p_tag p) (p_start p)]
    | (st2, Some (Err e)) => [QErr e]
    | (st2, Some Panic) => []
    | (st2, None) => if c_emit_eof c then map end_item (b_stack st1) else []
    end.
Proof. exact p_read_next_queue. Qed.

Theorem C06_hierarchy_ends_unknown_size : forall sp tid stk,
  Forall (fun f => f_size f = SUnknown) (firstn (count_ended sp tid (stack_view stk)) stk).
Proof. exact count_ended_unknown. Qed.

(* Run level.  [chk_ext input open cur items] (Proofs/Extents.v) judges a sequence of (tag, offset) items against the input
   bytes alone.  For a Start / element item it decodes the header found in the input at the item's offset ([hdr_at]: length
   and declared size).  [open] is the chain of open masters, innermost first: (id, offset of the Start item, end of the declared
   range if the size is known); [cur] is the end of the bytes of the last Start / element item.  It fails (None) on
     - a Start / element item that does not begin at [cur], or not strictly before the end of every open known-size master, or
       whose bytes (header, and payload of an element; for a known-size master its whole declared range) end after the end of
       some open known-size master, or at whose offset no header can be decoded, or an element of unknown size;
     - an End that does not name the innermost open master and its offset, or that closes a known-size master while [cur] is
       not exactly the end of its range - unless the input is used up ([length input <= cur]);
     - a Full item.
   A Start pushes, an End pops; the result is the final (open, cur).  The base chain stands for the implied ancestors of a
   mid-document start (offset 0, no range), as in C06_strict_items_well_nested.
   For every input and every sequence of operations the items yielded before the first error or try_recover call are
   accepted; so are all items of a drain. *)
Theorem C06_run_extents : forall c input ops, c_allow_over c = false -> c_buffered c = [] ->
  exists base, nobase base /\ chk_ext input base 0 (out_pairs (clean_prefix (p_run c input ops))) <> None.
Proof. exact run_extents. Qed.

Theorem C06_run_all_extents : forall c input, c_allow_over c = false -> c_buffered c = [] ->
  exists base, nobase base /\ chk_ext input base 0 (out_pairs (p_run c input [RAll])) <> None.
Proof. exact run_all_extents. Qed.

(* The base of C06_run_extents pinned ([nobase base] constrains only offsets and ranges, not ids).  Rooted form: with unknown ids
   and hierarchy errors not tolerated as well, if the first item of the run is a root element (declared with the empty path)
   the items before the first error or try_recover call are accepted from the EMPTY base. *)
Theorem C06_run_extents_rooted : forall c input ops,
  c_allow_id c = false -> c_allow_hier c = false -> c_allow_over c = false -> c_buffered c = [] ->
  forall x rest, out_tags (p_run c input ops) = x :: rest -> is_se x = true -> get_path (c_sp c) (tag_id x) = [] ->
  chk_ext input [] 0 (out_pairs (clean_prefix (p_run c input ops))) <> None.
Proof. exact run_extents_rooted. Qed.

(* General form: ONE base serves all three checkers.  [pinned_base sp tags base]: either [base = []] and [tags] are accepted
   from the empty base, undetermined; or [tags = pre ++ map TEnd o ++ x :: rest] as in C06_clean_items_pinned and
   [base = base_of sp (tag_id x)].  [zbase base] / [ebase base]: the ids of [base] as (id, offset 0) pairs / (id, offset 0, no
   range) entries.  For the items before the first error or try_recover call: the nesting checker accepts the tags from [base],
   the End-offset checker of C03 accepts the (tag, offset) pairs from [zbase base], and - oversized children not tolerated -
   the byte-range checker accepts them from [ebase base]. *)
Theorem C06_clean_prefix_pinned_all : forall c input ops,
  c_allow_id c = false -> c_allow_hier c = false -> c_buffered c = [] ->
  let cp := clean_prefix (p_run c input ops) in
  exists base, pinned_base (c_sp c) (out_tags cp) base /\
    chk (c_sp c) base false (out_tags cp) <> None /\
    chk_off (zbase base) (out_pairs cp) <> None /\
    (c_allow_over c = false -> chk_ext input (ebase base) 0 (out_pairs cp) <> None).
Proof. exact clean_prefix_pinned_all. Qed.

Theorem C06_run_extents_pinned : forall c input ops,
  c_allow_id c = false -> c_allow_hier c = false -> c_allow_over c = false -> c_buffered c = [] ->
  let cp := clean_prefix (p_run c input ops) in
  exists base, pinned_base (c_sp c) (out_tags cp) base /\ chk_ext input (ebase base) 0 (out_pairs cp) <> None.
Proof. exact clean_extents_pinned. Qed.

(* whatever base the byte-range checker accepts a sequence from, it accepts it from (the entries of) every base the nesting
   checker accepts its tags from *)
Theorem C06_chk_ext_same_base : forall sp input items baseE base, nobase baseE ->
  chk_ext input baseE 0 items <> None -> chk sp base false (map fst items) <> None -> chk_ext input (ebase base) 0 items <> None.
Proof. intros sp input items baseE base Hz H1 H2. exact (chk_ext_same_base sp input items [] baseE base 0 false Hz H1 H2). Qed.

(* the checker is compositional, so every prefix of an accepted sequence is accepted *)
Theorem C06_chk_ext_app : forall input a b open cur,
  chk_ext input open cur (a ++ b) =
  match chk_ext input open cur a with Some (o, c) => chk_ext input o c b | None => None end.
Proof. exact chk_ext_app. Qed.

(* Root(129) > Seg(130) > Val(16641).  Root of known size, Seg of unknown size, Val (header 3 bytes at offset 4, payload 1
   byte) inside Seg, then an empty second Root at offset 8.
   [tight]: Root declares 4 content bytes, range [2, 6): Val would end at 8, past the end of its grandparent: rejected.
   [roomy]: Root declares 6 content bytes, range [2, 8): Val is accepted; both Ends come when the cursor reaches 8, before the
   next Root is read at offset 8.
   [wide]: Root declares 7 content bytes, range [2, 9): at offset 8 the range is not exhausted, no End is emitted, and the
   second Root is (wrongly placed) content of Seg.
   [late]: like roomy with a second Val at offset 8, outside the exhausted Root: the Ends come first. *)
Example C06_ex_ranges :
  let sp := [ {| e_id := 129; e_ty := DMaster; e_path := [] |}; {| e_id := 130; e_ty := DMaster; e_path := [PId 129] |};
              {| e_id := 16641; e_ty := DUInt; e_path := [PId 129; PId 130] |} ] in
  let c := {| c_sp := sp; c_allow_id := false; c_allow_hier := false; c_allow_over := false; c_max := Some 4000000000;
              c_buffered := []; c_emit_eof := true |} in
  let tight := [129; 132; 130; 255; 65; 1; 129; 5; 129; 128] in
  let roomy := [129; 134; 130; 255; 65; 1; 129; 5; 129; 128] in
  let wide := [129; 135; 130; 255; 65; 1; 129; 5; 129; 128] in
  let late := [129; 134; 130; 255; 65; 1; 129; 5; 65; 1; 129; 6] in
  p_run c tight [RAll] = [OItem (TStart 129) 0; OItem (TStart 130) 2; OErr (ROversized 4 16641 1)] /\
  p_run c roomy [RAll] =
    [OItem (TStart 129) 0; OItem (TStart 130) 2; OItem (TElem 16641 (VU 5)) 4; OItem (TEnd 130) 2; OItem (TEnd 129) 0;
     OItem (TStart 129) 8; OItem (TEnd 129) 8; ONone] /\
  p_run c wide [RAll] =
    [OItem (TStart 129) 0; OItem (TStart 130) 2; OItem (TElem 16641 (VU 5)) 4; OErr (RHierarchy 129 (Some 130))] /\
  p_run c late [RAll] =
    [OItem (TStart 129) 0; OItem (TStart 130) 2; OItem (TElem 16641 (VU 5)) 4; OItem (TEnd 130) 2; OItem (TEnd 129) 0;
     OErr (RHierarchy 16641 None)] /\
  hdr_at roomy 4 = Some (3%nat, SKnown 1) /\
  chk_ext roomy [] 0 (out_pairs (p_run c roomy [RAll])) = Some ([], 10) /\
  chk_ext tight [] 0 (out_pairs (p_run c tight [RAll])) = Some ([(130, 2, None); (129, 0, Some 6)], 4).
Proof. vm_compute. repeat split; reflexivity. Qed.

(* the checker is not permissive: an element that overruns its known-size grandparent, an End before the range is exhausted,
   an item after the range is exhausted without the End, and an End of the inner master only are all rejected *)
Example C06_ex_ranges_reject :
  let tight := [129; 132; 130; 255; 65; 1; 129; 5; 129; 128] in
  let roomy := [129; 134; 130; 255; 65; 1; 129; 5; 129; 128] in
  chk_ext tight [] 0 [(TStart 129, 0); (TStart 130, 2); (TElem 16641 (VU 5), 4)] = None /\
  chk_ext roomy [] 0 [(TStart 129, 0); (TStart 130, 2); (TEnd 130, 2); (TEnd 129, 0)] = None /\
  chk_ext roomy [] 0 [(TStart 129, 0); (TStart 130, 2); (TElem 16641 (VU 5), 4); (TStart 129, 8)] = None /\
  chk_ext roomy [] 0 [(TStart 129, 0); (TStart 130, 2); (TElem 16641 (VU 5), 4); (TEnd 130, 2); (TStart 129, 8)] = None /\
  chk_ext roomy [] 0 [(TStart 129, 0); (TStart 130, 2); (TElem 16641 (VU 5), 5)] = None /\
  chk_ext roomy [] 0 [(TStart 129, 0); (TStart 130, 2); (TElem 16641 (VU 5), 4); (TEnd 130, 2); (TEnd 129, 0); (TStart 129, 8);
                      (TEnd 129, 8)] = Some ([], 10).
Proof. vm_compute. repeat split; reflexivity. Qed.

(* ------------------------------------------------------------------ byte ranges over WHOLE runs (Proofs/ExtentsRun.v)
   [chk_ext_run input open cur outs fin] judges the COMPLETE outcome list of a run - items, errors, try_recover outcomes, None -
   against the input bytes; [open] and [cur] are as in [chk_ext], [fin] is the final (open, cur).  It is a relation (a Prop),
   not a function, because the outcome list does not say how far an error or a recovery moved the cursor:
     - an item is judged exactly as by [chk_ext] (C06_chk_ext_run_items): a Start / element begins at [cur], strictly before
       the end of every open known-size master, its bytes (for a known-size master its whole declared range) end inside every
       open known-size master; an End closes the innermost open master with its recorded offset, and the End of a known-size
       master comes exactly when [cur] is the end of its range, unless the input is used up;
     - at OErr, [cur] may move forward to any later position that is not past the end of an open known-size master (or lies
       at / past the end of the input); the open masters are unchanged;
     - at ORecOk (successful try_recover) there is ONE distance d > 0 by which the end of EVERY open known-size master grows
       (this is what try_recover does: grow_frames), [cur] moves forward by at least d to a position not past the (grown) end
       of an open known-size master (or at / past the end of the input);
     - at ORecErr (failed try_recover) [cur] moves forward to a position at or past the end of the input, the open masters are
       unchanged: from then on the End of a known-size master is accepted although its range is not exhausted (the late-End
       exception of the header comment) and no Start / element is accepted any more (no header can be decoded there);
     - ONone, OLimit, OPanic, OFuel change nothing.
   [rec_sync false outs]: every ORecOk / ORecErr in [outs] is the first outcome or directly follows an OErr, an ONone or
   another ORecOk / ORecErr - then the reader's queue is empty when try_recover is called. *)

(* Oversized children not tolerated, nothing buffered, the other tolerances arbitrary, every input, every sequence of next() /
   try_recover() / drain operations whose outcome list satisfies [rec_sync] (try_recover called only directly after an error, a
   None or another try_recover, or first of all): the relaxed checker accepts the COMPLETE outcome list - errors and recoveries
   included - started from offset 0 and a base of implied ancestors (offset 0, no range). *)
Theorem C06_whole_run_extents : forall c input ops, c_allow_over c = false -> c_buffered c = [] ->
  rec_sync false (p_run c input ops) = true ->
  exists base fin, nobase base /\ chk_ext_run input base 0 (p_run c input ops) fin.
Proof. exact whole_run_extents. Qed.

(* on a list of items only, the relaxed checker is the strict checker [chk_ext] of C06_run_extents *)
Theorem C06_chk_ext_run_items : forall input l open cur fin,
  chk_ext_run input open cur (map (fun x => OItem (fst x) (snd x)) l) fin <-> chk_ext input open cur l = Some fin.
Proof. exact chk_ext_run_items. Qed.

(* the relaxed checker is compositional: judging a list is judging a prefix and then the rest from the state reached *)
Theorem C06_chk_ext_run_app : forall input a b open cur fin,
  chk_ext_run input open cur (a ++ b) fin <->
  exists s, chk_ext_run input open cur a s /\ chk_ext_run input (fst s) (snd s) b fin.
Proof. exact chk_ext_run_app. Qed.

(* wherever it occurs in an accepted outcome list - so also after errors and recoveries - a Start / element item begins at the
   checker's cursor and strictly before the end of every open known-size master *)
Theorem C06_whole_run_item_begins : forall input t o open cur s, is_se t = true ->
  ext_step input (OItem t o) (open, cur) s -> o = cur /\ ends_after o open = true.
Proof. exact ext_step_item_begins. Qed.

(* The relaxation is not vacuous.  Root(129) > Seg(130) > Val(16641); input: Root of known size 6, range [2, 8), Seg of unknown
   size, Val at offset 4 (bytes [4, 8)), a second Val at offset 8 - outside the exhausted Root.  A hand-made outcome list with
   an error after the first Val and then the second Val at offset 8 WITHOUT the Ends of Seg and Root is rejected whatever the
   error is assumed to have consumed: the element lies outside the open known-size Root.  With the two Ends before it, it is
   accepted. *)
Example C06_whole_run_reject :
  let late := [129; 134; 130; 255; 65; 1; 129; 5; 65; 1; 129; 6] in
  (forall fin, ~ chk_ext_run late [] 0
     [OItem (TStart 129) 0; OItem (TStart 130) 2; OItem (TElem 16641 (VU 5)) 4; OErr (RHierarchy 16641 None);
      OItem (TElem 16641 (VU 6)) 8] fin) /\
  chk_ext_run late [] 0
     [OItem (TStart 129) 0; OItem (TStart 130) 2; OItem (TElem 16641 (VU 5)) 4; OErr (RHierarchy 16641 None);
      OItem (TEnd 130) 2; OItem (TEnd 129) 0; OItem (TElem 16641 (VU 6)) 8] ([], 12).
Proof. exact whole_run_reject_ex. Qed.

(* A real run with an error and a successful try_recover inside a known-size master.  Root declares 14 content bytes, range
   [2, 16); Seg of unknown size; Val 5 at [4, 8); at offset 8 a Val header declaring 9 payload bytes (invalid for an integer:
   error, nothing consumed); try_recover skips 3 bytes to the Val at offset 11 and enlarges Root by 3, to [2, 19); Val 6 at
   [11, 15) and Val 7 at [15, 19) follow - Val 7 lies outside the ORIGINAL range of Root and inside the enlarged one -, then the
   input is used up and the Ends come.  The outcome list satisfies [rec_sync] and is accepted from the empty base, ending with
   nothing open at offset 19 = |input|.  The same items WITHOUT the ORecOk outcome (no enlargement) are rejected: Val 7 overruns
   Root. *)
Example C06_whole_run_ex :
  let sp := [ {| e_id := 129; e_ty := DMaster; e_path := [] |}; {| e_id := 130; e_ty := DMaster; e_path := [PId 129] |};
              {| e_id := 16641; e_ty := DUInt; e_path := [PId 129; PId 130] |} ] in
  let c := {| c_sp := sp; c_allow_id := false; c_allow_hier := false; c_allow_over := false; c_max := Some 4000000000;
              c_buffered := []; c_emit_eof := true |} in
  let input := [129; 142; 130; 255; 65; 1; 129; 5; 65; 1; 137; 65; 1; 129; 6; 65; 1; 129; 7] in
  p_run c input [RAll; RRecover; RAll] =
    [OItem (TStart 129) 0; OItem (TStart 130) 2; OItem (TElem 16641 (VU 5)) 4; OErr (RInvalidTagData 8 16641); ORecOk;
     OItem (TElem 16641 (VU 6)) 11; OItem (TElem 16641 (VU 7)) 15; OItem (TEnd 130) 2; OItem (TEnd 129) 0; ONone] /\
  rec_sync false (p_run c input [RAll; RRecover; RAll]) = true /\
  chk_ext_run input [] 0 (p_run c input [RAll; RRecover; RAll]) ([], 19) /\
  (forall fin, ~ chk_ext_run input [] 0
     [OItem (TStart 129) 0; OItem (TStart 130) 2; OItem (TElem 16641 (VU 5)) 4; OErr (RInvalidTagData 8 16641);
      OItem (TElem 16641 (VU 6)) 11; OItem (TElem 16641 (VU 7)) 15] fin).
Proof. exact whole_run_accept_ex. Qed.

(* The side condition [rec_sync] is needed.  Root of known size 6, range [2, 8), Seg, Val at [4, 8), an empty second Root at
   offset 8, three more bytes.  The fourth next() finds Root exhausted and the second Root's header: it queues End Seg, End
   Root, Start Root(8) and hands out End Seg.  try_recover is called NOW, with two parsed items still queued: it skips from
   offset 10 to the end of the input and fails.  The drain then hands out the queued End Root and Start Root at offset 8 -
   behind the cursor.  [rec_sync] is false, and the relaxed checker rejects the outcome list (from the empty base; the run
   begins with a root element at offset 0): after ORecErr the cursor is at or past offset 13, the Start item is at 8. *)
Example C06_whole_run_stale_counterexample :
  let sp := [ {| e_id := 129; e_ty := DMaster; e_path := [] |}; {| e_id := 130; e_ty := DMaster; e_path := [PId 129] |};
              {| e_id := 16641; e_ty := DUInt; e_path := [PId 129; PId 130] |} ] in
  let c := {| c_sp := sp; c_allow_id := false; c_allow_hier := false; c_allow_over := false; c_max := Some 4000000000;
              c_buffered := []; c_emit_eof := true |} in
  let input := [129; 134; 130; 255; 65; 1; 129; 5; 129; 128; 255; 129; 128] in
  let ops := [RNext; RNext; RNext; RNext; RRecover; RAll] in
  p_run c input ops =
    [OItem (TStart 129) 0; OItem (TStart 130) 2; OItem (TElem 16641 (VU 5)) 4; OItem (TEnd 130) 2;
     ORecErr (REof 13 None None None); OItem (TEnd 129) 0; OItem (TStart 129) 8; OItem (TEnd 129) 8; ONone] /\
  rec_sync false (p_run c input ops) = false /\
  (forall fin, ~ chk_ext_run input [] 0 (p_run c input ops) fin).
Proof. exact whole_run_stale_ex. Qed.

(* The same with a try_recover that SUCCEEDS.  As above, but the second Root (offset 8) declares 7 content bytes, range
   [10, 17), and is followed by a stray byte, a Seg header at 11 and a Val at [13, 17).  try_recover, called while End Root and
   Start Root(8) are queued, skips the stray byte at offset 10 and stops at the Seg header at 11.  The queued End Root and
   Start Root at offset 8 are handed out after ORecOk, then Seg at 11: the Start item at 8 lies behind every cursor position a
   recovery that skipped at least one byte can have reached.  [rec_sync] is false and the relaxed checker rejects the list. *)
Example C06_whole_run_stale_recovered_counterexample :
  let sp := [ {| e_id := 129; e_ty := DMaster; e_path := [] |}; {| e_id := 130; e_ty := DMaster; e_path := [PId 129] |};
              {| e_id := 16641; e_ty := DUInt; e_path := [PId 129; PId 130] |} ] in
  let c := {| c_sp := sp; c_allow_id := false; c_allow_hier := false; c_allow_over := false; c_max := Some 4000000000;
              c_buffered := []; c_emit_eof := true |} in
  let input := [129; 134; 130; 255; 65; 1; 129; 5; 129; 135; 255; 130; 255; 65; 1; 129; 7] in
  let ops := [RNext; RNext; RNext; RNext; RRecover; RAll] in
  p_run c input ops =
    [OItem (TStart 129) 0; OItem (TStart 130) 2; OItem (TElem 16641 (VU 5)) 4; OItem (TEnd 130) 2; ORecOk;
     OItem (TEnd 129) 0; OItem (TStart 129) 8; OItem (TStart 130) 11; OItem (TElem 16641 (VU 7)) 13;
     OItem (TEnd 130) 11; OItem (TEnd 129) 8; ONone] /\
  rec_sync false (p_run c input ops) = false /\
  (forall fin, ~ chk_ext_run input [] 0 (p_run c input ops) fin).
Proof. exact whole_run_stale_ok_ex. Qed.

(* ================================================================== buffered masters (Full items)
   Everything above assumes [c_buffered c = []]; with a buffered set the reader yields Full items, which [chk] rejects as such.
   Vocabulary (Props/C08.v): [flat tags]: every Full item replaced, recursively, by its Start, its unrolled children and its End;
   [Unr b u]: the same on items with offsets (Start and End of a Full item at the offset of the Full item); [unbuffered c]: the
   configuration c with an empty buffered set; [qtags U] / [all_q U]: the tags / the (tag, offset) pairs of the items U.
   "Clean drain": every outcome of [p_run c input [RAll]] is an item or the final None - no error, no panic-site, budget or
   item-limit outcome (the hypothesis of C08_buffered_run_unrolls).
   Side condition, exactly as in C08: the drain of [unbuffered c] yields more items than the buffered one, so it alone can be cut
   by the per-run item limit 4 * |input| + 64; the statements assume it is not ([~ In OLimit ...]) or, in the [_short] forms, that
   the unrolled tag sequence is shorter than that limit (C08_limit_ex shows a condition is needed).
   Proofs (Proofs/BufferedNesting.v): C08_buffered_run_unrolls(_items) composed with the statements above applied to [unbuffered c].

   For runs WITH an error outcome the statement is FALSE (known finding D29): when an error occurs inside a buffered master
   the reader has already consumed the master's Start and the children read so far into its private queue and drops them with
   the error; after try_recover the remaining children and the master's End are yielded, but neither a Start nor a Full item of
   that master ever is.  The emitted tags (unrolled or not) then contain an End without a Start and elements outside their
   declared parent: no base chain makes [chk] accept them (C06_buffered_error_counterexample,
   C06_buffered_error_counterexample_every_base below).  With nothing buffered the same input is well nested across the error
   (C06_strict_items_well_nested). *)

(* Unknown ids and hierarchy errors not tolerated, ANY buffered set, every input.  If the drain is clean and the drain of the
   same configuration with nothing buffered is not cut at its item limit, then the tags of the drain with every Full item
   unrolled recursively are accepted by the checker started with nothing determined and some base chain. *)
Theorem C06_buffered_clean_well_nested : forall c input,
  c_allow_id c = false -> c_allow_hier c = false ->
  let outs := p_run c input [RAll] in
  (forall o, In o outs -> match o with OItem _ _ | ONone => True | _ => False end) ->
  ~ In OLimit (p_run (unbuffered c) input [RAll]) ->
  exists base, chk (c_sp c) base false (flat (out_tags outs)) <> None.
Proof. exact buffered_clean_well_nested. Qed.

(* the same with the side condition "the unrolled tag sequence is shorter than the item limit 4 * |input| + 64" *)
Theorem C06_buffered_clean_well_nested_short : forall c input,
  c_allow_id c = false -> c_allow_hier c = false ->
  let outs := p_run c input [RAll] in
  (forall o, In o outs -> match o with OItem _ _ | ONone => True | _ => False end) ->
  (length (flat (out_tags outs)) < 4 * length input + 64)%nat ->
  exists base, chk (c_sp c) base false (flat (out_tags outs)) <> None.
Proof. exact buffered_clean_well_nested_short. Qed.

(* Rooted form (cf. C06_strict_items_well_nested_rooted).  Same hypotheses; if moreover the unrolled tag sequence begins with a
   Start or element whose id is declared with the empty path (a root element), it is accepted from the EMPTY base. *)
Theorem C06_buffered_clean_well_nested_rooted : forall c input,
  c_allow_id c = false -> c_allow_hier c = false ->
  let outs := p_run c input [RAll] in
  (forall o, In o outs -> match o with OItem _ _ | ONone => True | _ => False end) ->
  ~ In OLimit (p_run (unbuffered c) input [RAll]) ->
  forall x rest, flat (out_tags outs) = x :: rest -> is_se x = true -> get_path (c_sp c) (tag_id x) = [] ->
  chk (c_sp c) [] false (flat (out_tags outs)) <> None.
Proof. exact buffered_clean_well_nested_rooted. Qed.

Theorem C06_buffered_clean_well_nested_rooted_short : forall c input,
  c_allow_id c = false -> c_allow_hier c = false ->
  let outs := p_run c input [RAll] in
  (forall o, In o outs -> match o with OItem _ _ | ONone => True | _ => False end) ->
  (length (flat (out_tags outs)) < 4 * length input + 64)%nat ->
  forall x rest, flat (out_tags outs) = x :: rest -> is_se x = true -> get_path (c_sp c) (tag_id x) = [] ->
  chk (c_sp c) [] false (flat (out_tags outs)) <> None.
Proof. exact buffered_clean_well_nested_rooted_short. Qed.

(* ... the root condition put on the first item of the buffered drain itself: it is not an End (so a Start, an element, or the
   Full item of a buffered root master) and its id is declared with the empty path *)
Theorem C06_buffered_clean_well_nested_rooted_first : forall c input,
  c_allow_id c = false -> c_allow_hier c = false ->
  let outs := p_run c input [RAll] in
  (forall o, In o outs -> match o with OItem _ _ | ONone => True | _ => False end) ->
  ~ In OLimit (p_run (unbuffered c) input [RAll]) ->
  forall y rest, out_tags outs = y :: rest -> (forall id, y <> TEnd id) -> get_path (c_sp c) (tag_id y) = [] ->
  chk (c_sp c) [] false (flat (out_tags outs)) <> None.
Proof. exact buffered_clean_well_nested_rooted_first. Qed.

(* General form with the base pinned (cf. C06_drain_items_pinned): same hypotheses as C06_buffered_clean_well_nested; EITHER the
   unrolled tags are accepted from the EMPTY base and the checker is still undetermined, OR they are
   [pre ++ map TEnd o ++ x :: rest] with [x] the first Start / element whose declared path is placeholder-free, [pre] accepted
   from the EMPTY base, undetermined, leaving exactly [o] open, and the whole sequence is accepted from the masters named by the
   declared path of [x]. *)
Theorem C06_buffered_clean_items_pinned : forall c input,
  c_allow_id c = false -> c_allow_hier c = false ->
  let outs := p_run c input [RAll] in
  (forall o, In o outs -> match o with OItem _ _ | ONone => True | _ => False end) ->
  ~ In OLimit (p_run (unbuffered c) input [RAll]) ->
  let items := flat (out_tags outs) in
  (exists o, chk (c_sp c) [] false items = Some (o, false)) \/
  (exists pre o x rest, items = pre ++ map TEnd o ++ x :: rest /\ chk (c_sp c) [] false pre = Some (o, false) /\
     is_se x = true /\ all_ids (get_path (c_sp c) (tag_id x)) = true /\
     chk (c_sp c) (base_of (c_sp c) (tag_id x)) false items <> None).
Proof. exact buffered_clean_items_pinned. Qed.

(* ... and the accepting base satisfies [Based] (cf. C06_strict_items_based): it is empty or the chain of declared masters named
   by a placeholder-free declared path *)
Theorem C06_buffered_clean_items_based : forall c input,
  c_allow_id c = false -> c_allow_hier c = false ->
  let outs := p_run c input [RAll] in
  (forall o, In o outs -> match o with OItem _ _ | ONone => True | _ => False end) ->
  ~ In OLimit (p_run (unbuffered c) input [RAll]) ->
  exists base, chk (c_sp c) base false (flat (out_tags outs)) <> None /\ Based (c_sp c) base (flat (out_tags outs)).
Proof. exact buffered_clean_items_based. Qed.

(* Byte ranges (cf. C06_run_all_extents).  Oversized children not tolerated, the other tolerances arbitrary, ANY buffered set,
   every input: if the drain is clean and the drain with nothing buffered is not cut at its item limit, the items of the drain
   have an unrolling [U] (Start and End of each Full item at the offset of the Full item) that the byte-range checker accepts
   against the input bytes from a base of implied ancestors (offset 0, no range). *)
Theorem C06_buffered_clean_extents : forall c input, c_allow_over c = false ->
  let outs := p_run c input [RAll] in
  (forall o, In o outs -> match o with OItem _ _ | ONone => True | _ => False end) ->
  ~ In OLimit (p_run (unbuffered c) input [RAll]) ->
  exists U, Unr (out_items outs) U /\ exists base, nobase base /\ chk_ext input base 0 (all_q U) <> None.
Proof. exact buffered_clean_extents. Qed.

Theorem C06_buffered_clean_extents_short : forall c input, c_allow_over c = false ->
  let outs := p_run c input [RAll] in
  (forall o, In o outs -> match o with OItem _ _ | ONone => True | _ => False end) ->
  (length (flat (out_tags outs)) < 4 * length input + 64)%nat ->
  exists U, Unr (out_items outs) U /\ exists base, nobase base /\ chk_ext input base 0 (all_q U) <> None.
Proof. exact buffered_clean_extents_short. Qed.

(* ONE pinned base for the three checkers (cf. C06_clean_prefix_pinned_all).  Unknown ids and hierarchy errors not tolerated, ANY
   buffered set, every input, clean drain, unbuffered drain not cut: there are an unrolling [U] of the items of the drain, whose
   tags are the unrolled tags of the drain, and a base determined by [pinned_base], such that the nesting checker accepts the
   tags of U from [base], the End-offset checker of C03 accepts its (tag, offset) pairs from [zbase base], and - oversized
   children not tolerated - the byte-range checker accepts them from [ebase base]. *)
Theorem C06_buffered_clean_pinned_all : forall c input,
  c_allow_id c = false -> c_allow_hier c = false ->
  let outs := p_run c input [RAll] in
  (forall o, In o outs -> match o with OItem _ _ | ONone => True | _ => False end) ->
  ~ In OLimit (p_run (unbuffered c) input [RAll]) ->
  exists U base, Unr (out_items outs) U /\ qtags U = flat (out_tags outs) /\
    pinned_base (c_sp c) (qtags U) base /\
    chk (c_sp c) base false (qtags U) <> None /\
    chk_off (zbase base) (all_q U) <> None /\
    (c_allow_over c = false -> chk_ext input (ebase base) 0 (all_q U) <> None).
Proof. exact buffered_clean_pinned_all. Qed.

(* Rooted form of the same: if the first item of the clean drain is not an End and its id is declared with the empty path, all
   three checkers accept the unrolling from their EMPTY bases. *)
Theorem C06_buffered_clean_rooted_all : forall c input,
  c_allow_id c = false -> c_allow_hier c = false ->
  let outs := p_run c input [RAll] in
  (forall o, In o outs -> match o with OItem _ _ | ONone => True | _ => False end) ->
  ~ In OLimit (p_run (unbuffered c) input [RAll]) ->
  forall y rest, out_tags outs = y :: rest -> (forall id, y <> TEnd id) -> get_path (c_sp c) (tag_id y) = [] ->
  exists U, Unr (out_items outs) U /\ qtags U = flat (out_tags outs) /\
    chk (c_sp c) [] false (qtags U) <> None /\
    chk_off [] (all_q U) <> None /\
    (c_allow_over c = false -> chk_ext input [] 0 (all_q U) <> None).
Proof. exact buffered_clean_rooted_all. Qed.

Theorem C06_buffered_clean_rooted_all_short : forall c input,
  c_allow_id c = false -> c_allow_hier c = false ->
  let outs := p_run c input [RAll] in
  (forall o, In o outs -> match o with OItem _ _ | ONone => True | _ => False end) ->
  (length (flat (out_tags outs)) < 4 * length input + 64)%nat ->
  forall y rest, out_tags outs = y :: rest -> (forall id, y <> TEnd id) -> get_path (c_sp c) (tag_id y) = [] ->
  exists U, Unr (out_items outs) U /\ qtags U = flat (out_tags outs) /\
    chk (c_sp c) [] false (qtags U) <> None /\
    chk_off [] (all_q U) <> None /\
    (c_allow_over c = false -> chk_ext input [] 0 (all_q U) <> None).
Proof. exact buffered_clean_rooted_all_short. Qed.

(* Root(129){ A(16643){ B(16645){ x(16641) = -200 } y(16642) = 7 } } with A and B buffered, B nested in A (the document of
   C08_run_ex).  The drain yields Start Root, ONE Full item for A that contains the Full item of B, End Root, None. *)
Definition C06_bex_sp : spec :=
  [ {| e_id := 129; e_ty := DMaster; e_path := [] |}; {| e_id := 16643; e_ty := DMaster; e_path := [PId 129] |};
    {| e_id := 16645; e_ty := DMaster; e_path := [PId 129; PId 16643] |};
    {| e_id := 16641; e_ty := DSInt; e_path := [PId 129; PId 16643; PId 16645] |};
    {| e_id := 16642; e_ty := DUInt; e_path := [PId 129; PId 16643] |} ].
Definition C06_bex_cfg : cfg :=
  {| c_sp := C06_bex_sp; c_allow_id := false; c_allow_hier := false; c_allow_over := false; c_max := Some 4000000000;
     c_buffered := [16643; 16645]; c_emit_eof := true |}.
Definition C06_bex_doc : list N := [129; 143; 65; 3; 140; 65; 5; 133; 65; 1; 130; 255; 56; 65; 2; 129; 7].

(* the hypotheses of C06_buffered_clean_rooted_all hold for that drain (strict, clean, unbuffered drain not cut, first item the
   Start of the root master), so the theorem applies; and the conclusion computes: the unrolled tags are accepted from the empty
   base with nothing left open, the raw tags (with the Full item) are not, and the End-offset and byte-range checkers accept the
   unrolled items (the drain of the unbuffered configuration) from their empty bases, the latter ending at offset 17 = |input| *)
Example C06_buffered_ex :
  let outs := p_run C06_bex_cfg C06_bex_doc [RAll] in
  outs = [OItem (TStart 129) 0; OItem (TFull 16643 [TFull 16645 [TElem 16641 (VI (-200))]; TElem 16642 (VU 7)]) 2;
          OItem (TEnd 129) 0; ONone] /\
  (forall o, In o outs -> match o with OItem _ _ | ONone => True | _ => False end) /\
  ~ In OLimit (p_run (unbuffered C06_bex_cfg) C06_bex_doc [RAll]) /\
  (length (flat (out_tags outs)) < 4 * length C06_bex_doc + 64)%nat /\
  flat (out_tags outs) =
    [TStart 129; TStart 16643; TStart 16645; TElem 16641 (VI (-200)); TEnd 16645; TElem 16642 (VU 7); TEnd 16643; TEnd 129] /\
  chk C06_bex_sp [] false (flat (out_tags outs)) = Some ([], true) /\
  chk C06_bex_sp [] false (out_tags outs) = None /\
  out_items (p_run (unbuffered C06_bex_cfg) C06_bex_doc [RAll]) =
    [QOk (TStart 129) 0; QOk (TStart 16643) 2; QOk (TStart 16645) 5; QOk (TElem 16641 (VI (-200))) 8; QOk (TEnd 16645) 5;
     QOk (TElem 16642 (VU 7)) 13; QOk (TEnd 16643) 2; QOk (TEnd 129) 0] /\
  chk_off [] (all_q (out_items (p_run (unbuffered C06_bex_cfg) C06_bex_doc [RAll]))) = Some [] /\
  chk_ext C06_bex_doc [] 0 (all_q (out_items (p_run (unbuffered C06_bex_cfg) C06_bex_doc [RAll]))) = Some ([], 17) /\
  (exists U, Unr (out_items outs) U /\ qtags U = flat (out_tags outs) /\
     chk C06_bex_sp [] false (qtags U) <> None /\ chk_off [] (all_q U) <> None /\
     (c_allow_over C06_bex_cfg = false -> chk_ext C06_bex_doc [] 0 (all_q U) <> None)).
Proof.
  cbv zeta.
  assert (H1 : forall o, In o (p_run C06_bex_cfg C06_bex_doc [RAll]) -> match o with OItem _ _ | ONone => True | _ => False end).
  { vm_compute. intros o H. repeat (destruct H as [<-|H]; [exact I|]). contradiction H. }
  assert (H2 : ~ In OLimit (p_run (unbuffered C06_bex_cfg) C06_bex_doc [RAll])).
  { vm_compute. intros H. repeat (destruct H as [H|H]; [discriminate H|]). exact H. }
  split; [vm_compute; reflexivity|]. split; [exact H1|]. split; [exact H2|].
  split; [vm_compute; repeat constructor|].
  do 6 (split; [vm_compute; reflexivity|]).
  apply (C06_buffered_clean_rooted_all C06_bex_cfg C06_bex_doc eq_refl eq_refl H1 H2 (TStart 129)
           [TFull 16643 [TFull 16645 [TElem 16641 (VI (-200))]; TElem 16642 (VU 7)]; TEnd 129]).
  - vm_compute. reflexivity.
  - intros id H. discriminate H.
  - reflexivity.
Qed.

(* The counterexample for runs with an error (finding D29).  Root(0x81 = 129) > A(0x4103 = 16643) > b(0x4102 = 16642, binary);
   u(0x4101 = 16641, unsigned) is a child of Root; A is buffered; strict.
   Input (hex) 81 93 | 41 03 8c | 41 02 81 aa | f7 | 41 02 81 bb | 41 02 81 cc | 41 01 81 05 : Root{ A{ b=aa, <unknown id
   0xf7 at offset 9>, b=bb, b=cc } u=5 }.  Operations: drain, try_recover, drain. *)
Definition C06_berr_sp : spec :=
  [ {| e_id := 129; e_ty := DMaster; e_path := [] |}; {| e_id := 16643; e_ty := DMaster; e_path := [PId 129] |};
    {| e_id := 16642; e_ty := DBinary; e_path := [PId 129; PId 16643] |};
    {| e_id := 16641; e_ty := DUInt; e_path := [PId 129] |} ].
Definition C06_berr_cfg : cfg :=
  {| c_sp := C06_berr_sp; c_allow_id := false; c_allow_hier := false; c_allow_over := false; c_max := Some 4000000000;
     c_buffered := [16643]; c_emit_eof := true |}.
Definition C06_berr_input : list N :=
  [129; 147; 65; 3; 140; 65; 2; 129; 170; 247; 65; 2; 129; 187; 65; 2; 129; 204; 65; 1; 129; 5].

(* The run: Start Root, the error (the Start of A and its first child b=aa, held in the private queue of the buffered master,
   are dropped with it), try_recover succeeds, then b=bb, b=cc, End A - an End of a master of which neither a Start nor a Full
   item was ever yielded -, u=5, End Root, None.  There is no Full item, so unrolling changes nothing.  The checker rejects the
   emitted tags from every base chain of length at most 2 over the ids {Root, A}.  The first drain alone is [Start Root; error]:
   not clean, so C06_buffered_clean_well_nested does not apply.  The same configuration with nothing buffered yields, on the
   same input and operations, Start A and b=aa before the error, and its tags are accepted from the empty base with nothing
   left open. *)
Example C06_buffered_error_counterexample :
  let run := p_run C06_berr_cfg C06_berr_input [RAll; RRecover; RAll] in
  let tags := out_tags run in
  run = [OItem (TStart 129) 0; OErr (RInvalidTagId 9 247); ORecOk;
         OItem (TElem 16642 (VB [187])) 10; OItem (TElem 16642 (VB [204])) 14; OItem (TEnd 16643) 2;
         OItem (TElem 16641 (VU 5)) 18; OItem (TEnd 129) 0; ONone] /\
  flat tags = tags /\
  chk C06_berr_sp [] false tags = None /\
  chk C06_berr_sp [129] false tags = None /\
  chk C06_berr_sp [16643] false tags = None /\
  chk C06_berr_sp [129; 129] false tags = None /\
  chk C06_berr_sp [129; 16643] false tags = None /\
  chk C06_berr_sp [16643; 129] false tags = None /\
  chk C06_berr_sp [16643; 16643] false tags = None /\
  p_run C06_berr_cfg C06_berr_input [RAll] = [OItem (TStart 129) 0; OErr (RInvalidTagId 9 247)] /\
  p_run (unbuffered C06_berr_cfg) C06_berr_input [RAll; RRecover; RAll] =
    [OItem (TStart 129) 0; OItem (TStart 16643) 2; OItem (TElem 16642 (VB [170])) 5; OErr (RInvalidTagId 9 247); ORecOk;
     OItem (TElem 16642 (VB [187])) 10; OItem (TElem 16642 (VB [204])) 14; OItem (TEnd 16643) 2;
     OItem (TElem 16641 (VU 5)) 18; OItem (TEnd 129) 0; ONone] /\
  chk C06_berr_sp [] false (out_tags (p_run (unbuffered C06_berr_cfg) C06_berr_input [RAll; RRecover; RAll])) = Some ([], true).
Proof. vm_compute. repeat split; reflexivity. Qed.

(* ... and from EVERY base chain whatsoever: the run begins with the Start of the root master, which only the empty base accepts
   (C06_root_forces_empty_base), and the empty base rejects the sequence.  So the conclusion of C06_strict_items_well_nested
   (and of C06_buffered_clean_well_nested) fails for this strict configuration with a buffered master. *)
Example C06_buffered_error_counterexample_every_base : forall base,
  chk (c_sp C06_berr_cfg) base false (flat (out_tags (p_run C06_berr_cfg C06_berr_input [RAll; RRecover; RAll]))) = None.
Proof.
  assert (E : flat (out_tags (p_run C06_berr_cfg C06_berr_input [RAll; RRecover; RAll])) =
              TStart 129 :: [TElem 16642 (VB [187]); TElem 16642 (VB [204]); TEnd 16643; TElem 16641 (VU 5); TEnd 129])
    by (vm_compute; reflexivity).
  rewrite E. apply rooted_rejected_everywhere; [reflexivity|reflexivity|vm_compute; reflexivity].
Qed.

(* ================================================================== buffered masters: the end of the input closes everything
   The buffered analogue of C06_eof_closes_all (proofs in Proofs/BufferedEof.v).  "The drain is [outs ++ [ONone]]" says that it
   yielded the items [outs] - all outcomes of a drain but the last are items, C08_drain_items -, no error, no panic-site, budget
   or item-limit outcome, and ended with None.  Unlike the C06_buffered_clean_* statements above these need NO side condition
   about the item limit of the drain with nothing buffered: the simulation holds for every item limit of that drain
   (C08_buffered_none_export), and a limit larger than the number of unrolled tags is used. *)

(* Unknown ids and hierarchy errors not tolerated, ANY buffered set, Ends emitted at the end of the input, every input: if the
   drain yields the items [outs] and ends with None, the tags of [outs] with every Full item unrolled recursively are accepted by
   the checker from some base chain, and NOTHING IS LEFT OPEN after the last one: every master that was opened (buffered or
   not, Full items included) and every implied ancestor has received its End. *)
Theorem C06_buffered_eof_closes_all : forall c input outs,
  c_allow_id c = false -> c_allow_hier c = false -> c_emit_eof c = true ->
  p_run c input [RAll] = outs ++ [ONone] ->
  exists base det, chk (c_sp c) base false (flat (out_tags outs)) = Some ([], det).
Proof. exact beof_closes_all. Qed.

(* Rooted form (cf. C06_eof_closes_all_rooted): same hypotheses; if the unrolled tag sequence begins with a Start or element
   whose id is declared with the empty path (a root element), the checker started from the EMPTY base ends with nothing open and
   the position determined. *)
Theorem C06_buffered_eof_closes_all_rooted : forall c input outs,
  c_allow_id c = false -> c_allow_hier c = false -> c_emit_eof c = true ->
  p_run c input [RAll] = outs ++ [ONone] ->
  forall x rest, flat (out_tags outs) = x :: rest -> is_se x = true -> get_path (c_sp c) (tag_id x) = [] ->
  chk (c_sp c) [] false (flat (out_tags outs)) = Some ([], true).
Proof. exact beof_closes_all_rooted. Qed.

(* ... the root condition put on the first item of the buffered drain itself: it is not an End (so a Start, an element, or the Full
   item of a buffered root master) and its id is declared with the empty path *)
Theorem C06_buffered_eof_closes_all_rooted_first : forall c input outs,
  c_allow_id c = false -> c_allow_hier c = false -> c_emit_eof c = true ->
  p_run c input [RAll] = outs ++ [ONone] ->
  forall y rest, out_tags outs = y :: rest -> (forall id, y <> TEnd id) -> get_path (c_sp c) (tag_id y) = [] ->
  chk (c_sp c) [] false (flat (out_tags outs)) = Some ([], true).
Proof. exact beof_closes_all_rooted_first. Qed.

(* With the base pinned (cf. C06_eof_closes_all_pinned): same hypotheses; EITHER the checker started from the EMPTY base ends with
   nothing open, undetermined, OR the unrolled tags are [pre ++ map TEnd o ++ x :: rest] with [x] the first Start / element whose
   declared path is placeholder-free, [pre] accepted from the EMPTY base, undetermined, leaving exactly [o] open, and the checker
   started from the masters named by the declared path of [x] ends with nothing open, determined. *)
Theorem C06_buffered_eof_closes_all_pinned : forall c input outs,
  c_allow_id c = false -> c_allow_hier c = false -> c_emit_eof c = true ->
  p_run c input [RAll] = outs ++ [ONone] ->
  chk (c_sp c) [] false (flat (out_tags outs)) = Some ([], false) \/
  (exists pre o x rest, flat (out_tags outs) = pre ++ map TEnd o ++ x :: rest /\ chk (c_sp c) [] false pre = Some (o, false) /\
     is_se x = true /\ all_ids (get_path (c_sp c) (tag_id x)) = true /\
     chk (c_sp c) (base_of (c_sp c) (tag_id x)) false (flat (out_tags outs)) = Some ([], true)).
Proof. exact beof_closes_all_pinned. Qed.

(* the document of C06_buffered_ex (Root{ A{ B{ x } y } }, A and B buffered, B nested in A): the drain ends with None, its first
   item is the Start of the root master, so C06_buffered_eof_closes_all_rooted_first applies; the conclusion computes *)
Example C06_buffered_eof_ex :
  let outs := [OItem (TStart 129) 0; OItem (TFull 16643 [TFull 16645 [TElem 16641 (VI (-200))]; TElem 16642 (VU 7)]) 2;
               OItem (TEnd 129) 0] in
  p_run C06_bex_cfg C06_bex_doc [RAll] = outs ++ [ONone] /\
  chk C06_bex_sp [] false (flat (out_tags outs)) = Some ([], true).
Proof.
  cbv zeta. assert (H : p_run C06_bex_cfg C06_bex_doc [RAll] =
    [OItem (TStart 129) 0; OItem (TFull 16643 [TFull 16645 [TElem 16641 (VI (-200))]; TElem 16642 (VU 7)]) 2;
     OItem (TEnd 129) 0] ++ [ONone]) by (vm_compute; reflexivity).
  split; [exact H|].
  apply (C06_buffered_eof_closes_all_rooted_first C06_bex_cfg C06_bex_doc _ eq_refl eq_refl eq_refl H (TStart 129)
           [TFull 16643 [TFull 16645 [TElem 16641 (VI (-200))]; TElem 16642 (VU 7)]; TEnd 129]).
  - reflexivity.
  - intros id E. discriminate E.
  - reflexivity.
Qed.

(* No side condition about the item limit is needed.  The configuration of C08_limit_ex: the element 130 is declared under 88
   ancestors, 129 is a global master, buffered; the 7-byte input [129 128 129 128 130 129 7] starts mid-document.  The buffered
   drain ends with None after 91 items whose unrolling has 93 tags; the drain with nothing buffered is CUT after 92 items, its item
   limit (so the C06_buffered_clean_* statements do not apply), yet the unrolled tags are accepted from the 88 masters named by the
   declared path of the element 130 with nothing left open, as C06_buffered_eof_closes_all_pinned says. *)
Example C06_buffered_eof_limit_ex :
  let chain k := map (fun i => 1000 + N.of_nat i) (seq 0 k) in
  let sp := map (fun i => {| e_id := 1000 + N.of_nat i; e_ty := DMaster; e_path := map PId (chain i) |}) (seq 0 88) ++
            [ {| e_id := 129; e_ty := DMaster; e_path := [PGlobal None None] |};
              {| e_id := 130; e_ty := DUInt; e_path := map PId (chain 88%nat) |} ] in
  let c := {| c_sp := sp; c_allow_id := false; c_allow_hier := false; c_allow_over := false; c_max := None;
              c_buffered := [129]; c_emit_eof := true |} in
  let input := [129; 128; 129; 128; 130; 129; 7] in
  last (p_run c input [RAll]) OLimit = ONone /\
  last (p_run (unbuffered c) input [RAll]) ONone = OLimit /\
  length (flat (out_tags (p_run c input [RAll]))) = 93%nat /\
  firstn 3 (flat (out_tags (p_run c input [RAll]))) = [TStart 129; TEnd 129; TStart 129] /\
  chk sp [] false (flat (out_tags (p_run c input [RAll]))) = None /\
  chk sp (base_of sp 130) false (flat (out_tags (p_run c input [RAll]))) = Some ([], true).
Proof. vm_compute. repeat split; reflexivity. Qed.
