(* C06 — strict mode emits only well-nested, hierarchy-valid sequences.  Statements only (proofs in Proofs/Nesting.v).

   The judgement is the independent checker [chk sp open det items] of Proofs/Nesting.v over the sequence of successfully
   emitted tags.  [open] is the chain of masters currently open (ids, innermost first), [det] says that an element with a
   placeholder-free path has been seen.  The checker fails (None) on
     - an End whose id is not the innermost open master (or with nothing open),
     - a Start / element whose id the specification does not know,
     - once [det] holds (it becomes true at the first element of known type whose declared path has no global
       placeholder, that element included): a Start / element whose declared path does not match the open chain,
     - a Full item (cannot occur when nothing is buffered);
   a Start pushes its id, an End pops, and the result is the final (open, det).
   "Strict": unknown ids and hierarchy errors are not tolerated and no master is buffered. *)
From Ebml Require Import Base Tools Spec Reader Pure Proofs.Nesting.

(* For every input and every sequence of next() / try_recover() / drain operations (so also for the items that follow errors
   and recoveries), the emitted tags are accepted by the checker started with nothing determined and some base chain.  The
   base is empty for a document read from its root; when reading starts inside a document it is the chain of implied
   ancestors of the first placeholder-free element: every End closes the most recent unmatched Start or, when those are used
   up, an implied ancestor, innermost first. *)
Theorem C06_strict_items_well_nested : forall c input ops,
  c_allow_id c = false -> c_allow_hier c = false -> c_buffered c = [] ->
  exists base, chk (c_sp c) base false (out_tags (p_run c input ops)) <> None.
Proof. exact strict_items_well_nested. Qed.

(* With Ends emitted at the end of the input: when the complete run ends with None (no error, no cut), nothing is left open
   after the last item: every opened master and every implied ancestor has received its End. *)
Theorem C06_eof_closes_all : forall c input,
  c_allow_id c = false -> c_allow_hier c = false -> c_buffered c = [] -> c_emit_eof c = true ->
  forall outs, p_run c input [RAll] = outs ++ [ONone] ->
  exists base det, chk (c_sp c) base false (out_tags outs) = Some ([], det).
Proof. exact eof_closes_all. Qed.

(* the checker is compositional: judging a sequence is judging a prefix and then the rest from the state reached; in
   particular every prefix of an accepted sequence is accepted *)
Theorem C06_chk_app : forall sp a b open det,
  chk sp open det (a ++ b) = match chk sp open det a with Some (o, d) => chk sp o d b | None => None end.
Proof. exact chk_app. Qed.

(* Root(129) > Seg(130) > Val(16641); Void(236) may occur anywhere *)
Example C06_ex_run :
  let sp := [ {| e_id := 129; e_ty := DMaster; e_path := [] |}; {| e_id := 130; e_ty := DMaster; e_path := [PId 129] |};
              {| e_id := 16641; e_ty := DUInt; e_path := [PId 129; PId 130] |};
              {| e_id := 236; e_ty := DBinary; e_path := [PGlobal None None] |} ] in
  let c := {| c_sp := sp; c_allow_id := false; c_allow_hier := false; c_allow_over := false; c_max := Some 4000000000;
              c_buffered := []; c_emit_eof := true |} in
  (* a whole document: Root { Seg { Val 5 } Seg { Val 6 } } *)
  let doc := [129; 140; 130; 132; 65; 1; 129; 5; 130; 132; 65; 1; 129; 6] in
  (* reading starts inside a Seg: Void, Val 5, (end of that Seg) Seg { Val 6 } *)
  let mid := [236; 129; 0; 65; 1; 129; 5; 130; 132; 65; 1; 129; 6] in
  (* Val directly inside Root: hierarchy error, failed recovery, drain *)
  let bad := [129; 140; 130; 132; 65; 1; 129; 5; 65; 1; 129; 5; 130; 129; 0] in
  p_run c doc [RAll] =
    [OItem (TStart 129) 0; OItem (TStart 130) 2; OItem (TElem 16641 (VU 5)) 4; OItem (TEnd 130) 2;
     OItem (TStart 130) 8; OItem (TElem 16641 (VU 6)) 10; OItem (TEnd 130) 8; OItem (TEnd 129) 0; ONone] /\
  chk sp [] false (out_tags (p_run c doc [RAll])) = Some ([], true) /\
  p_run c mid [RAll] =
    [OItem (TElem 236 (VB [0])) 0; OItem (TElem 16641 (VU 5)) 3; OItem (TEnd 130) 0;
     OItem (TStart 130) 7; OItem (TElem 16641 (VU 6)) 9; OItem (TEnd 130) 7; OItem (TEnd 129) 0; ONone] /\
  chk sp [130; 129] false (out_tags (p_run c mid [RAll])) = Some ([], true) /\
  chk sp [] false (out_tags (p_run c mid [RAll])) = None /\
  p_run c bad [RAll; RRecover; RAll] =
    [OItem (TStart 129) 0; OItem (TStart 130) 2; OItem (TElem 16641 (VU 5)) 4; OItem (TEnd 130) 2;
     OErr (RHierarchy 16641 (Some 129)); ORecErr (REof 15 None None None); OItem (TEnd 129) 0; ONone] /\
  chk sp [] false (out_tags (p_run c bad [RAll; RRecover; RAll])) = Some ([], true).
Proof. vm_compute. repeat split; reflexivity. Qed.

(* the checker is not permissive: a crossed End, an element under the wrong parent, an unknown id, an End with nothing open and
   a missing End (something left open) are all told apart *)
Example C06_ex_reject :
  let sp := [ {| e_id := 129; e_ty := DMaster; e_path := [] |}; {| e_id := 130; e_ty := DMaster; e_path := [PId 129] |};
              {| e_id := 16641; e_ty := DUInt; e_path := [PId 129; PId 130] |} ] in
  chk sp [] false [TStart 129; TStart 130; TEnd 129; TEnd 130] = None /\
  chk sp [] false [TStart 129; TElem 16641 (VU 5); TEnd 129] = None /\
  chk sp [] false [TStart 129; TElem 153 (VRaw [7]); TEnd 129] = None /\
  chk sp [] false [TStart 129; TEnd 129; TEnd 129] = None /\
  chk sp [] false [TStart 129; TStart 130; TElem 16641 (VU 5); TEnd 130] = Some ([129], true) /\
  chk sp [] false [TStart 129; TStart 130; TElem 16641 (VU 5); TEnd 130; TEnd 129] = Some ([], true).
Proof. vm_compute. repeat split; reflexivity. Qed.
