(* C07 — unknown-size masters end where EBML says; same tags as the known-size encoding.  Statements only. *)
From Ebml Require Import Base Tools Spec Writer Reader Pure Encode Proofs.Tactics Proofs.SpecProofs Proofs.Globals Proofs.PureProofs Proofs.RoundTrip Proofs.AuditMisc.

(* which elements end an open unknown-size master: exactly a parent instance, a sibling, or a root element — by definition
   of is_ended_by; the closing loop over the stack of open masters closes exactly the innermost run of unknown-size masters
   whose outermost member is ended by the element (C11_closed_is_rule / C11_closed_is_max), and nothing when the innermost
   open master has a known size *)
Theorem C07_closing_rule : forall sp tid stk, closes sp tid stk (count_ended sp tid stk).
Proof. exact count_ended_closes. Qed.
Theorem C07_closing_max : forall sp tid stk k, closes sp tid stk k -> (k <= count_ended sp tid stk)%nat.
Proof. exact count_ended_max. Qed.

(* global elements never close an unknown-size master: an element whose declared path contains a placeholder does not end a
   master whose declared path names all its parents (unless that path names the element itself as a parent), so with only such
   masters open it closes nothing and is read as a child of the innermost one *)
Theorem C07_global_never_ends : forall sp m g, has_global (get_path sp g) = true -> has_global (get_path sp m) = false ->
  is_parent sp m g = false -> is_ended_by sp m g = false.
Proof. exact global_never_ends. Qed.
Theorem C07_global_closes_nothing : forall sp g, has_global (get_path sp g) = true -> forall stk,
  Forall (fun f => has_global (get_path sp (fst f)) = false /\ is_parent sp (fst f) g = false) stk -> count_ended sp g stk = O.
Proof. exact global_closes_nothing. Qed.

(* two documents with the same tags read as the same tag sequence, whatever masters each encodes with unknown size and whatever size
   widths each uses, PROVIDED BOTH conform ([conf c []] of f and of g: two separate hypotheses — conformance of one encoding does not
   imply conformance of another, see C07_known_conf_counterexample; for the all-known re-encoding it does under [fits]:
   C07_known_reencoding_partial) (PARTIAL: declared paths without global placeholders) *)
Theorem C07_encoding_choices_irrelevant_partial : forall c f g, strict c -> c_buffered c = [] -> c_emit_eof c = true ->
  Forall (conf c []) f -> Forall (conf c []) g -> tags_forest f = tags_forest g ->
  map out_tag (p_run c (enc_forest f) [RAll]) = map out_tag (p_run c (enc_forest g) [RAll]).
Proof. exact encoding_choices_irrelevant. Qed.

(* the all-known re-encoding: [known_tree] gives every unknown-size master a known size in an 8-byte size field (as long as the
   unknown-size marker, so no offset moves) and changes nothing else.  It conforms whenever the document does and the whole document
   [fits]: its length is below 2^56-1 (an 8-byte size field can carry it) and within the configured maximum element size, if any ... *)
Theorem C07_known_conf : forall c ids f, Forall (conf c ids) f -> fits c (flen f) -> Forall (conf c ids) (map known_tree f).
Proof. exact known_forest_conf. Qed.

(* ... it has the same tags and the same length ... *)
Theorem C07_known_same_tags : forall f, tags_forest (map known_tree f) = tags_forest f /\ flen (map known_tree f) = flen f.
Proof. intros f. split; [apply known_forest_tags|apply known_forest_flen]. Qed.

(* ... so a conforming document that fits reads as the same tag sequence as its all-known re-encoding: ONE conformance hypothesis *)
Theorem C07_known_reencoding_partial : forall c f, strict c -> c_buffered c = [] -> c_emit_eof c = true ->
  Forall (conf c []) f -> fits c (flen f) ->
  map out_tag (p_run c (enc_forest f) [RAll]) = map out_tag (p_run c (enc_forest (map known_tree f)) [RAll]).
Proof. exact known_reencoding_same_tags. Qed.

(* [fits] cannot be dropped: the maximum element size limits known sizes but not unknown-size masters.  With a maximum of 3 bytes, the
   unknown-size Root { UInt 5 } conforms and reads fine; its all-known re-encoding (Root's body: 4 bytes) does not conform and is
   rejected with an invalid-size error *)
Example C07_known_conf_counterexample :
  Forall (conf cx_c []) cx_doc /\ ~ Forall (conf cx_c []) (map known_tree cx_doc) /\
  p_run cx_c (enc_forest cx_doc) [RAll] = [OItem (TStart 129) 0; OItem (TElem 16641 (VU 5)) 9; OItem (TEnd 129) 0; ONone] /\
  p_run cx_c (enc_forest (map known_tree cx_doc)) [RAll] = [OErr (RInvalidSize 0 129 4)].
Proof.
  split; [apply known_conf_counterexample|]. split; [apply known_conf_counterexample|exact known_conf_counterexample_run].
Qed.

(* where each End comes out: right before the next element that is not inside the master, or at the end of input — this is
   the item sequence [items_forest] the reader is proved to yield *)
Theorem C07_items_partial : forall c f, strict c -> c_buffered c = [] -> c_emit_eof c = true -> Forall (conf c []) f ->
  p_run c (enc_forest f) [RAll] = items_forest 0 f ++ [ONone].
Proof. exact reader_roundtrip. Qed.

Example C07_ex :
  let sp := [ {| e_id := 129; e_ty := DMaster; e_path := [] |}; {| e_id := 16643; e_ty := DMaster; e_path := [PId 129] |};
              {| e_id := 16642; e_ty := DBinary; e_path := [PId 129; PId 16643] |}; {| e_id := 16641; e_ty := DUInt; e_path := [PId 129] |} ] in
  let c := {| c_sp := sp; c_allow_id := false; c_allow_hier := false; c_allow_over := false; c_max := Some 4000000000; c_buffered := [];
              c_emit_eof := true |} in
  let doc u1 u2 := [ RNode 129 u1 [ RNode 16643 u2 [ RLeaf 16642 (VB [7]) [7] 1%nat ]; RLeaf 16641 (VU 5) [5] 1%nat ] ] in
  (* nested unknown-size masters closed by an element of the outer level: all four encodings give the same tags *)
  map out_tag (p_run c (enc_forest (doc None None)) [RAll]) = map out_tag (p_run c (enc_forest (doc (Some 1%nat) (Some 2%nat))) [RAll]) /\
  map out_tag (p_run c (enc_forest (doc None (Some 1%nat))) [RAll]) = map out_tag (p_run c (enc_forest (doc (Some 8%nat) None)) [RAll]) /\
  map out_tag (p_run c (enc_forest (doc None None)) [RAll]) =
    [Some (TStart 129); Some (TStart 16643); Some (TElem 16642 (VB [7])); Some (TEnd 16643); Some (TElem 16641 (VU 5)); Some (TEnd 129); None].
Proof. vm_compute. repeat split; reflexivity. Qed.
