From Ebml Require Import Base Tools Spec.
Example C11_ex : path_matches [PId 1; PGlobal (Some 1) (Some 1); PId 3] [1; 2; 3] = true.
Proof. vm_compute. reflexivity. Qed.
