(* C11 — hierarchy validation equals declared path semantics, in reader and writer alike.  Statements only. *)
From Ebml Require Import Base Tools Spec Writer Reader Pure Proofs.Tactics Proofs.SpecProofs Proofs.WriterProofs Proofs.Refine Proofs.PureProofs Proofs.ErrKinds Proofs.AuditErrKinds.

(* the matcher decides the declarative pattern semantics (Matches: each named parent matches exactly that master, each
   placeholder (min-max) between min and max arbitrary masters, the whole chain consumed) — for every path and chain *)
Theorem C11_matcher : forall p c, path_matches p c = true <-> Matches p c.
Proof. exact path_matches_spec. Qed.

(* root elements are accepted only with no master open *)
Theorem C11_root : forall c, Matches [] c <-> c = [].
Proof. exact matches_root. Qed.

(* writer: the check accepts iff the chain of open masters (outermost first) matches the tag's declared path *)
Theorem C11_writer : forall sp id o, w_validate sp id o = true <-> Matches (get_path sp id) (rev (open_ids o)).
Proof. exact w_validate_spec. Qed.

(* ... it is applied to every non-End tag whose id the specification knows - NOT "under every option": the two earlier steps
   of the writer must let the tag through.  ([should_validate] and [buffer_act], Proofs/WriterProofs.v, follow the writer in reading
   the declared type through [raw_type]: since the repair D27 a tag that answers as_binary() - a RawTag - whose id is declared with a
   non-binary type counts as one with an undeclared id: it is not checked against the hierarchy, [should_validate] is false for it.)  Hypothesis 2, [o_unknown o && negb (is_master_ty ...) = false]: the options do not
   request an unknown size for a non-master (that combination is answered with the size error before the hierarchy is looked
   at).  Hypothesis 3, [is_master_ty ... && negb (is_master_tag t) = false]: a master id is not written as a non-master tag
   (the writer model answers that with a panic outcome).  An explicit width and the deprecated call make no difference.  A rejection is
   the unexpected-tag error carrying the offending id and the chain, state unchanged *)
Theorem C11_writer_rejects : forall sp t o st,
  should_validate sp t = true ->
  (o_unknown o && negb (is_master_ty (get_type sp (tag_id t))) = false) ->
  (is_master_ty (get_type sp (tag_id t)) && negb (is_master_tag t) = false) ->
  ~ Matches (get_path sp (tag_id t)) (rev (open_ids (w_open st))) ->
  buffer_tag sp t o st = (st, WErr (EUnexpectedTag (tag_id t) (rev (open_ids (w_open st))))).
Proof. exact writer_rejects. Qed.

Theorem C11_writer_accepts : forall sp t o st,
  Matches (get_path sp (tag_id t)) (rev (open_ids (w_open st))) ->
  (o_unknown o && negb (is_master_ty (get_type sp (tag_id t))) = false) ->
  (is_master_ty (get_type sp (tag_id t)) && negb (is_master_tag t) = false) ->
  buffer_tag sp t o st = buffer_act sp t o st.
Proof. exact writer_accepts. Qed.

(* reader: an element is judged against the chain that remains after the unknown-size masters it closes *)
Theorem C11_reader : forall sp tid stk,
  validate_tag_path sp tid stk = true <->
  Matches (get_path sp tid) (rev (map fst (skipn (count_ended sp tid stk) stk))).
Proof. exact validate_spec. Qed.

(* where the number of closed masters is the declarative closing rule: the largest k such that the k innermost open masters
   all have unknown size and the outermost of them is ended by the element *)
Theorem C11_closed_is_rule : forall sp tid stk, closes sp tid stk (count_ended sp tid stk).
Proof. exact count_ended_closes. Qed.
Theorem C11_closed_is_max : forall sp tid stk k, closes sp tid stk k -> (k <= count_ended sp tid stk)%nat.
Proof. exact count_ended_max. Qed.

Example C11_ex :
  (* Root/(1-1)/GSub under Root/Parent/GSub: accepted (the defect fixed as D11 rejected it) *)
  path_matches [PId 1; PGlobal (Some 1) (Some 1); PId 3] [1; 2; 3] = true /\
  path_matches [PId 1; PGlobal (Some 2) (Some 2); PId 3] [1; 2; 3] = false /\
  path_matches [PGlobal (Some 1) None] [] = false /\ path_matches [PGlobal None None] [] = true /\
  path_matches [PId 1; PGlobal None (Some 1)] [1; 2; 3] = false.
Proof. vm_compute. repeat split; reflexivity. Qed.

(* the reader's rejection: HierarchyError{found_tag_id := the id at the cursor, current_parent_id := the innermost open master},
   reported ONLY when hierarchy problems are not tolerated, the id is known and the chain that remains after the closing
   rule does not match the declared path (this direction: error => cause; the converse is C11_reader_reports below) *)
Theorem C11_reader_error_fields : forall c st st' id par, p_header c st = (st', Err (RHierarchy id par)) ->
  exists idl, p_tag_id st = Ok (id, idl) /\ par = match b_stack st' with f :: _ => Some (f_id f) | [] => None end /\
              c_allow_hier c = false /\ get_type (c_sp c) id <> None /\
              validate_tag_path (c_sp c) id (stack_view (b_stack st')) = false.
Proof. exact hierarchy_error_fields. Qed.

(* the converse, while the document position is determined ([b_det st = true]: an element with a placeholder-free path has been
   read) and no earlier header check fails (id and size field decode, a numeric element declares at most 8 bytes; the id being
   known, the unknown-id check passes): if hierarchy problems are not tolerated and the open masters do not match the declared
   path, the header check returns exactly that HierarchyError (found id, innermost open master [top_id]), state unchanged *)
Theorem C11_reader_reports : forall c st id idl size sl d, p_tag_id st = Ok (id, idl) ->
  read_vint (firstn 8 (skipn idl (b_bytes st))) = Ok (Some (size, sl)) ->
  is_numeric (get_type (c_sp c) id) && (8 <? size) = false ->
  get_type (c_sp c) id = Some d -> c_allow_hier c = false -> b_det st = true ->
  validate_tag_path (c_sp c) id (stack_view (b_stack st)) = false ->
  p_header c st = (st, Err (RHierarchy id (top_id (b_stack st)))).
Proof. intros. eapply reports_hierarchy; eassumption. Qed.

(* both directions in one statement, under the same side conditions: the HierarchyError is reported exactly when hierarchy
   problems are not tolerated and the remaining chain does not match *)
Theorem C11_reader_error_iff : forall c st id idl size sl d, p_tag_id st = Ok (id, idl) ->
  read_vint (firstn 8 (skipn idl (b_bytes st))) = Ok (Some (size, sl)) ->
  is_numeric (Some d) && (8 <? size) = false -> get_type (c_sp c) id = Some d -> b_det st = true ->
  (p_header c st = (st, Err (RHierarchy id (top_id (b_stack st)))) <->
   c_allow_hier c = false /\ validate_tag_path (c_sp c) id (stack_view (b_stack st)) = false).
Proof. exact hierarchy_error_iff. Qed.

(* while the position is undetermined, an element whose declared path has no placeholder is judged against the open masters
   plus its implied parents (C13_reports_hierarchy_seeded); one whose declared path HAS a placeholder is not checked at all: *)
Theorem C11_unchecked_while_undetermined : forall c st id idl size sl d, p_tag_id st = Ok (id, idl) ->
  read_vint (firstn 8 (skipn idl (b_bytes st))) = Ok (Some (size, sl)) ->
  is_numeric (get_type (c_sp c) id) && (8 <? size) = false ->
  get_type (c_sp c) id = Some d -> b_det st = false -> all_ids (get_path (c_sp c) id) = false ->
  forall st' par, p_header c st <> (st', Err (RHierarchy id par)).
Proof. intros. eapply hierarchy_unchecked_while_undetermined; eassumption. Qed.

(* ... so the property's clause "rejected when the chain does not match" has an exception there.  Element 0x4101 declared with
   the path (1-) - at least one master above it - at the top level of the input, strict configuration: the matcher rejects the
   empty chain, yet the reader delivers the element and ends cleanly, because nothing has determined the position yet; after a
   root element has been read the same element at the top level is rejected *)
Example C11_undetermined_counterexample :
  let sp := [ {| e_id := 129; e_ty := DMaster; e_path := [] |}; {| e_id := 16641; e_ty := DUInt; e_path := [PGlobal (Some 1) None] |} ] in
  let c := {| c_sp := sp; c_allow_id := false; c_allow_hier := false; c_allow_over := false; c_max := None; c_buffered := []; c_emit_eof := true |} in
  validate_tag_path sp 16641 [] = false /\
  p_run c [65; 1; 129; 5] [RAll] = [OItem (TElem 16641 (VU 5)) 0; ONone] /\
  p_run c [129; 128; 65; 1; 129; 5] [RAll] = [OItem (TStart 129) 0; OItem (TEnd 129) 0; OErr (RHierarchy 16641 None)].
Proof. vm_compute. repeat split; reflexivity. Qed.
