(* C05 — the iterator is total: no panic, no hang, fused, on arbitrary bytes.  Statements only.
   Proved: panic freedom, the fused property, how I/O errors enter, recovery only moves forward and fails only with EOF;
   termination of every loop: the model's recursion budget (read_next/buffer_master recursion, the try_recover loop) is never
   exhausted on any byte stream, and a full drain ends within the model's call bound with a linear bound on the number of
   items (the call bound needs the specification's declared paths to be shorter than 2 * |input| + 64; a deeper specification
   exceeds it: C05_deep_spec_exceeds_call_bound — a statement about the model's bound, the drain still ends: C05_drain_length). *)
From Ebml Require Import Base Tools Spec Reader Pure Proofs.Tactics Proofs.BytesProofs Proofs.DecodersProofs Proofs.ReaderIO Proofs.Refine Proofs.PureProofs Proofs.NoPanic Proofs.Termination.

(* no call panics: for every specification whose named parents are masters (what Props/C18.v proves of every derived
   specification), every configuration (tolerances, buffered set, size limit, EOF closing), every byte stream and every
   interleaving of next() and try_recover() *)
Theorem C05_no_panic : forall c input ops, implied_ok (c_sp c) -> wf_bytes input -> Forall no_panic_out (p_run c input ops).
Proof. exact run_never_panics. Qed.

(* ... and for the buffered machine with any capacity and any chunking of the reads *)
Theorem C05_no_panic_buffered : forall c cap0 script input ops, implied_ok (c_sp c) -> wf_bytes input -> calm script ->
  Forall no_panic_out (run_reader c cap0 script input ops).
Proof. exact buffered_run_never_panics. Qed.

(* the payload decoders never panic, on any slice (empty and oversized payloads included) *)
Theorem C05_decoders_total : forall a, arr_to_u64 a <> Panic /\ arr_to_i64 a <> Panic /\ arr_to_f64 a <> Panic.
Proof. exact decoders_total. Qed.

(* fused: with the input exhausted, nothing queued and no master open, next() returns None and leaves that situation unchanged *)
Theorem C05_fused : forall c st f, b_bytes st = [] -> b_queue st = [] -> b_stack st = [] -> b_fuel st = S f ->
  snd (p_next c st) = NNone /\ b_bytes (fst (p_next c st)) = [] /\ b_queue (fst (p_next c st)) = [] /\ b_stack (fst (p_next c st)) = [] /\
  b_fuel (fst (p_next c st)) = S f.
Proof. exact exhausted_is_fused. Qed.

(* an I/O error of the source enters as a read error carrying its code, from the read that hit it *)
Theorem C05_io_error_surfaces : forall st code s room, r_script st = Fail code :: s ->
  snd (private_read st room) = Err (RIo code).
Proof. intros st code s room H. unfold private_read. rewrite H. reflexivity. Qed.

(* try_recover never moves backwards and fails only by reporting the end of the input *)
Theorem C05_recover_forward : forall c st, b_off st <= b_off (fst (p_try_recover c st)).
Proof. exact try_recover_forward. Qed.
Theorem C05_recover_errors : forall c st e, snd (p_try_recover c st) = Some e -> exists o, e = REof o None None None.
Proof. exact try_recover_errors. Qed.

Example C05_ex :
  let sp := [ {| e_id := 129; e_ty := DMaster; e_path := [] |}; {| e_id := 16641; e_ty := DSInt; e_path := [PId 129] |} ] in
  let c := {| c_sp := sp; c_allow_id := false; c_allow_hier := false; c_allow_over := false; c_max := Some 4000000000; c_buffered := []; c_emit_eof := true |} in
  implied_ok sp /\
  (* a zero-length Integer element (the D3 panic), then garbage; recovery; end *)
  p_run c [129; 255; 65; 1; 128; 7; 7] [RAll; RRecover; RAll; RNext] =
    [OItem (TStart 129) 0; OItem (TElem 16641 (VI 0)) 2; OErr (REof 5 None None None); ORecErr (REof 7 None None None); OItem (TEnd 129) 0; ONone; ONone].
Proof.
  split.
  - intros id. unfold get_path, find_entry. cbn [e_id e_path].
    destruct (N.eqb_spec 129 id) as [<-|]; [vm_compute; discriminate|].
    destruct (N.eqb_spec 16641 id) as [<-|]; vm_compute; discriminate.
  - vm_compute. reflexivity.
Qed.

(* ------------------------------------------------------------------ no hang *)
(* the recursion budget the model runs with (4 * |input| + 64, standing for the unbounded recursion of read_next/buffer_master
   and the plain loop of try_recover) is never exhausted: for every specification, configuration (buffered masters included),
   byte stream and interleaving of next()/try_recover(), no call reports fuel exhaustion *)
Theorem C05_never_out_of_fuel : forall c input ops, wf_bytes input ->
  Forall (fun o => o <> bad_out BFuel) (p_run c input ops).
Proof. exact run_never_out_of_fuel. Qed.

(* ... and for the buffered machine with any capacity and any chunking of the reads *)
Theorem C05_never_out_of_fuel_buffered : forall c cap0 script input ops, wf_bytes input -> calm script ->
  Forall (fun o => o <> bad_out BFuel) (run_reader c cap0 script input ops).
Proof. exact buffered_run_never_out_of_fuel. Qed.

(* a drain (and every other run) stays within the model's bound of 4 * |input| + 64 calls per drain, when the hierarchy is not
   checked or no declared path has more than 63 parts ([slack c] is 0 resp. the longest declared path) *)
Theorem C05_drain_within_limit : forall c input ops, wf_bytes input -> (slack c < 2 * length input + 64)%nat ->
  ~ In OLimit (p_run c input ops).
Proof. exact drain_within_limit. Qed.
Theorem C05_drain_within_limit_paths : forall c input ops, wf_bytes input ->
  (forall e, In e (c_sp c) -> (length (e_path e) <= 63)%nat) -> ~ In OLimit (p_run c input ops).
Proof. exact drain_within_limit_paths. Qed.
Theorem C05_drain_within_limit_lenient : forall c input ops, wf_bytes input -> c_allow_hier c = true ->
  ~ In OLimit (p_run c input ops).
Proof. exact drain_within_limit_lenient. Qed.
Theorem C05_drain_within_limit_buffered : forall c cap0 script input ops, wf_bytes input -> calm script ->
  (slack c < 2 * length input + 64)%nat -> ~ In OLimit (run_reader c cap0 script input ops).
Proof. exact buffered_drain_within_limit. Qed.

(* the linear bound on the number of items: whatever the call bound, a drain yields at most 2 * |input| + (longest declared
   path) + 1 outputs *)
Theorem C05_drain_length : forall c input limit, wf_bytes input ->
  (length (snd (p_run_all limit c (p_init input))) <= slack c + 2 * length input + 1)%nat.
Proof. exact drain_length. Qed.

(* the side conditions are needed.  (1) A specification nested 71 deep: the two-byte document consisting of the innermost
   (empty) master makes the reader open the 70 implied parents, and closing them at the end of the input takes more calls
   than the model's bound 4 * 2 + 64 allows (with 70 levels it fits). *)
Fixpoint chain_spec (n : nat) (id : N) (path : list part) : spec :=
  match n with
  | O => []
  | S k => {| e_id := id; e_ty := DMaster; e_path := path |} :: chain_spec k (id + 1) (path ++ [PId id])
  end.
Definition chain_cfg (n : nat) : cfg :=
  {| c_sp := chain_spec n 129 []; c_allow_id := false; c_allow_hier := false; c_allow_over := false; c_max := None;
     c_buffered := []; c_emit_eof := true |}.
Example C05_deep_spec_exceeds_call_bound :
  last (p_run (chain_cfg 71) [199; 128] [RAll]) ONone = OLimit /\ last (p_run (chain_cfg 70) [198; 128] [RAll]) OLimit = ONone.
Proof. split; vm_compute; reflexivity. Qed.

(* (2) a "byte" that is not a byte (256): its length marker is empty, a header of length 0 is read over and over *)
Example C05_non_byte_hangs :
  let c := {| c_sp := [ {| e_id := 0; e_ty := DMaster; e_path := [] |} ]; c_allow_id := false; c_allow_hier := false;
              c_allow_over := false; c_max := None; c_buffered := [0]; c_emit_eof := true |} in
  p_run c [256] [RNext] = [OFuel].
Proof. vm_compute. reflexivity. Qed.
