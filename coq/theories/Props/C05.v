(* C05 — the iterator is total: no panic, no hang, fused, on arbitrary bytes.  Statements only.
   Proved: panic freedom, the fused property, how I/O errors enter, recovery only moves forward and fails only with EOF.
   NOT proved (covered by the correspondence runs under catch_unwind with a call bound): that the model's recursion budget
   is never exhausted (termination of every loop) and the linear bound on the number of items. *)
From Ebml Require Import Base Tools Spec Reader Pure Proofs.Tactics Proofs.BytesProofs Proofs.DecodersProofs Proofs.ReaderIO Proofs.Refine Proofs.PureProofs Proofs.NoPanic.

(* no call panics: for every specification whose named parents are masters (what Props/C18.v proves of every derived
   specification), every configuration (tolerances, buffered set, size limit, EOF closing), every byte stream and every
   interleaving of next() and try_recover() *)
Theorem C05_no_panic : forall c input ops, implied_ok (c_sp c) -> wf_bytes input -> Forall no_panic_out (p_run c input ops).
Proof. exact run_never_panics. Qed.

(* ... and for the buffered machine with any capacity and any chunking of the reads *)
Theorem C05_no_panic_buffered : forall c cap0 script input ops, implied_ok (c_sp c) -> wf_bytes input -> calm script ->
  Forall no_panic_out (run_reader c cap0 script input ops).
Proof. exact buffered_run_never_panics. Qed.

(* the payload decoders never panic, on any slice (empty and oversized payloads included) *)
Theorem C05_decoders_total : forall a, arr_to_u64 a <> Panic /\ arr_to_i64 a <> Panic /\ arr_to_f64 a <> Panic.
Proof. exact decoders_total. Qed.

(* fused: with the input exhausted, nothing queued and no master open, next() returns None and leaves that situation unchanged *)
Theorem C05_fused : forall c st f, b_bytes st = [] -> b_queue st = [] -> b_stack st = [] -> b_fuel st = S f ->
  snd (p_next c st) = NNone /\ b_bytes (fst (p_next c st)) = [] /\ b_queue (fst (p_next c st)) = [] /\ b_stack (fst (p_next c st)) = [] /\
  b_fuel (fst (p_next c st)) = S f.
Proof. exact exhausted_is_fused. Qed.

(* an I/O error of the source enters as a read error carrying its code, from the read that hit it *)
Theorem C05_io_error_surfaces : forall st code s room, r_script st = Fail code :: s ->
  snd (private_read st room) = Err (RIo code).
Proof. intros st code s room H. unfold private_read. rewrite H. reflexivity. Qed.

(* try_recover never moves backwards and fails only by reporting the end of the input *)
Theorem C05_recover_forward : forall c st, b_off st <= b_off (fst (p_try_recover c st)).
Proof. exact try_recover_forward. Qed.
Theorem C05_recover_errors : forall c st e, snd (p_try_recover c st) = Some e -> exists o, e = REof o None None None.
Proof. exact try_recover_errors. Qed.

Example C05_ex :
  let sp := [ {| e_id := 129; e_ty := DMaster; e_path := [] |}; {| e_id := 16641; e_ty := DSInt; e_path := [PId 129] |} ] in
  let c := {| c_sp := sp; c_allow_id := false; c_allow_hier := false; c_allow_over := false; c_max := Some 4000000000; c_buffered := []; c_emit_eof := true |} in
  implied_ok sp /\
  (* a zero-length Integer element (the D3 panic), then garbage; recovery; end *)
  p_run c [129; 255; 65; 1; 128; 7; 7] [RAll; RRecover; RAll; RNext] =
    [OItem (TStart 129) 0; OItem (TElem 16641 (VI 0)) 2; OErr (REof 5 None None None); ORecErr (REof 7 None None None); OItem (TEnd 129) 0; ONone; ONone].
Proof.
  split.
  - intros id. unfold get_path, find_entry. cbn [e_id e_path].
    destruct (N.eqb_spec 129 id) as [<-|]; [vm_compute; discriminate|].
    destruct (N.eqb_spec 16641 id) as [<-|]; vm_compute; discriminate.
  - vm_compute. reflexivity.
Qed.
