(* C05 — the iterator is total: no panic, no hang, fused, on arbitrary bytes.  Statements only.
   Proved: panic freedom, the fused property (also with masters open), I/O errors of the source are never dropped (they surface
   at next()/try_recover() and over whole runs; up to the moment it is reported a source error changes nothing: the outcomes
   before it are those of the abstract reader - C05_io_error_refines_until_reported), recovery only moves forward and fails
   only with EOF (or the source's error);
   termination of every loop: the model's recursion budget (read_next/buffer_master recursion, the try_recover loop) is never
   exhausted on any byte stream, and a full drain ends within the model's call bound with a linear bound on the number of
   items (the call bound needs the specification's declared paths to be shorter than 2 * |input| + 64; a deeper specification
   exceeds it: C05_deep_spec_exceeds_call_bound — a statement about the model's bound, the drain still ends: C05_drain_length). *)
From Ebml Require Import Base Tools Spec Reader Pure Proofs.Tactics Proofs.BytesProofs Proofs.DecodersProofs Proofs.ReaderIO Proofs.Refine Proofs.PureProofs Proofs.NoPanic Proofs.Termination Proofs.AuditIO Proofs.RefineFail.

(* no call panics: for every specification whose named parents are masters (what Props/C18.v proves of every derived
   specification), every configuration (tolerances, buffered set, size limit, EOF closing), every byte stream and every
   interleaving of next() and try_recover() *)
Theorem C05_no_panic : forall c input ops, implied_ok (c_sp c) -> wf_bytes input -> Forall no_panic_out (p_run c input ops).
Proof. exact run_never_panics. Qed.

(* ... and for the buffered machine with any capacity and any chunking of the reads *)
Theorem C05_no_panic_buffered : forall c cap0 script input ops, implied_ok (c_sp c) -> wf_bytes input -> calm script ->
  Forall no_panic_out (run_reader c cap0 script input ops).
Proof. exact buffered_run_never_panics. Qed.

(* the payload decoders never panic, on any slice (empty and oversized payloads included) *)
Theorem C05_decoders_total : forall a, arr_to_u64 a <> Panic /\ arr_to_i64 a <> Panic /\ arr_to_f64 a <> Panic.
Proof. exact decoders_total. Qed.

(* fused: with the input exhausted, nothing queued and no master open, next() returns None and leaves that situation unchanged *)
Theorem C05_fused : forall c st f, b_bytes st = [] -> b_queue st = [] -> b_stack st = [] -> b_fuel st = S f ->
  snd (p_next c st) = NNone /\ b_bytes (fst (p_next c st)) = [] /\ b_queue (fst (p_next c st)) = [] /\ b_stack (fst (p_next c st)) = [] /\
  b_fuel (fst (p_next c st)) = S f.
Proof. exact exhausted_is_fused. Qed.

(* an I/O error of the source enters as a read error carrying its code, from the read that hit it *)
Theorem C05_io_error_surfaces : forall st code s room, r_script st = Fail code :: s ->
  snd (private_read st room) = Err (RIo code).
Proof. intros st code s room H. unfold private_read. rewrite H. reflexivity. Qed.

(* ------------------------------------------------------------------ an I/O error of the source is never dropped *)
(* ... and it surfaces at the public operations (buffered machine, every source script; Proofs/AuditIO.v).  Vocabulary:
   [fails s]: the error codes of the Fail events of the script s, in order;
   [adv s s' None]: s = pre ++ s' where pre contains no Fail event - the script was consumed from s down to s' and no Fail event
     was among the events consumed;
   [adv s s' (Some code)]: s = pre ++ Fail code :: s' where pre contains no Fail event - the events consumed were Fail-free ones
     followed by [Fail code], which is the LAST event consumed;
   [noerr q]: no item of the emission queue q is an error;  [ioq q]: the codes of the source errors (RIo) queued in q;
   [pending st] = ioq (r_queue st) ++ fails (r_script st): the source errors still to come;
   [nres_io r], [orec_io r], [outs_io outs]: the code(s) of the source error(s) in a result of next(), of try_recover(), in a run. *)

(* (a) next() called with nothing queued (the only case in which it reads): EITHER no Fail event is consumed, the result is
   not a source error and no source error is queued; OR exactly one Fail event is consumed, it is the last event consumed, and
   its error RIo code is the result of this very call - or, when the call first has items to deliver (the Ends of masters it
   closes before reading), it is the LAST item of the queue the call leaves, behind items none of which is an error, and the
   call returns the first of these items *)
Theorem C05_next_reports_fail : forall c st, r_queue st = [] ->
  (adv (r_script st) (r_script (fst (next c st))) None /\ ioq (r_queue (fst (next c st))) = [] /\ nres_io (snd (next c st)) = []) \/
  (exists code, adv (r_script st) (r_script (fst (next c st))) (Some code) /\
     ((snd (next c st) = NErr (RIo code) /\ r_queue (fst (next c st)) = []) \/
      (exists t off q, snd (next c st) = NItem t off /\ r_queue (fst (next c st)) = q ++ [QErr (RIo code)] /\ noerr q))).
Proof. exact next_reports_fail. Qed.

(* next() called with a non-empty queue reads nothing: the script is unchanged and the first queued item is delivered (so a
   queued source error is returned after the items in front of it, one per call) *)
Theorem C05_next_queued : forall c st x q, r_queue st = x :: q ->
  r_script (fst (next c st)) = r_script st /\ r_queue (fst (next c st)) = q /\
  snd (next c st) = match x with QOk t off => NItem t off | QErr e => NErr e end.
Proof. exact next_queued. Qed.

(* without buffered masters, when nothing is queued and no open known-size master is exhausted at the cursor (no End is due),
   a call of next() that consumes [Fail code] returns NErr (RIo code) itself *)
Theorem C05_next_returns_fail_unbuffered : forall c st code, c_buffered c = [] -> r_queue st = [] ->
  exhausted_count (r_off st) (r_stack st) = O ->
  adv (r_script st) (r_script (fst (next c st))) (Some code) -> snd (next c st) = NErr (RIo code).
Proof. exact next_returns_fail_unbuffered. Qed.

(* in every state: the source errors still to come before the call = the one the call returns (if any) followed by those still
   to come after it - next() neither drops nor invents nor reorders a source error *)
Theorem C05_next_accounts : forall c st, pending st = nres_io (snd (next c st)) ++ pending (fst (next c st)).
Proof. exact next_accounts. Qed.

(* (b) try_recover() leaves the queue alone; it consumes at most one Fail event, which then is the last event it consumes,
   and its result is Some (RIo code) exactly in that case (the defect D25, now repaired, lost it when the Fail event was met
   while peeking at a candidate header) *)
Theorem C05_try_recover_reports_fail : forall c st,
  r_queue (fst (try_recover c st)) = r_queue st /\
  adv (r_script st) (r_script (fst (try_recover c st)))
      (match snd (try_recover c st) with Some (RIo code) => Some code | _ => None end).
Proof. intros c st. destruct (try_recover_io c st) as [H1 H2]. split; [exact H1|]. destruct (snd (try_recover c st)) as [[]|]; exact H2. Qed.
Theorem C05_try_recover_returns_fail : forall c st code,
  adv (r_script st) (r_script (fst (try_recover c st))) (Some code) -> snd (try_recover c st) = Some (RIo code).
Proof. exact try_recover_reports_fail. Qed.
Theorem C05_try_recover_accounts : forall c st,
  Permutation.Permutation (pending st) (orec_io (snd (try_recover c st)) ++ pending (fst (try_recover c st))).
Proof. exact try_recover_accounts. Qed.

(* (c) over any sequence of next() / try_recover() / drain calls, on any source script, that reports neither a panic nor
   fuel exhaustion: the Fail events of the script are, as a multiset, exactly the source errors in the output (OErr (RIo _) and
   ORecErr (RIo _)), plus those still queued in the final state, plus the Fail events the final state has not consumed.
   (A multiset, not a sequence: try_recover() can report a later Fail event while an earlier error is still queued behind an
   End - second run of C05_io_ex.) *)
Theorem C05_run_accounts_for_fails : forall c cap0 script input ops,
  ~ In OPanic (run_reader c cap0 script input ops) -> ~ In OFuel (run_reader c cap0 script input ops) ->
  Permutation.Permutation (fails script)
    (outs_io (run_reader c cap0 script input ops) ++
     ioq (r_queue (fst (run_reader_st c cap0 script input ops))) ++ fails (r_script (fst (run_reader_st c cap0 script input ops)))).
Proof. exact run_accounts_for_fails. Qed.

(* ... so if the run ends with nothing queued and no Fail event left in the script, every Fail event was reported exactly once *)
Theorem C05_run_reports_every_fail : forall c cap0 script input ops,
  ~ In OPanic (run_reader c cap0 script input ops) -> ~ In OFuel (run_reader c cap0 script input ops) ->
  r_queue (fst (run_reader_st c cap0 script input ops)) = [] -> fails (r_script (fst (run_reader_st c cap0 script input ops))) = [] ->
  Permutation.Permutation (fails script) (outs_io (run_reader c cap0 script input ops)).
Proof. exact run_reports_every_fail. Qed.

(* the errors of the buffered try_recover(): the end of the input, or the source's error - nothing else *)
Theorem C05_recover_errors_buffered : forall c st e, snd (try_recover c st) = Some e ->
  (exists o, e = REof o None None None) \/ exists code, e = RIo code.
Proof. exact try_recover_errors_buffered. Qed.

(* 1: the witness of D25 (Root of unknown size, then 20 bytes 0x07; the source delivers 18 bytes, then fails with code 9): the
      Fail event is met by try_recover() while it peeks at a candidate header, and is now reported by it.
   2: Root{SInt}(3 bytes) Root{SInt 7}: the third next() closes the first Root and meets Fail 9 reading on: it returns the End,
      the error stays queued; try_recover() then meets Fail 4 and reports it; the next next() delivers the queued RIo 9.
   3: the same without try_recover(): End, then RIo 9, and reading resumes. *)
Example C05_io_ex :
  let sp := [ {| e_id := 129; e_ty := DMaster; e_path := [] |}; {| e_id := 16641; e_ty := DSInt; e_path := [PId 129] |} ] in
  let c := {| c_sp := sp; c_allow_id := false; c_allow_hier := false; c_allow_over := false; c_max := Some 4000000000; c_buffered := []; c_emit_eof := true |} in
  let doc := [129; 131; 65; 1; 128; 129; 139; 65; 1; 136; 0; 0; 0; 0; 0; 0; 0; 7] in
  run_reader c 65536 [Chunk 18; Fail 9] ([129; 255] ++ repeat 7 20) [RAll; RRecover; RAll; RNext] =
    [OItem (TStart 129) 0; OErr (RInvalidTagId 2 7726764066567); ORecErr (RIo 9);
     OErr (RInvalidTagId 3 7726764066567); OErr (RInvalidTagId 3 7726764066567)] /\
  run_reader c 65536 [Chunk 18; Fail 9; Fail 4] doc [RNext; RNext; RNext; RRecover; RNext] =
    [OItem (TStart 129) 0; OItem (TElem 16641 (VI 0)) 2; OItem (TEnd 129) 0; ORecErr (RIo 4); OErr (RIo 9)] /\
  run_reader c 65536 [Chunk 18; Fail 9] doc [RAll; RAll] =
    [OItem (TStart 129) 0; OItem (TElem 16641 (VI 0)) 2; OItem (TEnd 129) 0; OErr (RIo 9);
     OItem (TStart 129) 5; OItem (TElem 16641 (VI 7)) 7; OItem (TEnd 129) 5; ONone].
Proof. vm_compute. repeat split; reflexivity. Qed.

(* ------------------------------------------------------------------ an I/O error never corrupts what comes before its report *)
(* (d) injected source errors: for every specification whose named parents are masters, every configuration, every stream of
   bytes, every capacity, every sequence of next()/try_recover()/drain calls and every read script pre ++ Fail code :: rest in
   which every read before the failing one returns data while data remains (calm pre; rest arbitrary), one of:
   (i) the run equals the abstract run (the error is not reported during these calls); (ii) the run is common ++ [e] ++ tail
   where common is a prefix of the abstract run and holds no source error and e is the source error RIo code (from next() or
   from try_recover()) - no wrong item, offset or error is emitted before the source error is reported; (iii) try_recover() is
   called (after the calls ops1) while the source error is still queued behind the items qa: the outcomes of ops1 are a
   prefix of the abstract run and hold no source error.  (Props/C04.v has the statement for arbitrary specifications and
   inputs, under the hypothesis that the abstract run neither panics nor exhausts its budget.) *)
Theorem C05_io_error_refines_until_reported : forall c cap0 pre code rest input ops, calm pre -> implied_ok (c_sp c) -> wf_bytes input ->
  run_reader c cap0 (pre ++ Fail code :: rest) input ops = p_run c input ops \/
  (exists common e tail m,
     run_reader c cap0 (pre ++ Fail code :: rest) input ops = common ++ [e] ++ tail /\
     p_run c input ops = common ++ m /\ outs_io common = [] /\
     (e = OErr (RIo code) \/ e = ORecErr (RIo code))) \/
  (exists ops1 ops2 qa tail m, ops = ops1 ++ RRecover :: ops2 /\
     r_queue (fst (run_reader_st c cap0 (pre ++ Fail code :: rest) input ops1)) = qa ++ [QErr (RIo code)] /\ noerr qa /\
     run_reader c cap0 (pre ++ Fail code :: rest) input ops = run_reader c cap0 (pre ++ Fail code :: rest) input ops1 ++ tail /\
     p_run c input ops = run_reader c cap0 (pre ++ Fail code :: rest) input ops1 ++ m /\
     outs_io (run_reader c cap0 (pre ++ Fail code :: rest) input ops1) = []).
Proof. exact refines_until_io_error_wf. Qed.

(* the abstract reader has no source: its run reports no source error (when it reports neither a panic nor budget exhaustion) *)
Theorem C05_abstract_run_no_io_error : forall c input ops, ~ In OPanic (p_run c input ops) -> ~ In OFuel (p_run c input ops) ->
  outs_io (p_run c input ops) = [].
Proof. exact pure_no_io. Qed.

(* while a Fail event is ahead in the script, the refill loop never exhausts its budget: it leaves the panic/budget flag alone *)
Theorem C05_refill_budget_with_fail_ahead : forall n st, fails (r_script st) <> [] -> r_bad (fst (ensure n st)) = r_bad st.
Proof. exact ensure_bad. Qed.

(* after the reported source error nothing is promised: the position inside the stream is lost.  Root{Binary of 28 bytes}; the
   source delivers 24 bytes and fails: the failure is met in the middle of the payload read, the element header is already
   consumed, and the calls after the reported error parse payload bytes as headers - the abstract run yields the element *)
Example C05_after_io_error_unspecified :
  let sp := [ {| e_id := 129; e_ty := DMaster; e_path := [] |}; {| e_id := 16642; e_ty := DBinary; e_path := [PId 129] |} ] in
  let c := {| c_sp := sp; c_allow_id := false; c_allow_hier := false; c_allow_over := false; c_max := Some 4000000000; c_buffered := []; c_emit_eof := true |} in
  let doc := [129; 159; 65; 2; 156] ++ repeat 7 28 in
  run_reader c 65536 [Chunk 24; Fail 9] doc [RNext; RNext; RNext; RNext; RAll] =
    [OItem (TStart 129) 0] ++ [OErr (RIo 9)] ++
    [OErr (RInvalidTagId 5 7726764066567); OErr (RInvalidTagId 5 7726764066567); OErr (RInvalidTagId 5 7726764066567)] /\
  p_run c doc [RNext; RNext; RNext; RNext; RAll] =
    [OItem (TStart 129) 0] ++ [OItem (TElem 16642 (VB (repeat 7 28))) 2; OItem (TEnd 129) 0; ONone; ONone].
Proof. vm_compute. split; reflexivity. Qed.

(* alternative (iii) is needed: the outcome of a try_recover() called while the source error is queued need not be the abstract
   one.  Root{Binary of 16 bytes} Root(1 byte: 0x80); the source delivers the 24 bytes and fails.  The third next() closes the
   first Root and meets the failure in the look-ahead of the next header: it returns the End, the error stays queued (the
   queue after these three calls is [QErr (RIo 9)]).  try_recover() then resumes at offset 22 - one byte past the header
   that was never read - and finds a header there (ORecOk); the abstract reader has read that header and fails to recover *)
Example C05_recover_while_io_error_queued :
  let sp := [ {| e_id := 129; e_ty := DMaster; e_path := [] |}; {| e_id := 16642; e_ty := DBinary; e_path := [PId 129] |} ] in
  let c := {| c_sp := sp; c_allow_id := false; c_allow_hier := false; c_allow_over := false; c_max := Some 4000000000; c_buffered := []; c_emit_eof := true |} in
  let doc := [129; 147; 65; 2; 144] ++ repeat 7 16 ++ [129; 129; 128] in
  let three := [OItem (TStart 129) 0; OItem (TElem 16642 (VB (repeat 7 16))) 2; OItem (TEnd 129) 0] in
  run_reader c 65536 [Chunk 24; Fail 9] doc [RNext; RNext; RNext] = three /\
  r_queue (fst (run_reader_st c 65536 [Chunk 24; Fail 9] doc [RNext; RNext; RNext])) = [] ++ [QErr (RIo 9)] /\
  run_reader c 65536 [Chunk 24; Fail 9] doc [RNext; RNext; RNext; RRecover; RNext] = three ++ [ORecOk; OErr (RIo 9)] /\
  p_run c doc [RNext; RNext; RNext; RRecover; RNext] = three ++ [ORecErr (REof 24 None None None); OItem (TStart 129) 21].
Proof. vm_compute. repeat split; reflexivity. Qed.

(* fused, in general: for every configuration (EOF closing on or off) and whatever masters are still open - at the end of the
   input, a call of next() that returns None has changed nothing at all; so every later call returns None again, and the open
   masters stay open.  (With EOF closing off the first None comes as soon as the Ends of exhausted known-size masters are out:
   C05_fused_open.) *)
Theorem C05_none_is_fixed_point : forall c st f, b_bytes st = [] -> b_fuel st = S f -> snd (p_next c st) = NNone ->
  p_next c st = (st, NNone).
Proof. exact none_is_fixed_point. Qed.

(* fused with masters open: EOF closing switched off, input exhausted, nothing queued, no open known-size master exhausted at
   the cursor (no End is due): next() returns None and the state - open masters included - is unchanged *)
Theorem C05_fused_open : forall c st f, c_emit_eof c = false -> b_bytes st = [] -> b_queue st = [] ->
  exhausted_count (b_off st) (b_stack st) = O -> b_fuel st = S f -> p_next c st = (st, NNone).
Proof. exact exhausted_is_fused_open. Qed.

(* ... and "no End is due" holds once the Ends that are due have been popped *)
Theorem C05_no_end_due_after_popping : forall off stk, exhausted_count off (skipn (exhausted_count off stk) stk) = O.
Proof. exact exhausted_count_skipn. Qed.

(* Root of unknown size left open, EOF closing off: None, None, None, and Root is still open *)
Example C05_fused_open_ex :
  let sp := [ {| e_id := 129; e_ty := DMaster; e_path := [] |} ] in
  let c := {| c_sp := sp; c_allow_id := false; c_allow_hier := false; c_allow_over := false; c_max := None; c_buffered := []; c_emit_eof := false |} in
  p_run c [129; 255] [RAll; RNext; RNext] = [OItem (TStart 129) 0; ONone; ONone; ONone] /\
  map f_id (b_stack (fst (p_run_ops c 100 (p_init [129; 255]) [RAll; RNext; RNext]))) = [129].
Proof. vm_compute. split; reflexivity. Qed.

(* try_recover never moves backwards and fails only by reporting the end of the input *)
Theorem C05_recover_forward : forall c st, b_off st <= b_off (fst (p_try_recover c st)).
Proof. exact try_recover_forward. Qed.
Theorem C05_recover_errors : forall c st e, snd (p_try_recover c st) = Some e -> exists o, e = REof o None None None.
Proof. exact try_recover_errors. Qed.

Example C05_ex :
  let sp := [ {| e_id := 129; e_ty := DMaster; e_path := [] |}; {| e_id := 16641; e_ty := DSInt; e_path := [PId 129] |} ] in
  let c := {| c_sp := sp; c_allow_id := false; c_allow_hier := false; c_allow_over := false; c_max := Some 4000000000; c_buffered := []; c_emit_eof := true |} in
  implied_ok sp /\
  (* a zero-length Integer element (the D3 panic), then garbage; recovery; end *)
  p_run c [129; 255; 65; 1; 128; 7; 7] [RAll; RRecover; RAll; RNext] =
    [OItem (TStart 129) 0; OItem (TElem 16641 (VI 0)) 2; OErr (REof 5 None None None); ORecErr (REof 7 None None None); OItem (TEnd 129) 0; ONone; ONone].
Proof.
  split.
  - intros id. unfold get_path, find_entry. cbn [e_id e_path].
    destruct (N.eqb_spec 129 id) as [<-|]; [vm_compute; discriminate|].
    destruct (N.eqb_spec 16641 id) as [<-|]; vm_compute; discriminate.
  - vm_compute. reflexivity.
Qed.

(* ------------------------------------------------------------------ no hang *)
(* the recursion budget the model runs with (4 * |input| + 64, standing for the unbounded recursion of read_next/buffer_master
   and the plain loop of try_recover) is never exhausted: for every specification, configuration (buffered masters included),
   byte stream and interleaving of next()/try_recover(), no call reports fuel exhaustion *)
Theorem C05_never_out_of_fuel : forall c input ops, wf_bytes input ->
  Forall (fun o => o <> bad_out BFuel) (p_run c input ops).
Proof. exact run_never_out_of_fuel. Qed.

(* ... and for the buffered machine with any capacity and any chunking of the reads *)
Theorem C05_never_out_of_fuel_buffered : forall c cap0 script input ops, wf_bytes input -> calm script ->
  Forall (fun o => o <> bad_out BFuel) (run_reader c cap0 script input ops).
Proof. exact buffered_run_never_out_of_fuel. Qed.

(* a drain (and every other run) stays within the model's bound of 4 * |input| + 64 calls per drain, when the hierarchy is not
   checked or no declared path has more than 63 parts ([slack c] is 0 resp. the longest declared path) *)
Theorem C05_drain_within_limit : forall c input ops, wf_bytes input -> (slack c < 2 * length input + 64)%nat ->
  ~ In OLimit (p_run c input ops).
Proof. exact drain_within_limit. Qed.
Theorem C05_drain_within_limit_paths : forall c input ops, wf_bytes input ->
  (forall e, In e (c_sp c) -> (length (e_path e) <= 63)%nat) -> ~ In OLimit (p_run c input ops).
Proof. exact drain_within_limit_paths. Qed.
Theorem C05_drain_within_limit_lenient : forall c input ops, wf_bytes input -> c_allow_hier c = true ->
  ~ In OLimit (p_run c input ops).
Proof. exact drain_within_limit_lenient. Qed.
Theorem C05_drain_within_limit_buffered : forall c cap0 script input ops, wf_bytes input -> calm script ->
  (slack c < 2 * length input + 64)%nat -> ~ In OLimit (run_reader c cap0 script input ops).
Proof. exact buffered_drain_within_limit. Qed.

(* the linear bound on the number of items: whatever the call bound, a drain yields at most 2 * |input| + (longest declared
   path) + 1 outputs *)
Theorem C05_drain_length : forall c input limit, wf_bytes input ->
  (length (snd (p_run_all limit c (p_init input))) <= slack c + 2 * length input + 1)%nat.
Proof. exact drain_length. Qed.

(* the side conditions are needed.  (1) A specification nested 71 deep: the two-byte document consisting of the innermost
   (empty) master makes the reader open the 70 implied parents, and closing them at the end of the input takes more calls
   than the model's bound 4 * 2 + 64 allows (with 70 levels it fits). *)
Fixpoint chain_spec (n : nat) (id : N) (path : list part) : spec :=
  match n with
  | O => []
  | S k => {| e_id := id; e_ty := DMaster; e_path := path |} :: chain_spec k (id + 1) (path ++ [PId id])
  end.
Definition chain_cfg (n : nat) : cfg :=
  {| c_sp := chain_spec n 129 []; c_allow_id := false; c_allow_hier := false; c_allow_over := false; c_max := None;
     c_buffered := []; c_emit_eof := true |}.
Example C05_deep_spec_exceeds_call_bound :
  last (p_run (chain_cfg 71) [199; 128] [RAll]) ONone = OLimit /\ last (p_run (chain_cfg 70) [198; 128] [RAll]) OLimit = ONone.
Proof. split; vm_compute; reflexivity. Qed.

(* (2) a "byte" that is not a byte (256): its length marker is empty, a header of length 0 is read over and over *)
Example C05_non_byte_hangs :
  let c := {| c_sp := [ {| e_id := 0; e_ty := DMaster; e_path := [] |} ]; c_allow_id := false; c_allow_hier := false;
              c_allow_over := false; c_max := None; c_buffered := [0]; c_emit_eof := true |} in
  p_run c [256] [RNext] = [OFuel].
Proof. vm_compute. reflexivity. Qed.
