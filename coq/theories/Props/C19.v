(* C19 — a rejected write leaves no trace in the output.  Statements only.
   FULL for every call of the writer: write(), write_advanced(), write_unknown_size(), write_raw(), flush() and into_inner().  A call
   that returns an error other than an I/O error leaves the whole writer state unchanged, and the rest of the run is what it
   would have been without the call (C19_insert_rejected).  For flush()/into_inner() this holds since the repair D26 (/repo commit
   "a failing flush() leaves the writer as it was"): before it, a flush that failed to close an outer master left the inner ones
   closed; the model's [flush] follows the repaired code.  Only an I/O error of the destination can leave a trace: the call's tag
   has been accepted, part of the working buffer has been delivered and the rest stays buffered for the next hand-over (since the
   repair D28 nothing is lost: C10_flush_failure, C10_private_flush_bytes, C10_io_error_loses_nothing). *)
From Ebml Require Import Base Tools Spec Writer Proofs.Tactics Proofs.SpecProofs Proofs.WriterProofs Proofs.AuditWriter.

(* write()/write_advanced()/write_unknown_size(): if the call returns an error other than an I/O error, the whole writer
   state (open masters, working buffer, delivered bytes, destination) is exactly what it was before the call — for every
   specification, tag tree (any nesting of Full), options and prior state *)
Theorem C19_atomic : forall sp st t o st' e,
  write_advanced sp st t o = (st', WErr e) -> (forall x, e <> EIo x) -> st' = st.
Proof. exact write_advanced_atomic. Qed.

Theorem C19_atomic_step : forall sp st t o st' e,
  wstep sp st (OpWrite t o) = (st', WErr e) -> (forall x, e <> EIo x) -> st' = st.
Proof. exact write_advanced_atomic. Qed.

Theorem C19_atomic_deprecated : forall sp st t st' e,
  wstep sp st (OpWriteUnknown t) = (st', WErr e) -> (forall x, e <> EIo x) -> st' = st.
Proof. intros sp st t. exact (write_advanced_atomic sp st t _). Qed.

(* write_raw() has no non-I/O failure at all (payloads of 2^56-1 bytes cannot exist) *)
Theorem C19_raw : forall st id data st' e,
  N.of_nat (length data) < 2 ^ 56 - 1 -> wstep [] st (OpRaw id data) = (st', WErr e) -> exists x, e = EIo x.
Proof. exact write_raw_no_reject. Qed.

(* flush() and into_inner(): if the call returns an error other than an I/O error (the only one there is: a master whose content does
   not fit the size width it was started with, ESize), the whole writer state is exactly what it was before the call *)
Theorem C19_flush_atomic : forall sp st op st' e, (op = OpFlush \/ op = OpIntoInner) ->
  wstep sp st op = (st', WErr e) -> (forall x, e <> EIo x) -> st' = st.
Proof. intros sp st op st' e [-> | ->]; exact (flush_atomic st st' e). Qed.

(* handing the working buffer to the destination (private_flush, the last step of every successful call) fails only with an I/O error *)
Theorem C19_private_flush_io_only : forall st st' e, private_flush st = (st', WErr e) -> exists x, e = EIo x.
Proof. exact private_flush_err. Qed.

(* every call: a call of any kind (for write_raw: with a payload shorter than 2^56-1 bytes, [raw_exists]) that returns an error other than
   an I/O error leaves the whole writer state unchanged *)
Theorem C19_atomic_any : forall sp st op st' e, raw_exists op -> wstep sp st op = (st', WErr e) -> (forall x, e <> EIo x) -> st' = st.
Proof. exact wstep_atomic. Qed.

(* consequently the rest of the run — results, byte counts and final output — is what it would have been without the call *)
Theorem C19_erase : forall sp st op ops e, wstep sp st op = (st, WErr e) ->
  wrun sp st (op :: ops) = (fst (wrun sp st ops), (WErr e, length (w_dest st)) :: snd (wrun sp st ops)).
Proof. exact wrun_skip. Qed.

(* run level: let the calls ops1, made from the state st0, reach the state st1 with results rs1 without a panic, and let the call op
   (of any kind; a write_raw payload shorter than 2^56-1 bytes) made in st1 be rejected with an error e that is not an I/O error.  Then
   op leaves st1 unchanged, and the run ops1, op, ops2 ends in the same final state (open masters, working buffer, delivered bytes,
   destination script) as the run ops1, ops2, with the same result and the same delivered-byte count for every call of ops1 and of
   ops2; the only difference is the entry (WErr e, bytes delivered so far) for op itself *)
Theorem C19_insert_rejected : forall sp st0 ops1 op ops2 st1 rs1 st1' e,
  wrun sp st0 ops1 = (st1, rs1) -> Forall (fun r => fst r <> WPanic) rs1 -> raw_exists op ->
  wstep sp st1 op = (st1', WErr e) -> (forall x, e <> EIo x) ->
  st1' = st1 /\
  wrun sp st0 (ops1 ++ ops2) = (fst (wrun sp st1 ops2), rs1 ++ snd (wrun sp st1 ops2)) /\
  wrun sp st0 (ops1 ++ op :: ops2) = (fst (wrun sp st1 ops2), rs1 ++ (WErr e, length (w_dest st1)) :: snd (wrun sp st1 ops2)).
Proof. exact wrun_insert_rejected. Qed.

(* the invariant behind it: buffering a tag only appends to the working buffer, only pushes masters above the ones that were
   open, and back-patches sizes only inside the appended part *)
Theorem C19_buffering_extends : forall sp t o st0 st st1 r, Ext st0 st -> buffer_tag sp t o st = (st1, r) ->
  ((length (w_open st0) < length (w_open st))%nat \/ r <> WOk \/ is_end t = false) ->
  Ext st0 st1 /\ (r = WOk -> is_end t = false -> (length (w_open st) <= length (w_open st1))%nat).
Proof. exact buffer_ext. Qed.

(* non-vacuity: each rejection kind on a concrete state with an open known-size master and buffered bytes;
   81 = Root (master), 4103 = Parent (master, under Root), 4101 = Int (unsigned, under Root), 4102 = binary under Root/Parent *)
Definition ex_sp : spec :=
  [ {| e_id := 129; e_ty := DMaster; e_path := [] |}; {| e_id := 16643; e_ty := DMaster; e_path := [PId 129] |};
    {| e_id := 16641; e_ty := DUInt; e_path := [PId 129] |}; {| e_id := 16642; e_ty := DBinary; e_path := [PId 129; PId 16643] |} ].
Definition ex_st : wst := fst (wrun ex_sp (w_init []) [OpWrite (TStart 129) o_default; OpWrite (TElem 16641 (VU 5)) o_default]).

Example C19_ex_rejections :
  w_buf ex_st = [65; 1; 129; 5] /\
  (* tag not allowed here *)
  wstep ex_sp ex_st (OpWrite (TElem 16642 (VB [1])) o_default) = (ex_st, WErr (EUnexpectedTag 16642 [129])) /\
  (* unknown size on a non-master *)
  wstep ex_sp ex_st (OpWriteUnknown (TElem 16641 (VU 1))) = (ex_st, WErr ESize) /\
  (* malformed raw id *)
  wstep ex_sp ex_st (OpWrite (TElem 1 (VRaw [7])) o_default) = (ex_st, WErr (ETagId 1)) /\
  (* closing a master that is not the innermost open one *)
  wstep ex_sp ex_st (OpWrite (TEnd 16643) o_default) = (ex_st, WErr (EClose 16643 (Some 129))) /\
  (* Full master with an invalid child after a valid one *)
  wstep ex_sp ex_st (OpWrite (TFull 16643 [TElem 16642 (VB [1]); TElem 16641 (VU 1)]) o_default) = (ex_st, WErr (EUnexpectedTag 16641 [129; 16643])) /\
  (* size not representable in the requested width: 130 bytes with a 1-byte size field *)
  snd (wstep ex_sp (fst (wstep ex_sp ex_st (OpWrite (TStart 16643) o_default))) (OpWrite (TElem 16642 (VB (repeat 0 130))) {| o_len := Some 1%nat; o_unknown := false |})) = WErr ESize.
Proof. vm_compute. repeat split; reflexivity. Qed.

(* the auditor's scenario for flush(): Root started with a 1-byte size field, Parent (default), a 130-byte binary element; flush() /
   into_inner() close Parent, then fail to close Root (138 bytes do not fit one byte): the call returns the size error and the state
   (open masters [Parent; Root], 134 buffered bytes, nothing delivered) is exactly what it was, so the next write succeeds as it
   would have without the flush and both runs end in the same state *)
Example C19_ex_flush_rejected :
  let st := fst (wrun aw_sp (w_init []) aw_pre) in
  wstep aw_sp st OpFlush = (st, WErr ESize) /\ wstep aw_sp st OpIntoInner = (st, WErr ESize) /\
  open_ids (w_open st) = [16643; 129] /\ length (w_buf st) = 134%nat /\
  map fst (snd (wrun aw_sp (w_init []) (aw_pre ++ [aw_later]))) = [WOk; WOk; WOk; WOk] /\
  map fst (snd (wrun aw_sp (w_init []) (aw_pre ++ [OpFlush; aw_later]))) = [WOk; WOk; WOk; WErr ESize; WOk] /\
  fst (wrun aw_sp (w_init []) (aw_pre ++ [OpFlush; aw_later])) = fst (wrun aw_sp (w_init []) (aw_pre ++ [aw_later])).
Proof. exact flush_rejected_example. Qed.
