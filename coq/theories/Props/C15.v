(* C15 — the variable-length integer codec is a correct, canonical, total bijection.
   Statements only; every proof is [exact <lemma of Proofs/>]. *)
From Ebml Require Import Base Tools Proofs.Tactics Proofs.BytesProofs Proofs.VintProofs Proofs.SVintProofs Proofs.AuditCodec.

(* default encoder: shortest width, for every value below 2^56 *)
Theorem C15_default_shortest : forall v, v < 2 ^ 56 ->
  exists L, as_vint v = Ok (enc L v) /\ (1 <= L <= 8)%nat /\ v < 2 ^ (7 * N.of_nat L)
            /\ (L = 1%nat \/ 2 ^ (7 * (N.of_nat L - 1)) <= v).
Proof. exact as_vint_shortest. Qed.

Theorem C15_default_overflow : forall v, 2 ^ 56 <= v -> as_vint v = Err (WriteVintOverflow v).
Proof. exact as_vint_overflow. Qed.

(* fixed-width encoder: exactly that width, or overflow exactly when the value needs more bits *)
Theorem C15_fixed_ok : forall L v, (1 <= L <= 8)%nat -> v < 2 ^ (7 * N.of_nat L) ->
  as_vint_with_length L v = Ok (enc L v).
Proof. exact as_vint_with_length_ok. Qed.

Theorem C15_fixed_width : forall L v, length (enc L v) = L.
Proof. exact enc_length. Qed.

Theorem C15_fixed_overflow : forall L v, (1 <= L <= 8)%nat -> 2 ^ (7 * N.of_nat L) <= v ->
  as_vint_with_length L v = Err (WriteVintOverflow v).
Proof. exact as_vint_with_length_overflow. Qed.

(* decoder returns the original value and the consumed length, whatever follows *)
Theorem C15_decode_encode : forall L v rest, (1 <= L <= 8)%nat -> v < 2 ^ (7 * N.of_nat L) -> wf_bytes rest ->
  read_vint (enc L v ++ rest) = Ok (Some (v, L)).
Proof. exact decode_encode. Qed.

(* the decoder never panics on any byte slice *)
Theorem C15_decode_total : forall buf, wf_bytes buf -> read_vint buf <> Panic.
Proof. exact read_vint_nopanic. Qed.

(* "need more data" exactly for proper prefixes: the empty slice, or a slice shorter than the
   length its non-zero first byte announces *)
Theorem C15_need_more : forall buf, wf_bytes buf ->
  (read_vint buf = Ok None <->
   buf = [] \/ exists b0 tl, buf = b0 :: tl /\ b0 <> 0 /\ (length buf < vint_len b0)%nat).
Proof. exact read_vint_need_more. Qed.

(* the same as a statement about encodings: the decoder asks for more data exactly when the slice is a PROPER prefix of the encoding
   [enc L v] of some value v < 2^(7L) in some width L of 1-8 bytes (the empty slice included) *)
Theorem C15_need_more_prefix : forall buf, wf_bytes buf ->
  (read_vint buf = Ok None <->
   exists L v suf, (1 <= L <= 8)%nat /\ v < 2 ^ (7 * N.of_nat L) /\ suf <> [] /\ buf ++ suf = enc L v).
Proof. exact need_more_prefix. Qed.

(* never claims a length beyond the slice; and the consumed bytes are the canonical encoding of
   the returned (value, width): decoding is injective on (bytes consumed) *)
Theorem C15_len_bound_canonical : forall buf v n, wf_bytes buf -> read_vint buf = Ok (Some (v, n)) ->
  (1 <= n <= 8)%nat /\ (n <= length buf)%nat /\ v < 2 ^ (7 * N.of_nat n) /\ firstn n buf = enc n v.
Proof. exact read_vint_some. Qed.

Theorem C15_decode_error : forall buf e, read_vint buf = Err e ->
  e = ReadVintOverflow /\ exists tl, buf = 0 :: tl.
Proof. exact read_vint_err. Qed.

(* signed variant *)
Theorem C15_signed_fixed_ok : forall L z, (1 <= L <= 8)%nat ->
  (- 2 ^ (7 * Z.of_nat L - 1) < z < 2 ^ (7 * Z.of_nat L - 1))%Z ->
  as_signed_vint_with_length L z = Ok (senc L z).
Proof. exact signed_fixed_ok. Qed.

Theorem C15_signed_fixed_reject : forall L z, (1 <= L <= 8)%nat ->
  (z <= - 2 ^ (7 * Z.of_nat L - 1) \/ 2 ^ (7 * Z.of_nat L - 1) <= z)%Z ->
  as_signed_vint_with_length L z = Err (WriteSignedVintOverflow z).
Proof. exact signed_fixed_reject. Qed.

Theorem C15_signed_default_ok : forall z, (- 2 ^ 55 < z < 2 ^ 55)%Z ->
  exists L, as_signed_vint z = Ok (senc L z) /\ (1 <= L <= 8)%nat /\ fits_signed z L = true
            /\ forall L', (1 <= L' < L)%nat -> fits_signed z L' = false.
Proof. exact signed_default_ok. Qed.

Theorem C15_signed_default_reject : forall z, (z <= - 2 ^ 55 \/ 2 ^ 55 <= z)%Z ->
  as_signed_vint z = Err (WriteSignedVintOverflow z).
Proof. exact signed_default_reject. Qed.

Theorem C15_signed_width : forall L z, length (senc L z) = L.
Proof. exact senc_length. Qed.

(* decodes back whatever it encoded, for every width including 8 *)
Theorem C15_signed_decode_encode : forall L z rest, (1 <= L <= 8)%nat ->
  (- 2 ^ (7 * Z.of_nat L - 1) <= z < 2 ^ (7 * Z.of_nat L - 1))%Z -> wf_bytes rest ->
  read_signed_vint (senc L z ++ rest) = Ok (Some (z, L)).
Proof. exact signed_decode_encode. Qed.

(* the signed decoder is the unsigned decoder followed by a total map of its result ([map_signed], Proofs/SVintProofs.v: need-more, error
   and panic are passed through; a value v of width L becomes [sext L v] = v if v < 2^(7L-1), else v - 2^(7L)); so everything proved
   about the unsigned decoder's control flow (no panic, need-more, the error, the consumed length) carries over.  That the model's
   signed decoder has this shape is a fact about the model; the Rust function is tied to it by the correspondence run *)
Theorem C15_signed_is_unsigned : forall buf, wf_bytes buf -> read_signed_vint buf = map_signed (read_vint buf).
Proof. exact read_signed_vint_unsigned. Qed.

Theorem C15_signed_decode_total : forall buf, wf_bytes buf -> read_signed_vint buf <> Panic.
Proof. exact read_signed_vint_nopanic. Qed.

(* need-more of the signed decoder: exactly the proper prefixes of encodings, as for the unsigned one *)
Theorem C15_signed_need_more_prefix : forall buf, wf_bytes buf ->
  (read_signed_vint buf = Ok None <->
   exists L v suf, (1 <= L <= 8)%nat /\ v < 2 ^ (7 * N.of_nat L) /\ suf <> [] /\ buf ++ suf = enc L v).
Proof. exact signed_need_more_prefix. Qed.

(* signed and unsigned decoders agree on length (and on need-more / error) on every slice *)
Theorem C15_signed_len_agree : forall buf, wf_bytes buf ->
  match read_vint buf, read_signed_vint buf with
  | Ok (Some (_, n)), Ok (Some (_, n')) => n = n'
  | Ok None, Ok None => True
  | Err e, Err e' => e = e'
  | _, _ => False
  end.
Proof. exact signed_len_agree. Qed.

(* well-formed-id predicate: byte length n and marker at the position announcing n *)
Theorem C15_is_vint : forall v, is_vint v = true <->
  exists n, (1 <= n <= 8)%nat /\ 2 ^ (7 * N.of_nat n) <= v < 2 ^ (7 * N.of_nat n + 1).
Proof. exact is_vint_spec. Qed.

(* non-vacuity: concrete instances *)
Example C15_ex_encode : as_vint 16383 = Ok [127; 255] /\ as_vint_with_length 3 16383 = Ok [32; 63; 255]
  /\ read_vint [32; 63; 255; 7] = Ok (Some (16383, 3%nat)) /\ read_vint [32; 63] = Ok None.
Proof. vm_compute. auto. Qed.

Example C15_ex_signed : as_signed_vint (-200) = Ok [127; 56] /\ senc 2 (-200) = [127; 56]
  /\ read_signed_vint [1; 64; 0; 0; 0; 0; 0; 0] = Ok (Some (18014398509481984%Z, 8%nat))
  /\ read_signed_vint [1; 192; 0; 0; 0; 0; 0; 0] = Ok (Some ((-18014398509481984)%Z, 8%nat))
  /\ is_vint 1 = false /\ is_vint 128 = true /\ is_vint 9223372036854775808 = false.
Proof. vm_compute. repeat split; reflexivity. Qed.
