(* C17 — memory use is bounded by the configured tag size limit, whatever input claims.  Statements only. *)
From Ebml Require Import Base Tools Spec Reader Pure Proofs.Tactics Proofs.ReaderIO Proofs.Refine Proofs.CapBound
  Proofs.Extents Proofs.NoOverflow Proofs.AuditLimit.

(* With a size limit of m bytes the internal buffer never grows beyond max(initial capacity, 16, m): for every input, every
   tolerance setting / buffered set / EOF-closing setting, every source script (short reads, Ok(0) pauses and I/O errors
   included) and every sequence of next()/try_recover() calls *)
Theorem C17_buffer_bounded : forall c m cap0 script input ops, c_max c = Some m ->
  fst (run_reader_cap c cap0 script input ops) <= N.max (N.max cap0 16) m.
Proof. exact cap_bounded. Qed.

(* a header whose declared (known) size exceeds the limit is never accepted ... *)
Theorem C17_oversize_rejected : forall c st id ty n hl m,
  snd (peek_header c st) = Ok (id, ty, SKnown n, hl) -> c_max c = Some m -> n <= m.
Proof. exact peek_header_size_ok. Qed.

(* ... and validating a header never requests more than a 16-byte buffer: the rejection happens before any allocation or
   read for the payload (read_tag returns a header error without touching the buffer again) *)
Theorem C17_header_allocates_16 : forall c st, r_cap (fst (peek_header c st)) <= N.max (r_cap st) 16.
Proof. exact header_allocates_16. Qed.
Theorem C17_error_before_payload : forall c st0,
  read_tag c st0 = match peek_header c st0 with
                   | (st, Err e) => (st, Err e)
                   | (st, Panic) => (st, Panic)
                   | (st, Ok h) => tag_tail c st (r_off st0) h
                   end.
Proof. exact read_tag_unfold. Qed.

(* the three statements above composed (Proofs/AuditLimit.v), on the buffered machine, for every source script.
   Forward: the 16-byte header read succeeds, the id decodes (id, idl bytes) and the size field decodes to a KNOWN size n above
   the limit m.  Then read_tag (1) does not return a tag, (2) leaves the buffer no longer than max(previous length, 16) - nothing
   is allocated or read for the payload - and (3) when the earlier header checks pass (a numeric element declares at most 8
   bytes; the id is known or unknown ids are tolerated; the hierarchy step [hier_step] raises no error and no bad-specification
   panic, leaving st3; the element stays inside the enclosing known-size masters or oversized children are tolerated) returns
   exactly the size error InvalidTagSize at the element's offset with the declared size.  (If an earlier check fails, ITS error
   is returned instead - C13_header_error_priority - still without growth.) *)
Theorem C17_size_above_limit_rejected : forall c st0 m st1 b st2 id idl size sl n,
  c_max c = Some m -> ensure 16 st0 = (st1, Ok b) -> peek_tag_id st1 = (st2, Ok (id, idl)) ->
  read_vint (firstn 8 (skipn idl (r_win st2))) = Ok (Some (size, sl)) -> ebml_size size sl = SKnown n -> m < n ->
  (forall p, snd (read_tag c st0) <> Ok p) /\
  r_cap (fst (read_tag c st0)) <= N.max (r_cap st0) 16 /\
  (forall st3, is_numeric (get_type (c_sp c) id) && (8 <? size) = false ->
     (c_allow_id c = true \/ get_type (c_sp c) id <> None) ->
     hier_step c st2 id (get_type (c_sp c) id) = (st3, None) -> r_bad st3 = None ->
     negb (c_allow_over c) && is_invalid_tag_size st3 (N.of_nat (idl + sl) + n) = false ->
     read_tag c st0 = (st3, Err (RInvalidSize (r_off st2) id n))).
Proof. exact size_above_limit_rejected. Qed.

(* Backward: whenever read_tag returns the size error, a limit is configured and the declared size is above it, the state is the
   one the header check left, and the buffer is no longer than max(previous length, 16) *)
Theorem C17_size_error_no_growth : forall c st0 st' pos id n, read_tag c st0 = (st', Err (RInvalidSize pos id n)) ->
  (exists m, c_max c = Some m /\ m < n) /\ st' = fst (peek_header c st0) /\ r_cap st' <= N.max (r_cap st0) 16.
Proof. exact size_error_no_growth. Qed.

(* The peak.  C17_buffer_bounded bounds the buffer length in the state a run ENDS in - for every sequence of calls, hence after
   every prefix of calls too.  Inside a call the bound holds as well, because the buffer length never decreases (there is no
   shrinking in the code: ensure_capacity only resizes upwards): through a refill, a header check, a tag read, next(),
   try_recover() and any sequence of calls the length can only grow, so the length a call or a run ends with is the largest the
   buffer has had at any moment before *)
Theorem C17_cap_monotone_ensure : forall n st, r_cap st <= r_cap (fst (ensure n st)).
Proof. exact cap_monotone_ensure. Qed.
Theorem C17_cap_monotone_peek_header : forall c st, r_cap st <= r_cap (fst (peek_header c st)).
Proof. exact cap_monotone_peek_header. Qed.
Theorem C17_cap_monotone_read_tag : forall c st, r_cap st <= r_cap (fst (read_tag c st)).
Proof. exact cap_monotone_read_tag. Qed.
Theorem C17_cap_monotone_next : forall c st, r_cap st <= r_cap (fst (next c st)).
Proof. exact cap_monotone_next. Qed.
Theorem C17_cap_monotone_try_recover : forall c st, r_cap st <= r_cap (fst (try_recover c st)).
Proof. exact cap_monotone_try_recover. Qed.
Theorem C17_cap_monotone_run : forall c limit ops st, r_cap st <= r_cap (fst (run_ops c limit st ops)).
Proof. exact cap_monotone_run. Qed.

(* ... in particular the buffer length after any prefix of the calls of a run is at most the buffer length at its end: the
   final length is the peak *)
Theorem C17_final_is_peak : forall c cap0 script input ops1 ops2,
  fst (run_reader_cap c cap0 script input ops1) <= fst (run_reader_cap c cap0 script input (ops1 ++ ops2)).
Proof. exact cap_final_is_peak. Qed.

(* non-vacuity: 2^56-2 bytes declared with a 5-byte limit: size error, buffer stays at 16; a 5-byte declaration passes *)
Example C17_ex :
  let sp := [ {| e_id := 129; e_ty := DMaster; e_path := [] |}; {| e_id := 16642; e_ty := DBinary; e_path := [PId 129] |} ] in
  let c := {| c_sp := sp; c_allow_id := false; c_allow_hier := false; c_allow_over := false; c_max := Some 5;
              c_buffered := []; c_emit_eof := true |} in
  run_reader_cap c 0 [] [129; 255; 65; 2; 1; 255; 255; 255; 255; 255; 255; 254] [RAll] =
    (16, [OItem (TStart 129) 0; OErr (RInvalidSize 2 16642 72057594037927934)]) /\
  run_reader_cap c 0 [] [129; 255; 65; 2; 133; 1; 2; 3] [RAll] =
    (16, [OItem (TStart 129) 0; OErr (REof 2 (Some 16642) (Some 5) (Some [1; 2; 3]))]).
Proof. vm_compute. split; reflexivity. Qed.

(* ------------------------------------------------------------------ "a declared size never causes arithmetic overflow" *)
(* The model computes on unbounded numbers where src/tag_iterator.rs computes on usize.  For byte inputs shorter than 2^62
   bytes every sum the code forms stays below 2^63 < 2^64 = usize::MAX + 1 (64-bit target), so nothing is lost: no wrap-around
   in release builds, no overflow panic in debug builds.  The statements are about the abstract reader (Model/Pure.v) - offsets,
   sizes, ends of declared ranges - in every state that next()/try_recover() can reach ([Reach], Proofs/Extents.v), for every
   configuration; the last two transfer them to the buffered machine.  Panics other than overflow: Props/C05.v. *)

(* the invariant: the bytes left are bytes; cursor + bytes left = input length; the cursor is below 2^62; every open master
   starts at or before the cursor, and if its size n is known (enlarged by try_recover or not): data_start + n is below
   cursor + 2^56 and below 2^63, and n is below 2^63 *)
Theorem C17_no_overflow : forall c input ops, wf_bytes input -> N.of_nat (length input) < 2 ^ 62 ->
  no_overflow_inv input (fst (p_run_ops c (4 * length input + 64) (p_init input) ops)).
Proof. exact run_no_overflow. Qed.

Theorem C17_no_overflow_reach : forall c input st, wf_bytes input -> N.of_nat (length input) < 2 ^ 62 -> Reach c input st ->
  no_overflow_inv input st.
Proof. exact reach_no_overflow. Qed.

(* `self.buffer_offset.unwrap_or(0) + self.internal_buffer_position`  (current_offset) *)
Theorem C17_sum_current_offset : forall c input, wf_bytes input -> N.of_nat (length input) < 2 ^ 62 -> forall st,
  Reach c input st -> b_off st <= N.of_nat (length input) /\ b_off st < 2 ^ 64.
Proof. exact sum_current_offset. Qed.

(* `tag.data_start + size`  (read_next)  and  `t.data_start + t.size.value()`  (is_invalid_tag_size) *)
Theorem C17_sum_frame_end : forall c input, wf_bytes input -> N.of_nat (length input) < 2 ^ 62 -> forall st f n,
  Reach c input st -> In f (b_stack st) -> f_size f = SKnown n ->
  f_data f <= b_off st /\ f_data f + n < 2 ^ 63 /\ f_data f + n < 2 ^ 64.
Proof. exact sum_frame_end. Qed.

(* peek_tag_id / peek_valid_tag_header, for every header whose id and size vint can be decoded, whatever the outcome:
   `val <<= 8; val += *item as u64` (the id fits a u64);  `id_len + size_len`;  `(1 << (7 * n)) - 1` (EBMLSize::new);
   `header_len + known_size`;  `self.current_offset() + size` (is_invalid_tag_size, size = header_len + known_size) *)
Theorem C17_sum_header_decoded : forall c input, wf_bytes input -> N.of_nat (length input) < 2 ^ 62 -> forall st id idl size sl,
  Reach c input st ->
  p_tag_id st = Ok (id, idl) -> read_vint (firstn 8 (skipn idl (b_bytes st))) = Ok (Some (size, sl)) ->
  id < 2 ^ 64 /\ (idl + sl <= 16)%nat /\ 2 ^ (7 * N.of_nat sl) <= 2 ^ 56 /\ size < 2 ^ 56 /\
  N.of_nat (idl + sl) + ksize (ebml_size size sl) < 2 ^ 57 /\
  b_off st + (N.of_nat (idl + sl) + ksize (ebml_size size sl)) < 2 ^ 63.
Proof. exact sum_header_decoded. Qed.

(* an accepted header: `header_len + known_size`, `self.current_offset() + size`, the `t.data_start + t.size.value()` it is
   compared with, and `self.internal_buffer_position += header_len` staying inside the input *)
Theorem C17_sum_header_ok : forall c input, wf_bytes input -> N.of_nat (length input) < 2 ^ 62 -> forall st st1 id ty esz hl,
  Reach c input st -> p_header c st = (st1, Ok (id, ty, esz, hl)) ->
  (hl <= 16)%nat /\ ksize esz < 2 ^ 56 /\ N.of_nat hl + ksize esz < 2 ^ 57 /\
  b_off st1 = b_off st /\ b_off st1 + (N.of_nat hl + ksize esz) < 2 ^ 63 /\
  b_off st + N.of_nat hl <= N.of_nat (length input) /\
  (forall f n, In f (b_stack st1) -> f_size f = SKnown n -> f_data f + n < 2 ^ 63).
Proof. exact sum_header_ok. Qed.

(* the two rejections that report the declared size (OversizedChildElement, InvalidTagSize): the sums had been computed *)
Theorem C17_sum_header_oversized : forall c input, wf_bytes input -> N.of_nat (length input) < 2 ^ 62 -> forall st st1 pos id ks,
  Reach c input st -> p_header c st = (st1, Err (ROversized pos id ks)) ->
  pos = b_off st /\ ks < 2 ^ 56 /\ forall hl, (hl <= 16)%nat -> b_off st + (N.of_nat hl + ks) < 2 ^ 63.
Proof. exact sum_header_oversized. Qed.
Theorem C17_sum_header_invalid_size : forall c input, wf_bytes input -> N.of_nat (length input) < 2 ^ 62 -> forall st st1 pos id n,
  Reach c input st -> p_header c st = (st1, Err (RInvalidSize pos id n)) ->
  pos = b_off st /\ n < 2 ^ 56 /\ forall hl, (hl <= 16)%nat -> b_off st + (N.of_nat hl + n) < 2 ^ 63.
Proof. exact sum_header_invalid_size. Qed.

(* all the sums of peek_valid_tag_header / is_invalid_tag_size in one list ([header_sums], Proofs/NoOverflow.v) *)
Theorem C17_header_sums_bounded : forall c input, wf_bytes input -> N.of_nat (length input) < 2 ^ 62 -> forall st,
  Reach c input st -> Forall (fun x => x < 2 ^ 63) (header_sums st).
Proof. exact header_sums_bounded. Qed.

(* read_tag: tag_start / data_start = current_offset(); `self.internal_buffer_position += header_len`, `+= size`
   (read_tag_data) leave the cursor inside the input; the frame (data_start, size) that read_next pushes ends below 2^63 *)
Theorem C17_sum_read_tag : forall c input, wf_bytes input -> N.of_nat (length input) < 2 ^ 62 -> forall st st' r,
  Reach c input st -> p_read_tag c st = (st', r) ->
  b_off st <= b_off st' /\ b_off st' <= N.of_nat (length input) /\
  forall p, r = Ok p ->
    p_start p = b_off st /\ p_start p <= p_data p /\ p_data p <= b_off st' /\
    ksize (p_size p) < 2 ^ 56 /\ p_data p + ksize (p_size p) < 2 ^ 63.
Proof. exact sum_read_tag. Qed.

(* try_recover: `self.current_offset() - original_position` (no underflow) and `size + diff` for every open known-size master *)
Theorem C17_sum_recover : forall c input, wf_bytes input -> N.of_nat (length input) < 2 ^ 62 -> forall st st1,
  Reach c input st -> p_recover_loop (b_fuel st) c st = (st1, None) ->
  b_off st <= b_off st1 /\ b_off st1 <= N.of_nat (length input) /\
  forall f n, In f (b_stack st1) -> f_size f = SKnown n ->
    n + (b_off st1 - b_off st) < 2 ^ 63 /\ f_data f + (n + (b_off st1 - b_off st)) < 2 ^ 63.
Proof. exact sum_recover. Qed.
Theorem C17_sum_recover_result : forall c input, wf_bytes input -> N.of_nat (length input) < 2 ^ 62 -> forall st f n,
  Reach c input st -> In f (b_stack (fst (p_try_recover c st))) -> f_size f = SKnown n -> n < 2 ^ 63 /\ f_data f + n < 2 ^ 63.
Proof. exact sum_recover_result. Qed.

(* the buffered machine on a source that never pauses or fails: consumed + window + undelivered = input length, and the
   same bounds for its offset and stack *)
Theorem C17_buffered_no_overflow : forall c cap0 script input ops, calm script -> wf_bytes input ->
  N.of_nat (length input) < 2 ^ 62 ->
  let st := fst (run_reader_st c cap0 script input ops) in
  r_off st + r_wlen st + r_rlen st = N.of_nat (length input) /\ r_off st < 2 ^ 62 /\
  forall f, In f (r_stack st) ->
    f_data f <= r_off st /\ forall n, f_size f = SKnown n -> f_data f + n < 2 ^ 63 /\ n < 2 ^ 63.
Proof. exact buffered_no_overflow. Qed.

(* buffer indices: internal_buffer_position <= buffered_byte_length <= buffer.len() in the code, and for every source script,
   with or without a size limit, the window fits the buffer and the buffer stays below max(cap0, 16, 2^56); so
   `self.internal_buffer_position + length` (length = 1, 8, 16 or a declared size < 2^56) is below 2^57 + max(cap0, 16) *)
Theorem C17_buffer_bounded_bytes : forall c cap0 script input ops, wf_bytes input ->
  let st := fst (run_reader_st c cap0 script input ops) in
  r_wlen st <= r_cap st /\ r_cap st <= N.max (N.max cap0 16) (2 ^ 56) /\ r_cap st + 2 ^ 56 < 2 ^ 57 + N.max cap0 16.
Proof. exact cap_bounded_bytes. Qed.

(* non-vacuity / order of magnitude: no size limit, a child header declaring 2^56-2 bytes.
   (1) at offset 0 it is accepted (the payload is then missing): the sums are 10, 2^56+8, 2^56+8 - all below 2^57 - and the
       buffered machine asks for a 2^56-2 byte buffer;
   (2) inside a 5-byte master it is rejected as oversized: the sums are 10, 2^56+8, 2^56+10 and the master's end 2+5 *)
Example C17_no_overflow_ex :
  let sp := [ {| e_id := 129; e_ty := DMaster; e_path := [] |}; {| e_id := 16642; e_ty := DBinary; e_path := [PId 129] |} ] in
  let c := {| c_sp := sp; c_allow_id := false; c_allow_hier := false; c_allow_over := false; c_max := None;
              c_buffered := []; c_emit_eof := true |} in
  let i1 := [65; 2; 1; 255; 255; 255; 255; 255; 255; 254] in
  let i2 := [129; 133; 65; 2; 1; 255; 255; 255; 255; 255; 255; 254] in
  let st2 := fst (p_run_ops c 100 (p_init i2) [RNext]) in
  snd (p_header c (p_init i1)) = Ok (16642, Some DBinary, SKnown (2 ^ 56 - 2), 10%nat) /\
  header_sums (p_init i1) = [10; 2 ^ 56 + 8; 2 ^ 56 + 8] /\
  run_reader_cap c 0 [] i1 [RAll] = (2 ^ 56 - 2, [OErr (REof 0 (Some 16642) (Some (2 ^ 56 - 2)) (Some []))]) /\
  p_run c i2 [RAll] = [OItem (TStart 129) 0; OErr (ROversized 2 16642 (2 ^ 56 - 2))] /\
  snd (p_header c st2) = Err (ROversized 2 16642 (2 ^ 56 - 2)) /\
  header_sums st2 = [10; 2 ^ 56 + 8; 2 ^ 56 + 10; 7] /\
  forallb (fun x => x <? 2 ^ 57) (header_sums (p_init i1) ++ header_sums st2) = true.
Proof. vm_compute. repeat split; reflexivity. Qed.

(* the constant products of the sources: `4 * usize::pow(1000, 3)` (default size limit), `1024 * 64` (DEFAULT_BUFFER_LEN),
   `7 * 8` (widest vint) *)
Example C17_constants : 4 * 1000 ^ 3 < 2 ^ 64 /\ 1024 * 64 < 2 ^ 64 /\ 2 ^ (7 * 8) = 2 ^ 56.
Proof. vm_compute. repeat split; reflexivity. Qed.
