(* C17 — memory use is bounded by the configured tag size limit, whatever input claims.  Statements only. *)
From Ebml Require Import Base Tools Spec Reader Pure Proofs.Tactics Proofs.ReaderIO Proofs.Refine Proofs.CapBound.

(* With a size limit of m bytes the internal buffer never grows beyond max(initial capacity, 16, m): for every input, every
   tolerance setting / buffered set / EOF-closing setting, every source script (short reads, Ok(0) pauses and I/O errors
   included) and every sequence of next()/try_recover() calls *)
Theorem C17_buffer_bounded : forall c m cap0 script input ops, c_max c = Some m ->
  fst (run_reader_cap c cap0 script input ops) <= N.max (N.max cap0 16) m.
Proof. exact cap_bounded. Qed.

(* a header whose declared (known) size exceeds the limit is never accepted ... *)
Theorem C17_oversize_rejected : forall c st id ty n hl m,
  snd (peek_header c st) = Ok (id, ty, SKnown n, hl) -> c_max c = Some m -> n <= m.
Proof. exact peek_header_size_ok. Qed.

(* ... and validating a header never requests more than a 16-byte buffer: the rejection happens before any allocation or
   read for the payload (read_tag returns a header error without touching the buffer again) *)
Theorem C17_header_allocates_16 : forall c st, r_cap (fst (peek_header c st)) <= N.max (r_cap st) 16.
Proof. exact header_allocates_16. Qed.
Theorem C17_error_before_payload : forall c st0,
  read_tag c st0 = match peek_header c st0 with
                   | (st, Err e) => (st, Err e)
                   | (st, Panic) => (st, Panic)
                   | (st, Ok h) => tag_tail c st (r_off st0) h
                   end.
Proof. exact read_tag_unfold. Qed.

(* non-vacuity: 2^56-2 bytes declared with a 5-byte limit: size error, buffer stays at 16; a 5-byte declaration passes *)
Example C17_ex :
  let sp := [ {| e_id := 129; e_ty := DMaster; e_path := [] |}; {| e_id := 16642; e_ty := DBinary; e_path := [PId 129] |} ] in
  let c := {| c_sp := sp; c_allow_id := false; c_allow_hier := false; c_allow_over := false; c_max := Some 5;
              c_buffered := []; c_emit_eof := true |} in
  run_reader_cap c 0 [] [129; 255; 65; 2; 1; 255; 255; 255; 255; 255; 255; 254] [RAll] =
    (16, [OItem (TStart 129) 0; OErr (RInvalidSize 2 16642 72057594037927934)]) /\
  run_reader_cap c 0 [] [129; 255; 65; 2; 133; 1; 2; 3] [RAll] =
    (16, [OItem (TStart 129) 0; OErr (REof 2 (Some 16642) (Some 5) (Some [1; 2; 3]))]).
Proof. vm_compute. split; reflexivity. Qed.
