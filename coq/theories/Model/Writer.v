(* Model of src/tag_writer.rs.  State: the stack of open masters (innermost first), the
   working buffer, and the destination (bytes delivered so far + the script saying what the
   destination's successive write() calls do).  Definitions only. *)
From Ebml Require Export Spec.

Inductive wsize : Type := WKnown (start : nat) | WUnknown.

(* what a destination write() call does *)
Inductive wr : Type := WAcc (n : nat) | WInt | WZero | WFail (code : N).
Inductive ioerr : Type := IoZero | IoCode (code : N).

Inductive werr : Type :=
| EUnexpectedTag (id : N) (path : list N)
| ETagId (id : N)
| ESize
| EClose (id : N) (expected : option N)
| EIo (e : ioerr).

Inductive wres : Type := WOk | WErr (e : werr) | WPanic.

Record wst : Type := {
  w_open : list (N * wsize * nat);   (* (id, Known(buffer offset) | Unknown, size_length); innermost first *)
  w_buf : list N;                    (* working_buffer *)
  w_dest : list N;                   (* bytes the destination has accepted *)
  w_script : list wr
}.

Definition w_init (script : list wr) : wst :=
  {| w_open := []; w_buf := []; w_dest := []; w_script := script |}.

Definition set_buf (st : wst) (b : list N) : wst :=
  {| w_open := w_open st; w_buf := b; w_dest := w_dest st; w_script := w_script st |}.
Definition set_open (st : wst) (o : list (N * wsize * nat)) : wst :=
  {| w_open := o; w_buf := w_buf st; w_dest := w_dest st; w_script := w_script st |}.

(* id.to_be_bytes().iter().skip_while(|v| v == 0) *)
Fixpoint skip_zeros (l : list N) : list N :=
  match l with
  | b :: tl => if b =? 0 then skip_zeros tl else l
  | [] => []
  end.
Definition id_bytes (id : N) : list N := skip_zeros (be_bytes 8 id).

(* size_to_vint: the fewest bytes (size_len = 0) or exactly size_len bytes, never the
   reserved all-ones pattern *)
Fixpoint find_size_len (size : N) (len fuel : nat) : nat :=
  match fuel with
  | O => 8%nat
  | S f => if size <? 2 ^ (7 * N.of_nat len) - 1 then len else find_size_len size (S len) f
  end.

Definition size_to_vint (size : N) (size_len : nat) : option (list N) :=
  let len := match size_len with O => find_size_len size 1 7 | _ => size_len end in
  if 2 ^ (7 * N.of_nat len) - 1 <=? size then None
  else Some (be_bytes len (N.lor size (2 ^ (7 * N.of_nat len)))).

Definition has_known (o : list (N * wsize * nat)) : bool :=
  existsb (fun t => match snd (fst t) with WKnown _ => true | WUnknown => false end) o.

(* std::io::Write::write_all over the scripted destination.  Returns the new delivered
   bytes, the remaining script and the error, if any. *)
Fixpoint write_all (script : list wr) (data dest : list N) : list N * list wr * option ioerr :=
  match data with
  | [] => (dest, script, None)
  | _ =>
    match script with
    | [] => (dest ++ data, [], None)
    | WAcc n :: s => match n with
                     | O => (dest, s, Some IoZero)
                     | _ => write_all s (skipn n data) (dest ++ firstn n data)
                     end
    | WInt :: s => write_all s data dest
    | WZero :: s => (dest, s, Some IoZero)
    | WFail c :: s => (dest, s, Some (IoCode c))
    end
  end.

(* private_flush: the write_all loop over the working buffer; what the destination took is drained, what it did not take
   (after an error) stays buffered and is handed over by the next flush (fix D28) *)
Definition private_flush (st : wst) : wst * wres :=
  let '(d, s, e) := write_all (w_script st) (w_buf st) (w_dest st) in
  ({| w_open := w_open st; w_buf := skipn (length d - length (w_dest st)) (w_buf st); w_dest := d; w_script := s |},
   match e with None => WOk | Some x => WErr (EIo x) end).

Definition start_tag (st : wst) (id : N) (size_len : nat) : wst :=
  set_open st ((id, WKnown (length (w_buf st)), size_len) :: w_open st).

Definition unknown_marker : list N := [1; 255; 255; 255; 255; 255; 255; 255].

Definition start_unknown_size_tag (st : wst) (id : N) : wst :=
  set_open (set_buf st (w_buf st ++ id_bytes id ++ unknown_marker)) ((id, WUnknown, O) :: w_open st).

Definition end_tag (st : wst) (id : N) : wst * wres :=
  match w_open st with
  | [] => (st, WErr (EClose id None))
  | (oid, sz, sl) :: rest =>
      if oid =? id then
        match sz with
        | WKnown start =>
            if (length (w_buf st) <? start)%nat then (st, WPanic) else
            let size := N.of_nat (length (w_buf st) - start) in
            match size_to_vint size sl with
            | None => (st, WErr ESize)
            | Some sv =>
                (set_open (set_buf st (firstn start (w_buf st) ++ id_bytes oid ++ sv ++ skipn start (w_buf st))) rest, WOk)
            end
        | WUnknown => (set_open st rest, WOk)
        end
      else (st, WErr (EClose id (Some oid)))
  end.

(* the size field of the fixed-size payload writers: 0x80+n by default, n as a vint of
   the requested width otherwise *)
Definition small_size_field (size_len : nat) (n : N) : res terr (list N) :=
  match size_len with
  | O => Ok [128 + n]
  | _ => as_vint_with_length size_len n
  end.

Definition uint_width (v : N) : nat :=
  if v <? 2 ^ 8 then 1%nat else if v <? 2 ^ 16 then 2%nat else if v <? 2 ^ 32 then 4%nat else 8%nat.

Definition sint_width (z : Z) : nat :=
  if ((- 2 ^ 7 <=? z) && (z <? 2 ^ 7))%Z then 1%nat
  else if ((- 2 ^ 15 <=? z) && (z <? 2 ^ 15))%Z then 2%nat
  else if ((- 2 ^ 31 <=? z) && (z <? 2 ^ 31))%Z then 4%nat else 8%nat.

Definition append (st : wst) (bs : list N) : wst := set_buf st (w_buf st ++ bs).

(* write_*_tag::<SIZE_LENGTH>: the id bytes are appended first, then the size may fail *)
Definition write_payload (st : wst) (id : N) (size_len : nat) (field : res terr (list N)) (payload : list N) : wst * wres :=
  let st1 := append st (id_bytes id) in
  match field with
  | Ok f => (append st1 (f ++ payload), WOk)
  | Err _ => (st1, WErr ESize)
  | Panic => (st1, WPanic)
  end.

Definition sized_field (len : nat) (size_len : nat) : res terr (list N) :=
  match size_to_vint (N.of_nat len) size_len with Some f => Ok f | None => Err (WriteVintOverflow (N.of_nat len)) end.

Definition write_element (st : wst) (id : N) (ty : option dtype) (v : value) (size_len : nat) : wst * wres :=
  match ty, v with
  | Some DUInt, VU n =>
      let w := uint_width n in write_payload st id size_len (small_size_field size_len (N.of_nat w)) (be_bytes w n)
  | Some DSInt, VI z =>
      let w := sint_width z in write_payload st id size_len (small_size_field size_len (N.of_nat w)) (be_bytes w (to_u64 z))
  | Some DUtf8, VS bs => write_payload st id size_len (sized_field (length bs) size_len) bs
  | Some DBinary, VB bs | Some DBinary, VRaw bs => write_payload st id size_len (sized_field (length bs) size_len) bs
  | Some DFloat, VF bits => write_payload st id size_len (small_size_field size_len 8) (be_bytes 8 bits)
  | None, VB bs | None, VRaw bs =>
      if is_vint id then write_payload st id size_len (sized_field (length bs) size_len) bs
      else (st, WErr (ETagId id))
  | None, _ => if is_vint id then (st, WPanic) else (st, WErr (ETagId id))
  | Some _, _ => (st, WPanic)     (* "Bad specification implementation" *)
  end.

Record wopts : Type := { o_len : option nat; o_unknown : bool }.
Definition o_default : wopts := {| o_len := None; o_unknown := false |}.

Definition is_end (t : tag) : bool := match t with TEnd _ => true | _ => false end.
Definition is_master_tag (t : tag) : bool := match t with TElem _ _ => false | _ => true end.

Definition open_ids (o : list (N * wsize * nat)) : list N := map (fun t => fst (fst t)) o.

(* the writer never closes masters on its own: every open master counts as known-size *)
Definition w_validate (sp : spec) (id : N) (o : list (N * wsize * nat)) : bool :=
  validate_tag_path sp id (map (fun t => (fst (fst t), true)) o).

(* TSpec::get_tag_data_type(id).filter(|t| matches!(t, Binary) || tag.as_binary().is_none()) *)
Definition raw_type (t : tag) (ty : option dtype) : option dtype :=
  match t, ty with
  | TElem _ (VRaw _), Some DBinary => ty
  | TElem _ (VRaw _), _ => None
  | TElem _ (VB _), Some DBinary => ty
  | TElem _ (VB _), _ => None
  | _, _ => ty
  end.

(* buffer_tag: everything write_advanced does except the final flush and the rollback *)
Fixpoint buffer_tag (sp : spec) (t : tag) (o : wopts) (st : wst) {struct t} : wst * wres :=
  let id := tag_id t in
  (* a raw tag (it answers as_binary() only) is written as is whatever type its id is declared with, like an undeclared id (fix D27) *)
  let ty := raw_type t (get_type sp id) in
  if o_unknown o && negb (is_master_ty ty) then (st, WErr ESize) else
  (* tag.as_master().unwrap_or_else(panic) is evaluated when the type is Master *)
  if is_master_ty ty && negb (is_master_tag t) then (st, WPanic) else
  let should_validate := match ty with
                         | None => false
                         | Some DMaster => negb (is_end t)
                         | Some _ => true
                         end in
  if should_validate && negb (w_validate sp id (w_open st)) then
    (st, WErr (EUnexpectedTag id (rev (open_ids (w_open st)))))
  else
  (* children of a Full: a child may only end masters that were started inside of the Full ([floor] = number of
     open masters right after the Full's own start) *)
  let children :=
    fix children (floor : nat) (cs : list tag) (st : wst) : wst * wres :=
      match cs with
      | [] => (st, WOk)
      | c :: cs' => match buffer_tag sp c o_default st with
                    | (st1, WOk) =>
                        if (length (w_open st1) <? floor)%nat then (st1, WErr (EClose (tag_id c) None))
                        else children floor cs' st1
                    | r => r
                    end
      end in
  if o_unknown o then
    match t with
    | TStart _ => (start_unknown_size_tag st id, WOk)
    | TEnd _ => end_tag st id
    | TFull _ cs => match children (S (length (w_open st))) cs (start_unknown_size_tag st id) with
                    | (st1, WOk) => end_tag st1 id
                    | r => r
                    end
    | TElem _ _ => (st, WPanic)
    end
  else
    let size_len := match o_len o with Some n => if ((1 <=? n) && (n <=? 8))%nat then n else O | None => O end in
    match ty, t with
    | Some DMaster, TStart _ => (start_tag st id size_len, WOk)
    | Some DMaster, TEnd _ => end_tag st id
    | Some DMaster, TFull _ cs => match children (S (length (w_open st))) cs (start_tag st id size_len) with
                                  | (st1, WOk) => end_tag st1 id
                                  | r => r
                                  end
    | Some DMaster, TElem _ _ => (st, WPanic)
    | _, TElem _ v => write_element st id ty v size_len
    | None, _ => if is_vint id then (st, WPanic) else (st, WErr (ETagId id))
    | _, _ => (st, WPanic)     (* a master-valued tag under a non-master id: accessor unwrap fails *)
    end.

Inductive wop : Type :=
| OpWrite (t : tag) (o : wopts)
| OpWriteUnknown (t : tag)        (* deprecated write_unknown_size *)
| OpRaw (id : N) (data : list N)
| OpFlush
| OpIntoInner.

Definition flush_if_streaming (st : wst) : wst * wres :=
  if has_known (w_open st) then (st, WOk) else private_flush st.

(* write_advanced: buffer the tag; on a (non-I/O) error restore the working buffer length and
   the open masters; then hand everything over unless a known-size master is open *)
Definition write_advanced (sp : spec) (st : wst) (t : tag) (o : wopts) : wst * wres :=
  match buffer_tag sp t o st with
  | (st1, WOk) => flush_if_streaming st1
  | (st1, WErr e) => (set_open (set_buf st1 (firstn (length (w_buf st)) (w_buf st1))) (w_open st), WErr e)
  | (st1, WPanic) => (st1, WPanic)
  end.

(* flush(): end every open master, innermost first, then hand everything over; when closing one of them fails (its size does
   not fit the width it was started with) the working buffer and the open masters are restored *)
Fixpoint end_all (fuel : nat) (st : wst) : wst * wres :=
  match fuel with
  | O => (st, WOk)
  | S f => match w_open st with
           | [] => (st, WOk)
           | (id, _, _) :: _ => match end_tag st id with
                                | (st1, WOk) => end_all f st1
                                | r => r
                                end
           end
  end.

Definition flush (st : wst) : wst * wres :=
  match end_all (length (w_open st)) st with
  | (st1, WOk) => private_flush st1
  | (_, WErr e) => (st, WErr e)      (* closing failed: nothing has changed (fix D26) *)
  | r => r
  end.

Definition write_raw (st : wst) (id : N) (data : list N) : wst * wres :=
  match write_payload st id O (sized_field (length data) O) data with
  | (st1, WOk) => flush_if_streaming st1
  | r => r
  end.

Definition wstep (sp : spec) (st : wst) (op : wop) : wst * wres :=
  match op with
  | OpWrite t o => write_advanced sp st t o
  | OpWriteUnknown t => write_advanced sp st t {| o_len := None; o_unknown := true |}
  | OpRaw id data => write_raw st id data
  | OpFlush => flush st
  | OpIntoInner => flush st
  end.

(* run a call sequence; a panic ends the run.  Each result is paired with the number of
   bytes the destination holds after the call. *)
Fixpoint wrun (sp : spec) (st : wst) (ops : list wop) : wst * list (wres * nat) :=
  match ops with
  | [] => (st, [])
  | op :: rest =>
      let (st1, r) := wstep sp st op in
      match r with
      | WPanic => (st1, [(r, length (w_dest st1))])
      | _ => let (st2, rs) := wrun sp st1 rest in (st2, (r, length (w_dest st1)) :: rs)
      end
  end.

Definition run_writer (sp : spec) (ops : list wop) (script : list wr) : list (wres * nat) * list N :=
  let (st, rs) := wrun sp (w_init script) ops in (rs, w_dest st).
