(* Model of src/tools.rs (vint codec, fixed-width payload decoders) plus the two
   std functions the reader's payload decoding relies on: f32->f64 widening and
   UTF-8 validity.  Definitions only; proofs live in Proofs/. *)
From Ebml Require Export Base.

Inductive terr : Type :=
| WriteVintOverflow (v : N)
| WriteSignedVintOverflow (z : Z)
| ReadVintOverflow
| ReadU64Overflow (bs : list N)
| ReadI64Overflow (bs : list N)
| ReadF64Mismatch (bs : list N)
| FromUtf8Error (bs : list N).

Definition tres := res terr.

(* ---------------------------------------------------------------- unsigned *)

(* tools.rs check_size_u64: [val >= 1 << (max_length * 7)] *)
Definition check_size_u64 (v : N) (L : nat) : tres unit :=
  if 2 ^ (N.of_nat L * 7) <=? v then Err (WriteVintOverflow v) else Ok tt.

(* tools.rs as_vint_no_check_u64::<L>: [to_be_bytes], [bytes[8-L] |= 1 << (8-L)],
   keep the last L bytes.  The marker bit of byte 8-L is bit 7L of the value. *)
Definition as_vint_no_check (L : nat) (v : N) : list N :=
  be_bytes L (N.lor v (2 ^ (7 * N.of_nat L))).

Definition as_vint_with_length (L : nat) (v : N) : tres (list N) :=
  if ((1 <=? L) && (L <=? 8))%nat then
    bind (check_size_u64 v L) (fun _ => Ok (as_vint_no_check L v))
  else Panic. (* widths 0 and > 8: index/shift panics in the code; not claimed *)

(* tools.rs Vint::as_vint: the threshold ladder *)
Definition as_vint (v : N) : tres (list N) :=
  bind (check_size_u64 v 8) (fun _ =>
    if v <? 2 ^ 7 then Ok (as_vint_no_check 1 v)
    else if v <? 2 ^ 14 then Ok (as_vint_no_check 2 v)
    else if v <? 2 ^ 21 then Ok (as_vint_no_check 3 v)
    else if v <? 2 ^ 28 then Ok (as_vint_no_check 4 v)
    else if v <? 2 ^ 35 then Ok (as_vint_no_check 5 v)
    else if v <? 2 ^ 42 then Ok (as_vint_no_check 6 v)
    else if v <? 2 ^ 49 then Ok (as_vint_no_check 7 v)
    else Ok (as_vint_no_check 8 v)).

(* length announced by a non-zero first byte: [8 - ilog2(b0)] *)
Definition vint_len (b0 : N) : nat := (8 - N.to_nat (N.log2 b0))%nat.

(* tools.rs read_vint *)
Definition read_vint (buf : list N) : tres (option (N * nat)) :=
  match buf with
  | [] => Ok None
  | b0 :: tl =>
      if b0 =? 0 then Err ReadVintOverflow else
      let len := vint_len b0 in
      if (length buf <? len)%nat then Ok None else
      (* [value -= 1 << (8 - length)] and [value <<= 8; value += item] are checked
         u64 operations: underflow / overflow would panic *)
      if b0 <? 2 ^ (8 - N.of_nat len) then Panic else
      let value := from_be_acc (b0 - 2 ^ (8 - N.of_nat len)) (firstn (len - 1) tl) in
      if two64 <=? value then Panic else Ok (Some (value, len))
  end.

(* tools.rs is_vint: non-zero, marker position a multiple of 7 between 7 and 56 *)
Definition is_vint (v : N) : bool :=
  if v =? 0 then false else
  let lg := N.log2 v in
  (0 <? lg) && (lg <=? 56) && (lg mod 7 =? 0).

(* ------------------------------------------------------------------ signed *)

(* tools.rs check_size_i64 *)
Definition check_size_i64 (z : Z) (L : nat) : tres unit :=
  let b := (2 ^ (Z.of_nat L * 7 - 1))%Z in
  if ((z <=? - b) || (b <=? z))%Z then Err (WriteSignedVintOverflow z) else Ok tt.

(* tools.rs as_vint_no_check_i64: the last L bytes of the two's-complement form [u];
   negative: [result[0] &= 0xFF >> (L-1)] keeps the low 9-L bits of the first of the L
   bytes, i.e. the low 8(L-1) + 9-L = 7L+1 bits of [u];
   otherwise [result[0] |= 1 << (8-L)] sets bit 8(L-1) + 8-L = 7L of [u]. *)
Definition as_vint_no_check_i64 (z : Z) (L : nat) : list N :=
  let u := to_u64 z in
  if (z <? 0)%Z then be_bytes L (u mod 2 ^ (7 * N.of_nat L + 1))
  else be_bytes L (N.lor u (2 ^ (7 * N.of_nat L))).

Definition fits_signed (z : Z) (L : nat) : bool :=
  ((- 2 ^ (7 * Z.of_nat L - 1) <=? z) && (z <? 2 ^ (7 * Z.of_nat L - 1)))%Z.

(* the [while length <= 8] search of as_signed_vint *)
Fixpoint find_signed_len (z : Z) (L fuel : nat) : nat :=
  match fuel with
  | O => L
  | S f => if fits_signed z L then L else find_signed_len z (S L) f
  end.

Definition as_signed_vint (z : Z) : tres (list N) :=
  bind (check_size_i64 z 8) (fun _ =>
    let L := find_signed_len z 1 8 in
    if (L <=? 8)%nat then Ok (as_vint_no_check_i64 z L) else Panic).

Definition as_signed_vint_with_length (L : nat) (z : Z) : tres (list N) :=
  if ((1 <=? L) && (L <=? 8))%nat then
    bind (check_size_i64 z L) (fun _ => Ok (as_vint_no_check_i64 z L))
  else Panic.

(* tools.rs read_signed_vint.  Sign bit: [buffer[1] & 0x80] for length 8, else
   [buffer[0] & (0x80 >> length)].  Start value: negative
   [(b0 as i64) | (!0 << (8-length))], otherwise [(b0 as i64) & (0xFF >> length)]
   with the shift done on i64 (so length 8 gives mask 0). *)
Definition read_signed_vint (buf : list N) : tres (option (Z * nat)) :=
  match buf with
  | [] => Ok None
  | b0 :: tl =>
      if b0 =? 0 then Err ReadVintOverflow else
      let len := vint_len b0 in
      if (length buf <? len)%nat then Ok None else
      let neg := if (len =? 8)%nat
                 then match tl with b1 :: _ => N.testbit b1 7 | [] => false end
                 else N.testbit b0 (7 - N.of_nat len) in
      let value := if neg then Z.lor (Z.of_N b0) (- 2 ^ (8 - Z.of_nat len))%Z
                   else Z.of_N (N.land b0 (N.ones (8 - N.of_nat len))) in
      Ok (Some (zfrom_be_acc value (firstn (len - 1) tl), len))
  end.

(* ------------------------------------------------- fixed-width decoders *)

Definition arr_to_u64 (a : list N) : tres N :=
  if (8 <? length a)%nat then Err (ReadU64Overflow a) else Ok (from_be a).

(* tools.rs arr_to_i64: empty slice is 0; [arr[0] > 127] selects the negative
   branch: [-((1 << 8*len) - value)], or [i64::from_be_bytes] for 8 bytes. *)
Definition arr_to_i64 (a : list N) : tres Z :=
  if (8 <? length a)%nat then Err (ReadI64Overflow a) else
  match a with
  | [] => Ok 0%Z
  | b0 :: _ =>
      if 127 <? b0 then
        if (length a =? 8)%nat then Ok (of_u64 (from_be a))
        else Ok (- (2 ^ (8 * Z.of_nat (length a)) - Z.of_N (from_be a)))%Z
      else Ok (Z.of_N (from_be a))
  end.

(* f32 bit pattern -> f64 bit pattern of the same real number ([as f64]).
   NaNs keep sign and payload (shifted) with the quiet bit forced; callers
   canonicalise NaNs before comparing. *)
Definition widen32 (x : N) : N :=
  let s := x / 2 ^ 31 in
  let e := (x / 2 ^ 23) mod 256 in
  let m := x mod 2 ^ 23 in
  let sign := s * 2 ^ 63 in
  if e =? 255 then
    if m =? 0 then sign + 2047 * 2 ^ 52
    else sign + 2047 * 2 ^ 52 + N.lor (m * 2 ^ 29) (2 ^ 51)
  else if e =? 0 then
    if m =? 0 then sign
    else let k := N.log2 m in
         sign + (k + 874) * 2 ^ 52 + (m - 2 ^ k) * 2 ^ (52 - k)
  else sign + (e + 896) * 2 ^ 52 + m * 2 ^ 29.

Definition is_nan64 (x : N) : bool :=
  ((x / 2 ^ 52) mod 2048 =? 2047) && negb (x mod 2 ^ 52 =? 0).

Definition arr_to_f64 (a : list N) : tres N :=
  if (length a =? 4)%nat then Ok (widen32 (from_be a))
  else if (length a =? 8)%nat then Ok (from_be a)
  else Err (ReadF64Mismatch a).

(* ------------------------------------------------------------- UTF-8 *)
(* Acceptance of std::str::from_utf8 (Unicode table 3-7): no overlongs, no
   surrogates, nothing above U+10FFFF. *)
Definition in_range (b lo hi : N) : bool := (lo <=? b) && (b <=? hi).
Definition cont (b : N) : bool := in_range b 128 191.

Fixpoint utf8_valid_fuel (fuel : nat) (l : list N) : bool :=
  match fuel with
  | O => match l with [] => true | _ => false end
  | S f =>
    match l with
    | [] => true
    | b0 :: r =>
      if b0 <? 128 then utf8_valid_fuel f r
      else if in_range b0 194 223 then
        match r with b1 :: r' => cont b1 && utf8_valid_fuel f r' | _ => false end
      else if b0 =? 224 then
        match r with b1 :: b2 :: r' => in_range b1 160 191 && cont b2 && utf8_valid_fuel f r' | _ => false end
      else if in_range b0 225 236 || in_range b0 238 239 then
        match r with b1 :: b2 :: r' => cont b1 && cont b2 && utf8_valid_fuel f r' | _ => false end
      else if b0 =? 237 then
        match r with b1 :: b2 :: r' => in_range b1 128 159 && cont b2 && utf8_valid_fuel f r' | _ => false end
      else if b0 =? 240 then
        match r with b1 :: b2 :: b3 :: r' => in_range b1 144 191 && cont b2 && cont b3 && utf8_valid_fuel f r' | _ => false end
      else if in_range b0 241 243 then
        match r with b1 :: b2 :: b3 :: r' => cont b1 && cont b2 && cont b3 && utf8_valid_fuel f r' | _ => false end
      else if b0 =? 244 then
        match r with b1 :: b2 :: b3 :: r' => in_range b1 128 143 && cont b2 && cont b3 && utf8_valid_fuel f r' | _ => false end
      else false
    end
  end.
Definition utf8_valid (l : list N) : bool := utf8_valid_fuel (length l) l.
