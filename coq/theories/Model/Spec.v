(* Model of specification/src/lib.rs (the two traits as implemented by a table, which is
   what the derive macro generates and what the harness' DynSpec implements) and of
   src/spec_util.rs (is_parent, is_sibling, is_ended_by, count_ended_tags, path_matches,
   validate_tag_path).  Definitions only. *)
From Ebml Require Export Base Tools.

Inductive dtype : Type := DMaster | DUInt | DSInt | DUtf8 | DBinary | DFloat.

Definition dtype_eqb (a b : dtype) : bool :=
  match a, b with
  | DMaster, DMaster | DUInt, DUInt | DSInt, DSInt | DUtf8, DUtf8 | DBinary, DBinary | DFloat, DFloat => true
  | _, _ => false
  end.

(* PathPart: a named parent, or a global placeholder (min, max) *)
Inductive part : Type := PId (id : N) | PGlobal (mn mx : option N).

Definition optN_eqb (a b : option N) : bool :=
  match a, b with Some x, Some y => x =? y | None, None => true | _, _ => false end.

Definition part_eqb (a b : part) : bool :=
  match a, b with
  | PId x, PId y => x =? y
  | PGlobal a1 a2, PGlobal b1 b2 => optN_eqb a1 b1 && optN_eqb a2 b2
  | _, _ => false
  end.

Record entry : Type := { e_id : N; e_ty : dtype; e_path : list part }.
Definition spec : Type := list entry.   (* first match wins, like the generated match *)

Fixpoint find_entry (sp : spec) (id : N) : option entry :=
  match sp with
  | [] => None
  | e :: tl => if e_id e =? id then Some e else find_entry tl id
  end.

(* EbmlSpecification::get_tag_data_type / get_path_by_id *)
Definition get_type (sp : spec) (id : N) : option dtype :=
  match find_entry sp id with Some e => Some (e_ty e) | None => None end.
Definition get_path (sp : spec) (id : N) : list part :=
  match find_entry sp id with Some e => e_path e | None => [] end.

Definition is_master_ty (t : option dtype) : bool :=
  match t with Some DMaster => true | _ => false end.

(* Tag values.  Floats are IEEE-754 bit patterns; strings are their UTF-8 bytes. *)
Inductive value : Type :=
| VU (n : N) | VI (z : Z) | VF (bits : N) | VS (bs : list N) | VB (bs : list N) | VRaw (bs : list N).

Inductive tag : Type :=
| TElem (id : N) (v : value)
| TStart (id : N)
| TEnd (id : N)
| TFull (id : N) (cs : list tag).

Definition tag_id (t : tag) : N :=
  match t with TElem id _ | TStart id | TEnd id | TFull id _ => id end.

(* ----------------------------------------------------------- spec_util.rs *)

Definition is_parent (sp : spec) (cur test : N) : bool :=
  existsb (fun p => match p with PId i => i =? test | PGlobal _ _ => false end) (get_path sp cur).

(* only ids the specification knows can be siblings (an unknown id reports the empty path) *)
Definition is_sibling (sp : spec) (cur test : N) : bool :=
  match get_type sp test with Some _ => true | None => false end &&
  list_eqb part_eqb (get_path sp cur) (get_path sp test).

Definition is_root (sp : spec) (test : N) : bool :=
  match get_type sp test with
  | Some _ => match get_path sp test with [] => true | _ => false end
  | None => false
  end.

Definition is_ended_by (sp : spec) (cur test : N) : bool :=
  is_parent sp cur test || is_sibling sp cur test || is_root sp test.

(* count_ended_tags on the open masters, innermost first, each with "size is known".
   Only the maximal run of unknown-size masters at the top of the stack is considered; if
   the element ends one of them (the outermost such one decides), that one and everything
   nested inside of it end. *)
Fixpoint count_ended (sp : spec) (tid : N) (stk : list (N * bool)) : nat :=
  match stk with
  | [] => O
  | (id, known) :: tl =>
      if known then O else
      let c := count_ended sp tid tl in
      if (0 <? c)%nat then S c else if is_ended_by sp id tid then 1%nat else O
  end.

Definition optN_default (d : N) (o : option N) : N := match o with Some x => x | None => d end.

(* path_matches: the declared path read as a pattern over the chain of open masters
   (outermost first). *)
Fixpoint path_matches (path : list part) (doc : list N) {struct path} : bool :=
  match path with
  | [] => match doc with [] => true | _ => false end
  | PId id :: rest =>
      match doc with
      | d :: doc' => (d =? id) && path_matches rest doc'
      | [] => false
      end
  | PGlobal mn mx :: rest =>
      let avail := N.of_nat (length doc) in
      let lo := optN_default 0 mn in
      let hi := match mx with Some m => N.min m avail | None => avail end in
      if hi <? lo then false else
      existsb (fun k => path_matches rest (skipn k doc))
              (seq (N.to_nat lo) (S (N.to_nat hi) - N.to_nat lo))
  end.

(* validate_tag_path: unknown-size masters ended by the element are no longer part of
   its path *)
Definition validate_tag_path (sp : spec) (tid : N) (stk : list (N * bool)) : bool :=
  let remaining := skipn (count_ended sp tid stk) stk in
  path_matches (get_path sp tid) (rev (map fst remaining)).
