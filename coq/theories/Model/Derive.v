(* Model of the derive crate (specification-derive/src/{ast,attr,pathing,easy_ebml}.rs) on an
   abstract syntax of enum declarations.  Definitions only.

   Not modelled: syn tokenisation, spans, error texts (every rejection is [None]), quote!
   hygiene, rustc (which rejects duplicate variant names, e.g. a user variant called Crc32,
   Void or RawTag, after the macro has accepted them).

   Variant names are numbers.  Three names are reserved for the variants the macro adds:
   0 = Crc32, 1 = Void, 2 = RawTag (the harness prints every other name n as the identifier Vn). *)
From Ebml Require Export Spec.

(* pathing.rs: PathPart::Ident / PathPart::Global *)
Inductive ppart : Type := PPIdent (name : N) | PPGlobal (mn mx : option N).

(* the attributes of a variant, in source order.  [AType None] = a data_type whose last path
   segment is none of the six type names; [AOther] = any attribute the macro does not look at *)
Inductive attr : Type :=
| AId (id : N)
| AType (ty : option dtype)
| APath (parts : list ppart)
| AOther.

Record variant : Type := { v_name : N; v_attrs : list attr }.
Definition decl : Type := list variant.

Definition crc32_name : N := 0.
Definition void_name : N := 1.
Definition rawtag_name : N := 2.

(* attr.rs impl_ebml_specification: the two variants are pushed to the END of the enum,
   unconditionally (a user variant with the same id then fails the duplicate-id scan; one with
   the same name but another id is accepted by the macro and shadowed in name lookups) *)
Definition crc32_variant : variant :=
  {| v_name := crc32_name; v_attrs := [AId 191; AType (Some DBinary); APath [PPGlobal (Some 1) None]] |}.
Definition void_variant : variant :=
  {| v_name := void_name; v_attrs := [AId 236; AType (Some DBinary); APath [PPGlobal None None]] |}.
Definition with_globals (d : decl) : decl := d ++ [crc32_variant; void_variant].

(* ------------------------------------------------------------ ast.rs Variant::from_syn *)

Definition ppart_eqb (a b : ppart) : bool :=
  match a, b with
  | PPIdent x, PPIdent y => x =? y
  | PPGlobal a1 a2, PPGlobal b1 b2 => optN_eqb a1 b1 && optN_eqb a2 b2
  | _, _ => false
  end.

Definition fits_u64 (o : option N) : bool := match o with Some x => x <=? u64_max | None => true end.

(* the loop over the parts of a doc_path: identifiers must name a variant of the enum, a
   placeholder's maximum must not be 0, two placeholders must not follow each other
   (base10_parse::<u64> of a bound fails for a literal that does not fit) *)
Fixpoint check_parts (names : list N) (last_global : bool) (ps : list ppart) : bool :=
  match ps with
  | [] => true
  | PPIdent n :: tl => existsb (N.eqb n) names && check_parts names false tl
  | PPGlobal mn mx :: tl =>
      fits_u64 mn && fits_u64 mx &&
      negb (optN_eqb mx (Some 0)) && negb last_global && check_parts names true tl
  end.

Record acc : Type := { a_id : option N; a_ty : option dtype; a_path : option (list ppart) }.
Definition acc0 : acc := {| a_id := None; a_ty := None; a_path := None |}.

Definition attr_step (names : list N) (a : acc) (x : attr) : option acc :=
  match x with
  | AId i =>
      match a_id a with
      | Some _ => None                                   (* duplicate #[id] *)
      | None => if i <=? u64_max then Some {| a_id := Some i; a_ty := a_ty a; a_path := a_path a |} else None
      end
  | AType t =>
      match a_ty a with
      | Some _ => None                                   (* duplicate #[data_type] *)
      | None => match t with
                | Some ty => Some {| a_id := a_id a; a_ty := Some ty; a_path := a_path a |}
                | None => None                           (* unrecognized TagDataType value *)
                end
      end
  | APath ps =>
      match a_path a with
      | Some _ => None                                   (* duplicate #[doc_path] *)
      | None => match ps with
                | [] => None                             (* parse_separated_nonempty *)
                | _ => if check_parts names false ps
                       then Some {| a_id := a_id a; a_ty := a_ty a; a_path := Some ps |} else None
                end
      end
  | AOther => Some a
  end.

Fixpoint scan_attrs (names : list N) (a : acc) (l : list attr) : option acc :=
  match l with
  | [] => Some a
  | x :: tl => match attr_step names a x with None => None | Some a' => scan_attrs names a' tl end
  end.

(* ast::Variant after from_syn *)
Record pvariant : Type := { pv_name : N; pv_id : N; pv_ty : dtype; pv_path : option (list ppart) }.

Definition variant_from_syn (names : list N) (v : variant) : option pvariant :=
  match scan_attrs names acc0 (v_attrs v) with
  | None => None
  | Some a =>
      match a_id a, a_ty a with
      | Some i, Some t => Some {| pv_name := v_name v; pv_id := i; pv_ty := t; pv_path := a_path a |}
      | _, _ => None                                     (* #[id] / #[data_type] is required *)
      end
  end.

Fixpoint map_opt {A B} (f : A -> option B) (l : list A) : option (list B) :=
  match l with
  | [] => Some []
  | x :: tl => match f x with
               | None => None
               | Some y => match map_opt f tl with None => None | Some r => Some (y :: r) end
               end
  end.

(* ------------------------------------------------------------ attr.rs: duplicate ids *)

Fixpoint has_dup (l : list N) : bool :=
  match l with [] => false | x :: tl => existsb (N.eqb x) tl || has_dup tl end.

(* ------------------------------------------------------------ attr.rs validate_path *)

(* HashMap<&Ident, &Variant> collected from the variants in order: a later variant with the
   same name replaces an earlier one *)
Fixpoint lookup_name (pvs : list pvariant) (n : N) : option pvariant :=
  match pvs with
  | [] => None
  | v :: tl => match lookup_name tl n with
               | Some r => Some r
               | None => if pv_name v =? n then Some v else None
               end
  end.

(* rposition of the last identifier, with its name *)
Fixpoint last_ident (ps : list ppart) : option (nat * N) :=
  match ps with
  | [] => None
  | p :: tl => match last_ident tl with
               | Some (k, n) => Some (S k, n)
               | None => match p with PPIdent n => Some (O, n) | PPGlobal _ _ => None end
               end
  end.

Definition path_or_empty (v : pvariant) : list ppart :=
  match pv_path v with Some p => p | None => [] end.

(* the recursion of the code is on the parent; it terminates because the parent's path must be
   strictly shorter.  [fuel] = 1 + length of the path is always enough (FuelEnough lemma in
   Proofs/DeriveProofs.v); running out of fuel rejects. *)
Fixpoint validate_path (pvs : list pvariant) (fuel : nat) (origin : pvariant) : bool :=
  match fuel with
  | O => false
  | S fuel' =>
      match pv_path origin with
      | None => true
      | Some parts =>
          match last_ident parts with
          | None => true                                   (* only placeholders: no specific parent *)
          | Some (idx, pname) =>
              match lookup_name pvs pname with
              | None => false                              (* unwrap; unreachable after from_syn *)
              | Some parent =>
                  dtype_eqb (pv_ty parent) DMaster &&
                  (length (path_or_empty parent) =? idx)%nat &&
                  list_eqb ppart_eqb (path_or_empty parent) (firstn idx parts) &&
                  validate_path pvs fuel' parent
              end
          end
      end
  end.

Definition validate_all (pvs : list pvariant) : bool :=
  forallb (fun o => match pv_path o with
                    | Some p => validate_path pvs (S (length p)) o
                    | None => true
                    end) pvs.

(* ------------------------------------------------------------ attr.rs get_impl / modify_orig *)

Definition resolve (pvs : list pvariant) (p : ppart) : part :=
  match p with
  | PPIdent n => PId (match lookup_name pvs n with Some v => pv_id v | None => 0 end)
  | PPGlobal a b => PGlobal a b
  end.

(* the arms of the generated functions, in generated order; `_ => None` / `_ => &[]` last *)
Definition gen_types (pvs : list pvariant) : list (N * dtype) := map (fun v => (pv_id v, pv_ty v)) pvs.

Definition gen_paths (pvs : list pvariant) : list (N * list part) :=
  flat_map (fun v => match pv_path v with
                     | Some p => [(pv_id v, map (resolve pvs) p)]
                     | None => []
                     end) pvs.

(* get_<ty>_tag: id => Some(Enum::name(data)) *)
Definition gen_ctor (pvs : list pvariant) (ty : dtype) : list (N * N) :=
  map (fun v => (pv_id v, pv_name v)) (filter (fun v => dtype_eqb (pv_ty v) ty) pvs).

(* as_<ty>: Enum::name(val) => Some(val); as_binary has the additional RawTag arm *)
Definition gen_acc (pvs : list pvariant) (ty : dtype) : list N :=
  map pv_name (filter (fun v => dtype_eqb (pv_ty v) ty) pvs)
  ++ (if dtype_eqb ty DBinary then [rawtag_name] else []).

(* get_id: Enum::name(_) => id, ..., Enum::RawTag(id, _) => *id  (None = the tag's own id) *)
Definition gen_get_id (pvs : list pvariant) : list (N * option N) :=
  map (fun v => (pv_name v, Some (pv_id v))) pvs ++ [(rawtag_name, None)].

(* the rewritten enum: every variant gets one field of its type's payload; RawTag(u64, Vec<u8>)
   is pushed last (None) *)
Definition gen_enum (pvs : list pvariant) : list (N * option dtype) :=
  map (fun v => (pv_name v, Some (pv_ty v))) pvs ++ [(rawtag_name, None)].

Fixpoint assoc_first {A} (l : list (N * A)) (k : N) : option A :=
  match l with
  | [] => None
  | (k', a) :: tl => if k' =? k then Some a else assoc_first tl k
  end.

(* the specification table the two generated match expressions implement *)
Definition get_impl (pvs : list pvariant) : spec :=
  map (fun it => {| e_id := fst it; e_ty := snd it;
                    e_path := match assoc_first (gen_paths pvs) (fst it) with Some p => p | None => [] end |})
      (gen_types pvs).

(* behaviour of the generated constructors / accessors on the abstract tag values
   "variant [name] carrying a payload of kind [k]" (k = None: the two-field RawTag) *)
Definition ctor_result (pvs : list pvariant) (ty : dtype) (id : N) : option N :=
  assoc_first (gen_ctor pvs ty) id.
Definition acc_result (pvs : list pvariant) (ty : dtype) (name : N) : bool :=
  existsb (N.eqb name) (gen_acc pvs ty).
(* get_id of variant [name]; [self_id] is the id stored in a RawTag *)
Definition get_id_result (pvs : list pvariant) (name self_id : N) : option N :=
  match assoc_first (gen_get_id pvs) name with
  | Some (Some i) => Some i
  | Some None => Some self_id
  | None => None
  end.

(* ------------------------------------------------------------ the whole macro *)

Definition derive_full (d : decl) : option (list pvariant) :=
  let d' := with_globals d in
  let names := map v_name d' in
  match map_opt (variant_from_syn names) d' with
  | None => None
  | Some pvs =>
      if has_dup (map pv_id pvs) then None
      else if validate_all pvs then Some pvs else None
  end.

Definition derive (d : decl) : option spec :=
  match derive_full d with Some pvs => Some (get_impl pvs) | None => None end.

(* every identifier in a path of the table names a master of the table: what the iterator's
   implied-parent seeding ("Bad specification implementation" panic) relies on *)
Definition spec_ok (sp : spec) : Prop :=
  forall e i, In e sp -> In (PId i) (e_path e) -> get_type sp i = Some DMaster.

(* ------------------------------------------------------------ easy_ebml.rs *)

(* `Path/To/Name : Type = id`; the last path part is the variant's name (a placeholder there
   is rejected), the rest becomes #[doc_path(...)] unless it is empty *)
Record easy_variant : Type := { ev_path : list ppart; ev_ty : option dtype; ev_id : N }.

Definition easy_lower (ev : easy_variant) : option variant :=
  match rev (ev_path ev) with
  | [] => None
  | PPGlobal _ _ :: _ => None
  | PPIdent name :: rpre =>
      Some {| v_name := name;
              v_attrs := [AId (ev_id ev); AType (ev_ty ev)] ++
                         match rpre with [] => [] | _ => [APath (rev rpre)] end |}
  end.

Definition easy_derive (evs : list easy_variant) : option spec :=
  match map_opt easy_lower evs with Some d => derive d | None => None end.
