(* Base definitions shared by every model file: byte strings as [list N],
   big-endian conversion, the three-way result type (Ok / Err / Panic). *)
From Coq Require Export NArith ZArith Arith List Bool.
Export ListNotations.
Open Scope N_scope.

Arguments N.add : simpl never. Arguments N.mul : simpl never. Arguments N.pow : simpl never.
Arguments N.div : simpl never. Arguments N.modulo : simpl never. Arguments N.log2 : simpl never.
Arguments N.sub : simpl never. Arguments N.of_nat : simpl never. Arguments N.lor : simpl never.
Arguments N.land : simpl never. Arguments N.shiftl : simpl never. Arguments N.shiftr : simpl never.
Arguments N.eqb : simpl never. Arguments N.ltb : simpl never. Arguments N.leb : simpl never.
Arguments Z.add : simpl never. Arguments Z.mul : simpl never. Arguments Z.pow : simpl never.
Arguments Z.div : simpl never. Arguments Z.modulo : simpl never. Arguments Z.sub : simpl never.
Arguments Z.opp : simpl never. Arguments Z.of_N : simpl never. Arguments Z.to_N : simpl never.
Arguments Z.lor : simpl never. Arguments Z.land : simpl never.
Arguments Z.eqb : simpl never. Arguments Z.ltb : simpl never. Arguments Z.leb : simpl never.

(* A byte is an [N] below 256; well-formedness is a side condition. *)
Definition wf_bytes (l : list N) : Prop := Forall (fun b => b < 256) l.

(* [be_bytes w v]: the [w] low-order bytes of [v], most significant first
   (the tail of Rust's [to_be_bytes]). *)
Fixpoint be_bytes (w : nat) (v : N) : list N :=
  match w with O => [] | S w' => be_bytes w' (v / 256) ++ [v mod 256] end.

(* [from_be_acc acc l]: the loop [acc = acc * 256 + b] over [l]. *)
Definition from_be_acc (acc : N) (l : list N) : N := fold_left (fun a b => a * 256 + b) l acc.
Definition from_be (l : list N) : N := from_be_acc 0 l.

Definition zfrom_be_acc (acc : Z) (l : list N) : Z :=
  fold_left (fun a b => (a * 256 + Z.of_N b)%Z) l acc.

(* Outcome of a modelled Rust function: a value, an error value, or a panic
   (slice index out of range, unwrap/expect on None/Err, explicit panic!,
   arithmetic or shift overflow with overflow checks on). *)
Inductive res (E A : Type) : Type := Ok (a : A) | Err (e : E) | Panic.
Arguments Ok {E A}. Arguments Err {E A}. Arguments Panic {E A}.

Definition bind {E A B} (r : res E A) (f : A -> res E B) : res E B :=
  match r with Ok a => f a | Err e => Err e | Panic => Panic end.

Definition u64_max : N := 18446744073709551615.
Definition two64 : N := 18446744073709551616.

(* two's complement view of an i64 as u64 and back *)
Definition to_u64 (z : Z) : N := Z.to_N (z mod 18446744073709551616)%Z.
Definition of_u64 (n : N) : Z :=
  if n <? 9223372036854775808 then Z.of_N n else (Z.of_N n - 18446744073709551616)%Z.

Fixpoint list_eqb {A} (eqb : A -> A -> bool) (a b : list A) : bool :=
  match a, b with
  | [], [] => true
  | x :: a', y :: b' => eqb x y && list_eqb eqb a' b'
  | _, _ => false
  end.
