(* The abstract reader: the same parser as Reader.v with the whole remaining input visible (no buffer, no capacity, no read
   script).  It is the specification layer the buffered machine is proved to refine on sources that never pause or fail
   (Proofs/Refine.v), and the object the parse-level theorems are stated about.  Definitions only. *)
From Ebml Require Export Reader.

Record pst : Type := {
  b_bytes : list N;            (* input from the cursor to the end *)
  b_off : N;                   (* current_offset() *)
  b_stack : list frame;
  b_queue : list qitem;
  b_last : N;
  b_det : bool;
  b_bad : option bad;
  b_fuel : nat
}.

Definition pset_stack (st : pst) (stk : list frame) (det : bool) : pst :=
  {| b_bytes := b_bytes st; b_off := b_off st; b_stack := stk; b_queue := b_queue st; b_last := b_last st; b_det := det;
     b_bad := b_bad st; b_fuel := b_fuel st |}.
Definition pset_queue (st : pst) (q : list qitem) : pst :=
  {| b_bytes := b_bytes st; b_off := b_off st; b_stack := b_stack st; b_queue := q; b_last := b_last st; b_det := b_det st;
     b_bad := b_bad st; b_fuel := b_fuel st |}.
Definition pset_last (st : pst) (l : N) : pst :=
  {| b_bytes := b_bytes st; b_off := b_off st; b_stack := b_stack st; b_queue := b_queue st; b_last := l; b_det := b_det st;
     b_bad := b_bad st; b_fuel := b_fuel st |}.
Definition pset_bad (st : pst) (b : bad) : pst :=
  {| b_bytes := b_bytes st; b_off := b_off st; b_stack := b_stack st; b_queue := b_queue st; b_last := b_last st; b_det := b_det st;
     b_bad := match b_bad st with Some x => Some x | None => Some b end; b_fuel := b_fuel st |}.
Definition ppush_q (st : pst) (items : list qitem) : pst := pset_queue st (b_queue st ++ items).

(* advance the cursor by k bytes (k <= number of remaining bytes) *)
Definition pconsume (st : pst) (k : N) : pst :=
  {| b_bytes := snd (splitN k (b_bytes st)); b_off := b_off st + k; b_stack := b_stack st; b_queue := b_queue st;
     b_last := b_last st; b_det := b_det st; b_bad := b_bad st; b_fuel := b_fuel st |}.

Definition blen (st : pst) : N := N.of_nat (length (b_bytes st)).

Definition p_tag_id (st : pst) : res rerr (N * nat) :=
  match b_bytes st with
  | [] => Err (REof (b_off st) None None None)
  | b0 :: _ =>
      if b0 =? 0 then Ok (0, 1%nat) else
      let len := vint_len b0 in
      if blen st <? N.of_nat len then Err (REof (b_off st) None None None)
      else Ok (from_be (firstn len (b_bytes st)), len)
  end.

Definition p_invalid_tag_size (st : pst) (size : N) : bool :=
  existsb (fun f => match f_size f with SKnown n => f_data f + n <? b_off st + size | SUnknown => false end) (b_stack st).

Definition p_header (c : cfg) (st : pst) : pst * res rerr (N * option dtype * esize * nat) :=
  match p_tag_id st with
  | Err e => (st, Err e)
  | Panic => (st, Panic)
  | Ok (id, id_len) =>
  let ty := get_type (c_sp c) id in
  let pos := b_off st in
  match read_vint (firstn 8 (skipn id_len (b_bytes st))) with
  | Panic => (st, Panic)
  | Err _ => (st, Err (RInvalidTagData pos id))
  | Ok None => (st, Err (REof pos (Some id) None None))
  | Ok (Some (size, size_len)) =>
  if is_numeric ty && (8 <? size) then (st, Err (RInvalidTagData pos id)) else
  let esz := ebml_size size size_len in
  let header_len := (id_len + size_len)%nat in
  if negb (c_allow_id c) && match ty with None => true | Some _ => false end then (st, Err (RInvalidTagId pos id)) else
  let hier : pst * option rerr :=
    if negb (c_allow_hier c) && match ty with None => false | Some _ => true end then
      let st1 :=
        if b_det st then Some st else
        let p := get_path (c_sp c) id in
        if all_ids p then
          match implied_stack (c_sp c) p with
          | Some stk => Some (pset_stack st (b_stack st ++ stk) true)
          | None => None
          end
        else Some st in
      match st1 with
      | None => (pset_bad st BPanic, None)
      | Some st1 =>
          if b_det st1 && negb (validate_tag_path (c_sp c) id (stack_view (b_stack st1)))
          then (st1, Some (RHierarchy id (match b_stack st1 with f :: _ => Some (f_id f) | [] => None end)))
          else (st1, None)
      end
    else (st, None) in
  match hier with
  | (st, Some e) => (st, Err e)
  | (st, None) =>
  match b_bad st with Some _ => (st, Panic) | None =>
  let known_size := match esz with SKnown n => n | SUnknown => 0 end in
  if negb (c_allow_over c) && p_invalid_tag_size st (N.of_nat header_len + known_size)
  then (st, Err (ROversized pos id known_size)) else
  match c_max c, esz with
  | Some m, SKnown n => if m <? n then (st, Err (RInvalidSize pos id n)) else (st, Ok (id, ty, esz, header_len))
  | _, _ => (st, Ok (id, ty, esz, header_len))
  end
  end end end end.

Definition p_read_tag (c : cfg) (st0 : pst) : pst * res rerr ptag :=
  let tag_start := b_off st0 in
  match p_header c st0 with
  | (st, Err e) => (st, Err e)
  | (st, Panic) => (st, Panic)
  | (st, Ok (id, ty, esz, header_len)) =>
  let st := pconsume st (N.of_nat header_len) in
  let data_start := b_off st in
  let mk (st : pst) (t : tag) := (st, Ok {| p_tag := t; p_size := esz; p_start := tag_start; p_data := data_start |}) in
  match ty with
  | Some DMaster => mk st (TStart id)
  | _ =>
    match esz with
    | SUnknown => (st, Err (RInvalidTagData tag_start id))
    | SKnown size =>
      if blen st <? size then (st, Err (REof tag_start (Some id) (Some size) (Some (b_bytes st)))) else
        let raw := fst (splitN size (b_bytes st)) in
        let st := pconsume st size in
        match ty with
        | Some DUInt => match arr_to_u64 raw with Ok v => mk st (TElem id (VU v)) | Err _ => (st, Err (RTagData id KU64)) | Panic => (st, Panic) end
        | Some DSInt => match arr_to_i64 raw with Ok v => mk st (TElem id (VI v)) | Err _ => (st, Err (RTagData id KI64)) | Panic => (st, Panic) end
        | Some DUtf8 => if utf8_valid raw then mk st (TElem id (VS raw)) else (st, Err (RTagData id KUtf8))
        | Some DBinary => mk st (TElem id (VB raw))
        | Some DFloat => match arr_to_f64 raw with Ok v => mk st (TElem id (VF v)) | Err _ => (st, Err (RTagData id KF64)) | Panic => (st, Panic) end
        | Some DMaster => mk st (TStart id)
        | None => mk st (TElem id (VRaw raw))
        end
    end
  end
  end.

Definition p_read_tag_checked (c : cfg) (st : pst) : pst * option (res rerr ptag) :=
  match b_bytes st with
  | [] => (st, None)
  | _ => let (st2, r) := p_read_tag c st in (st2, Some r)
  end.

Definition ppop_frames (st : pst) (k : nat) : pst :=
  ppush_q (pset_stack st (skipn k (b_stack st)) (b_det st)) (map end_item (firstn k (b_stack st))).

Fixpoint p_read_next (fuel : nat) (c : cfg) (st : pst) {struct fuel} : pst :=
  match fuel with
  | O => pset_bad st BFuel
  | S f =>
    let st := ppop_frames st (exhausted_count (b_off st) (b_stack st)) in
    match p_read_tag_checked c st with
    | (st, Some (Ok p)) =>
        let tid := tag_id (p_tag p) in
        let st := ppop_frames st (count_ended (c_sp c) tid (stack_view (b_stack st))) in
        match p_tag p with
        | TStart _ =>
            let st := pset_stack st ({| f_id := tid; f_size := p_size p; f_start := p_start p; f_data := p_data p |} :: b_stack st) (b_det st) in
            if mem_id tid (c_buffered c) then p_buffer_master f c tid (p_start p) (length (b_queue st)) (length (b_queue st)) st
            else ppush_q st [QOk (p_tag p) (p_start p)]
        | _ => ppush_q st [QOk (p_tag p) (p_start p)]
        end
    | (st, Some (Err e)) => ppush_q st [QErr e]
    | (st, Some Panic) => pset_bad st BPanic
    | (st, None) => if c_emit_eof c then ppop_frames st (length (b_stack st)) else st
    end
  end
with p_buffer_master (fuel : nat) (c : cfg) (tid tag_start : N) (pre position : nat) (st : pst) {struct fuel} : pst :=
  match fuel with
  | O => pset_bad st BFuel
  | S f =>
    let finish (st : pst) (position : nat) : pst :=
      let kept := firstn pre (b_queue st) in
      let children := skipn pre (b_queue st) in
      let split_to := (position - pre)%nat in
      match nth_error children split_to with
      | None => pset_bad st BPanic
      | Some (QOk _ _) =>
          let full := roll_up_children tid (qtags (firstn split_to children)) in
          pset_queue st (kept ++ [QOk full tag_start] ++ skipn (S split_to) children)
      | Some (QErr e) => pset_queue st (kept ++ [QErr e])
      end in
    if (length (b_queue st) <=? position)%nat then
      let st1 := p_read_next f c st in
      match b_bad st1 with Some _ => st1 | None =>
      if (length (b_queue st1) <=? position)%nat then
        ppush_q st1 [QErr (REof tag_start (Some tid) None None)]
      else
        let (p, found) := scan_queue tid (skipn position (b_queue st1)) position in
        if found then finish st1 p else p_buffer_master f c tid tag_start pre p st1
      end
    else
      let (p, found) := scan_queue tid (skipn position (b_queue st)) position in
      if found then finish st p else p_buffer_master f c tid tag_start pre p st
  end.

Definition p_next (c : cfg) (st : pst) : pst * nres :=
  let st := match b_queue st with [] => p_read_next (b_fuel st) c st | _ => st end in
  match b_queue st with
  | [] => (st, NNone)
  | QOk t off :: q => (pset_last (pset_queue st q) off, NItem t off)
  | QErr e :: q => (pset_queue st q, NErr e)
  end.

Fixpoint p_recover_loop (fuel : nat) (c : cfg) (st : pst) : pst * option rerr :=
  match fuel with
  | O => (pset_bad st BFuel, None)
  | S f =>
    match b_bytes st with
    | [] => (st, Some (REof (b_off st) None None None))
    | _ =>
        let st := pconsume st 1 in
        match p_header c st with
        | (st, Ok _) => (st, None)
        | (st, Panic) => (pset_bad st BPanic, None)
        | (st, Err _) => p_recover_loop f c st
        end
    end
  end.

Definition p_try_recover (c : cfg) (st : pst) : pst * option rerr :=
  let original := b_off st in
  match p_recover_loop (b_fuel st) c st with
  | (st, Some e) => (st, Some e)
  | (st, None) => (pset_stack st (grow_frames (b_off st - original) (b_stack st)) (b_det st), None)
  end.

Definition p_init (input : list N) : pst :=
  {| b_bytes := input; b_off := 0; b_stack := []; b_queue := []; b_last := 0; b_det := false; b_bad := None;
     b_fuel := default_fuel [] input |}.

Fixpoint p_run_all (limit : nat) (c : cfg) (st : pst) : pst * list rout :=
  match limit with
  | O => (st, [OLimit])
  | S l =>
    let (st1, r) := p_next c st in
    match b_bad st1 with
    | Some b => (st1, [bad_out b])
    | None =>
      match r with
      | NItem t off => let (st2, outs) := p_run_all l c st1 in (st2, OItem t off :: outs)
      | NErr e => (st1, [OErr e])
      | NNone => (st1, [ONone])
      end
    end
  end.

Fixpoint p_run_ops (c : cfg) (limit : nat) (st : pst) (ops : list rop) : pst * list rout :=
  match ops with
  | [] => (st, [])
  | op :: rest =>
    match op with
    | RNext =>
        let (st1, r) := p_next c st in
        match b_bad st1 with
        | Some b => (st1, [bad_out b])
        | None => let (st2, outs) := p_run_ops c limit st1 rest in
                  (st2, (match r with NItem t off => OItem t off | NErr e => OErr e | NNone => ONone end) :: outs)
        end
    | RRecover =>
        let (st1, r) := p_try_recover c st in
        match b_bad st1 with
        | Some b => (st1, [bad_out b])
        | None => let (st2, outs) := p_run_ops c limit st1 rest in
                  (st2, (match r with None => ORecOk | Some e => ORecErr e end) :: outs)
        end
    | RAll =>
        let (st1, outs) := p_run_all limit c st in
        match b_bad st1 with
        | Some b => (st1, outs)
        | None => let (st2, outs2) := p_run_ops c limit st1 rest in (st2, outs ++ outs2)
        end
    end
  end.

(* what the reader yields on a given input: independent of any buffering *)
Definition p_run (c : cfg) (input : list N) (ops : list rop) : list rout :=
  snd (p_run_ops c (4 * length input + 64) (p_init input) ops).
