(* Model of src/tag_iterator.rs (+ tag_iterator_util.rs): the buffered reader machine.
   The internal buffer is represented by its valid window [r_win] = buffer[pos..buffered]
   (bytes before pos are dead, bytes after buffered_byte_length are never read by the
   code), the buffer length [r_cap], the absolute offset of the window start [r_off], the
   input not yet delivered by the source [r_rest] and the script of what the source's
   successive read() calls do.  Definitions only. *)
From Ebml Require Export Spec.

Inductive rd : Type := Chunk (n : N) | Pause | Fail (code : N).

Inductive tdkind : Type := KU64 | KI64 | KF64 | KUtf8.

Inductive rerr : Type :=
| REof (start : N) (id : option N) (size : option N) (partial : option (list N))
| RInvalidTagId (pos id : N)
| RInvalidTagData (pos id : N)
| RHierarchy (id : N) (parent : option N)
| ROversized (pos id size : N)
| RInvalidSize (pos id size : N)
| RTagData (id : N) (kind : tdkind)
| RIo (code : N).

Inductive esize : Type := SKnown (n : N) | SUnknown.

Record frame : Type := { f_id : N; f_size : esize; f_start : N; f_data : N }.

Inductive qitem : Type := QOk (t : tag) (off : N) | QErr (e : rerr).

Inductive bad : Type := BPanic | BFuel.

Record cfg : Type := {
  c_sp : spec;
  c_allow_id : bool; c_allow_hier : bool; c_allow_over : bool;
  c_max : option N;
  c_buffered : list N;
  c_emit_eof : bool
}.

Record rst : Type := {
  r_win : list N; r_wlen : N;       (* valid window and its length *)
  r_off : N;                        (* current_offset() *)
  r_cap : N;                        (* buffer.len() *)
  r_rest : list N; r_rlen : N;      (* input the source has not delivered yet *)
  r_script : list rd;
  r_stack : list frame;             (* tag_stack, innermost first *)
  r_queue : list qitem;             (* emission_queue, front first *)
  r_last : N;                       (* last_emitted_tag_offset *)
  r_det : bool;                     (* has_determined_doc_path *)
  r_bad : option bad;               (* a panic site / fuel exhaustion was reached *)
  r_fuel : nat                      (* recursion budget for read_next/buffer_master/try_recover, fixed at creation *)
}.

Definition r_init_fuel (fuel : nat) (cap0 : N) (script : list rd) (input : list N) : rst :=
  {| r_win := []; r_wlen := 0; r_off := 0; r_cap := cap0; r_rest := input; r_rlen := N.of_nat (length input);
     r_script := script; r_stack := []; r_queue := []; r_last := 0; r_det := false; r_bad := None; r_fuel := fuel |}.
(* the budget bounds the nesting depth of read_next/buffer_master and the number of bytes try_recover can skip; neither
   depends on how the source chunks its reads *)
Definition default_fuel (script : list rd) (input : list N) : nat := (4 * length input + 64)%nat.
Definition r_init (cap0 : N) (script : list rd) (input : list N) : rst :=
  r_init_fuel (default_fuel script input) cap0 script input.

Definition upd_io (st : rst) (win : list N) (wlen off cap : N) (rest : list N) (rlen : N) (script : list rd) : rst :=
  {| r_win := win; r_wlen := wlen; r_off := off; r_cap := cap; r_rest := rest; r_rlen := rlen; r_script := script;
     r_stack := r_stack st; r_queue := r_queue st; r_last := r_last st; r_det := r_det st; r_bad := r_bad st; r_fuel := r_fuel st |}.
Definition set_script (st : rst) (s : list rd) : rst :=
  upd_io st (r_win st) (r_wlen st) (r_off st) (r_cap st) (r_rest st) (r_rlen st) s.
Definition set_cap (st : rst) (c : N) : rst :=
  upd_io st (r_win st) (r_wlen st) (r_off st) c (r_rest st) (r_rlen st) (r_script st).
Definition set_stack (st : rst) (stk : list frame) (det : bool) : rst :=
  {| r_win := r_win st; r_wlen := r_wlen st; r_off := r_off st; r_cap := r_cap st; r_rest := r_rest st; r_rlen := r_rlen st;
     r_script := r_script st; r_stack := stk; r_queue := r_queue st; r_last := r_last st; r_det := det; r_bad := r_bad st; r_fuel := r_fuel st |}.
Definition set_queue (st : rst) (q : list qitem) : rst :=
  {| r_win := r_win st; r_wlen := r_wlen st; r_off := r_off st; r_cap := r_cap st; r_rest := r_rest st; r_rlen := r_rlen st;
     r_script := r_script st; r_stack := r_stack st; r_queue := q; r_last := r_last st; r_det := r_det st; r_bad := r_bad st; r_fuel := r_fuel st |}.
Definition set_last (st : rst) (l : N) : rst :=
  {| r_win := r_win st; r_wlen := r_wlen st; r_off := r_off st; r_cap := r_cap st; r_rest := r_rest st; r_rlen := r_rlen st;
     r_script := r_script st; r_stack := r_stack st; r_queue := r_queue st; r_last := l; r_det := r_det st; r_bad := r_bad st; r_fuel := r_fuel st |}.
Definition set_bad (st : rst) (b : bad) : rst :=
  {| r_win := r_win st; r_wlen := r_wlen st; r_off := r_off st; r_cap := r_cap st; r_rest := r_rest st; r_rlen := r_rlen st;
     r_script := r_script st; r_stack := r_stack st; r_queue := r_queue st; r_last := r_last st; r_det := r_det st;
     r_bad := match r_bad st with Some x => Some x | None => Some b end; r_fuel := r_fuel st |}.
Definition push_q (st : rst) (items : list qitem) : rst := set_queue st (r_queue st ++ items).

(* split a list after its first k elements (all of it if shorter) *)
Fixpoint splitN (k : N) (l : list N) : list N * list N :=
  match l with
  | [] => ([], [])
  | x :: tl => if k =? 0 then ([], l) else let (a, b) := splitN (N.pred k) tl in (x :: a, b)
  end.

(* the source delivers k bytes into the free part of the buffer *)
Definition deliver (st : rst) (k : N) (script : list rd) : rst :=
  let (a, b) := splitN k (r_rest st) in
  upd_io st (r_win st ++ a) (r_wlen st + k) (r_off st) (r_cap st) b (r_rlen st - k) script.

(* private_read(buffered_byte_length) with room = buffer.len() - buffered_byte_length > 0 *)
Definition private_read (st : rst) (room : N) : rst * res rerr bool :=
  match r_script st with
  | [] => let k := N.min room (r_rlen st) in
          if k =? 0 then (st, Ok false) else (deliver st k [], Ok true)
  | Chunk n :: s => let k := N.min (N.min n room) (r_rlen st) in
                    if k =? 0 then (set_script st s, Ok false) else (deliver st k s, Ok true)
  | Pause :: s => (set_script st s, Ok false)
  | Fail c :: s => (set_script st s, Err (RIo c))
  end.

(* ensure_data_read(n): compaction is invisible in this representation; the buffer grows to
   n; reads continue until n bytes are buffered or the source reports end of data *)
Fixpoint ensure_loop (fuel : nat) (n : N) (st : rst) : rst * res rerr bool :=
  match fuel with
  | O => (set_bad st BFuel, Ok false)
  | S f =>
      if n <=? r_wlen st then (st, Ok true) else
      let st1 := set_cap st (N.max (r_cap st) n) in
      match private_read st1 (r_cap st1 - r_wlen st1) with
      | (st2, Ok true) => ensure_loop f n st2
      | r => r
      end
  end.
Definition ensure (n : N) (st : rst) : rst * res rerr bool :=
  ensure_loop (S (S (length (r_script st)))) n st.

(* advance the read position by k <= r_wlen bytes *)
Definition consume (st : rst) (k : N) : rst :=
  let (_, b) := splitN k (r_win st) in
  upd_io st b (r_wlen st - k) (r_off st + k) (r_cap st) (r_rest st) (r_rlen st) (r_script st).

Definition eof_err (st : rst) (id : option N) : rerr := REof (r_off st) id None None.

(* peek_tag_id *)
Definition peek_tag_id (st : rst) : rst * res rerr (N * nat) :=
  match ensure 8 st with
  | (st1, Err e) => (st1, Err e)
  | (st1, Panic) => (st1, Panic)
  | (st1, Ok _) =>
      match r_win st1 with
      | [] => (st1, Err (eof_err st1 None))
      | b0 :: _ =>
          if b0 =? 0 then (st1, Ok (0, 1%nat)) else
          let len := vint_len b0 in
          if r_wlen st1 <? N.of_nat len then (st1, Err (eof_err st1 None))
          else (st1, Ok (from_be (firstn len (r_win st1)), len))
      end
  end.

(* EBMLSize::new *)
Definition ebml_size (size : N) (len : nat) : esize :=
  if size =? 2 ^ (7 * N.of_nat len) - 1 then SUnknown else SKnown size.

Definition is_numeric (t : option dtype) : bool :=
  match t with Some DUInt | Some DSInt | Some DFloat => true | _ => false end.

Definition frame_known (f : frame) : bool := match f_size f with SKnown _ => true | SUnknown => false end.
Definition stack_view (stk : list frame) : list (N * bool) := map (fun f => (f_id f, frame_known f)) stk.

(* is_invalid_tag_size: some open known-size master ends before offset + size *)
Definition is_invalid_tag_size (st : rst) (size : N) : bool :=
  existsb (fun f => match f_size f with SKnown n => f_data f + n <? r_off st + size | SUnknown => false end) (r_stack st).

Definition all_ids (p : list part) : bool := forallb (fun x => match x with PId _ => true | PGlobal _ _ => false end) p.

(* the open masters implied by the first non-global element's path; get_master_tag must
   succeed for each of them (else "Bad specification implementation" panic) *)
Definition implied_stack (sp : spec) (p : list part) : option (list frame) :=
  if forallb (fun x => match x with PId i => is_master_ty (get_type sp i) | PGlobal _ _ => true end) p
  then Some (rev (flat_map (fun x => match x with
                                     | PId i => [{| f_id := i; f_size := SUnknown; f_start := 0; f_data := 0 |}]
                                     | PGlobal _ _ => [] end) p))
  else None.

(* peek_valid_tag_header: (id, type, size, header length) *)
Definition peek_header (c : cfg) (st0 : rst) : rst * res rerr (N * option dtype * esize * nat) :=
  match ensure 16 st0 with
  | (st, Err e) => (st, Err e)
  | (st, Panic) => (st, Panic)
  | (st, Ok _) =>
  match peek_tag_id st with
  | (st, Err e) => (st, Err e)
  | (st, Panic) => (st, Panic)
  | (st, Ok (id, id_len)) =>
  let ty := get_type (c_sp c) id in
  let pos := r_off st in
  match read_vint (firstn 8 (skipn id_len (r_win st))) with
  | Panic => (st, Panic)
  | Err _ => (st, Err (RInvalidTagData pos id))
  | Ok None => (st, Err (eof_err st (Some id)))
  | Ok (Some (size, size_len)) =>
  if is_numeric ty && (8 <? size) then (st, Err (RInvalidTagData pos id)) else
  let esz := ebml_size size size_len in
  let header_len := (id_len + size_len)%nat in
  if negb (c_allow_id c) && match ty with None => true | Some _ => false end then (st, Err (RInvalidTagId pos id)) else
  (* hierarchy *)
  let hier : rst * option rerr :=
    if negb (c_allow_hier c) && match ty with None => false | Some _ => true end then
      let st1 :=
        if r_det st then Some st else
        let p := get_path (c_sp c) id in
        if all_ids p then
          match implied_stack (c_sp c) p with
          | Some stk => Some (set_stack st (r_stack st ++ stk) true)   (* masters already open stay open inside the implied parents *)
          | None => None
          end
        else Some st in
      match st1 with
      | None => (set_bad st BPanic, None)
      | Some st1 =>
          if r_det st1 && negb (validate_tag_path (c_sp c) id (stack_view (r_stack st1)))
          then (st1, Some (RHierarchy id (match r_stack st1 with f :: _ => Some (f_id f) | [] => None end)))
          else (st1, None)
      end
    else (st, None) in
  match hier with
  | (st, Some e) => (st, Err e)
  | (st, None) =>
  match r_bad st with Some _ => (st, Panic) | None =>
  let known_size := match esz with SKnown n => n | SUnknown => 0 end in
  if negb (c_allow_over c) && is_invalid_tag_size st (N.of_nat header_len + known_size)
  then (st, Err (ROversized pos id known_size)) else
  match c_max c, esz with
  | Some m, SKnown n => if m <? n then (st, Err (RInvalidSize pos id n)) else (st, Ok (id, ty, esz, header_len))
  | _, _ => (st, Ok (id, ty, esz, header_len))
  end
  end end end end end.

Record ptag : Type := { p_tag : tag; p_size : esize; p_start : N; p_data : N }.

(* read_tag *)
Definition read_tag (c : cfg) (st0 : rst) : rst * res rerr ptag :=
  let tag_start := r_off st0 in
  match peek_header c st0 with
  | (st, Err e) => (st, Err e)
  | (st, Panic) => (st, Panic)
  | (st, Ok (id, ty, esz, header_len)) =>
  let st := consume st (N.of_nat header_len) in
  let data_start := r_off st in
  let mk (st : rst) (t : tag) := (st, Ok {| p_tag := t; p_size := esz; p_start := tag_start; p_data := data_start |}) in
  match ty with
  | Some DMaster => mk st (TStart id)
  | _ =>
    match esz with
    | SUnknown => (st, Err (RInvalidTagData tag_start id))
    | SKnown size =>
      (* read_tag_data: ensure_capacity(size); ensure_data_read(size) *)
      let st := set_cap st (N.max (r_cap st) size) in
      match ensure size st with
      | (st, Err e) => (st, Err e)
      | (st, Panic) => (st, Panic)
      | (st, Ok false) => (st, Err (REof tag_start (Some id) (Some size) (Some (r_win st))))
      | (st, Ok true) =>
        let (raw, _) := splitN size (r_win st) in
        let st := consume st size in
        match ty with
        | Some DUInt => match arr_to_u64 raw with Ok v => mk st (TElem id (VU v)) | Err _ => (st, Err (RTagData id KU64)) | Panic => (st, Panic) end
        | Some DSInt => match arr_to_i64 raw with Ok v => mk st (TElem id (VI v)) | Err _ => (st, Err (RTagData id KI64)) | Panic => (st, Panic) end
        | Some DUtf8 => if utf8_valid raw then mk st (TElem id (VS raw)) else (st, Err (RTagData id KUtf8))
        | Some DBinary => mk st (TElem id (VB raw))
        | Some DFloat => match arr_to_f64 raw with Ok v => mk st (TElem id (VF v)) | Err _ => (st, Err (RTagData id KF64)) | Panic => (st, Panic) end
        | Some DMaster => mk st (TStart id)
        | None => mk st (TElem id (VRaw raw))
        end
      end
    end
  end
  end.

(* read_tag_checked: None = the source has nothing more right now *)
Definition read_tag_checked (c : cfg) (st : rst) : rst * option (res rerr ptag) :=
  if r_wlen st =? 0 then
    match ensure 1 st with
    | (st1, Err e) => (st1, Some (Err e))
    | (st1, Panic) => (st1, Some Panic)
    | (st1, Ok false) => (st1, None)
    | (st1, Ok true) => let (st2, r) := read_tag c st1 in (st2, Some r)
    end
  else let (st2, r) := read_tag c st in (st2, Some r).

Definition end_item (f : frame) : qitem := QOk (TEnd (f_id f)) (f_start f).

Definition frame_exhausted (off : N) (f : frame) : bool :=
  match f_size f with SKnown n => f_data f + n <=? off | SUnknown => false end.

(* number of frames to pop so that the outermost exhausted known-size master goes:
   the position (from the top) of the last exhausted frame, plus one *)
Fixpoint exhausted_count (off : N) (stk : list frame) : nat :=
  match stk with
  | [] => O
  | f :: tl => let c := exhausted_count off tl in
               if (0 <? c)%nat then S c else if frame_exhausted off f then 1%nat else O
  end.

Definition pop_frames (st : rst) (k : nat) : rst :=
  push_q (set_stack st (skipn k (r_stack st)) (r_det st)) (map end_item (firstn k (r_stack st))).

Definition mem_id (id : N) (l : list N) : bool := existsb (N.eqb id) l.

Definition qitem_is_end_of (id : N) (q : qitem) : bool :=
  match q with QOk (TEnd i) _ => i =? id | _ => false end.
Definition qitem_is_err (q : qitem) : bool := match q with QErr _ => true | QOk _ _ => false end.

(* roll_up_children *)
Fixpoint split_child (cid : N) (depth : nat) (l : list tag) : list tag * list tag :=
  match l with
  | [] => ([], [])
  | c :: tl =>
      if tag_id c =? cid then
        match c with
        | TStart _ => let (a, b) := split_child cid (S depth) tl in (c :: a, b)
        | TEnd _ => match depth with
                    | O => ([], tl)
                    | S d => let (a, b) := split_child cid d tl in (c :: a, b)
                    end
        | _ => let (a, b) := split_child cid depth tl in (c :: a, b)
        end
      else let (a, b) := split_child cid depth tl in (c :: a, b)
  end.

Fixpoint roll_up (fuel : nat) (children : list tag) : list tag :=
  match fuel with
  | O => children
  | S f =>
    match children with
    | [] => []
    | TStart cid :: tl => let (sub, rest) := split_child cid O tl in
                          TFull cid (roll_up f sub) :: roll_up f rest
    | c :: tl => c :: roll_up f tl
    end
  end.
Definition roll_up_children (id : N) (children : list tag) : tag := TFull id (roll_up (length children) children).

Definition qtags (l : list qitem) : list tag :=
  flat_map (fun q => match q with QOk t _ => [t] | QErr _ => [] end) l.

(* position of the first error or End(tag_id) at or after [pos] in the queue *)
Fixpoint scan_queue (id : N) (q : list qitem) (pos : nat) : nat * bool :=
  match q with
  | [] => (pos, false)
  | x :: tl => if qitem_is_err x || qitem_is_end_of id x then (pos, true) else scan_queue id tl (S pos)
  end.

(* read_next / buffer_master (mutually recursive in the code; the fuel bounds the depth) *)
Fixpoint read_next (fuel : nat) (c : cfg) (st : rst) {struct fuel} : rst :=
  match fuel with
  | O => set_bad st BFuel
  | S f =>
    let st := pop_frames st (exhausted_count (r_off st) (r_stack st)) in
    match read_tag_checked c st with
    | (st, Some (Ok p)) =>
        let tid := tag_id (p_tag p) in
        let st := pop_frames st (count_ended (c_sp c) tid (stack_view (r_stack st))) in
        match p_tag p with
        | TStart _ =>
            let st := set_stack st ({| f_id := tid; f_size := p_size p; f_start := p_start p; f_data := p_data p |} :: r_stack st) (r_det st) in
            if mem_id tid (c_buffered c) then buffer_master f c tid (p_start p) (length (r_queue st)) (length (r_queue st)) st
            else push_q st [QOk (p_tag p) (p_start p)]
        | _ => push_q st [QOk (p_tag p) (p_start p)]
        end
    | (st, Some (Err e)) => push_q st [QErr e]
    | (st, Some Panic) => set_bad st BPanic
    | (st, None) => if c_emit_eof c then pop_frames st (length (r_stack st)) else st
    end
  end
with buffer_master (fuel : nat) (c : cfg) (tid tag_start : N) (pre position : nat) (st : rst) {struct fuel} : rst :=
  match fuel with
  | O => set_bad st BFuel
  | S f =>
    let finish (st : rst) (position : nat) : rst :=
      let kept := firstn pre (r_queue st) in
      let children := skipn pre (r_queue st) in
      let split_to := (position - pre)%nat in
      match nth_error children split_to with
      | None => set_bad st BPanic
      | Some (QOk _ _) =>
          let full := roll_up_children tid (qtags (firstn split_to children)) in
          set_queue st (kept ++ [QOk full tag_start] ++ skipn (S split_to) children)
      | Some (QErr e) => set_queue st (kept ++ [QErr e])
      end in
    if (length (r_queue st) <=? position)%nat then
      let st1 := read_next f c st in
      match r_bad st1 with Some _ => st1 | None =>
      if (length (r_queue st1) <=? position)%nat then
        push_q st1 [QErr (REof tag_start (Some tid) None None)]
      else
        let (p, found) := scan_queue tid (skipn position (r_queue st1)) position in
        if found then finish st1 p else buffer_master f c tid tag_start pre p st1
      end
    else
      let (p, found) := scan_queue tid (skipn position (r_queue st)) position in
      if found then finish st p else buffer_master f c tid tag_start pre p st
  end.

(* Iterator::next *)
Inductive nres : Type := NItem (t : tag) (off : N) | NErr (e : rerr) | NNone.

Definition next (c : cfg) (st : rst) : rst * nres :=
  let st := match r_queue st with [] => read_next (r_fuel st) c st | _ => st end in
  match r_queue st with
  | [] => (st, NNone)
  | QOk t off :: q => (set_last (set_queue st q) off, NItem t off)
  | QErr e :: q => (set_queue st q, NErr e)
  end.

(* try_recover *)
Fixpoint recover_loop (fuel : nat) (c : cfg) (st : rst) : rst * option rerr :=
  match fuel with
  | O => (set_bad st BFuel, None)
  | S f =>
    match ensure 1 st with
    | (st, Err e) => (st, Some e)
    | (st, Panic) => (set_bad st BPanic, None)
    | (st, Ok false) => (st, Some (eof_err st None))
    | (st, Ok true) =>
        let st := consume st 1 in
        match peek_header c st with
        | (st, Ok _) => (st, None)
        | (st, Panic) => (set_bad st BPanic, None)
        | (st, Err (RIo code)) => (st, Some (RIo code))     (* an error of the source ends the scan (fix D25) *)
        | (st, Err _) => recover_loop f c st
        end
    end
  end.

Definition grow_frames (diff : N) (stk : list frame) : list frame :=
  map (fun f => match f_size f with
                | SKnown n => {| f_id := f_id f; f_size := SKnown (n + diff); f_start := f_start f; f_data := f_data f |}
                | SUnknown => f end) stk.

Definition try_recover (c : cfg) (st : rst) : rst * option rerr :=
  let original := r_off st in
  match recover_loop (r_fuel st) c st with
  | (st, Some e) => (st, Some e)
  | (st, None) => (set_stack st (grow_frames (r_off st - original) (r_stack st)) (r_det st), None)
  end.

(* ------------------------------------------------------------------ driving a run *)
Inductive rop : Type := RNext | RRecover | RAll.
Inductive rout : Type := OItem (t : tag) (off : N) | OErr (e : rerr) | ONone | ORecOk | ORecErr (e : rerr) | OPanic | OFuel | OLimit.

Definition bad_out (b : bad) : rout := match b with BPanic => OPanic | BFuel => OFuel end.

Fixpoint run_all (limit : nat) (c : cfg) (st : rst) : rst * list rout :=
  match limit with
  | O => (st, [OLimit])
  | S l =>
    let (st1, r) := next c st in
    match r_bad st1 with
    | Some b => (st1, [bad_out b])
    | None =>
      match r with
      | NItem t off => let (st2, outs) := run_all l c st1 in (st2, OItem t off :: outs)
      | NErr e => (st1, [OErr e])
      | NNone => (st1, [ONone])
      end
    end
  end.

Fixpoint run_ops (c : cfg) (limit : nat) (st : rst) (ops : list rop) : rst * list rout :=
  match ops with
  | [] => (st, [])
  | op :: rest =>
    match op with
    | RNext =>
        let (st1, r) := next c st in
        match r_bad st1 with
        | Some b => (st1, [bad_out b])
        | None => let (st2, outs) := run_ops c limit st1 rest in
                  (st2, (match r with NItem t off => OItem t off | NErr e => OErr e | NNone => ONone end) :: outs)
        end
    | RRecover =>
        let (st1, r) := try_recover c st in
        match r_bad st1 with
        | Some b => (st1, [bad_out b])
        | None => let (st2, outs) := run_ops c limit st1 rest in
                  (st2, (match r with None => ORecOk | Some e => ORecErr e end) :: outs)
        end
    | RAll =>
        let (st1, outs) := run_all limit c st in
        match r_bad st1 with
        | Some b => (st1, outs)
        | None => let (st2, outs2) := run_ops c limit st1 rest in (st2, outs ++ outs2)
        end
    end
  end.

(* the run, and the final buffer length (what C17 bounds) *)
Definition run_reader_st (c : cfg) (cap0 : N) (script : list rd) (input : list N) (ops : list rop) : rst * list rout :=
  run_ops c (4 * length input + 64) (r_init cap0 script input) ops.
Definition run_reader (c : cfg) (cap0 : N) (script : list rd) (input : list N) (ops : list rop) : list rout :=
  snd (run_reader_st c cap0 script input ops).
Definition run_reader_cap (c : cfg) (cap0 : N) (script : list rd) (input : list N) (ops : list rop) : N * list rout :=
  let (st, outs) := run_reader_st c cap0 script input ops in (r_cap st, outs).

(* ------------------------------------------------------------------ nonblocking.rs *)
(* TagIteratorAsync::next: one source read (into a 64 KiB buffer) appended to the cursor's
   vector, then one blocking next() on an iterator whose source is that cursor. *)
Record ast : Type := { a_inner : rst; a_src : list N; a_slen : N; a_script : list rd }.

Definition a_init (script : list rd) (input : list N) : ast :=
  {| a_inner := r_init_fuel (default_fuel script input) 65536 [] []; a_src := input; a_slen := N.of_nat (length input); a_script := script |}.

Definition feed (a : ast) (k : N) (script : list rd) : ast :=
  let (x, y) := splitN k (a_src a) in
  let i := a_inner a in
  {| a_inner := upd_io i (r_win i) (r_wlen i) (r_off i) (r_cap i) (r_rest i ++ x) (r_rlen i + k) (r_script i);
     a_src := y; a_slen := a_slen a - k; a_script := script |}.

Definition anext (c : cfg) (a : ast) : ast * nres :=
  let go (a : ast) := let (i, r) := next c (a_inner a) in
                      ({| a_inner := i; a_src := a_src a; a_slen := a_slen a; a_script := a_script a |}, r) in
  match a_script a with
  | [] => go (feed a (N.min 65536 (a_slen a)) [])
  | Chunk n :: s => go (feed a (N.min (N.min n 65536) (a_slen a)) s)
  | Pause :: s => go (feed a 0 s)
  | Fail code :: s => ({| a_inner := a_inner a; a_src := a_src a; a_slen := a_slen a; a_script := s |}, NErr (RIo code))
  end.

Fixpoint arun (limit : nat) (c : cfg) (a : ast) : list rout :=
  match limit with
  | O => [OLimit]
  | S l =>
    let (a1, r) := anext c a in
    match r_bad (a_inner a1) with
    | Some b => [bad_out b]
    | None =>
      match r with
      | NItem t off => OItem t off :: arun l c a1
      | NErr e => [OErr e]
      | NNone => [ONone]
      end
    end
  end.

Definition run_async (c : cfg) (script : list rd) (input : list N) : list rout :=
  arun (4 * length input + 64) c (a_init script input).
