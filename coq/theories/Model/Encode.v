(* Encoded document trees: the structural EBML encoding the round-trip theorems (C01, C07, C10) are stated against, and
   the item sequence a reader must produce for it.  Definitions only. *)
From Ebml Require Export Reader Pure Writer.

(* size vint of width L for the value v (v < 2^(7L)): marker bit followed by the value, big-endian *)
Definition venc (L : nat) (v : N) : list N := be_bytes L (v + 2 ^ (7 * N.of_nat L)).

(* a document tree with its encoding choices: a leaf carries its payload bytes (so non-canonical payloads can be expressed)
   and the width of its size field; a master has a known size with a size field of the given width, or unknown size *)
Inductive rtree : Type :=
| RLeaf (id : N) (v : value) (payload : list N) (sl : nat)
| RNode (id : N) (sz : option nat) (cs : list rtree).

Fixpoint enc_tree (t : rtree) : list N :=
  match t with
  | RLeaf id v pl sl => id_bytes id ++ venc sl (N.of_nat (length pl)) ++ pl
  | RNode id sz cs =>
      let body := (fix go (l : list rtree) : list N := match l with [] => [] | c :: l' => enc_tree c ++ go l' end) cs in
      id_bytes id ++ match sz with Some sl => venc sl (N.of_nat (length body)) | None => unknown_marker end ++ body
  end.
Fixpoint enc_forest (l : list rtree) : list N := match l with [] => [] | c :: l' => enc_tree c ++ enc_forest l' end.

Definition hdr_len (t : rtree) : nat :=
  match t with
  | RLeaf id _ _ sl => (length (id_bytes id) + sl)%nat
  | RNode id (Some sl) _ => (length (id_bytes id) + sl)%nat
  | RNode id None _ => (length (id_bytes id) + 8)%nat
  end.

Definition tlen (t : rtree) : N := N.of_nat (length (enc_tree t)).
Definition flen (l : list rtree) : N := N.of_nat (length (enc_forest l)).

(* the items of a tree in document order, with the offsets the reader reports: a master's Start and End both carry the offset
   of its first byte *)
Fixpoint items_tree (off : N) (t : rtree) : list rout :=
  match t with
  | RLeaf id v _ _ => [OItem (TElem id v) off]
  | RNode id sz cs =>
      OItem (TStart id) off ::
      (fix go (o : N) (l : list rtree) : list rout := match l with [] => [] | c :: l' => items_tree o c ++ go (o + tlen c) l' end)
        (off + N.of_nat (hdr_len t)) cs
      ++ [OItem (TEnd id) off]
  end.
Fixpoint items_forest (off : N) (l : list rtree) : list rout :=
  match l with [] => [] | c :: l' => items_tree off c ++ items_forest (off + tlen c) l' end.

(* the frame the reader keeps for a master that starts at [off] *)
Definition frame_of (off : N) (t : rtree) : list frame :=
  match t with
  | RLeaf _ _ _ _ => []
  | RNode id sz cs =>
      [ {| f_id := id;
           f_size := match sz with Some _ => SKnown (flen cs) | None => SUnknown end;
           f_start := off; f_data := off + N.of_nat (hdr_len t) |} ]
  end.

(* the masters still on the reader's stack right after the bytes of a tree have been consumed (innermost first): the tree's
   own frame below the frames of its last child, recursively — every End is emitted lazily *)
Fixpoint spine_tree (off : N) (t : rtree) : list frame :=
  match t with
  | RLeaf _ _ _ _ => []
  | RNode id sz cs =>
      (fix go (o : N) (l : list rtree) : list frame :=
         match l with [] => [] | [c] => spine_tree o c | c :: l' => go (o + tlen c) l' end) (off + N.of_nat (hdr_len t)) cs
      ++ frame_of off t
  end.
Fixpoint spine_forest (off : N) (l : list rtree) : list frame :=
  match l with [] => [] | [c] => spine_tree off c | c :: l' => spine_forest (off + tlen c) l' end.

Definition end_out (f : frame) : rout := OItem (TEnd (f_id f)) (f_start f).

(* the items without the Ends of the final spine: what has been emitted when the bytes of the tree have just been consumed *)
Fixpoint items_open_tree (off : N) (t : rtree) : list rout :=
  match t with
  | RLeaf id v _ _ => [OItem (TElem id v) off]
  | RNode id sz cs =>
      OItem (TStart id) off ::
      (fix go (o : N) (l : list rtree) : list rout :=
         match l with
         | [] => []
         | [c] => items_open_tree o c
         | c :: l' => items_open_tree o c ++ map end_out (spine_tree o c) ++ go (o + tlen c) l'
         end) (off + N.of_nat (hdr_len t)) cs
  end.
Fixpoint items_open_forest (off : N) (l : list rtree) : list rout :=
  match l with
  | [] => []
  | [c] => items_open_tree off c
  | c :: l' => items_open_tree off c ++ map end_out (spine_tree off c) ++ items_open_forest (off + tlen c) l'
  end.

(* the tags of a document, independent of every encoding choice (size widths, known or unknown size, payload form) *)
Fixpoint tags_tree (t : rtree) : list tag :=
  match t with
  | RLeaf id v _ _ => [TElem id v]
  | RNode id _ cs =>
      TStart id :: (fix go (l : list rtree) : list tag := match l with [] => [] | c :: l' => tags_tree c ++ go l' end) cs ++ [TEnd id]
  end.
Fixpoint tags_forest (l : list rtree) : list tag := match l with [] => [] | c :: l' => tags_tree c ++ tags_forest l' end.

Definition out_tag (o : rout) : option tag := match o with OItem t _ => Some t | _ => None end.

(* ---- the writer calls that emit a document: one write per tag; [d] = true: default options everywhere (the writer picks
   the smallest size width), [d] = false: the explicit width recorded in the tree; unknown-size masters by option *)
Definition opts_known (sl : nat) : wopts := {| o_len := Some sl; o_unknown := false |}.
Definition opts_unknown : wopts := {| o_len := None; o_unknown := true |}.
Definition wopt (d : bool) (sl : nat) : wopts := if d then o_default else opts_known sl.
Definition node_opt (d : bool) (sz : option nat) : wopts := match sz with Some sl => wopt d sl | None => opts_unknown end.

Fixpoint wops_tree (d : bool) (t : rtree) : list wop :=
  match t with
  | RLeaf id v _ sl => [OpWrite (TElem id v) (wopt d sl)]
  | RNode id sz cs =>
      OpWrite (TStart id) (node_opt d sz) ::
      (fix go (l : list rtree) : list wop := match l with [] => [] | c :: l' => wops_tree d c ++ go l' end) cs ++
      [OpWrite (TEnd id) o_default]
  end.
Fixpoint wops_forest (d : bool) (l : list rtree) : list wop := match l with [] => [] | c :: l' => wops_tree d c ++ wops_forest d l' end.

Definition op_tag (op : wop) : option tag := match op with OpWrite t _ => Some t | _ => None end.

