(* Extraction of the executable model.  Only ExtrOcamlBasic is used: bool, option,
   unit, list, prod, sumbool/sumor map to OCaml's own types; N, Z, positive, nat stay
   the extracted inductive types.  No Extract Constant directive. *)
From Coq Require Extraction.
From Coq Require Import ExtrOcamlBasic.
From Ebml Require Import Base Tools Spec Writer Reader Pure.
From Ebml Require Import Derive.
Extraction Language OCaml.
Extraction "model.ml"
  Tools.as_vint Tools.as_vint_with_length Tools.read_vint Tools.is_vint
  Tools.as_signed_vint Tools.as_signed_vint_with_length Tools.read_signed_vint
  Tools.arr_to_u64 Tools.arr_to_i64 Tools.arr_to_f64 Tools.is_nan64 Tools.utf8_valid
  Spec.validate_tag_path Spec.path_matches Spec.count_ended
  Writer.run_writer
  Reader.run_reader Reader.run_reader_cap Reader.run_async Pure.p_run
  Derive.derive Derive.derive_full Derive.get_impl Derive.gen_ctor Derive.gen_acc Derive.gen_get_id Derive.gen_enum.
