#!/usr/bin/env python3
"""mutate.py [N] [seed]: systematic mutants of /repo's sources (one-token changes: comparison, boolean, +-1, .rev(), min/max),
sampled deterministically.  For each mutant: apply to /repo's working tree, build + run the existing test suite (mutants the suite
kills are only counted), then run the quick checks of the properties anchored in the mutated file and record which report a
violation; /repo is restored after every mutant.  Results: /verif/seeded/mutants.json.  Nothing is ever committed to /repo."""
import json, os, random, re, subprocess, sys, time
N = int(sys.argv[1]) if len(sys.argv) > 1 else 60
SEED = int(sys.argv[2]) if len(sys.argv) > 2 else 1
REPO = "/repo"
FILES = {
    "src/tools.rs": ["C15", "C16", "C01"],
    "src/spec_util.rs": ["C11", "C07", "C06", "C13"],
    "src/tag_writer.rs": ["C09", "C10", "C19", "C01", "C18"],
    "src/tag_iterator.rs": ["C03", "C04", "C05", "C06", "C08", "C12", "C14", "C17", "C01"],
    "src/tag_iterator_util.rs": ["C17", "C12", "C06"],
    "src/nonblocking.rs": ["C20"],
}
OPS = [
    (r" < ", " <= "), (r" <= ", " < "), (r" > ", " >= "), (r" >= ", " > "), (r" == ", " != "), (r" != ", " == "),
    (r" && ", " || "), (r" \|\| ", " && "), (r" \+ 1\b", " + 2"), (r" - 1\b", " - 0"), (r" \+ 1\b", ""), (r"\.rev\(\)", ""),
    (r"\.min\(", ".max("), (r"\.max\(", ".min("), (r"\.saturating_sub\(", ".wrapping_sub("), (r"\.any\(", ".all("), (r"\.all\(", ".any("),
    (r"\.position\(", ".rposition("), (r"\.rposition\(", ".position("), (r"\.last\(\)", ".first()"), (r"\.first\(\)", ".last()"),
]
ENV = dict(os.environ, CARGO_NET_OFFLINE="true", CARGO_TARGET_DIR="/root/scratch/mut/target")


def sh(cmd, cwd=None, timeout=3000):
    return subprocess.run(cmd, shell=True, cwd=cwd, env=ENV, stdout=subprocess.PIPE, stderr=subprocess.STDOUT, text=True, timeout=timeout)


def candidates():
    out = []
    for f in FILES:
        raw = open(os.path.join(REPO, f), newline="").read()
        lines = raw.split("\n")
        in_test = False
        for i, l in enumerate(lines):
            if "#[cfg(test)]" in l:
                in_test = True
            s = l.strip()
            if in_test or s.startswith("//") or s.startswith("///") or s.startswith("#[") or "assert" in s or "where " in s or s.startswith("fn ") or s.startswith("pub fn ") or s.startswith("impl"):
                continue
            code = l.split("//")[0]
            for k, (pat, rep) in enumerate(OPS):
                for m in re.finditer(pat, code):
                    out.append((f, i, m.start(), m.end(), k))
    return out


def apply(mut):
    f, i, a, b, k = mut
    p = os.path.join(REPO, f)
    raw = open(p, newline="").read()
    lines = raw.split("\n")
    old = lines[i]
    lines[i] = old[:a] + OPS[k][1] + old[b:]
    open(p, "w", newline="").write("\n".join(lines))
    return old.strip(), lines[i].strip()


def main():
    assert sh("git -C /repo status --short").stdout.strip() == "", "repo not clean"
    rng = random.Random(SEED)
    cands = candidates()
    rng.shuffle(cands)
    out = "/verif/seeded/mutants_seed%d.json" % SEED
    results = json.load(open(out))["mutants"] if os.path.exists(out) else []     # resume
    seen = {(r["file"], r["line"], r["new"]) for r in results}
    done = sum(1 for r in results if r.get("status") == "survives the suite")
    for mut in cands:
        f0, i0, a0, b0, k0 = mut
        l0 = open(os.path.join(REPO, f0), newline="").read().split("\n")[i0]
        if (f0, i0 + 1, (l0[:a0] + OPS[k0][1] + l0[b0:]).strip()) in seen:
            continue
        if done >= N:
            break
        old, new = apply(mut)
        rec = {"file": mut[0], "line": mut[1] + 1, "old": old, "new": new}
        try:
            b = sh("cargo build --offline --all-features 2>&1 | tail -3", cwd=REPO)
            if "error" in b.stdout:
                rec["status"] = "does not compile"
                continue
            # a mutant that makes a test loop forever is killed by the suite as well (timeout -> no "test result" lines)
            t = sh("timeout -k 5 600 cargo test --workspace --offline --no-fail-fast 2>&1 | grep -E '^test result|FAILED|panicked' | head", cwd=REPO, timeout=1200)
            if "FAILED" in t.stdout or "panicked" in t.stdout or t.stdout.count("test result: ok") < 4:
                rec["status"] = "killed by the existing suite"
                results.append(rec)
                continue
            done += 1
            det = {}
            for c in FILES[mut[0]]:
                r = sh("./check %s --tier quick 2>&1" % c, cwd="/verif", timeout=2400)
                v = [l for l in r.stdout.split("\n") if l.startswith("VIOLATION")]
                if v:
                    det[c] = "no-failing-input-found" if all("no-failing-input-found" in x for x in v) else "concrete input"
            rec["status"] = "survives the suite"
            rec["detected_by"] = det
            results.append(rec)
            print(json.dumps(rec), flush=True)
        finally:
            sh("git -C /repo checkout -- .")
            sh("pkill -f 'target/debug/deps' || true")
            json.dump({"seed": SEED, "mutants": results}, open(out, "w"), indent=1)
    assert sh("git -C /repo status --short").stdout.strip() == ""


main()
