#!/usr/bin/env python3
"""seedtest.py <Cnn> <dir with patch.diff demo.rs meta.json> [checks...]
1. in a scratch worktree of /repo: demo passes without the change, fails with it, existing suite passes with it;
2. applies the patch to /repo, runs ./check for the given properties (default: the one in meta.json), undoes it."""
import json, os, subprocess, sys, shutil
prop, d = sys.argv[1], sys.argv[2]
checks = sys.argv[3:] or [prop]
env = dict(os.environ, CARGO_NET_OFFLINE="true")
wt = "/tmp/seedchk/%s" % prop
def sh(cmd, cwd=None, timeout=1800):
    return subprocess.run(cmd, shell=True, cwd=cwd, env=env, stdout=subprocess.PIPE, stderr=subprocess.STDOUT, text=True, timeout=timeout)
res = {"property": prop}
if not os.environ.get("SKIP_VALIDATE"):
    sh("git -C /repo worktree remove --force %s" % wt)
    shutil.rmtree(wt, ignore_errors=True)
    os.makedirs("/tmp/seedchk", exist_ok=True)
    r = sh("git -C /repo worktree add -q %s HEAD" % wt)
    env["CARGO_TARGET_DIR"] = wt + "/target"
    meta = json.load(open(os.path.join(d, "meta.json")))
    sub = "specification-derive/" if "specification-derive" in meta.get("demo_cmd", "") else ""
    demo = sub + "tests/seeded_%s.rs" % prop.lower()
    os.makedirs(os.path.dirname(os.path.join(wt, demo)), exist_ok=True)
    shutil.copy(os.path.join(d, "demo.rs"), os.path.join(wt, demo))
    r = sh("cargo test --offline %s --test seeded_%s 2>&1 | tail -5" % ("" if sub else "--all-features", prop.lower()), cwd=os.path.join(wt, sub))
    res["demo_passes_without"] = "test result: ok" in r.stdout
    a = sh("git apply --whitespace=nowarn %s" % os.path.join(d, "patch.diff"), cwd=wt)
    res["patch_applies"] = a.returncode == 0
    r = sh("cargo test --offline %s --test seeded_%s 2>&1 | tail -5" % ("" if sub else "--all-features", prop.lower()), cwd=os.path.join(wt, sub))
    res["demo_fails_with"] = "test result: FAILED" in r.stdout or "panicked" in r.stdout
    os.remove(os.path.join(wt, demo))
    r = sh("cargo test --workspace --offline --no-fail-fast 2>&1 | grep -E '^test result|FAILED|failed' | head", cwd=wt)
    res["suite_passes_with"] = "FAILED" not in r.stdout and "failed" not in r.stdout.replace("0 failed", "") and r.stdout.count("test result: ok") >= 4
    sh("git -C /repo worktree remove --force %s" % wt)
    shutil.rmtree(wt, ignore_errors=True)
# run the checks against /repo with the patch
a = sh("git -C /repo apply --whitespace=nowarn %s" % os.path.join(d, "patch.diff"))
res["applied_to_repo"] = a.returncode == 0
det = {}
try:
    for c in checks:
        r = sh("./check %s --tier %s 2>&1" % (c, os.environ.get("TIER", "quick")), cwd="/verif")
        v = [l for l in r.stdout.split("\n") if l.startswith("VIOLATION")]
        ora = [l for l in r.stdout.split("\n") if l.startswith("[check] oracle:")]
        det[c] = {"detected": bool(v), "tail": (ora[0][:500] + "\n" if ora else "") + r.stdout[-400:]}
finally:
    sh("git -C /repo checkout -- .")
res["checks"] = det
res["repo_clean"] = sh("git -C /repo status --short").stdout.strip() == ""
print(json.dumps(res, indent=1))
