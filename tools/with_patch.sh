#!/bin/bash
# usage: with_patch.sh <patch file> <check args...>  -- applies a seeded change to /repo, runs ./check, restores /repo
set -u
p=$(realpath "$1"); shift
git -C /repo apply --whitespace=nowarn "$p" || { echo "cannot apply $p"; exit 2; }
cd /verif && ./check "$@" 2>&1 | tail -${TAILN:-6}
git -C /repo checkout -- .
git -C /repo status --short | head -3
