"""reseed.py: apply every stored seeded change to /repo in turn, run the quick check of its property, undo; results -> seeded/rerun_final.json (with property ids as arguments: only the seeds of those properties -> seeded/rerun_<ids>.json).
Never run while anything else uses /repo."""
import json, os, subprocess, sys
env = dict(os.environ, CARGO_NET_OFFLINE="true")
def sh(cmd, cwd=None, timeout=3000):
    return subprocess.run(cmd, shell=True, cwd=cwd, env=env, stdout=subprocess.PIPE, stderr=subprocess.STDOUT, text=True, timeout=timeout)
assert sh("git -C /repo status --short").stdout.strip() == ""
out = {}
ONLY = set(sys.argv[1:])
for name in sorted(os.listdir("/verif/seeded")):
    d = os.path.join("/verif/seeded", name)
    if not os.path.isdir(d):
        continue
    meta = json.load(open(os.path.join(d, "meta.json")))
    checks = list(meta.get("checks_run", {}).keys()) or [meta["property"]]
    if ONLY and not (set(checks) & ONLY):
        continue
    a = sh("git -C /repo apply --whitespace=nowarn %s" % os.path.join(d, "patch.diff"))
    rec = {"applies": a.returncode == 0, "detected": {}}
    try:
        if rec["applies"]:
            for c in checks:
                r = sh("./check %s --tier quick 2>&1" % c, cwd="/verif")
                v = [l for l in r.stdout.split("\n") if l.startswith("VIOLATION")]
                rec["detected"][c] = ("concrete" if any("no-failing-input-found" not in x for x in v) else "nfif") if v else "MISSED"
    finally:
        sh("git -C /repo checkout -- .")
    out[name] = rec
    print(name, json.dumps(rec), flush=True)
json.dump(out, open("/verif/seeded/rerun_%s.json" % ("_".join(sorted(ONLY)) if ONLY else "final"), "w"), indent=1)
assert sh("git -C /repo status --short").stdout.strip() == ""
print("DONE")
