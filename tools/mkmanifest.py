#!/usr/bin/env python3
"""Writes MANIFEST.json from props/registry.py (one entry per property that has a built check)."""
import json, os, sys
ROOT = os.path.dirname(os.path.dirname(os.path.abspath(__file__)))
sys.path.insert(0, ROOT)
from props import registry

ALL = ["C%02d" % i for i in range(1, 21)]
checks = []
for pid in ALL:
    r = registry.CHECKS.get(pid)
    if not r:
        continue
    checks.append({
        "property_id": pid,
        "quick_cmd": "./check %s --tier quick" % pid,
        "thorough_cmd": "./check %s --tier thorough" % pid,
        "evidence_file": "/verif/evidence/%s.json" % pid,
        "replay_cmd_template": "./check %s --replay {path}" % pid,
        "engine": "coq-model+correspondence",
        "level_claimed": {"category": "proof", "text": r["text"], "design_ref": r.get("design_ref", "DESIGN.md section 7 (%s)" % pid)},
        "level_note": r["note"],
        "technique": r["technique"],
    })
na = [{"property_id": pid, "reason": registry.NOT_APPLICABLE.get(pid, "no check registered yet: model/correspondence for this property is still being built (see DESIGN.md section 11)")}
      for pid in ALL if pid not in registry.CHECKS]
m = {
    "version": 1,
    "setup_cmd": "./check --setup",
    "hooks": {
        "guard": "ebml_iterable_verif",
        "enable": "RUSTFLAGS='--cfg ebml_iterable_verif' (passed by the harness build; no hook commits exist: every observable is public API)",
        "baseline_off_cmd": "cd /repo && cargo test --workspace --no-fail-fast --offline",
        "source_commits": [],
        "add_only": True,
    },
    "engines": [{
        "name": "coq-model+correspondence", "path": "/verif/check",
        "serves_properties": [c["property_id"] for c in checks],
        "kind_free_text": "Coq 8.16.1 theorems over a hand-written executable Gallina model (coq/theories), extracted to OCaml and run against a Rust harness that path-depends on /repo on the same generated cases; per-property Python oracle for the search phase",
    }],
    "checks": checks,
    "notes": registry.NOTES,
}
m["not_applicable"] = na    # kept current: empty = every property is claimed
json.dump(m, open(os.path.join(ROOT, "MANIFEST.json"), "w"), indent=1)
print("MANIFEST.json: %d checks, %d not claimed" % (len(checks), len(na)))
