#!/bin/bash
# usage: with_revert.sh <commit-in-/repo> <check args...>  -- reverse-applies a fix commit, runs ./check, restores
set -u
c=$1; shift
git -C /repo show "$c" | git -C /repo apply -R --whitespace=nowarn || { echo "cannot revert $c"; exit 2; }
cd /verif && ./check "$@" 2>&1 | tail -${TAILN:-6}
git -C /repo checkout -- .
git -C /repo status --short | head -3
