#!/bin/sh
# independent re-check of every compiled Props module (and everything they depend on) with coqchk; prints the context summary
# (axioms, type-in-type, unsafe fixpoints, assumed positivity).  About 2 minutes.  Expected: "Axioms: <none>".
cd /verif/coq && make -j16 >/dev/null 2>&1
exec coqchk -o -silent -Q theories Ebml $(ls theories/Props/*.vo | sed 's#theories/Props/\(.*\)\.vo#Ebml.Props.\1#')
