#!/usr/bin/env python3
"""keepseed.py <name> <Cnn> <srcdir> [checks...]: validates a seeded change (tools/seedtest.py) and stores it under seeded/<name>/"""
import json, os, shutil, subprocess, sys
name, prop, src = sys.argv[1], sys.argv[2], sys.argv[3]
checks = sys.argv[4:] or [prop]
out = subprocess.run([sys.executable, "/verif/tools/seedtest.py", prop, src] + checks, stdout=subprocess.PIPE, text=True).stdout
res = json.loads(out)
dst = "/verif/seeded/%s" % name
os.makedirs(dst, exist_ok=True)
shutil.copy(os.path.join(src, "patch.diff"), dst)
shutil.copy(os.path.join(src, "demo.rs"), dst)
meta = json.load(open(os.path.join(src, "meta.json")))
meta["origin"] = "independent sub-agent given only the property text and a scratch worktree"
meta["validated_by_me"] = {k: res.get(k) for k in ("patch_applies", "demo_passes_without", "demo_fails_with", "suite_passes_with")}
meta["what_i_ran"] = "tools/seedtest.py: scratch worktree of /repo HEAD: demo without patch (pass), with patch (fail), cargo test --workspace with patch (pass); then git -C /repo apply patch.diff; ./check <prop> --tier quick; git -C /repo checkout -- ."
meta["detection"] = {c: {"detected": v["detected"], "how": ("oracle with concrete failing input" if "oracle:" in v["tail"] or ("VIOLATION" in v["tail"] and "no-failing-input-found" not in v["tail"]) else ("correspondence only (no-failing-input-found)" if v["detected"] else "MISSED"))} for c, v in res["checks"].items()}
json.dump(meta, open(os.path.join(dst, "meta.json"), "w"), indent=1)
print(name, meta["validated_by_me"], meta["detection"])
