open Model
open Conv
open Syntax

let werr_token = function
  | EUnexpectedTag (id, path) -> Printf.sprintf "E:tag:%s:%s" (id_str id) (String.concat "/" (List.map id_str path))
  | ETagId id -> "E:id:" ^ id_str id
  | ESize -> "E:size"
  | EClose (id, exp) -> Printf.sprintf "E:close:%s:%s" (id_str id) (opt_id exp)
  | EIo IoZero -> "E:io:wz"
  | EIo (IoCode c) -> "E:io:" ^ string_of_n c

let run_w = function
  | spec :: ops :: rest ->
      let sp = parse_spec spec in
      let script = match rest with [] -> [] | s :: _ -> parse_wscript s in
      let (rs, dest) = run_writer sp (parse_wops ops) script in
      let toks = List.map (fun (r, n) ->
          match r with
          | WOk -> Printf.sprintf "OK@%d" (int_of_nat n)
          | WErr e -> Printf.sprintf "%s@%d" (werr_token e) (int_of_nat n)
          | WPanic -> "PANIC") rs in
      String.concat " " (toks @ [ "|"; hex dest ])
  | _ -> raise (Bad "W")

let run_r ~cap = function
  | [ spec; cfg; script; input; ops ] ->
      let sp = parse_spec spec in
      let rc = parse_cfg sp cfg in
      let (c, outs) = run_reader_cap rc.cfg rc.cap0 (parse_rscript script) (unhex input) (parse_rops ops) in
      let s = print_routs outs in
      if cap then (string_of_n c ^ (if s = "" then "" else " " ^ s)) else s
  | _ -> raise (Bad "R")

let run_a = function
  | [ spec; cfg; script; input; mode ] ->
      let sp = parse_spec spec in
      let rc = parse_cfg sp cfg in
      let outs = run_async rc.cfg (parse_rscript script) (unhex input) in
      print_routs ~offsets:(mode <> "s") outs
  | _ -> raise (Bad "A")
