open Model
open Conv
open Syntax

let werr_token = function
  | EUnexpectedTag (id, path) -> Printf.sprintf "E:tag:%s:%s" (id_str id) (String.concat "/" (List.map id_str path))
  | ETagId id -> "E:id:" ^ id_str id
  | ESize -> "E:size"
  | EClose (id, exp) -> Printf.sprintf "E:close:%s:%s" (id_str id) (opt_id exp)
  | EIo IoZero -> "E:io:wz"
  | EIo (IoCode c) -> "E:io:" ^ string_of_n c

let run_w = function
  | spec :: ops :: rest ->
      let sp = parse_spec spec in
      let script = match rest with [] -> [] | s :: _ -> parse_wscript s in
      let (rs, dest) = run_writer sp (parse_wops ops) script in
      let toks = List.map (fun (r, n) ->
          match r with
          | WOk -> Printf.sprintf "OK@%d" (int_of_nat n)
          | WErr e -> Printf.sprintf "%s@%d" (werr_token e) (int_of_nat n)
          | WPanic -> "PANIC") rs in
      String.concat " " (toks @ [ "|"; hex dest ])
  | _ -> raise (Bad "W")

let run_r ~cap = function
  | [ spec; cfg; script; input; ops ] ->
      let sp = parse_spec spec in
      let rc = parse_cfg sp cfg in
      let scr = parse_rscript script in
      let (c, outs) = run_reader_cap rc.cfg rc.cap0 scr (unhex input) (parse_rops ops) in
      let s = print_routs outs in
      (* on a calm source (no Ok(0) pause, no error) the abstract reader Pure.p_run must give the same result *)
      let calm = List.for_all (function Chunk n -> n <> N0 | _ -> false) scr in
      let s = if calm then begin
          let s2 = print_routs (p_run rc.cfg (unhex input) (parse_rops ops)) in
          if s2 = s then s else "PUREDIFF buffered[" ^ s ^ "] pure[" ^ s2 ^ "]"
        end else s in
      if cap then (string_of_n c ^ (if s = "" then "" else " " ^ s)) else s
  | _ -> raise (Bad "R")

let run_a = function
  | [ spec; cfg; script; input; mode ] ->
      let sp = parse_spec spec in
      let rc = parse_cfg sp cfg in
      let outs = run_async rc.cfg (parse_rscript script) (unhex input) in
      print_routs ~offsets:(mode <> "s") outs
  | _ -> raise (Bad "A")

let split_w (res : string) : string list * string =
  match String.rindex_opt res '|' with
  | None -> raise (Bad "X-w")
  | Some i ->
      let toks = List.filter (fun s -> s <> "") (String.split_on_char ' ' (String.sub res 0 i)) in
      (toks, String.sub res (i + 2) (String.length res - i - 2))

let run_x = function
  | [ spec; ops; rcfg; mode ] ->
      let w = run_w [ spec; ops ] in
      let (toks, dest) = split_w w in
      if mode = "f" then w ^ " | " ^ run_r ~cap:false [ spec; rcfg; "-"; dest; "N" ]
      else begin
        let b = Buffer.create 256 in
        Buffer.add_string b w; Buffer.add_string b " |";
        (try
           List.iter (fun tok ->
               match String.rindex_opt tok '@' with
               | None -> raise Exit
               | Some i ->
                   let n = int_of_string (String.sub tok (i + 1) (String.length tok - i - 1)) in
                   let prefix = if n = 0 then "-" else String.sub dest 0 (2 * n) in
                   Buffer.add_string b " ["; Buffer.add_string b (run_r ~cap:false [ spec; rcfg; "-"; prefix; "N" ]); Buffer.add_char b ']') toks
         with Exit -> ());
        Buffer.contents b
      end
  | _ -> raise (Bad "X")

let run_y = function
  | [ spec; rcfg; input ] ->
      let r1 = run_r ~cap:false [ spec; rcfg; "-"; input; "N" ] in
      let items = String.split_on_char ' ' r1 in
      let n = List.length items in
      if n = 0 || List.nth items (n - 1) <> "N" then r1
      else begin
        let tags = List.filteri (fun i _ -> i < n - 1) items in
        let ops = String.concat "," (List.map (fun it ->
            match String.rindex_opt it '@' with
            | Some i -> "wd:" ^ String.sub it 0 i
            | None -> raise (Bad "Y-item")) tags @ [ "x" ]) in
        let w = run_w [ spec; ops ] in
        let (_, dest) = split_w w in
        r1 ^ " | " ^ w ^ " | " ^ run_r ~cap:false [ spec; rcfg; "-"; dest; "N" ]
      end
  | _ -> raise (Bad "Y")
