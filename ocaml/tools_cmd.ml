open Model
open Conv
module BZ = Conv.BZ

let terr = function
  | WriteVintOverflow v -> "E wvo " ^ string_of_n v
  | WriteSignedVintOverflow z -> "E wsvo " ^ string_of_z z
  | ReadVintOverflow -> "E rvo"
  | ReadU64Overflow _ -> "E ru64"
  | ReadI64Overflow _ -> "E ri64"
  | ReadF64Mismatch _ -> "E rf64"
  | FromUtf8Error _ -> "E utf8"

let res f = function Ok a -> f a | Err e -> terr e | Panic -> "PANIC"
let enc r = res (fun bs -> "OK " ^ hex bs) r

let f64_token (bits : n) : string =
  if is_nan64 bits then "NaN" else BZ.format "%016x" (zt_of_n bits)

let run (t : string list) : string =
  match t with
  | [ "as_vint"; v ] -> enc (as_vint (n_of_string v))
  | [ "as_vint_len"; l; v ] -> enc (as_vint_with_length (nat_of_int (int_of_string l)) (n_of_string v))
  | [ "read_vint"; h ] ->
      res (function None -> "NONE" | Some (v, l) -> Printf.sprintf "OK %s %d" (string_of_n v) (int_of_nat l)) (read_vint (unhex h))
  | [ "as_svint"; v ] -> enc (as_signed_vint (z_of_string v))
  | [ "as_svint_len"; l; v ] -> enc (as_signed_vint_with_length (nat_of_int (int_of_string l)) (z_of_string v))
  | [ "read_svint"; h ] ->
      res (function None -> "NONE" | Some (v, l) -> Printf.sprintf "OK %s %d" (string_of_z v) (int_of_nat l)) (read_signed_vint (unhex h))
  | [ "is_vint"; v ] -> "OK " ^ if is_vint (n_of_string v) then "1" else "0"
  | [ "arr_u"; h ] -> res (fun v -> "OK " ^ string_of_n v) (arr_to_u64 (unhex h))
  | [ "arr_i"; h ] -> res (fun v -> "OK " ^ string_of_z v) (arr_to_i64 (unhex h))
  | [ "arr_f"; h ] -> res (fun v -> "OK " ^ f64_token v) (arr_to_f64 (unhex h))
  | _ -> "BADFN"
