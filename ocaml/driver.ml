(* Model runner: same case lines as the Rust harness, same canonical result lines,
   computed by the model extracted from Coq. *)
let () =
  let out = Buffer.create 65536 in
  (try
     while true do
       let line = input_line stdin in
       if String.length line > 0 && line.[0] <> '#' then begin
         let toks = String.split_on_char ' ' line in
         let r =
           match toks with
           | "T" :: rest -> Tools_cmd.run rest
           | "W" :: rest -> (try Cmds.run_w rest with Syntax.Bad m -> "BADCASE " ^ m)
           | "R" :: rest -> (try Cmds.run_r ~cap:false rest with Syntax.Bad m -> "BADCASE " ^ m)
           | "K" :: rest -> (try Cmds.run_r ~cap:false rest with Syntax.Bad m -> "BADCASE " ^ m)
           | "M" :: rest -> (try Cmds.run_r ~cap:true rest with Syntax.Bad m -> "BADCASE " ^ m)
           | "A" :: rest -> (try Cmds.run_a rest with Syntax.Bad m -> "BADCASE " ^ m)
           | "X" :: rest -> (try Cmds.run_x rest with Syntax.Bad m -> "BADCASE " ^ m)
           | "Y" :: rest -> (try Cmds.run_y rest with Syntax.Bad m -> "BADCASE " ^ m)
           | "D" :: rest -> (try Derive_cmd.run rest with Syntax.Bad m -> "BADCASE " ^ m)
           | c :: _ -> "BADCMD " ^ c
           | [] -> "BADCMD"
         in
         Buffer.add_string out r;
         Buffer.add_char out '\n';
         if Buffer.length out > 60000 then (print_string (Buffer.contents out); Buffer.clear out)
       end
     done
   with End_of_file -> ());
  print_string (Buffer.contents out)
