(* Conversions between OCaml values and the extracted inductive numbers. *)
module BZ = Z
open Model

let rec pos_of_z (x : BZ.t) : positive =
  if BZ.equal x BZ.one then XH
  else if BZ.is_even x then XO (pos_of_z (BZ.shift_right x 1))
  else XI (pos_of_z (BZ.shift_right x 1))

let n_of_z (x : BZ.t) : n = if BZ.sign x = 0 then N0 else Npos (pos_of_z x)
let z_of_z (x : BZ.t) : z =
  if BZ.sign x = 0 then Z0 else if BZ.sign x > 0 then Zpos (pos_of_z x) else Zneg (pos_of_z (BZ.neg x))

let rec zt_of_pos = function
  | XH -> BZ.one
  | XO p -> BZ.shift_left (zt_of_pos p) 1
  | XI p -> BZ.succ (BZ.shift_left (zt_of_pos p) 1)

let zt_of_n = function N0 -> BZ.zero | Npos p -> zt_of_pos p
let zt_of_z = function Z0 -> BZ.zero | Zpos p -> zt_of_pos p | Zneg p -> BZ.neg (zt_of_pos p)

let n_of_int (i : int) : n = n_of_z (BZ.of_int i)
let int_of_n (x : n) : int = BZ.to_int (zt_of_n x)
let n_of_string s = n_of_z (BZ.of_string s)
let z_of_string s = z_of_z (BZ.of_string s)
let string_of_n x = BZ.to_string (zt_of_n x)
let string_of_z x = BZ.to_string (zt_of_z x)

let rec nat_of_int (i : int) : nat = if i <= 0 then O else S (nat_of_int (i - 1))
let int_of_nat (x : nat) : int =
  let rec go acc = function O -> acc | S m -> go (acc + 1) m in
  go 0 x

(* byte table so that document-sized conversions are cheap *)
let byte_tab : n array = Array.init 256 n_of_int

let unhex (s : string) : n list =
  if s = "-" then []
  else begin
    let len = String.length s / 2 in
    let rec go i acc =
      if i < 0 then acc
      else go (i - 1) (byte_tab.(int_of_string ("0x" ^ String.sub s (2 * i) 2)) :: acc)
    in
    go (len - 1) []
  end

let hex (l : n list) : string =
  if l = [] then "-"
  else begin
    let b = Buffer.create 64 in
    List.iter (fun x -> Buffer.add_string b (Printf.sprintf "%02x" (int_of_n x))) l;
    Buffer.contents b
  end
