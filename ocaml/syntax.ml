(* Parsers and printers for the case language of harness/FORMAT.md. *)
open Model
open Conv

exception Bad of string

let hexid s = try n_of_z (BZ.of_string ("0x" ^ s)) with _ -> raise (Bad ("id " ^ s))
let id_str (x : n) = BZ.format "%x" (zt_of_n x)
let unhex_e s = if s = "" then [] else unhex s
let hex_e l = if l = [] then "" else hex l

let split c s = String.split_on_char c s

(* ---- specifications *)
let parse_bound s = if s = "" then None else Some (n_of_string s)
let parse_part s =
  if String.length s > 0 && s.[0] = '(' then begin
    let inner = String.sub s 1 (String.length s - 2) in
    match String.index_opt inner '-' with
    | None -> raise (Bad "global")
    | Some i -> PGlobal (parse_bound (String.sub inner 0 i), parse_bound (String.sub inner (i + 1) (String.length inner - i - 1)))
  end else PId (hexid s)
let parse_path s = if s = "" then [] else List.map parse_part (split '/' s)
let parse_type = function
  | "M" -> DMaster | "U" -> DUInt | "I" -> DSInt | "S" -> DUtf8 | "B" -> DBinary | "F" -> DFloat
  | t -> raise (Bad ("type " ^ t))
let parse_spec s : spec =
  if s = "-" then [] else
  List.map (fun e -> match split ':' e with
      | [ id; ty; path ] -> { e_id = hexid id; e_ty = parse_type ty; e_path = parse_path path }
      | _ -> raise (Bad "entry")) (split ';' s)

(* ---- tags *)
let rec parse_tag_at (s : string) (i : int) : tag * int =
  let n = String.length s in
  if i >= n then raise (Bad "tag");
  let kind = s.[i] in
  let j = ref (i + 1) in
  while !j < n && (match s.[!j] with '0' .. '9' | 'a' .. 'f' | 'A' .. 'F' -> true | _ -> false) do incr j done;
  let id = hexid (String.sub s (i + 1) (!j - i - 1)) in
  match kind with
  | 's' -> (TStart id, !j)
  | 'e' -> (TEnd id, !j)
  | 'm' ->
      if !j >= n || s.[!j] <> '(' then raise (Bad "full");
      let k = ref (!j + 1) in
      let cs = ref [] in
      if !k < n && s.[!k] = ')' then (TFull (id, []), !k + 1)
      else begin
        let fin = ref false in
        while not !fin do
          let (c, k') = parse_tag_at s !k in
          cs := c :: !cs;
          if k' < n && s.[k'] = ';' then k := k' + 1
          else if k' < n && s.[k'] = ')' then (k := k' + 1; fin := true)
          else raise (Bad "full-sep")
        done;
        (TFull (id, List.rev !cs), !k)
      end
  | 'u' | 'i' | 'f' | 't' | 'b' | 'r' ->
      if !j >= n || s.[!j] <> '=' then raise (Bad "elem");
      let k = ref (!j + 1) in
      while !k < n && (match s.[!k] with ';' | ')' | ',' -> false | _ -> true) do incr k done;
      let v = String.sub s (!j + 1) (!k - !j - 1) in
      let value = match kind with
        | 'u' -> VU (n_of_string v)
        | 'i' -> VI (z_of_string v)
        | 'f' -> VF (if v = "NaN" then n_of_z (BZ.of_string "0x7ff8000000000000") else n_of_z (BZ.of_string ("0x" ^ v)))
        | 't' -> VS (unhex_e v)
        | 'b' -> VB (unhex_e v)
        | _ -> VRaw (unhex_e v) in
      (TElem (id, value), !k)
  | _ -> raise (Bad "tagkind")

let parse_tag s = let (t, k) = parse_tag_at s 0 in if k <> String.length s then raise (Bad "tag-trailing") else t

let f64_token (bits : n) : string = if is_nan64 bits then "NaN" else BZ.format "%016x" (zt_of_n bits)

let rec print_tag (b : Buffer.t) (t : tag) : unit =
  match t with
  | TStart id -> Buffer.add_char b 's'; Buffer.add_string b (id_str id)
  | TEnd id -> Buffer.add_char b 'e'; Buffer.add_string b (id_str id)
  | TFull (id, cs) ->
      Buffer.add_char b 'm'; Buffer.add_string b (id_str id); Buffer.add_char b '(';
      List.iteri (fun i c -> if i > 0 then Buffer.add_char b ';'; print_tag b c) cs;
      Buffer.add_char b ')'
  | TElem (id, v) ->
      let (k, s) = match v with
        | VU x -> ('u', string_of_n x) | VI x -> ('i', string_of_z x) | VF x -> ('f', f64_token x)
        | VS x -> ('t', hex_e x) | VB x -> ('b', hex_e x) | VRaw x -> ('r', hex_e x) in
      Buffer.add_char b k; Buffer.add_string b (id_str id); Buffer.add_char b '='; Buffer.add_string b s

(* ---- writer ops *)
let parse_opts = function
  | "d" -> { o_len = None; o_unknown = false }
  | "u" -> { o_len = None; o_unknown = true }
  | s -> { o_len = Some (nat_of_int (int_of_string s)); o_unknown = false }

let parse_wop (s : string) : wop =
  if s = "f" then OpFlush else if s = "x" then OpIntoInner
  else if String.length s > 2 && s.[0] = 'U' && s.[1] = ':' then OpWriteUnknown (parse_tag (String.sub s 2 (String.length s - 2)))
  else if String.length s > 2 && s.[0] = 'r' && s.[1] = ':' then begin
    match split ':' s with
    | [ _; id; data ] -> OpRaw (hexid id, if data = "-" then [] else unhex_e data)
    | _ -> raise (Bad "raw")
  end
  else if String.length s > 3 && s.[0] = 'w' && s.[2] = ':' then
    OpWrite (parse_tag (String.sub s 3 (String.length s - 3)), parse_opts (String.make 1 s.[1]))
  else raise (Bad ("op " ^ s))

(* ops are separated by ',' — commas never occur inside tags *)
let parse_wops s = if s = "-" then [] else List.map parse_wop (split ',' s)

let parse_wscript s =
  if s = "-" || s = "" then [] else
  List.map (fun t -> if t = "i" then WInt else if t = "z" then WZero
             else if t.[0] = 'e' then WFail (n_of_string (String.sub t 1 (String.length t - 1)))
             else WAcc (nat_of_int (int_of_string t))) (split ',' s)

(* ---- reader *)
let parse_rscript s =
  if s = "-" || s = "" then [] else
  (* "w" = the async source answers Poll::Pending once and is polled again: the executor's re-poll is outside the model
     (Reader.anext is one completed read + one blocking next), so the step is dropped here; the harness really returns Pending *)
  List.map (fun t -> if t = "p" then Pause
             else if t.[0] = 'e' then Fail (n_of_string (String.sub t 1 (String.length t - 1)))
             else Chunk (n_of_string t)) (List.filter (fun t -> t <> "w") (split ',' s))

type rcfg = { cfg : cfg; cap0 : n }

let parse_cfg (sp : spec) (s : string) : rcfg =
  let a = ref 0 and m = ref (Some (n_of_string "4000000000")) and b = ref [] and e = ref true and cap = ref (n_of_int 65536) in
  if s <> "-" then
    List.iter (fun t ->
        if t = "" then () else
        let rest = String.sub t 1 (String.length t - 1) in
        match t.[0] with
        | 'a' -> a := int_of_string rest
        | 'm' -> if rest = "def" then () else if rest = "none" then m := None else m := Some (n_of_string rest)
        | 'b' -> if rest = "-" then b := [] else b := List.map hexid (split '+' rest)
        | 'e' -> e := (rest = "1")
        | 'c' -> if rest = "def" then () else cap := n_of_string rest
        | _ -> raise (Bad "cfg")) (split ',' s);
  { cfg = { c_sp = sp; c_allow_id = !a land 1 <> 0; c_allow_hier = !a land 2 <> 0; c_allow_over = !a land 4 <> 0;
            c_max = !m; c_buffered = !b; c_emit_eof = !e }; cap0 = !cap }

let parse_rops s =
  if s = "-" then [] else
  List.init (String.length s) (fun i -> match s.[i] with 'n' -> RNext | 't' -> RRecover | 'N' -> RAll | _ -> raise (Bad "rop"))

let opt_id = function None -> "-" | Some x -> id_str x
let opt_n = function None -> "-" | Some x -> string_of_n x

let rerr_token (e : rerr) : string =
  match e with
  | REof (start, id, size, partial) ->
      Printf.sprintf "E:eof:%s:%s:%s:%s" (string_of_n start) (opt_id id) (opt_n size)
        (match partial with None -> "-" | Some bs -> "=" ^ hex_e bs)
  | RInvalidTagId (pos, id) -> Printf.sprintf "E:cid:%s:%s" (string_of_n pos) (id_str id)
  | RInvalidTagData (pos, id) -> Printf.sprintf "E:cdata:%s:%s" (string_of_n pos) (id_str id)
  | RHierarchy (id, parent) -> Printf.sprintf "E:hier:%s:%s" (id_str id) (opt_id parent)
  | ROversized (pos, id, size) -> Printf.sprintf "E:over:%s:%s:%s" (string_of_n pos) (id_str id) (string_of_n size)
  | RInvalidSize (pos, id, size) -> Printf.sprintf "E:size:%s:%s:%s" (string_of_n pos) (id_str id) (string_of_n size)
  | RTagData (id, k) -> Printf.sprintf "E:tagdata:%s:%s" (id_str id) (match k with KU64 -> "u64" | KI64 -> "i64" | KF64 -> "f64" | KUtf8 -> "utf8")
  | RIo code -> "E:io:" ^ string_of_n code

let print_routs ?(offsets = true) (outs : rout list) : string =
  let b = Buffer.create 256 in
  List.iteri (fun i o ->
      if i > 0 then Buffer.add_char b ' ';
      match o with
      | OItem (t, off) -> print_tag b t; Buffer.add_char b '@'; Buffer.add_string b (if offsets then string_of_n off else "?")
      | OErr e -> Buffer.add_string b (rerr_token e)
      | ONone -> Buffer.add_char b 'N'
      | ORecOk -> Buffer.add_string b "T:ok"
      | ORecErr e -> Buffer.add_string b ("T:" ^ rerr_token e)
      | OPanic -> Buffer.add_string b "PANIC"
      | OFuel -> Buffer.add_string b "FUEL"
      | OLimit -> Buffer.add_string b "LIMIT") outs;
  Buffer.contents b
