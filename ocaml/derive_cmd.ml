(* D — derive: the model's answer for a declaration (harness/FORMAT.md, section "D — derive"). *)
open Model
open Conv
open Syntax

let type_of_letter = function
  | "M" -> Some DMaster | "U" -> Some DUInt | "I" -> Some DSInt | "S" -> Some DUtf8 | "B" -> Some DBinary
  | "F" -> Some DFloat | "?" -> None
  | t -> raise (Bad ("dtype " ^ t))

let letter_of_type = function
  | DMaster -> "M" | DUInt -> "U" | DSInt -> "I" | DUtf8 -> "S" | DBinary -> "B" | DFloat -> "F"

let all_types = [ DMaster; DUInt; DSInt; DUtf8; DBinary; DFloat ]

let dec s = try n_of_string s with _ -> raise (Bad ("number " ^ s))

let parse_ppart s =
  if String.length s > 0 && s.[0] = '(' then begin
    if s.[String.length s - 1] <> ')' then raise (Bad "global");
    let inner = String.sub s 1 (String.length s - 2) in
    match String.index_opt inner '-' with
    | None -> raise (Bad "global")
    | Some i ->
        let b x = if x = "" then None else Some (dec x) in
        PPGlobal (b (String.sub inner 0 i), b (String.sub inner (i + 1) (String.length inner - i - 1)))
  end else PPIdent (dec s)

let parse_attr s =
  if s = "" then raise (Bad "attr");
  let rest = String.sub s 1 (String.length s - 1) in
  match s.[0] with
  | 'i' -> AId (hexid rest)
  | 't' -> AType (type_of_letter rest)
  | 'p' -> APath (if rest = "" then [] else List.map parse_ppart (split '/' rest))
  | 'o' when rest = "" -> AOther
  | _ -> raise (Bad ("attr " ^ s))

let parse_variant s =
  match String.index_opt s ':' with
  | None -> raise (Bad "variant")
  | Some i ->
      let name = dec (String.sub s 0 i) in
      let attrs = String.sub s (i + 1) (String.length s - i - 1) in
      { v_name = name; v_attrs = (if attrs = "" then [] else List.map parse_attr (split ',' attrs)) }

let parse_decl s : decl = if s = "-" then [] else List.map parse_variant (split ';' s)

let part_str = function
  | PId i -> id_str i
  | PGlobal (a, b) ->
      let o = function None -> "" | Some x -> string_of_n x in
      "(" ^ o a ^ "-" ^ o b ^ ")"

(* entries sorted by id, first entry with an id wins *)
let table_str (sp : spec) : string =
  let cmp a b = BZ.compare (zt_of_n a.e_id) (zt_of_n b.e_id) in
  let sorted = List.stable_sort cmp sp in
  let rec dedup = function
    | a :: (b :: _ as tl) when cmp a b = 0 -> a :: dedup (List.filter (fun x -> cmp a x <> 0) tl)
    | a :: tl -> a :: dedup tl
    | [] -> []
  in
  String.concat ";"
    (List.map (fun en -> Printf.sprintf "%s:%s:%s" (id_str en.e_id) (letter_of_type en.e_ty)
                  (String.concat "/" (List.map part_str en.e_path))) (dedup sorted))

let name_str = string_of_n

let full_str pvs =
  let groups f = String.concat ";" (List.map (fun ty -> letter_of_type ty ^ "=" ^ f ty) all_types) in
  let ctor = groups (fun ty -> String.concat "," (List.map (fun (i, nm) -> id_str i ^ ">" ^ name_str nm) (gen_ctor pvs ty))) in
  let acc = groups (fun ty -> String.concat "," (List.map name_str (gen_acc pvs ty))) in
  let ids = String.concat "," (List.map (fun (nm, i) -> name_str nm ^ ">" ^ (match i with Some i -> id_str i | None -> "*")) (gen_get_id pvs)) in
  let en = String.concat "," (List.map (fun (nm, t) -> name_str nm ^ (match t with Some t -> letter_of_type t | None -> "R")) (gen_enum pvs)) in
  String.concat "|" [ table_str (get_impl pvs); ctor; acc; ids; en ]

let run = function
  | [ d ] -> (match derive_full (parse_decl d) with None -> "ERR" | Some pvs -> "OK:" ^ full_str pvs ^ ";same")
  | [ "probe"; _; d ] -> (match derive (parse_decl d) with None -> "PROBE:ERR" | Some sp -> "PROBE:" ^ table_str sp ^ ";-")
  | _ -> raise (Bad "D")
