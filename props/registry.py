"""Per-property manifest texts (what is proved, what is only tied by correspondence)."""
NOTES = ("All checks: ./check <Cnn> --tier quick|thorough. Each run (1) rebuilds Props/<Cnn>.vo with coqc (full .vo build) and audits "
         "Print Assumptions for every statement, (2) rebuilds the Rust harness against /repo's working tree (path dependency) in two flavours "
         "(overflow checks on / plain release), (3) runs generated cases through the extracted Coq model and the implementation, compares, "
         "applies the property oracle to the implementation's outputs, and reports per DESIGN.md section 4.5. Genuine defects found and "
         "repaired are listed in KNOWN_FINDINGS.json (fix: commits in /repo).")
BASE_NOTE = ("Trusted: Coq 8.16.1 kernel (vm_compute used, native_compute not used), no axioms (Print Assumptions: closed under the global "
             "context, audited every run); the hand-written model is tied to /repo only by the correspondence run (differential testing on "
             "generated cases): Rust harness, OCaml driver, Coq extraction with ExtrOcamlBasic only (no Extract Constant), Python generators "
             "and oracle. usize = 64 bit. ")
NOT_APPLICABLE = {}

def _e(technique, text, note=""):
    return {"technique": technique, "text": text, "note": BASE_NOTE + note}

T_CORR = "Coq theorems over a hand-written Gallina model + differential correspondence (extracted model vs real code) with a property oracle"
CHECKS = {
 "C15": _e("Coq proof over Gallina model of tools.rs + differential correspondence (extracted model vs real code)",
  "Unbounded theorems (all N/Z values, all byte lists, widths 1-8 by exhaustive case split) for every clause of the property: "
  "shortest default encoding, fixed-width exactness/overflow, decode(encode)=id with arbitrary trailing bytes, decoder totality, "
  "need-more exactly on proper prefixes (C15_need_more_prefix: an iff with 'some non-empty suffix completes it to an encoding'; the signed decoder is the "
  "unsigned one followed by a total subtraction: C15_signed_is_unsigned), length bound and canonicity, signed fixed/default/round trip incl. width 8, signed/unsigned "
  "length agreement, is_vint characterisation. The model is tied to src/tools.rs by running ~3*10^5 (quick) cases incl. exhaustive "
  "sub-spaces through the extracted model and the real functions in both overflow-check modes.",
  "Widths outside 1..8 are outside the property (code panics; model says Panic; not generated)."),
}
PROVED = {
 "C16": ("Unbounded theorems for every clause: unsigned/signed/float decoders return the big-endian / two's-complement sign-extended / IEEE value for "
         "lengths 0-8 (empty = 0) resp. 4 and 8, the error otherwise, never panic; and they invert the writer's payload encoders "
         "(Writer.write_element: minimal 1/2/4/8-byte width — C16_writer_sint_minimal / _fits, C16_writer_uint_fits) for every u64 / i64 / f64 bit pattern "
         "(floats are bit patterns; the f32 widening widen32 is specified by the correspondence run only; C16_total holds by the shape of the model). Tied to src/tools.rs and tag_writer.rs by "
         "exhaustive runs on all slices of 0-2 bytes, boundary/random slices, and write-then-read of boundary values.", ""),
 "C11": ("Theorems: the matcher path_matches decides the declarative pattern semantics Matches (named parent = exactly that master, (min-max) = "
         "between min and max arbitrary masters, whole chain consumed) for every path and chain; the writer's check accepts iff the chain of open "
         "masters matches, is applied to every non-End tag of a known id (except the combination unknown-size option on a non-master, which gets the size error first), and a rejection is UnexpectedTag{id, chain} with the state "
         "unchanged; the reader judges an element against the chain that remains after the unknown-size masters it closes, where the closed count is "
         "proved to be the declarative closing rule (largest k: k innermost masters unknown-size, outermost of them ended by the element); the reader's "
         "HierarchyError carries the id at the cursor and the innermost open master and is reported ONLY when the remaining chain does not match "
         "(C11_reader_error_fields); conversely (C11_reader_reports / C11_reader_error_iff, Proofs/AuditErrKinds.v) once the document position is determined "
         "a mismatch IS reported whenever the earlier header checks pass. While the position is undetermined (a mid-document start: nothing but global "
         "elements read so far) an element with a placeholder path is not judged — C11_unchecked_while_undetermined, C11_undetermined_counterexample; the "
         "reader cannot know the ancestors there, which is why this is read as outside the property's 'chain of open masters'. The call sites are additionally tied by correspondence (every id x reachable chains, incl. paths with several "
         "placeholders, brute-force pattern oracle).", ""),
 "C09": ("Theorems: deprecated unknown-size call = option-based call (definitional in the fixed code); a Full item is buffered as its Start (same "
         "options), its children, its End; an element write appends exactly id ++ size field ++ payload where the payload depends on the value only "
         "and an explicit width w gives a size field of exactly w bytes; write_all delivers exactly the data for every write script without a hard "
         "error. Whole documents (Proofs/WriteEnc.v, WriteFull.v): a conforming document written tag by tag (any widths, unknown size by option) and the same "
         "document with every master given as one Full item both yield exactly the structural encoding enc_forest: byte-identical output for the two "
         "presentations although the separate calls flush in between (C09_full_equals_separate: default options, every master of known size); the width flag "
         "d of these theorems is per document (all defaults or all explicit widths); C09_mixed_encodes / C09_presentation_irrelevant "
         "(Proofs/WriteMixed.v): the same for ARBITRARY MIXES — at every master independently either one Full item or Start, children (each again by "
         "its own choice), End — every call succeeds and the bytes are enc_forest; options show up only in the size fields they govern. "
         "C09_script_irrelevant (Proofs/WriteScripts.v): for every specification and EVERY call sequence (rejected calls, raw writes, flush included) the "
         "per-call results, the byte counts after every call and the final bytes are the same for every destination that accepts bytes in any pattern of "
         "short writes and Interrupted errors. Global-placeholder paths are covered by the correspondence groups.", ""),
 "C19": ("FULL. Theorem C19_atomic: for every specification, state, tag tree (any nesting of Full) and options, a write that returns a non-I/O error "
         "leaves the complete writer state (open masters, working buffer, delivered bytes, destination script) exactly as it was; corollaries for the "
         "deprecated call, for write_raw (no non-I/O failure exists) for flush()/into_inner() failing with the size error (C19_flush_atomic, after the repair of D26; private_flush itself fails only with I/O errors) "
         "and for every kind of call at once (C19_atomic_any); run level (C19_insert_rejected, Proofs/AuditWriter.v): inserting a call that is rejected with "
         "a non-I/O error anywhere into any call sequence leaves the final state, the delivered bytes and every other call's result and byte count exactly "
         "as without it. The proof exposed defect D21, the audit D26 (both fixed).", ""),
 "C10": ("Theorems over all call sequences, states, specifications and destination scripts: every call only appends to the delivered bytes (prefix "
         "of the final output); a successful call with no known-size master open leaves the working buffer empty; a call after which a known-size "
         "master is open delivered nothing; buffering never touches the destination; flush()/into_inner() close every master and empty the buffer; byte level (Proofs/AuditWriter.v): C10_flush_bytes / C10_into_inner_bytes — a successful "
         "flush appends exactly the working buffer with every open known-size master's id and size field spliced in at its start (closed_buf); "
         "C10_write_delivers / C10_raw_delivers — a successful call with no known-size master open appends exactly what was buffered; C10_raw_held; "
         "C10_private_flush_bytes / C10_flush_failure — on an I/O error what the destination took is drained and the undelivered rest STAYS buffered "
         "(after the repair of D28; before it the rest was lost), on the size error nothing changed. Failing destinations (Proofs/WriterIO.v): "
         "C10_private_flush_nothing_lost — delivered ++ buffered is the same before and after every flush attempt; C10_io_error_loses_nothing — for every "
         "specification, call sequence and destination script (errors, Ok(0), short writes, Interrupted) the run differs from the run against an accepting "
         "destination only in that some Ok verdicts become I/O errors and some delivered bytes are still buffered: same open masters (known-size start "
         "offsets shifted by the retained bytes: C10_io_open_offset_counterexample), delivered ++ buffered equal, never more delivered; C10_retry_delivers / "
         "C10_empty_buffer_same_dest — once a call succeeds with no known-size master open (e.g. a retried flush) the destination holds exactly what the "
         "accepting destination holds. "
         "Snapshots (Proofs/Snapshots.v): after the calls that write a conforming document up to any point with only unknown-size masters open, the "
         "destination holds exactly the encoding of everything written so far (C10_snapshot_bytes_partial) and the strict reader parses it to exactly the "
         "tags written so far followed by the Ends of the open masters, innermost first (C10_snapshot_parses_partial / _tags_partial); with a known-size "
         "master open it holds exactly what precedes the outermost such master, and that parses likewise (C10_snapshot_held_partial). PARTIAL: one call per "
         "tag, accepting destination, placeholder-free paths; Full items, write scripts and rejected calls in between are covered by the correspondence "
         "run (destination snapshots after every call parsed by the real iterator).", ""),
 "C04": ("Theorem C04_refines: for every configuration, input, initial capacity (0 included), every read script in which the source never returns "
         "Ok(0) before the end and never fails, and every next()/try_recover() sequence, the buffered machine (window, capacity, compaction-free "
         "refill loop) yields exactly the run of the abstract reader Pure.v on the input; hence identical items/offsets/errors for any two chunkings "
         "and capacities. Failing sources (Proofs/RefineFail.v): C04_refines_until_io_error — with a script pre ++ Fail code :: rest (pre calm, rest arbitrary) the "
         "outcomes up to the first reported source error are a prefix of the abstract run, including the Ends (or the rolled-up buffered master) delivered between "
         "consuming the Fail and reporting it; the one exception is a try_recover() called while the error is still queued (alternative (iii), exhibited as "
         "C05_recover_while_io_error_queued); nothing is claimed after the reported error (C05_after_io_error_unspecified shows why). EOF pauses (Proofs/Pauses.v, PausesLookahead.v), with end-of-stream closing disabled: C04_pause_boundary_noop — a temporary "
         "Ok(0) met at a tag boundary is a no-op that yields None and leaves the abstract state unchanged; C04_pause_run_many — for a run whose pauses "
         "are all met at tag boundaries, repeated drains yield exactly the slice run's results with one None inserted per boundary pause (any capacity, any "
         "chunks between the pauses, any buffered set); C04_step_nopause_refines — every call that consumes no pause refines the abstract reader; "
         "C04_pause_run_lookahead / C04_pause_swallowed — pauses swallowed by the 16-byte header look-ahead while the current tag is complete in the "
         "window change nothing (this case needs nothing buffered, bytes < 256, and — because the look-ahead asks for 16 bytes — is met only when the tag "
         "before the pause is a non-master element of at least 16 bytes). C04_refines abstracts the window: compaction and stale bytes are invisible to "
         "it by construction, so a compaction bug can be caught by the correspondence run only. The hypotheses on the paused run are semantic (where each pause is met); the correspondence run covers exhaustive "
         "partitions x capacities of small inputs and pause scripts computed from the document layout; pauses inside a buffered master are known finding D18.", ""),
 "C17": ("Theorem C17_buffer_bounded: with a size limit m the model's buffer length (r_cap, which only ever grows, so its final value is the peak) never "
         "exceeds max(initial capacity, 16, m) on a 64-bit usize, for every input, "
         "configuration, source script (pauses and I/O errors included) and call sequence; a header declaring a larger known size is never accepted "
         "and header validation requests at most 16 bytes of buffer (the size error comes before any allocation or read for the payload). "
         "C17_no_overflow (Proofs/NoOverflow.v): for byte inputs shorter than 2^62 bytes every sum the code computes on usize while parsing stays "
         "below 2^63, in every reachable state and for every configuration — current offset, header length + declared size, offset + header + size "
         "(is_invalid_tag_size), every open master's data_start + size (also after try_recover enlarged it: size + skipped distance), the vint "
         "accumulator and marker shifts — each theorem names the Rust expression it bounds; buffer indices are bounded by the capacity, itself "
         "<= max(cap0, 16, 2^56) without a limit (C17_buffer_bounded_bytes). C17_size_above_limit_rejected / C17_size_error_no_growth (Proofs/AuditLimit.v): a header declaring a size above the limit makes the call "
         "return the size error with the buffer no larger than max(before, 16); C17_cap_monotone_* / C17_final_is_peak: the buffer length never decreases, so "
         "the bound on the final length bounds every intermediate one. Declared sizes never panic (C05_no_panic). Real heap usage (old+new "
         "buffer during growth, payload copies, queue) is an implementation-level oracle measured by the harness' counting allocator: partial by nature.",
         "The allocator and Vec/Box growth are not modelled; the measured bound 3*max(m, cap, 16)+4*len+64KiB is an oracle, not a theorem. "),
 "C13": ("Theorems: C13_tolerated_kinds_impossible — for every configuration, input and next()/try_recover() sequence, no reported error belongs to a "
         "tolerated class and, with unknown ids not tolerated, no successful item is or contains a raw tag (abstract reader; buffered machine for every "
         "chunking/capacity by C04_refines); C13_header_error_kinds — every reported header error implies its own cause (incomplete id/size: UnexpectedEof; malformed size or numeric "
         "element longer than 8: InvalidTagData; unknown id: InvalidTagId; chain mismatch: HierarchyError; overrun of an enclosing known-size master: "
         "OversizedChildElement; above the limit: InvalidTagSize), each only when its class is not tolerated, each with the element's offset except "
         "HierarchyError (which has no position field in errors.rs); C13_header_error_priority (Proofs/AuditErrKinds.v) — the header check IS the decision "
         "list first_failure: checks in the code's order (id bytes, size field, numeric size, id known, hierarchy, containment, limit), the first failing "
         "one decides, and C13_reports_* give the completeness direction per check (e.g. unknown id and not tolerated => InvalidTagId whatever else is "
         "wrong); C13_raw_only_for_undeclared_ids (Proofs/RawOnlyUndeclared.v) — under every configuration a raw tag, alone or inside a buffered master, "
         "is handed out only for an id the specification does not declare; the explicit size limit c_max is arbitrary in the theorems — that the DEFAULT "
         "limit stays in force when tolerances are set is checked by the correspondence run only; the size limit is enforced under every tolerance setting; C13_strict_is_prefix (Proofs/Monotone.v) — for inputs that start at a "
         "root element the items of the strict parse (with offsets) are a prefix of those of ANY more tolerant parse of the same bytes, for every buffered "
         "set (nested buffered masters included) and, via C04_refines, every capacity and chunking; the counterexample for mid-document starts is "
         "exhibited (C13_not_at_root_ex). Model note: with buffered masters the theorem needs bytes < 256 (true of u8).", ""),
 "C03": ("Theorems: per tag (C03_tag_mirrors_bytes, every configuration/state/input): the item's offset is the cursor, the id decoded there is the item's "
         "id, the input splits as header ++ payload ++ rest with the cursor advancing exactly over them, a master's payload part is empty, an element's "
         "value is the documented decoding of its payload. Run level (Proofs/Tiling.v): C03_run_tiles — for every configuration with nothing buffered, "
         "every input and every call sequence, the non-End items emitted before the first error tile the input from offset 0: each starts where the "
         "previous one's header (masters) or payload (elements) ends, each segment is id vint ++ size vint (++ payload of the announced length), no byte "
         "skipped or read twice; C03_end_offsets — every End carries exactly the offset of the Start it closes, implied ancestors of a mid-document "
         "start carry 0 (all call sequences incl. try_recover, all tolerances); C03_end_offsets_rooted / _pinned / _based pin the base of that checker as for C06 "
         "(strict configurations); C03_clean_drain_tiles_whole_input — a drain that ends with None (nothing buffered, any tolerances) tiles the WHOLE "
         "input: no byte is left over; C03_buffered_tiles_and_offsets — complete runs with buffered sets: a Full "
         "item carries its Start's offset and the unrolled run tiles the input (via C08's simulation). The buffered machine reads the same for every "
         "chunking/capacity (C04_refines). After an error tiling is not claimed (the offending element's bytes are consumed, try_recover skips).", ""),
 "C18": ("Theorems over a Gallina model of the derive pipeline (attribute parsing order, Crc32/Void appending, duplicate-id check, validate_path, "
         "generated tables): for every accepted declaration the generated table has pairwise distinct ids and reports exactly the declared "
         "type/resolved path per id and unknown/empty otherwise; Crc32/Void/raw-tag present; spec_ok (every named parent is a master) and hence the "
         "iterator's implied-parent seeding never hits the 'bad specification' panic (C18_no_implied_parent_panic); the writer never panics on tags a generated "
         "enum can express — variants fix id and value kind, RawTag may carry any id (C18_writer_no_panic, after the repair of D27; C18_writer_raw_written); "
         "'accepted' is characterised exactly (C18_accepted_iff / C18_derive_full_iff: one id, one recognised type, at most one well-formed path per variant; "
         "distinct ids; every path = its master parent's path ++ that parent); constructor/accessor tables; the easy_ebml lowering; one "
         "general rejection theorem per malformation class. Tied to the code by (a) calling the real impl_ebml_specification / easy_ebml entry "
         "points as a library on generated good and systematically broken declarations and reading the tables back from the generated token "
         "streams (both front-ends compared), (b) enums compiled with the real macros and probed at run time.",
         "Both front-ends run the same code by definition of easy_derive; attributes the macro does not know are ignored by it (only an unknown data_type value is "
         "rejected) and left to rustc. syn/quote/proc-macro2, rustc and macro hygiene are not modelled; duplicate variant names / reserved names are left to rustc (model mirrors the macro). "),
 "C01": ("Theorem C01_roundtrip_partial: for every strict configuration and every conforming document (arbitrary nesting depth, unsigned/signed/float/"
         "UTF-8/binary values over their whole ranges, payloads of every length the width can carry, every explicit size width 1-8 or default options, any "
         "subset of masters written with unknown size), writing it tag by tag succeeds at every call, emits exactly the structural encoding enc_forest, and "
         "the strict reader yields exactly the written tags (masters as Start/End pairs), then None; the _strong forms (C01_roundtrip_partial_strong and "
         "the five siblings, Proofs/AuditRoundTrip.v) state the read on the outcome list itself: it is exactly the document's items with their offsets "
         "followed by the clean end ONone — no error, no budget outcome (the older statements compare through out_tag, which cannot tell an error from a "
         "clean end: C01_out_tag_blind). Reader half (C01_reader_roundtrip_partial) holds for "
         "any encoding choices incl. non-canonical payloads, with offsets; proved by nested induction on the tree with the lazily emitted Ends as an "
         "invariant over the reader's stack; transferred to the buffered machine for every capacity and chunking. PARTIAL: declared paths without "
         "global placeholders. C01_full_roundtrip_partial: the same with masters given as Full items. C01_reader_roundtrip_known_partial (Proofs/RoundTripKnown.v): "
         "complementary class — every master of known size, declared paths with global placeholders ALLOWED (global elements at any depth, recursive "
         "masters): the reader yields exactly the document's items, provided the first placeholder-free element is a top-level one (hypothesis dstart — PROVED to follow from kconf for every specification the derive macro accepts, Proofs/DStart.v: "
         "C01_derive_consistent + C01_consistent_dstart, so the *_consistent_* / *_derived_* forms of the second-class theorems of C01, C02 and C12 carry no "
         "start hypothesis; the exhibited counterexample uses a child whose path omits its global parent's placeholder, which derive rejects: "
         "C01_ex_known_needs_dstart_not_derivable). "
         "C01_reader_roundtrip_raw_partial / C01_roundtrip_raw_partial (Proofs/RoundTripRaw.v): raw tags with well-formed ids round-trip when unknown "
         "ids are allowed — reader half for known-size documents with raw leaves anywhere, writer half (write_raw and write(RawTag)) and the full round "
         "trip. C01_roundtrip_known_partial2 / C01_full_roundtrip_known_partial / C01_mixed_roundtrip_known_partial (Proofs/WriteEncG.v): the writer half and "
         "the full write->read round trip for the second class (paths with global placeholders), for separate calls, Full items and arbitrary mixes. "
         "Global elements below unknown-size masters (inherently ambiguous) are covered by the "
         "correspondence run (write-then-read of random conformant documents incl. boundary payload lengths, widths, Full, unknown sizes, raw tags)."
         " ('Strict configuration' in these theorems = the three tolerances off; the document-level theorems also assume nothing buffered and end-of-stream closing on, the default — c_buffered = [] and c_emit_eof = true are explicit hypotheses.)", ""),
 "C02": ("PARTIAL. Theorem C02_fixpoint_partial: for every strict configuration and every conforming document in ANY encoding (zero-padded or empty "
         "integers, 4-byte floats, any size width incl. 8-byte fields, any subset of unknown-size masters closed by a following element or EOF), the "
         "tags the reader yields are all accepted by the writer under default options, its output is the canonical encoding, and reading that yields the "
         "identical tag sequence — in the _strong forms (C02_fixpoint_partial_strong, _known_, _cut_, _prefix_): both reads are exactly determined outcome lists "
         "ending in the clean end ONone, i.e. error-free (values keep their meaning: decoded values are proved to lie in the range the encoders invert, incl. widened f32). "
         "C02_fixpoint_cut_partial / C02_fixpoint_prefix_partial (Proofs/FixpointCut.v): the same for streams cut on a tag boundary, whose known-size "
         "masters declare more bytes than are present (read without error: EOF closes the open masters) — the re-written output is the complete document "
         "with the actual sizes, and reads back as the same tags; for every prefix of a conforming document that ends on a tag boundary. "
         "C02_fixpoint_known_partial (Proofs/FixpointKnown.v): the same fixpoint for the second document class (every master of known size, declared "
         "paths with global placeholders: global elements at any depth, recursive masters); C02_canon_idempotent / C02_rewrite_stable: after one round "
         "the output is canonical — re-writing the second read gives byte-identical output (both classes). Hypothesis: the "
         "re-encoding's sizes stay below 2^56-1 and the reader's size limit. Global elements below unknown-size masters (inherently ambiguous) and reader/"
         "writer validator agreement on arbitrary accepted streams are covered by the correspondence run (read-write-read on mutated/hand-crafted streams)."
         " ('Strict configuration' in these theorems = the three tolerances off; the document-level theorems also assume nothing buffered and end-of-stream closing on, the default — c_buffered = [] and c_emit_eof = true are explicit hypotheses.)", ""),
 "C06": ("Theorems: (Proofs/Nesting.v) C06_strict_items_well_nested — for every strict configuration (unknown ids and hierarchy errors not tolerated, "
         "nothing buffered), every byte input and every sequence of next()/try_recover()/drain operations, the successfully emitted tags are accepted "
         "by an independent checker started from some base chain of implied ancestors: every End closes the most recent unmatched Start or an implied ancestor, every Start/element has an id known to the "
         "specification and, once the position is determined, its declared path matches exactly the chain of open masters; C06_eof_closes_all. The base is pinned down by (Proofs/AuditNesting.v): C06_strict_items_well_nested_rooted / C06_eof_closes_all_rooted / C06_run_extents_rooted — "
         "when the first item is a root element the checker accepts from the EMPTY base (whole runs, errors and recoveries included); "
         "C06_clean_items_pinned / C06_drain_items_pinned / C06_eof_closes_all_pinned — otherwise, up to the first error, the items before the first "
         "placeholder-free element are accepted from the empty base and the whole sequence from exactly the implied ancestor chain of that element's "
         "declared path (C06_base_determined: no other base is possible); C06_strict_items_based — for whole runs a weaker 'Based' form (after an error "
         "the pinned form is false: C06_ex_pinned_after_error_counterexample); C06_ex_base_absorbs shows an arbitrary base would absorb stray Ends. "
         "Buffered masters (Proofs/BufferedNesting.v, by composition with C08): C06_buffered_clean_well_nested / _rooted / _items_pinned / _extents / "
         "_pinned_all — for ANY buffered set, a drain without error outcome (within the driver's item limit) unrolls to a tag sequence the same checkers accept, "
         "from the same pinned bases; with an error inside a buffered master the statement is false (known finding D29: C06_buffered_error_counterexample, "
         "rejected from every base); C06_buffered_eof_closes_all(_rooted/_pinned) — with EOF closing on, a buffered drain that ends with None leaves nothing open "
         "(no item-limit side condition). "
         "(Proofs/Extents.v) with oversized children not tolerated: C06_contained — every reachable state keeps the cursor inside every open known-size "
         "master, ranges nested (grow_frames of try_recover preserves it); C06_element_inside — every element read lies inside the byte range of each "
         "enclosing known-size master, a known-size master's whole declared range too; C06_end_at_exhaustion — the End of a known-size master is queued "
         "exactly when the cursor equals the end of its range (or at end of input), never by the closing rule (which pops unknown-size masters only); "
         "C06_run_extents — an independent extent checker over (tag, offset) items and the input bytes accepts every run up to its first error. "
         "Buffered runs with errors and extents after an error are judged by the correspondence harness' checkers (check_strict, check_nesting_history).", ""),
 "C07": ("Theorems: the closing rule (count_ended = the largest k such that the k innermost open masters have unknown size and the outermost of them is "
         "ended by the element; nothing closes below a known-size master); C07_items_partial / C07_encoding_choices_irrelevant_partial: every conforming "
         "document reads as its items with each unknown-size master's End right before the next element outside of it or at the end of input, so two "
         "encodings of the same tags (any known/unknown choice, any widths) read as the same tag sequence (both encodings must conform; C07_known_reencoding_partial: for the all-known re-encoding one conformance hypothesis "
         "suffices when the sizes fit the limit — without that it is false, C07_known_conf_counterexample: the limit applies to known sizes only). Restricted to paths without global "
         "placeholders; global elements after unknown-size masters are covered by the correspondence groups.", ""),
 "C05": ("Theorems: C05_no_panic — for every configuration whose specification passes the derive check (implied_ok), every byte input and every "
         "next()/try_recover() sequence, no call of the abstract reader panics (the model has a Panic outcome for: the two checked operations of read_vint, a missing implied parent "
         "(the 'bad specification' panic) and an out-of-range queue index; slicing and usize subtraction are totalised in the model by firstn/skipn "
         "and truncating subtraction — their safety is the subject of C17_no_overflow and of the correspondence run under catch_unwind); C05_never_out_of_fuel (Proofs/Termination.v) — the fuel the model's loops run with is always sufficient, i.e. every loop of "
         "read_next / buffer_master (any nesting of buffered masters) / try_recover terminates: a potential (queued items + open masters + 2 x remaining "
         "bytes) never increases and every successful header consumes a byte; C05_drain_within_limit / C05_drain_length — a full drain yields at most "
         "slack + 2*|input| + 1 results (slack = deepest declared path, for the implied ancestors), so it ends within the call bound whenever paths are "
         "<= 63 deep; all transferred to the buffered machine for every capacity and calm script; decoders total; an exhausted reader with no open master stays exhausted "
         "(C05_fused); source I/O errors surface (Proofs/AuditIO.v): C05_next_reports_fail / C05_try_recover_reports_fail — a call that consumes a Fail of the source "
         "consumes exactly one, as its last event, and reports it (next: at once, or queued behind the Ends it still owes and delivered by the following "
         "call); C05_next_accounts / C05_run_accounts_for_fails / C05_run_reports_every_fail — over every call sequence the error codes reported are, as a "
         "multiset, exactly those of the Fail events consumed: none dropped, none invented (the order can differ: C05_io_ex); C05_none_is_fixed_point / "
         "C05_fused_open — once next() returned None on an exhausted input it returns None forever, open masters or not; try_recover never moves backwards and "
         "fails only with end of input or the source's error. The buffered-machine statements hold for calm scripts (no pause, no injected fault); runs "
         "with injected faults are covered by the I/O theorems and the correspondence run. Model notes found by "
         "the termination proof: bytes must be < 256 (true of u8), and the run bound 4*|input|+64 of the model is exceeded by specifications deeper than "
         "~67 levels on 2-byte inputs (Example C05_deep_spec_exceeds_call_bound) — a limit of the model's driver, not of the code. Panics outside the "
         "modelled sites are covered by the adversarial correspondence runs under catch_unwind with hang detection.", ""),
 "C08": ("Theorems (Proofs/BufferSim.v, BufferSimErr.v, RollUp.v), for every configuration (any buffered set, buffered masters nested in each other, "
         "any tolerances) and input: C08_buffered_run_unrolls(_items) — if the buffered run has no error outcome, unrolling every Full item recursively "
         "gives exactly the tags (and offsets: a Full carries its Start's offset) of the run with nothing buffered; and, with EOF closing on, a "
         "derive-consistent specification and byte input: C08_clean_stays_clean — if the unbuffered run ends cleanly so does the buffered one, with the "
         "same unrolled tags; C08_error_prefix — if the unbuffered run ends in an error e, the buffered run yields items whose unrolling is a prefix of "
         "the unbuffered items, followed by the SAME error e (the partial children of the buffered master are dropped); C08_master_end_found — with EOF "
         "closing the End of an open buffered master is always found (the EOF branch of buffer_master is unreachable); step simulation incl. steps that "
         "queue an error; algebraic core (roll-up / unroll, same-id nesting). C08_buffered_run_unrolls needs the unbuffered run to stay within the "
         "driver's item limit (no OLimit outcome; C08_limit_ex shows why; the _short form avoids it). Whatever the EOF-closing setting (Proofs/BufferedEof.v): C08_error_prefix_any — an unbuffered error e gives the buffered "
         "prefix followed by the same e; C08_clean_stays_clean_open — an unbuffered clean drain gives a clean buffered drain with the same unrolled tags "
         "PROVIDED no master with a buffered id is left open at the end of the unbuffered drain (always so with EOF closing on: C08_eof_final_stack_empty); "
         "without that proviso it is false — C08_noeof_counterexample is known finding D18 (input ends inside a buffered master, EOF closing off); "
         "C08_buffered_none_export / C08_none_iff — a buffered drain that ends with None corresponds to an unbuffered drain that ends with None (for any item limit "
         "that does not cut it).", ""),
 "C12": ("Theorems (Proofs/Partial.v, CutExists.v): C12_every_cut_partial — for every strict configuration, every conforming document and EVERY cut "
         "position k, reading the first k bytes yields out_tdoc (cut_doc f k): the items of everything complete (a master's Start once its header is "
         "complete), then on a tag boundary the Ends of all open masters and None, and inside a tag the Ends of the known-size masters complete at that "
         "point followed by UnexpectedEof with the incomplete tag's start offset, the id iff the id bytes are complete, the size iff the header is "
         "complete and exactly the available payload bytes; never a corruption error; for every capacity and chunking (C04_refines). cut_doc is an "
         "executable function proved to produce a conforming truncated document whose encoding is exactly the prefix (C12_cut_doc_correct); the "
         "truncated-document theorem holds for any declared sizes and at any reader state (C12_truncated_tag). Two classes of documents are covered: "
         "placeholder-free declared paths with any subset of unknown-size masters (above), and — C12_truncated_run_known_partial / "
         "C12_every_cut_known_partial (Proofs/PartialKnown.v) — every master of known size with declared paths that may contain global placeholders "
         "(global elements at any depth, recursive masters). Only unknown-size masters combined with global placeholders (inherently ambiguous) are "
         "left to the correspondence run, which cuts generated documents with global elements at every byte position."
         " ('Strict configuration' in these theorems = the three tolerances off; the document-level theorems also assume nothing buffered and end-of-stream closing on, the default — c_buffered = [] and c_emit_eof = true are explicit hypotheses.)", ""),
 "C14": ("Theorems (Proofs/Recover.v, RecoverKnown.v): C14_damaged_run_partial — for every strict configuration and every document with a run of junk "
         "inserted between two tags at any nesting depth (masters of known or unknown size), if the following tag still fits inside every enclosing "
         "known-size master after the shift and no header check passes at any junk position, then next() yields the tags before the junk unchanged, "
         "exactly one error, try_recover() succeeds (it walks exactly over the junk and enlarges every open known-size master by the skipped distance) and "
         "all remaining tags follow; C14_recovery_loses_nothing_partial — the tag sequence, error and recovery aside, equals that of the undamaged "
         "document; both also for the second document class (all masters of known size, declared paths with global placeholders: "
         "C14_damaged_run_known_partial, C14_recovery_loses_nothing_known_partial); try_recover never moves backwards and fails only with end of input or an error of the source "
         "(all states; C14_recover_reports_io_error / C14_recover_errors_buffered on the buffered machine with failing sources; the latter since the repair of D25). Header checks are shown to depend only on the parse fields of the state. The junk condition is semantic (per position); the "
         "generator of the correspondence run draws junk from byte classes without ids in the specification and computes the premise independently. "
         "For the second class the junk must come after the document position is determined (hypothesis jstart: a placeholder-free element "
         "precedes it at top level), since before that point the reader judges no hierarchy and the junk condition has no meaning."
         " ('Strict configuration' in these theorems = the three tolerances off; the document-level theorems also assume nothing buffered and end-of-stream closing on, the default — c_buffered = [] and c_emit_eof = true are explicit hypotheses.)", ""),
 "C20": ("PARTIAL + known finding D15. C20_ahead_partial / C20_ahead_blocking (Proofs/AsyncAhead.v): on every schedule that keeps the delivered data "
         "ahead of the parser (after each call at least 16 unread delivered bytes remain and no end-of-file error is queued, or the source is exhausted; "
         "Fail-free script; a computable criterion aheadb over the model's run) the non-blocking iterator yields exactly the abstract reader's run = the "
         "blocking iterator's for every chunking and capacity (C04_refines), for every configuration incl. buffered sets; the criterion subsumes the "
         "first-read case (C20_ahead_covers_first_read); C20_prefix_monotone — a call of the abstract reader that ends with 16 bytes of slack and no "
         "queued end-of-file error gives the same result on every extension of the input. C20_refuted exhibits a starved schedule on which the faithful "
         "model differs from the blocking run: the property as stated is violated by nonblocking.rs (KNOWN_FINDINGS D15, class 'starved', decided from "
         "the schedule and the blocking parse by props/readcheck.py). The stream adapter is covered by correspondence.",
         "futures' executor/waker protocol is not modelled (the scripted source never returns Pending). "),
}
PENDING = {
 "C16": "fixed-width decoders: model Tools.arr_to_*; correspondence exhaustive on slices of 0-2 bytes + writer inversion via write/read",
 "C11": "model Spec.path_matches/count_ended/validate_tag_path; correspondence on every id x reachable chains, writer and reader side, brute-force pattern oracle",
 "C09": "model Writer.wstep; groups of writer runs (Full vs Start/End, deprecated call, options vs default, write scripts)",
 "C19": "model Writer.write_advanced rollback; pairs of runs with one failing call of 9 kinds inserted",
 "C10": "model Writer.wrun; per-call destination snapshots parsed by the real iterator",
 "C01": "models Writer+Reader; write-then-read of random conformant unambiguous documents",
 "C02": "models Reader+Writer; read-write-read on non-canonical encodings",
 "C03": "model Reader; independent re-decode of the input at every reported offset",
 "C04": "model Reader buffered machine (window/capacity/read script); groups over chunkings, capacities, EOF pauses; exhaustive partitions of small inputs",
 "C05": "model Reader incl. Panic/Fuel outcomes; adversarial streams x configurations x next/try_recover interleavings under catch_unwind",
 "C06": "model Reader; independent nesting/path/extent checker on strict parses",
 "C07": "model Spec.count_ended + Reader; groups of known/unknown-size encodings of one tree",
 "C08": "model Reader.buffer_master/roll_up; groups with and without buffered sets",
 "C12": "model Reader; every cut position of valid documents against an independently computed expectation",
 "C13": "model Reader.peek_header; all 8 tolerance subsets on single-fault and mutated inputs",
 "C14": "model Reader.try_recover; junk insertion at tag boundaries with the premise computed by the generator",
 "C17": "model Reader (buffer length r_cap); declared sizes of every class with payload absent; counting allocator in the harness",
 "C20": "model Reader.anext; async vs blocking over poll schedules; starved schedules = known finding D15",
}
for _p in PROVED:
    PENDING.pop(_p, None)
for _p, (_t, _n) in PROVED.items():
    CHECKS[_p] = _e(T_CORR, _t, _n)
for _p, _t in PENDING.items():
    CHECKS[_p] = _e(T_CORR,
        "Executable Gallina model of the code path (" + _t + "), extracted and run against the real code on generated cases every run; the property oracle "
        "judges the implementation's outputs alone. Machine-checked statements currently in Props/" + _p + ".v are listed in the evidence file (obligations = "
        "statements counted from the file); the unbounded theorems for this property are being added (see DESIGN.md section 7 for the planned statements) — "
        "until then the claim for this property rests on the correspondence + oracle and the level is proof only for the statements listed.")
