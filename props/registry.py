"""Per-property manifest texts (what is proved, what is only tied by correspondence)."""
NOTES = ("All checks: ./check <Cnn> --tier quick|thorough. Each run (1) rebuilds Props/<Cnn>.vo with coqc (full .vo build) and audits "
         "Print Assumptions for every statement, (2) rebuilds the Rust harness against /repo's working tree (path dependency) in two flavours "
         "(overflow checks on / plain release), (3) runs generated cases through the extracted Coq model and the implementation, compares, "
         "applies the property oracle to the implementation's outputs, and reports per DESIGN.md section 4.5. Genuine defects found and "
         "repaired are listed in KNOWN_FINDINGS.json (fix: commits in /repo).")
BASE_NOTE = ("Trusted: Coq 8.16.1 kernel (vm_compute used, native_compute not used), no axioms (Print Assumptions: closed under the global "
             "context, audited every run); the hand-written model is tied to /repo only by the correspondence run (differential testing on "
             "generated cases): Rust harness, OCaml driver, Coq extraction with ExtrOcamlBasic only (no Extract Constant), Python generators "
             "and oracle. usize = 64 bit. ")
NOT_APPLICABLE = {}
CHECKS = {
 "C15": {
  "technique": "Coq proof over Gallina model of tools.rs + differential correspondence (extracted model vs real code)",
  "text": ("Unbounded theorems (all N/Z values, all byte lists, widths 1-8 by exhaustive case split) for every clause of the property: "
           "shortest default encoding, fixed-width exactness/overflow, decode(encode)=id with arbitrary trailing bytes, decoder totality, "
           "need-more exactly on proper prefixes, length bound and canonicity, signed fixed/default/round trip incl. width 8, signed/unsigned "
           "length agreement, is_vint characterisation. The model is tied to src/tools.rs by running ~3*10^5 (quick) cases incl. exhaustive "
           "sub-spaces through the extracted model and the real functions in both overflow-check modes."),
  "note": BASE_NOTE + "Widths outside 1..8 are outside the property (code panics; model says Panic; not generated).",
 },
}
