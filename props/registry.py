"""Per-property manifest texts (what is proved, what is only tied by correspondence)."""
NOTES = ("All checks: ./check <Cnn> --tier quick|thorough. Each run (1) rebuilds Props/<Cnn>.vo with coqc (full .vo build) and audits "
         "Print Assumptions for every statement, (2) rebuilds the Rust harness against /repo's working tree (path dependency) in two flavours "
         "(overflow checks on / plain release), (3) runs generated cases through the extracted Coq model and the implementation, compares, "
         "applies the property oracle to the implementation's outputs, and reports per DESIGN.md section 4.5. Genuine defects found and "
         "repaired are listed in KNOWN_FINDINGS.json (fix: commits in /repo).")
BASE_NOTE = ("Trusted: Coq 8.16.1 kernel (vm_compute used, native_compute not used), no axioms (Print Assumptions: closed under the global "
             "context, audited every run); the hand-written model is tied to /repo only by the correspondence run (differential testing on "
             "generated cases): Rust harness, OCaml driver, Coq extraction with ExtrOcamlBasic only (no Extract Constant), Python generators "
             "and oracle. usize = 64 bit. ")
NOT_APPLICABLE = {}

def _e(technique, text, note=""):
    return {"technique": technique, "text": text, "note": BASE_NOTE + note}

T_CORR = "Coq theorems over a hand-written Gallina model + differential correspondence (extracted model vs real code) with a property oracle"
CHECKS = {
 "C15": _e("Coq proof over Gallina model of tools.rs + differential correspondence (extracted model vs real code)",
  "Unbounded theorems (all N/Z values, all byte lists, widths 1-8 by exhaustive case split) for every clause of the property: "
  "shortest default encoding, fixed-width exactness/overflow, decode(encode)=id with arbitrary trailing bytes, decoder totality, "
  "need-more exactly on proper prefixes, length bound and canonicity, signed fixed/default/round trip incl. width 8, signed/unsigned "
  "length agreement, is_vint characterisation. The model is tied to src/tools.rs by running ~3*10^5 (quick) cases incl. exhaustive "
  "sub-spaces through the extracted model and the real functions in both overflow-check modes.",
  "Widths outside 1..8 are outside the property (code panics; model says Panic; not generated)."),
}
PENDING = {
 "C16": "fixed-width decoders: model Tools.arr_to_*; correspondence exhaustive on slices of 0-2 bytes + writer inversion via write/read",
 "C11": "model Spec.path_matches/count_ended/validate_tag_path; correspondence on every id x reachable chains, writer and reader side, brute-force pattern oracle",
 "C09": "model Writer.wstep; groups of writer runs (Full vs Start/End, deprecated call, options vs default, write scripts)",
 "C19": "model Writer.write_advanced rollback; pairs of runs with one failing call of 9 kinds inserted",
 "C10": "model Writer.wrun; per-call destination snapshots parsed by the real iterator",
 "C01": "models Writer+Reader; write-then-read of random conformant unambiguous documents",
 "C02": "models Reader+Writer; read-write-read on non-canonical encodings",
 "C03": "model Reader; independent re-decode of the input at every reported offset",
 "C04": "model Reader buffered machine (window/capacity/read script); groups over chunkings, capacities, EOF pauses; exhaustive partitions of small inputs",
 "C05": "model Reader incl. Panic/Fuel outcomes; adversarial streams x configurations x next/try_recover interleavings under catch_unwind",
 "C06": "model Reader; independent nesting/path/extent checker on strict parses",
 "C07": "model Spec.count_ended + Reader; groups of known/unknown-size encodings of one tree",
 "C08": "model Reader.buffer_master/roll_up; groups with and without buffered sets",
 "C12": "model Reader; every cut position of valid documents against an independently computed expectation",
 "C13": "model Reader.peek_header; all 8 tolerance subsets on single-fault and mutated inputs",
 "C14": "model Reader.try_recover; junk insertion at tag boundaries with the premise computed by the generator",
 "C17": "model Reader (buffer length r_cap); declared sizes of every class with payload absent; counting allocator in the harness",
 "C20": "model Reader.anext; async vs blocking over poll schedules; starved schedules = known finding D15",
}
for _p, _t in PENDING.items():
    CHECKS[_p] = _e(T_CORR,
        "Executable Gallina model of the code path (" + _t + "), extracted and run against the real code on generated cases every run; the property oracle "
        "judges the implementation's outputs alone. Machine-checked statements currently in Props/" + _p + ".v are listed in the evidence file (obligations = "
        "statements counted from the file); the unbounded theorems for this property are being added (see DESIGN.md section 7 for the planned statements) — "
        "until then the claim for this property rests on the correspondence + oracle and the level is proof only for the statements listed.")
