"""C02 — reading, re-writing and reading again is a fixpoint."""
import struct
from lib.runner import Case
from props.common import *

ID = "C02"
RULE = ("Y cases: a byte stream is read by the strict iterator; if it reads cleanly the items are written back with plain write() calls and "
        "the output is read again.  Streams: reference encodings of random conformant documents with non-canonical choices (4-byte floats, "
        "zero/sign-padded integers of 1-8 bytes, size fields of every width, unknown-size markers of widths 1-8, empty payloads), plus "
        "single mutations of those (most then fail the first read and are vacuous; counted).  Oracle: first item is a root element and "
        "the first read is clean => every write accepted and second read yields the identical tags.  non-trivial = first read clean with >= 3 items")
TRUSTED = TRUSTED_BASE
ASSUMPTIONS = ASSUME_BASE
EXHAUSTIVE = {}


def noncanon(rng, nodes):
    out = []
    for n in nodes:
        if n.is_master():
            enc = n.enc
            if enc == "u" and rng.random() < 0.5:
                enc = ("u", rng.randint(1, 8))
            elif enc is None and rng.random() < 0.4:
                enc = rng.choice([2, 3, 5, 8])
            out.append(E.Node(n.tag, enc, noncanon(rng, n.children)))
            continue
        t = n.tag
        payload = None
        r = rng.random()
        if t[0] == "u" and r < 0.5:
            w = rng.randint(max(1, (t[2].bit_length() + 7) // 8), 8)
            payload = t[2].to_bytes(w, "big") if rng.random() < 0.9 or t[2] else b""
        elif t[0] == "i" and r < 0.5:
            w0 = len(E.sint_payload(t[2]))
            w = rng.randint(w0, 8)
            payload = t[2].to_bytes(w, "big", signed=True) if (t[2] or rng.random() < 0.8) else b""
        elif t[0] == "f" and r < 0.5:
            b32 = rng.choice([0, 1 << 31, 0x3F800000, 0x7F800000, 0xFF800000, 1, 0x00800000, 0x7F7FFFFF, rng.getrandbits(32)])
            (f,) = struct.unpack(">f", b32.to_bytes(4, "big"))
            if f == f:
                payload = b32.to_bytes(4, "big")
                t = ("f", t[1], int.from_bytes(struct.pack(">d", f), "big"))
        enc = n.enc if n.enc is not None else (rng.choice([2, 4, 8]) if rng.random() < 0.3 else None)
        out.append(E.Node(t, enc, None, payload))
    return out


def generate(rng, tier):
    cases = []
    thorough = tier == "thorough"
    specs = specs_pool(rng, 40 if thorough else 10)
    for k in range(5000 * TH if thorough else 600):
        sp = rng.choice(specs)
        nodes = E.rand_doc(rng, sp, big=(k % 6 == 0), unknown_p=0.3)
        if not nodes:
            continue
        nodes = noncanon(rng, nodes)
        try:
            data = E.encode(nodes)
        except AssertionError:
            continue
        cases.append(Case("Y %s %s %s" % (sp.s(), E.cfg_str(), data.hex() or "-"), "noncanon"))
        if k % 2 == 0:
            m = E.mutate(rng, data)
            cases.append(Case("Y %s %s %s" % (sp.s(), E.cfg_str(maxs="100000"), m.hex() or "-"), "mutated"))
    return cases


def nontrivial(case, model_out):
    p = model_out[0].split(" | ")
    return len(p) == 4 and len(p[0].split(" ")) >= 4


def oracle(case, outs):
    out = outs[0]
    if bad_token([out]):
        return "%s: %s" % (case.lines[0][:400], bad_token([out]))
    p = out.split(" | ")
    if len(p) == 1:
        return None      # first read not clean: outside the property
    if len(p) != 4:
        return "malformed: %s" % out[:300]
    sp = spec_of_line(case.lines[0])
    t1, term1 = item_tags(p[0].split(" "))
    if not t1:
        return None
    if sp.get_path(t1[0][1]) != [] or sp.get_type(t1[0][1]) is None:
        return None      # does not begin at a root element
    wt = [x for x in p[1].split(" ") if x]
    bad = [x for x in wt if not x.startswith("OK@")]
    if bad:
        return "the writer rejected a tag the strict reader emitted: %s  [%s]" % (bad[0], case.lines[0][:400])
    t2, term2 = item_tags(p[3].split(" "))
    if term2 != ("none",) or not tags_equal(t1, t2):
        return "second read differs: first %s | second %s  [%s]" % (p[0][:300], p[3][:300], case.lines[0][:300])
    return None
