"""C18 — derived specifications mean what was declared and are internally consistent; malformed declarations are rejected."""
import itertools

from lib.runner import Case
from props.common import *

ID = "C18"
RULE = ("D cases (harness/FORMAT.md 'D — derive'): the real impl_ebml_specification and the easy_ebml! lowering are run as a library on the enum "
        "source built from the declaration, and the tables (get_tag_data_type, get_path_by_id, the six constructors, the six accessors, get_id, the "
        "rewritten enum) are read back from the generated tokens; declarations: random forests of masters with elements of all six types, "
        "trailing/intermediate placeholders, placeholder-only paths, ids of 1-8 bytes, shuffled attributes and variants, unrelated attributes; one "
        "mutation per malformation class (duplicate id incl. the ids of Crc32/Void, unknown parent, non-master parent, path shorter/longer/different "
        "from the parent's path, maximum 0, adjacent placeholders, missing id, missing type, unknown type name, duplicate attribute) plus "
        "correspondence-only classes (empty doc_path, literals beyond u64, duplicate/reserved variant names); 7 enums compiled from the real macros "
        "are probed through the public trait functions on every declared id and neighbours (D probe), which includes reading each declared id with the iterator and writing it - and a RawTag carrying it, under three options - with the writer under catch_unwind; W cases of class rawdecl: writer runs on random specifications in which a raw tag carries a DECLARED id of any type, at allowed and other positions, under default/explicit-width/unknown-size options (no panic; bytes compared with the model); the oracle is a Python reading of the "
        "property text (reference validity + expected table), independent of the model; non-trivial = accepted declaration with >= 3 variants or "
        "a rejected one; distinct = distinct case line")
TRUSTED = TRUSTED_BASE + [
    "coq/theories/Model/Derive.v: hand-written model of specification-derive/src/{ast,attr,pathing,easy_ebml}.rs on an abstract syntax (names are numbers); "
    "ocaml/derive_cmd.ml parser/printer",
    "syn / quote / proc-macro2 (tokenisation, parsing of attribute arguments, quote! interpolation) and rustc (name resolution, hygiene, rejection of "
    "duplicate variant names and unknown attributes) are not modelled; harness/derivelib compiles the derive crate's modules as an ordinary library "
    "(#[path] includes of /repo/specification-derive/src/*.rs) with proc-macro2's fallback implementation instead of the compiler's proc_macro bridge",
    "the table compared with the model is read back from the generated token stream by harness/derivelib/src/lib.rs (match arms parsed with syn); "
    "the easy_ebml! front-end is followed by a direct call of impl_ebml_specification on the enum it emits (what rustc would do when expanding the "
    "attribute it carries)",
    "the behaviour of COMPILED generated code is observed only for the 7 fixed declarations of harness/src/derive_specs.rs (D probe); for generated "
    "declarations the tie between tokens and behaviour is rustc's semantics of `match`",
]
ASSUMPTIONS = ASSUME_BASE + [
    "variant names are distinct and none is Crc32, Void or RawTag (rustc rejects the rewritten enum otherwise; the macro itself accepts such "
    "declarations and the model mirrors that: compared with the code, not judged by the oracle)",
    "attributes other than id/data_type/doc_path are built-in ones (#[doc]); an attribute rustc does not know is left in place by the macro and "
    "rejected by rustc, which is not run on generated declarations",
]
EXHAUSTIVE = {
    "quick": "all attribute lists of length <= 3 over {id 82, id 83, Master, UnsignedInt, unknown type, path Root, path Root/(-), other} for the second "
             "variant of a two-variant declaration (correspondence + reference validity)",
    "thorough": "same with lists of length <= 4 and the additional attributes {path (-)/(-), path (-0), path unknown name, path Elem (non-master)} "
                "in a three-variant declaration",
}

CRC, VOID = 0xBF, 0xEC
U64 = 1 << 64

# --------------------------------------------------------------------------- declarations
# decl = list of (name:int, attrs); attr = ("i", id) | ("t", letter|"?") | ("p", [part]) | ("o",); part = name:int | (min, max)


def part_s(p):
    if isinstance(p, tuple):
        return "(%s-%s)" % ("" if p[0] is None else p[0], "" if p[1] is None else p[1])
    return "%d" % p


def attr_s(a):
    if a[0] == "i":
        return "i%x" % a[1]
    if a[0] == "t":
        return "t" + a[1]
    if a[0] == "p":
        return "p" + "/".join(part_s(x) for x in a[1])
    return "o"


def decl_s(d):
    if not d:
        return "-"
    return ";".join("%d:%s" % (n, ",".join(attr_s(a) for a in attrs)) for n, attrs in d)


def parse_decl(s):
    if s == "-":
        return []
    out = []
    for v in s.split(";"):
        n, _, rest = v.partition(":")
        attrs = []
        for a in (rest.split(",") if rest else []):
            if a[0] == "i":
                attrs.append(("i", int(a[1:], 16)))
            elif a[0] == "t":
                attrs.append(("t", a[1:]))
            elif a[0] == "p":
                parts = []
                for x in (a[1:].split("/") if a[1:] else []):
                    if x.startswith("("):
                        lo, hi = x[1:-1].split("-")
                        parts.append((int(lo) if lo else None, int(hi) if hi else None))
                    else:
                        parts.append(int(x))
                attrs.append(("p", parts))
            else:
                attrs.append(("o",))
        out.append((int(n), attrs))
    return out


# --------------------------------------------------------------------------- the property, read as a reference

def reference(d):
    """-> ("free", None) if the property does not speak about d (rustc rejects it), ("err", reason) if the property text demands a
    compile error, ("ok", table) with table = {id: (type, path)} otherwise.  Written from the property text."""
    names = [n for n, _ in d]
    if len(set(names)) != len(names) or any(n in (0, 1, 2) for n in names):
        return "free", None
    vs = {}
    for n, attrs in d:
        ids = [a[1] for a in attrs if a[0] == "i"]
        tys = [a[1] for a in attrs if a[0] == "t"]
        ps = [a[1] for a in attrs if a[0] == "p"]
        if len(ids) > 1 or len(tys) > 1 or len(ps) > 1:
            return "err", "duplicate attribute"
        if not ids:
            return "err", "missing id"
        if not tys:
            return "err", "missing type"
        if tys[0] == "?":
            return "err", "unknown type"
        if ids[0] >= U64:
            return "free", None
        if ps and not ps[0]:
            return "free", None
        for p in (ps[0] if ps else []):
            if isinstance(p, tuple) and any(b is not None and b >= U64 for b in p):
                return "free", None
        vs[n] = (ids[0], tys[0], ps[0] if ps else [])
    seen = {CRC, VOID}
    for n, (i, t, p) in vs.items():
        if i in seen:
            return "err", "duplicate id"
        seen.add(i)
    for n, (i, t, p) in vs.items():
        prev_global = False
        for x in p:
            if isinstance(x, tuple):
                if x[1] == 0:
                    return "err", "zero maximum"
                if prev_global:
                    return "err", "adjacent placeholders"
                prev_global = True
            else:
                prev_global = False
                if x not in vs:
                    return "err", "unknown parent"
    for n, (i, t, p) in vs.items():
        idx = [k for k, x in enumerate(p) if not isinstance(x, tuple)]
        if idx:
            k = idx[-1]
            pi, pt, pp = vs[p[k]]
            if pt != "M":
                return "err", "non-master parent"
            if pp != p[:k]:
                return "err", "path does not extend the parent's path"
    table = {}
    for n, (i, t, p) in vs.items():
        table[i] = (t, [x if isinstance(x, tuple) else vs[x][0] for x in p])
    table[CRC] = ("B", [(1, None)])
    table[VOID] = ("B", [(None, None)])
    return "ok", table


def table_s(table):
    out = []
    for i in sorted(table):
        t, p = table[i]
        out.append("%x:%s:%s" % (i, t, "/".join(part_s(x) if isinstance(x, tuple) else "%x" % x for x in p)))
    return ";".join(out)


TYPES = "MUISBF"


def expected_sections(d):
    """ctor / accessor / get_id / enum sections for an accepted declaration with distinct names (property: a tag of a type is
    constructed iff the id has that type; it answers get_id and the accessor of its type; a raw-tag variant answers as_binary)"""
    vs = []
    for n, attrs in d:
        vs.append((n, [a[1] for a in attrs if a[0] == "i"][0], [a[1] for a in attrs if a[0] == "t"][0]))
    vs += [(0, CRC, "B"), (1, VOID, "B")]
    ctor = {t: sorted("%x>%d" % (i, n) for n, i, ty in vs if ty == t) for t in TYPES}
    acc = {t: sorted(["%d" % n for n, i, ty in vs if ty == t] + (["2"] if t == "B" else [])) for t in TYPES}
    ids = sorted(["%d>%x" % (n, i) for n, i, ty in vs] + ["2>*"])
    en = sorted(["%d%s" % (n, ty) for n, i, ty in vs] + ["2R"])
    return ctor, acc, ids, en


def groups(sec):
    out = {}
    for g in sec.split(";"):
        k, _, v = g.partition("=")
        out[k] = sorted(x for x in v.split(",") if x)
    return out


# --------------------------------------------------------------------------- generators

def rand_id(rng, used):
    while True:
        r = rng.random()
        if r < 0.75:
            v = E.valid_id(rng, rng.choice([1, 1, 2, 2, 2, 3, 4, 4, 5, 6, 7, 8]))
        elif r < 0.9:
            v = rng.choice([1, 2, 0x7f, 0x100, 0x1234, 0xffff, 0x10000, 0xbe, 0xc0, 0xeb, 0xed, 0xffffffff, U64 - 1, U64 - 2, 1 << 63])
        else:
            v = rng.getrandbits(rng.choice([8, 16, 32, 64])) + 1
        if v not in used and v < U64:
            used.add(v)
            return v


def rand_global(rng):
    lo = rng.choice([None, None, 0, 1, 2, 5])
    hi = rng.choice([None, None, 1, 2, 3, 9, U64 - 1])
    if lo is not None and hi is not None and hi < lo and rng.random() < 0.8:
        hi = lo if lo > 0 else 1
    return (lo, hi)


def good_decl(rng, big=False):
    """-> list of dict(name, id, ty, path) — a forest in which every path is the parent's path + parent (+ one trailing placeholder)"""
    used = {CRC, VOID}
    names = rng.sample(range(3, 3000), 400)
    nm = iter(names)
    vs = []
    masters = []

    def add(ty, path):
        v = {"name": next(nm), "id": rand_id(rng, used), "ty": ty, "path": list(path)}
        vs.append(v)
        if ty == "M":
            masters.append(v)
        return v

    for _ in range(rng.choice([1, 1, 2, 3])):
        add("M", [])
    if rng.random() < 0.2:
        add(rng.choice("UISBF"), [])            # root-level non-master
    if rng.random() < 0.3:
        add(rng.choice(TYPES), [rand_global(rng)])   # placeholder-only path (like Crc32/Void)
    frontier = list(masters)
    for depth in range(rng.choice([0, 1, 2, 3, 4] if not big else [3, 4, 5, 6])):
        nxt = []
        for m in frontier[:8]:
            for _ in range(rng.choice([0, 1, 1, 2])):
                tail = [rand_global(rng)] if rng.random() < 0.25 else []
                nxt.append(add("M", m["path"] + [m["name"]] + tail))
        frontier = nxt or frontier[:1]
    for m in list(masters):
        for _ in range(rng.choice([0, 1, 2, 3])):
            tail = [rand_global(rng)] if rng.random() < 0.25 else []
            add(rng.choice("UISBF"), m["path"] + [m["name"]] + tail)
    rng.shuffle(vs)
    return vs


def to_decl(rng, vs, shuffle=True, others=True):
    d = []
    for v in vs:
        attrs = [("i", v["id"]), ("t", v["ty"])]
        if v["path"]:
            attrs.append(("p", list(v["path"])))
        if shuffle:
            rng.shuffle(attrs)
        if others:
            for _ in range(rng.choice([0, 0, 0, 1, 2])):
                attrs.insert(rng.randrange(len(attrs) + 1), ("o",))
        d.append((v["name"], attrs))
    return d


def copy_vs(vs):
    return [dict(v, path=list(v["path"])) for v in vs]


def last_ident_index(path):
    idx = [k for k, x in enumerate(path) if not isinstance(x, tuple)]
    return idx[-1] if idx else None


def fresh_name(vs):
    return max(v["name"] for v in vs) + 1 if vs else 3


def fresh_id(vs):
    used = {v["id"] for v in vs} | {CRC, VOID}
    x = 0x4a00
    while x in used:
        x += 1
    return x


def mutate(rng, cls, vs):
    """one malformation of class cls applied to the good declaration vs -> decl, or None if vs offers no site"""
    vs = copy_vs(vs)
    if cls == "dup-id":
        if len(vs) < 2:
            return None
        a, b = rng.sample(vs, 2)
        b["id"] = a["id"]
        return to_decl(rng, vs)
    if cls == "global-id":
        if not vs:
            return None
        rng.choice(vs)["id"] = rng.choice([CRC, VOID])
        return to_decl(rng, vs)
    if cls == "unknown-parent":
        c = [v for v in vs if last_ident_index(v["path"]) is not None]
        if not c:
            return None
        v = rng.choice(c)
        ks = [k for k, x in enumerate(v["path"]) if not isinstance(x, tuple)]
        v["path"][rng.choice(ks)] = rng.choice([fresh_name(vs), 5000, 2])   # 2 = RawTag: not a variant before the rewrite
        return to_decl(rng, vs)
    if cls == "non-master-parent":
        leaves = [v for v in vs if v["ty"] != "M"]
        if rng.random() < 0.5 and leaves:
            l = rng.choice(leaves)
            tail = [rand_global(rng)] if rng.random() < 0.2 else []
            vs.append({"name": fresh_name(vs), "id": fresh_id(vs), "ty": rng.choice(TYPES), "path": l["path"] + [l["name"]] + tail})
            rng.shuffle(vs)
            return to_decl(rng, vs)
        parents = [m for m in vs if m["ty"] == "M" and any(last_ident_index(v["path"]) is not None and v["path"][last_ident_index(v["path"])] == m["name"] for v in vs)]
        if not parents:
            return None
        rng.choice(parents)["ty"] = rng.choice("UISBF")
        return to_decl(rng, vs)
    if cls in ("path-shorter", "path-longer", "path-different"):
        c = [v for v in vs if last_ident_index(v["path"]) is not None]
        masters = [m for m in vs if m["ty"] == "M"]
        rng.shuffle(c)
        for v in c:
            k = last_ident_index(v["path"])
            pre, rest = v["path"][:k], v["path"][k:]
            if cls == "path-shorter":
                if not pre:
                    continue
                cut = rng.randrange(len(pre))
                new = pre[:cut] + pre[cut + 1:]
            elif cls == "path-longer":
                pos = rng.randrange(len(pre) + 1)
                ins = rng.choice(masters)["name"] if rng.random() < 0.7 else (None, None)
                new = pre[:pos] + [ins] + pre[pos:]
            else:
                if not pre:
                    continue
                pos = rng.randrange(len(pre))
                if isinstance(pre[pos], tuple):
                    alt = (pre[pos][0], 7 if pre[pos][1] is None else (pre[pos][1] + 1 if pre[pos][1] < 1000 else 12))
                else:
                    alts = [m["name"] for m in masters if m["name"] != pre[pos]]
                    if not alts:
                        continue
                    alt = rng.choice(alts)
                new = pre[:pos] + [alt] + pre[pos + 1:]
            full = new + rest
            if new == pre or any(isinstance(a, tuple) and isinstance(b, tuple) for a, b in zip(full, full[1:])):
                continue
            v["path"] = full
            return to_decl(rng, vs)
        return None
    if cls == "zero-max":
        c = [v for v in vs if v["path"]]
        if c and rng.random() < 0.5:
            v = rng.choice(c)
            gs = [k for k, x in enumerate(v["path"]) if isinstance(x, tuple)]
            if gs:
                k = rng.choice(gs)
                v["path"][k] = (rng.choice([None, 0]), 0)
                return to_decl(rng, vs)
        if not vs:
            return None
        v = rng.choice(vs)
        if v["path"] and isinstance(v["path"][-1], tuple):
            v["path"][-1] = (None, 0)
        else:
            v["path"].append((rng.choice([None, 0]), 0))
        return to_decl(rng, vs)
    if cls == "adjacent":
        if not vs:
            return None
        v = rng.choice(vs)
        gs = [k for k, x in enumerate(v["path"]) if isinstance(x, tuple)]
        if gs:
            k = rng.choice(gs)
            v["path"].insert(k + rng.choice([0, 1]), rand_global(rng))
        else:
            v["path"] += [rand_global(rng), rand_global(rng)]
        return to_decl(rng, vs)
    # attribute-level classes
    if not vs:
        return None
    d = to_decl(rng, vs)
    k = rng.randrange(len(d))
    name, attrs = d[k]
    if cls == "missing-id":
        attrs = [a for a in attrs if a[0] != "i"]
    elif cls == "missing-type":
        attrs = [a for a in attrs if a[0] != "t"]
    elif cls == "unknown-type":
        attrs = [("t", "?") if a[0] == "t" else a for a in attrs]
    elif cls == "dup-attr":
        c = [a for a in attrs if a[0] != "o"]
        a = rng.choice(c)
        if rng.random() < 0.5:
            if a[0] == "i":
                a = ("i", fresh_id(vs))
            elif a[0] == "t":
                a = ("t", rng.choice(TYPES))
        attrs = list(attrs)
        attrs.insert(rng.randrange(len(attrs) + 1), a)
    elif cls == "empty-path":
        attrs = [a for a in attrs if a[0] != "p"]
        attrs.insert(rng.randrange(len(attrs) + 1), ("p", []))
    elif cls == "id-overflow":
        attrs = [("i", U64 + rng.choice([0, 1, 0x81, 1 << 70])) if a[0] == "i" else a for a in attrs]
    elif cls == "bound-overflow":
        attrs = [a for a in attrs if a[0] != "p"]
        v = vs[k]
        g = rng.choice([(U64, None), (None, U64), (0, U64 + 5)])
        p = list(v["path"])
        if p and isinstance(p[-1], tuple):
            p[-1] = g
        else:
            p.append(g)
        attrs.insert(rng.randrange(len(attrs) + 1), ("p", p))
    d[k] = (name, attrs)
    return d


BROKEN = ["dup-id", "global-id", "unknown-parent", "non-master-parent", "path-shorter", "path-longer", "path-different", "zero-max",
          "adjacent", "missing-id", "missing-type", "unknown-type", "dup-attr"]
EXTRA = ["empty-path", "id-overflow", "bound-overflow"]      # not named by the property: correspondence only


def rename(rng, d):
    """rustc-rejected declarations the macro accepts or not on its own rules: a duplicate or reserved variant name"""
    if not d:
        return [(rng.choice([0, 1, 2]), [("i", 0x81), ("t", "M")])]
    d = [(n, list(a)) for n, a in d]
    k = rng.randrange(len(d))
    new = rng.choice([0, 1, 2] + [n for n, _ in d])
    d[k] = (new, d[k][1])
    return d


# the declarations compiled into the harness (harness/src/derive_specs.rs), in the same order
FIXED = [
    "3:i81,tM;4:i82,tM,p3;5:i4100,tU,p3/4;6:i4200,tB,p3/4;7:i4201,tS,p3/4;8:i4102,tF,p3/4;9:i4101,tI,p3/4",
    "3:i81,tM;4:i4101,tU,p3;5:i4102,tS,p3;6:i4103,tM,p3;7:i210301,tU,p3/6;8:i1a45dfa3,tM;9:i18538067,tM;10:i83,tU,p9;11:i1f43b675,tM,p9;"
    "12:i97,tU,p9/11;13:i4100,tU,p9/11;14:ia1,tB,p9/11;15:ia3,tB,p9/11",
    "3:o,tM,i1a45dfa3;4:p3,i123456789abcdef,tF;5:p3,tI,o,i2345678abcdef;6:i456789abcde,p3,tM;7:tU,p3/6,i8abcdef01;8:i2abcde,tS,o,p3/6;"
    "9:tB,i4abc,p3/6;10:i9f,tB,p3",
    "3:i81,tM;4:i4301,tM,p3/(0-);5:i4302,tU,p3/(0-)/4;6:i4303,tB,p3/(1-);7:i4304,tS,p3/(-2);8:i4305,tI,p3/(1-3);9:i4306,tF,p3",
    "3:i1a45dfa3,tM;4:i18538067,tM;5:i4d80,tS,p(1-);6:i4d81,tM,p4/(-);7:i4d82,tM,p4/(-)/6;8:i4d83,tI,p4/(-)/6/7/(2-5);9:i4d84,tU,p3;"
    "10:i4d85,tF,p4/(-)/6/7;11:i4d86,tB,p(-3);12:i4d87,tM,p(1-);13:i4d88,tU,p(1-)/12",
    "-",
    "3:i81,tM;4:i4002,tM,p3;5:i200003,tM,p3/4;6:i10000004,tM,p3/4/5;7:i800000005,tM,p3/4/5/6;8:i40000000006,tU,p3/4/5/6/7;"
    "9:i2000000000007,tI,p3/4/5/6/7;10:i100000000000008,tS,p3/4/5/6/7;11:ife,tB,p3/4/5/6/7;12:i7ffe,tF,p3/4/5/6/7;13:i3ffffe,tM,p3/4/5/6/7;"
    "14:i1ffffffe,tM",
]


def exhaustive_cases(tier):
    cases = []
    if tier == "thorough":
        head = "3:i81,tM;5:i84,tU,p3;"
        alphabet = ["i82", "i83", "tM", "tU", "t?", "p3", "p3/(-)", "o", "p(-)/(-)", "p(-0)", "p9", "p3/5"]
        maxlen = 4
    else:
        head = "3:i81,tM;"
        alphabet = ["i82", "i83", "tM", "tU", "t?", "p3", "p3/(-)", "o"]
        maxlen = 3
    for n in range(maxlen + 1):
        for attrs in itertools.product(alphabet, repeat=n):
            cases.append(Case("D %s4:%s" % (head, ",".join(attrs)), "exh", {"expect": None}))
    return cases


def generate(rng, tier):
    thorough = tier == "thorough"
    cases = []
    for n, d in enumerate(FIXED):
        cases.append(Case(["D " + d, "D probe %d %s" % (n, d)], "fixed", {"expect": "ok"}))
    # hand-written neighbours of the classes (the witnesses of the repaired defect D16 among them)
    for d, exp in [
        ("3:i81,tM;4:i4103,tM,p3;5:i4101,tU,p3;6:i99,tM,p3/4/5", "err"),           # Odd declared Root/Parent/Int/Odd
        ("3:i81,tM;4:i4103,tM,p3;6:i99,tU,p3/3/4", "err"),                           # longer than the parent's path
        ("3:i81,tM;4:i4103,tM,p3;6:i99,tU,p4", "err"),                               # shorter
        ("3:i81,tM;4:i4103,tM,p3;6:i99,tU,p3/(1-1)/4", "err"),                       # a placeholder the parent does not have
        ("3:i81,tM;4:i4103,tM,p3/(1-);6:i99,tU,p3/(1-)/4", "ok"),
        ("3:i81,tM;4:i4103,tM,p3/(1-);6:i99,tU,p3/(0-)/4", "err"),
        ("3:i81,tM;4:i4103,tM,p3/(1-);6:i99,tU,p3/4", "err"),
        ("3:i81,tM;4:ibf,tB,p(1-)", "err"),                                          # the form lib.rs' own error text suggests
        ("3:i81,tM;4:i82,tU,p3/(-0)", "err"),
        ("3:i81,tM;4:i82,tU,p3/(0-0)", "err"),
        ("3:i81,tM;4:i82,tU,p3/(3-1)", "ok"),                                        # an unsatisfiable range is not a listed malformation
        ("3:i81,tM;4:i82,tU,p(-)/3", "err"),
        ("3:i81,tM,p3", "err"),                                                      # its own parent
        ("3:i81,tM,p4;4:i82,tM,p3", "err"),                                          # a cycle
        ("3:iffffffffffffffff,tM;4:i0,tF,p3", "ok"),
    ]:
        cases.append(Case("D " + d, "hand", {"expect": exp}))
    n_good = 4000 if thorough else 500
    n_bad = 600 if thorough else 70
    # "used with the writer it never triggers the bad-specification panics": the one tag value of a generated enum whose variant does not
    # fix its id is RawTag(id, data) - write it for DECLARED ids of every type, at allowed and other positions, under every option
    specs = specs_pool(rng, 12 if thorough else 5)
    for k in range(3000 if thorough else 300):
        sp = rng.choice(specs)
        tid = rng.choice(sorted(sp.ty))
        path = sp.path[tid] if hasattr(sp, "path") else sp.get_path(tid)
        ops = []
        opened = []
        if rng.random() < 0.85:
            for part in path:
                if isinstance(part, int):
                    ops.append((rng.choice(["d", "d", "u", "2"]), ("s", part)))
                    opened.append(part)
        payload = bytes(rng.randrange(256) for _ in range(rng.choice([0, 1, 2, 8, 9, 130])))
        ops.append((rng.choice(["d", "d", "1", "3", "u"]), ("r", tid, payload)))
        if rng.random() < 0.5:
            ops.append(("d", ("r", rng.choice(sorted(sp.ty)), b"\x01")))
        for m in reversed(opened):
            if rng.random() < 0.7:
                ops.append(("d", ("e", m)))
        cases.append(Case("W %s %s" % (sp.s(), ops_line(ops)), "rawdecl", {"expect": None}))
    for k in range(n_good):
        vs = good_decl(rng, big=(k % 10 == 0))
        easy_like = rng.random() < 0.3
        d = to_decl(rng, vs, shuffle=not easy_like, others=not easy_like)
        cases.append(Case("D " + decl_s(d), "good", {"expect": "ok"}))
    for cls in BROKEN + EXTRA:
        made = 0
        tries = 0
        while made < n_bad and tries < n_bad * 20:
            tries += 1
            vs = good_decl(rng)
            d = mutate(rng, cls, vs)
            if d is None:
                continue
            made += 1
            cases.append(Case("D " + decl_s(d), "bad-" + cls, {"expect": "err" if cls in BROKEN else None, "cls": cls}))
    for _ in range(n_bad):
        d = rename(rng, to_decl(rng, good_decl(rng)))
        cases.append(Case("D " + decl_s(d), "names", {"expect": None}))
    # two independent mutations (any verdict; reference decides)
    for _ in range(n_bad):
        vs = good_decl(rng)
        d = mutate(rng, rng.choice(BROKEN), vs)
        if d is None:
            continue
        d2 = [(n, list(a)) for n, a in d]
        k = rng.randrange(len(d2))
        if d2[k][1]:
            r = rng.random()
            if r < 0.4:
                d2[k][1].pop(rng.randrange(len(d2[k][1])))
            elif r < 0.7:
                d2[k][1].append(rng.choice([("o",), ("t", "M"), ("i", 0x81), ("p", [(None, None)])]))
            else:
                rng.shuffle(d2)
        cases.append(Case("D " + decl_s(d2), "mixed", {"expect": None}))
    cases += exhaustive_cases(tier)
    return cases


def nontrivial(case, model_out):
    o = model_out[0]
    if case.cls == "rawdecl":
        return "OK@" in o
    if o.startswith("ERR"):
        return True
    return o.startswith("OK:") and case.lines[0].count(";") >= 2


# --------------------------------------------------------------------------- oracle

def judge_table_line(line, out, expect):
    d = parse_decl(line.split(" ")[1])
    verdict, table = reference(d)
    if expect is not None and verdict != "free" and verdict != expect:
        return "generator and reference reading of the property disagree (%s vs %s) on %s" % (expect, verdict, line[:300])
    if verdict == "free":
        if out.startswith("OK:") and not out.endswith(";same"):
            return "front-ends differ: %s -> %s" % (line[:300], out[-40:])
        if out.startswith("ERR") and out != "ERR":
            return "front-ends differ: %s -> %s" % (line[:300], out)
        return None
    if verdict == "err":
        if out != "ERR":
            return "declaration with %s must be rejected by both front-ends: %s -> %s" % (table, line[:300], out[:200])
        return None
    if not out.startswith("OK:"):
        return "well-formed declaration rejected: %s -> %s" % (line[:300], out[:200])
    body, _, suffix = out[3:].rpartition(";")
    if suffix != "same":
        return "the two front-ends do not generate the same code (%s): %s" % (suffix, line[:300])
    secs = body.split("|")
    if len(secs) != 5:
        return "generated code has an unexpected shape: %s -> %s" % (line[:300], out[-300:])
    if secs[0] != table_s(table):
        return "generated table differs from the declaration: %s -> got %s expected %s" % (line[:300], secs[0][:400], table_s(table)[:400])
    ctor, acc, ids, en = expected_sections(d)
    if groups(secs[1]) != ctor:
        return "constructors do not match the declared types: %s -> %s" % (line[:300], secs[1][:400])
    if groups(secs[2]) != acc:
        return "accessors do not match the declared types (raw tag: as_binary only): %s -> %s" % (line[:300], secs[2][:400])
    if sorted(secs[3].split(",")) != ids:
        return "get_id arms do not match the declaration: %s -> %s" % (line[:300], secs[3][:400])
    if sorted(secs[4].split(",")) != en:
        return "rewritten enum does not match the declaration (+Crc32, Void, RawTag): %s -> %s" % (line[:300], secs[4][:400])
    return None


def normalise(line, out):
    from lib import core
    if core.DEGRADED and line.startswith("D probe"):
        return "PROBE-SKIPPED"
    return out


def oracle(case, outs):
    t = bad_token(outs)
    if t:
        return "%s: %s -> %s" % (t, case.lines[0][:300], " ".join(outs)[:300])
    if case.lines[0].startswith("W "):
        return None      # writer run with raw tags of declared ids: no panic (bad_token above); the bytes are compared with the model
    fail = judge_table_line(case.lines[0], outs[0], case.meta.get("expect"))
    if fail:
        return fail
    if len(case.lines) > 1:
        d = parse_decl(case.lines[1].split(" ")[3])
        verdict, table = reference(d)
        exp = "PROBE:%s;-" % table_s(table)
        if outs[1] in ("NOCOMPILED", "PROBE-SKIPPED"):
            return None   # the enums do not compile with the current macros: reported once by the runner (lib/core.DEGRADED)
        if outs[1] != exp:
            return "compiled enum %s: probes report %s, declaration says %s" % (case.lines[1].split(" ")[2], outs[1][:600], exp[:300])
    return None


def extra_coverage(cases, model_outs, tier):
    acc = sum(1 for o in model_outs if o and o[0].startswith("OK:"))
    rej = sum(1 for o in model_outs if o and o[0].startswith("ERR"))
    per = {}
    for c in cases:
        per[c.cls] = per.get(c.cls, 0) + 1
    return {"accepted_by_model": acc, "rejected_by_model": rej, "cases_per_class": per, "compiled_enums_probed": len(FIXED)}
