"""C03 — every emitted tag mirrors the bytes at its reported offset; tags tile the stream."""
from lib.runner import Case
from props.common import *
from props import readcheck as RC

ID = "C03"
RULE = ("R cases over valid / mid-document / mutated / random streams x the 8 tolerance settings x random buffered-master sets x a few "
        "chunkings and capacities; the oracle re-decodes the input independently (15-line header decoder, documented payload decodings) at every "
        "reported offset and checks id, value, tiling and End/Full offsets for the items up to the first error.  non-trivial = model emits >= 3 items; "
        "distinct = distinct case line")
TRUSTED = TRUSTED_BASE
ASSUMPTIONS = ASSUME_BASE + ["a first byte 0x00 is read as the one-byte id 0 (convention shared by the independent decoder; only observable with unknown ids tolerated)"]
EXHAUSTIVE = {}


def generate(rng, tier):
    cases = []
    thorough = tier == "thorough"
    specs = specs_pool(rng, 40 if thorough else 10)
    for k in range(8000 * TH if thorough else 1200):
        sp, data, kind, _ = gen_stream(rng, specs, big=(k % 11 == 0))
        allow = rng.choice([0, 0, 1, 2, 3, 4, 5, 6, 7, 7])
        buf = rand_buffered(rng, sp, 0.4)
        script = E.script_str(E.rand_script(rng, len(data))) if rng.random() < 0.3 else "-"
        cap = rng.choice(["def", "def", "0", "1", "7", "16", "100"])
        cfg = E.cfg_str(allow=allow, maxs=safe_max(rng, kind), buffered=buf, cap=cap, eof=rng.choice([1, 1, 0]))
        cases.append(Case("R %s %s %s %s N" % (sp.s(), cfg, script, data.hex() or "-"), kind))
    return cases


def nontrivial(case, model_out):
    return model_out[0].count("@") >= 3


def oracle(case, outs):
    out = outs[0]
    if bad_token([out]):
        return "%s: %s" % (case.lines[0][:400], bad_token([out]))
    f = case.lines[0].split(" ")
    sp = spec_of_line(case.lines[0])
    data = b"" if f[4] == "-" else bytes.fromhex(f[4])
    items = E.parse_items(out.split(" ")) if out else []
    err = RC.check_tiling(sp, data, items)
    if err:
        return "%s   [%s -> %s]" % (err, case.lines[0][:400], out[:400])
    return None


def known_class(case, outs):
    """D18: EOF closing disabled, a buffered master still open when the source reports end of data: buffer_master is not
    resumable; it reports UnexpectedEOF for the master (whose header is complete) and leaves the collected children queued"""
    f = case.lines[0].split(" ")
    cfg = f[2].split(",")
    if "e0" not in cfg:
        return None
    buf = [x for x in cfg if x.startswith("b")][0][1:]
    if buf == "-":
        return None
    ids = set(int(x, 16) for x in buf.split("+"))
    data = b"" if f[4] == "-" else bytes.fromhex(f[4])
    for tok in outs[0].split(" "):
        if tok.startswith("E:eof:"):
            p = tok.split(":")
            if p[3] != "-" and p[4] == "-" and int(p[3], 16) in ids:
                h = E.header_at(data, int(p[2]))
                if h is not None and h[0] == int(p[3], 16):
                    return "eof_in_buffered_e0"
    return None
