"""Reference EBML primitives written from the property texts (C15, C16) and RFC 8794 — used only
as property oracles on the implementation's outputs and by generators.  Independent of the Coq model."""
import struct

U64 = 1 << 64


def enc_vint(v, L):
    assert 0 <= v < (1 << (7 * L))
    return (v | (1 << (7 * L))).to_bytes(L, "big")


def min_len(v):
    for L in range(1, 9):
        if v < (1 << (7 * L)):
            return L
    return None


def vlen(b0):
    return 8 - (b0.bit_length() - 1)


def dec_vint(bs):
    """returns ('none',) | ('err',) | ('ok', value, len)"""
    if not bs:
        return ("none",)
    if bs[0] == 0:
        return ("err",)
    L = vlen(bs[0])
    if len(bs) < L:
        return ("none",)
    v = int.from_bytes(bs[:L], "big") - (1 << (7 * L))
    return ("ok", v, L)


def dec_svint(bs):
    r = dec_vint(bs)
    if r[0] != "ok":
        return r
    _, v, L = r
    if v >= (1 << (7 * L - 1)):
        v -= 1 << (7 * L)
    return ("ok", v, L)


def is_vint(v):
    return any((1 << (7 * n)) <= v < (1 << (7 * n + 1)) for n in range(1, 9))


def widen32_token(bs):
    (f,) = struct.unpack(">f", bs)
    if f != f:
        return "NaN"
    return struct.pack(">d", f).hex()


def valid_case(line):
    t = line.split(" ")
    fn = t[1]
    try:
        if fn in ("as_vint", "is_vint"):
            return 0 <= int(t[2]) < U64
        if fn == "as_vint_len":
            return 1 <= int(t[2]) <= 8 and 0 <= int(t[3]) < U64
        if fn == "as_svint":
            return -(1 << 63) <= int(t[2]) < (1 << 63)
        if fn == "as_svint_len":
            return 1 <= int(t[2]) <= 8 and -(1 << 63) <= int(t[3]) < (1 << 63)
    except ValueError:
        return False
    return True


def judge_tools(line, out):
    """None if the implementation's output satisfies C15/C16 on this call, else a description."""
    t = line.split(" ")
    fn = t[1]
    if out == "PANIC" or out.startswith("CRASH"):
        return "%s: implementation panicked (%s)" % (line, out)
    o = out.split(" ")

    def expect_bytes(exp):
        if o[0] != "OK" or o[1] != (exp.hex() or "-"):
            return "%s: expected OK %s, implementation returned %s" % (line, exp.hex(), out)
        return None

    if fn == "as_vint":
        v = int(t[2])
        if v >= (1 << 56):
            return None if out == "E wvo %d" % v else "%s: expected overflow error, got %s" % (line, out)
        return expect_bytes(enc_vint(v, min_len(v)))
    if fn == "as_vint_len":
        L, v = int(t[2]), int(t[3])
        if v >= (1 << (7 * L)):
            return None if out == "E wvo %d" % v else "%s: expected overflow error, got %s" % (line, out)
        return expect_bytes(enc_vint(v, L))
    if fn in ("read_vint", "read_svint"):
        bs = bytes.fromhex(t[2]) if t[2] != "-" else b""
        r = dec_vint(bs) if fn == "read_vint" else dec_svint(bs)
        if r[0] == "none":
            return None if out == "NONE" else "%s: proper prefix, expected NONE, got %s" % (line, out)
        if r[0] == "err":
            return None if out == "E rvo" else "%s: expected read overflow error, got %s" % (line, out)
        exp = "OK %d %d" % (r[1], r[2])
        return None if out == exp else "%s: expected %s, got %s" % (line, exp, out)
    if fn in ("as_svint", "as_svint_len"):
        z = int(t[-1])
        if fn == "as_svint":
            if not (-(1 << 55) < z < (1 << 55)):
                return None if out == "E wsvo %d" % z else "%s: expected signed overflow error, got %s" % (line, out)
            if o[0] != "OK":
                return "%s: value inside the 8-byte range rejected: %s" % (line, out)
            bs = bytes.fromhex(o[1])
            # shortest width whose two's-complement range holds z, decodes back
            Lmin = next(L for L in range(1, 9) if -(1 << (7 * L - 1)) <= z < (1 << (7 * L - 1)))
            if len(bs) != Lmin:
                return "%s: expected the shortest width %d, got %d bytes (%s)" % (line, Lmin, len(bs), out)
        else:
            L = int(t[2])
            if not (-(1 << (7 * L - 1)) < z < (1 << (7 * L - 1))):
                return None if out == "E wsvo %d" % z else "%s: expected signed overflow error, got %s" % (line, out)
            if o[0] != "OK":
                return "%s: value strictly inside the range of width %d rejected: %s" % (line, L, out)
            bs = bytes.fromhex(o[1])
            if len(bs) != L:
                return "%s: expected width %d, got %s" % (line, L, out)
        r = dec_svint(bs)
        if r != ("ok", z, len(bs)):
            return "%s: encoding %s does not decode back (reference decoder gives %r)" % (line, o[1], r)
        return None
    if fn == "is_vint":
        exp = "OK %d" % (1 if is_vint(int(t[2])) else 0)
        return None if out == exp else "%s: expected %s, got %s" % (line, exp, out)
    if fn == "arr_u":
        bs = bytes.fromhex(t[2]) if t[2] != "-" else b""
        if len(bs) > 8:
            return None if out == "E ru64" else "%s: expected overflow error, got %s" % (line, out)
        exp = "OK %d" % int.from_bytes(bs, "big")
        return None if out == exp else "%s: expected %s, got %s" % (line, exp, out)
    if fn == "arr_i":
        bs = bytes.fromhex(t[2]) if t[2] != "-" else b""
        if len(bs) > 8:
            return None if out == "E ri64" else "%s: expected overflow error, got %s" % (line, out)
        exp = "OK %d" % int.from_bytes(bs, "big", signed=True)
        return None if out == exp else "%s: expected %s, got %s" % (line, exp, out)
    if fn == "arr_f":
        bs = bytes.fromhex(t[2]) if t[2] != "-" else b""
        if len(bs) == 8:
            (f,) = struct.unpack(">d", bs)
            exp = "OK " + ("NaN" if f != f else bs.hex())
        elif len(bs) == 4:
            exp = "OK " + widen32_token(bs)
        else:
            exp = "E rf64"
        return None if out == exp else "%s: expected %s, got %s" % (line, exp, out)
    return "unknown function in " + line
