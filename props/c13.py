"""C13 — each tolerance switch relaxes only its own check; relaxing never loses tags."""
from lib.runner import Case
from props.common import *

ID = "C13"
RULE = ("groups of 8 R runs (all subsets of the three tolerance switches) over the same bytes: valid documents with one injected fault of a "
        "known class at a known place (unknown id / element under the wrong parent / child overrunning a known-size ancestor / declared size "
        "above a small configured limit or above the default 4e9), plus arbitrarily mutated and random streams driven with next/try_recover "
        "loops.  Oracle: strict mode reports exactly the class's error kind with the offending element's offset/id/size and emits no raw tag; "
        "with a class tolerated that error kind never appears anywhere in the run; the size limit is always enforced (default until changed); "
        "for inputs starting at a root element the strict items are a prefix of every more tolerant run's items.  non-trivial = the strict "
        "run reports an error; distinct = distinct group")
TRUSTED = TRUSTED_BASE
ASSUMPTIONS = ASSUME_BASE
EXHAUSTIVE = {"quick": "all 8 tolerance subsets for every generated input", "thorough": "same"}
KIND_BIT = {"E:cid": 1, "E:hier": 2, "E:over": 4}


def locate(nodes, target, base_items):
    items = []
    E.encode(nodes, 0, items)
    for (t, o) in items:
        if t is target.tag or (t == target.tag and not target.is_master()) or (target.is_master() and t == ("s", target.tag[1]) and id(t) in base_items):
            return o
    return None


def inject(rng, sp, nodes, fault):
    """returns (data, expected strict error token, limit cfg) or None"""
    # pick a random master node with children (known size for 'over')
    flatm = []

    def collect(ns, chain):
        for n in ns:
            if n.is_master():
                flatm.append((n, chain + [n.tag[1]]))
                collect(n.children, chain + [n.tag[1]])
    collect(nodes, [])
    if not flatm:
        return None
    m, chain = rng.choice(flatm)
    pos = rng.randint(0, len(m.children))
    marker = E.Node(("b", E.VOID, b"MARK"))   # placeholder replaced below; located by identity
    if fault == "id":
        rid = E.valid_id(rng, rng.choice([1, 2, 3]))
        if sp.get_type(rid) is not None:
            return None
        new = E.Node(("r", rid, b"\x01\x02"))
        m.children.insert(pos, new)
        data, off = encode_locate(nodes, new)
        return data, "E:cid:%d:%x" % (off, rid), "def"
    if fault == "hier" and rng.random() < 0.3:
        # after the (known-size) document has ended: an element that needs at least one open master - a child, or a global element with a
        # minimum depth such as Crc32 (1-) - at the top level, where the chain of open masters is empty
        if any((n.enc == "u" or isinstance(n.enc, tuple)) for n, ch in flatm):
            return None
        bad = [i for i in sp.ty if not E.matches(sp.get_path(i), []) and sp.get_type(i) != "M"]
        if not bad:
            return None
        bid = rng.choice(bad)
        new = E.Node(E.rand_value_tag(rng, bid, sp.get_type(bid), big=False))
        return E.encode(nodes) + E.encode([new]), "E:hier:%x:-" % bid, "def"
    if fault == "hier":
        bad = [i for i in sp.ty if not E.matches(sp.get_path(i), chain) and sp.get_type(i) != "M"]
        bad = [i for i in bad if E.closed_by(sp, [(c, True) for c in chain], i) == 0]
        if not bad:
            return None
        bid = rng.choice(bad)
        if any((n.enc == "u" or isinstance(n.enc, tuple)) for n, ch in flatm if n.tag[1] in chain):
            return None    # an unknown-size ancestor might be closed by the misplaced element: keep the fault unambiguous
        new = E.Node(E.rand_value_tag(rng, bid, sp.get_type(bid), big=False))
        m.children.insert(pos, new)
        data, off = encode_locate(nodes, new)
        return data, "E:hier:%x:%x" % (bid, chain[-1]), "def"
    if fault == "size":
        cands = [i for i in E.allowed_children(sp, chain) if sp.get_type(i) in "SB"]
        if not cands:
            return None
        cid = rng.choice(cands)
        limit = rng.choice([6, 100, 100, 300])
        n = limit + rng.choice([1, 2, 50])
        new = E.Node(("t" if sp.get_type(cid) == "S" else "b", cid, b"a" * n))
        m.children.insert(pos, new)
        # every other element must stay within the limit
        if max_payload(nodes, new) > limit:
            return None
        data, off = encode_locate(nodes, new)
        return data, "E:size:%d:%x:%d" % (off, cid, n), str(limit)
    if fault == "over":
        if m.enc == "u" or isinstance(m.enc, tuple) or not m.children:
            return None
        c = m.children[-1]
        if c.is_master():
            return None
        data0, off = encode_locate(nodes, c)
        h = E.header_at(data0, off)
        if h is None or h[2] is None or h[3] != 1 or h[2] >= 120:
            return None
        grow = rng.choice([1, 2, 5])
        b = bytearray(data0)
        b[off + h[1]] = 0x80 | (h[2] + grow)
        if sp.get_type(c.tag[1]) in "UIF" and h[2] + grow > 8:
            return None
        return bytes(b), "E:over:%d:%x:%d" % (off, c.tag[1], h[2] + grow), "def"
    return None


def max_payload(nodes, skip):
    m = 0
    for n in nodes:
        if n is skip:
            continue
        if n.is_master():
            m = max(m, max_payload(n.children, skip))
            if not (n.enc == "u" or isinstance(n.enc, tuple)):
                m = max(m, len(E.encode(n.children)))
        else:
            m = max(m, len(n.payload if n.payload is not None else E.payload_of(n.tag)))
    return m


def encode_locate(nodes, target):
    items = []
    data = E.encode(nodes, 0, items)
    for (t, o) in items:
        if t is target.tag:
            return data, o
    raise AssertionError("target not found")


def generate(rng, tier):
    cases = []
    thorough = tier == "thorough"
    specs = specs_pool(rng, 30 if thorough else 8)
    n = 2500 * TH if thorough else 350
    for k in range(n):
        sp = rng.choice(specs)
        fault = rng.choice(["id", "hier", "over", "size", "none", "mut", "mut"])
        nodes = strip_enc(E.rand_doc(rng, sp, big=False, unknown_p=0.2)) if fault in ("hier", "over") else E.rand_doc(rng, sp, big=False, unknown_p=0.2)
        nodes = fix_widths(nodes)
        if not nodes:
            continue
        exp, lim = None, "def"
        if fault == "over" and rng.random() < 0.6:
            nodes = fix_widths(E.rand_doc(rng, sp, big=False, unknown_p=0.3))
            r2 = make_overrun(rng, sp, nodes) if nodes else None
            if r2 is None:
                continue
            data, exp = r2[0], "E:over:%d:%x:%d" % (r2[1], r2[2], r2[3])
        elif fault in ("id", "hier", "over", "size"):
            try:
                r = inject(rng, sp, nodes, fault)
            except AssertionError:
                r = None
            if r is None:
                continue
            data, exp, lim = r
        elif fault == "none":
            data = E.encode(nodes)
        else:
            data = E.encode(nodes)
            for _ in range(rng.choice([1, 2])):
                data = E.mutate(rng, data)
            lim = rng.choice(["100000", "6", "100"])
        ops = "N" if exp else "NtNtNtNtN"
        lines = ["R %s %s - %s %s" % (sp.s(), E.cfg_str(allow=a, maxs=lim), data.hex() or "-", ops) for a in range(8)]
        cases.append(Case(lines, fault, {"exp": exp, "fault": fault}))
    # a known-size master ending inside the header of an unknown-size descendant master: the child is oversized (declared size 0 in the
    # error: it has none) for every mask that does not tolerate oversized children
    for k in range(300 * TH if thorough else 60):
        sp = rng.choice(specs)
        r = make_straddle(rng, sp)
        if r is None or not (1 <= r[2] < r[3]):
            continue
        exp = "E:over:%d:%x:0" % (r[1], r[4])
        lines = ["R %s %s - %s N" % (sp.s(), E.cfg_str(allow=a), r[0].hex()) for a in range(8)]
        cases.append(Case(lines, "straddle", {"exp": exp, "fault": "over"}))
    # default limit stays in force until changed: a header declaring 4e9+1 bytes (no payload present)
    sp = E.base_spec()
    for size, lim, want in ((4000000001, "def", "E:size:2:4102:4000000001"), (4000000001, "5000000000", None), (7, "6", "E:size:2:4102:7"), (6, "6", None)):
        d = bytes.fromhex("4103ff") + E.id_bytes(E.CHILD) + (size | (1 << 56)).to_bytes(8, "big")
        d = bytes.fromhex("81ff") + d
        want2 = want.replace(":2:", ":5:") if want else None
        if size > 10 ** 9 and want is None:
            continue     # would really allocate gigabytes
        lines = ["R %s %s - %s N" % (sp.s(), E.cfg_str(allow=a, maxs=lim), d.hex()) for a in range(8)]
        cases.append(Case(lines, "limit", {"exp": want2, "fault": "limit", "all": True}))
    return cases


def nontrivial(case, model_out):
    return any(t.startswith("E:") for t in model_out[0].split(" "))


def kinds_in(out):
    return set(t[2:].rsplit(":")[0] if False else ":".join(t.split(":")[:2]).replace("T:", "") for t in out.split(" ") if "E:" in t)


def err_kinds(out):
    ks = set()
    for t in out.split(" "):
        if t.startswith("T:"):
            t = t[2:]
        if t.startswith("E:"):
            ks.add(":".join(t.split(":")[:2]))
    return ks


def oracle(case, outs):
    if bad_token(outs):
        k = next(i for i, o in enumerate(outs) if bad_token([o]))
        return "%s: %s" % (case.lines[k][:400], bad_token(outs))
    exp = case.meta.get("exp")
    strict = outs[0]
    st_items = E.parse_items(strict.split(" ")) if strict else []
    if any(it[0] == "item" and _has_raw(it[1]) for it in st_items):
        return "strict mode emitted a raw tag: %s -> %s" % (case.lines[0][:400], strict[:300])
    if exp:
        errs = [t for t in strict.split(" ") if t.startswith("E:")]
        if not errs or errs[0] != exp:
            return "strict mode: expected %s, got %s   [%s]" % (exp, strict[:400], case.lines[0][:400])
        if case.meta.get("all"):
            for a in range(8):
                if exp not in outs[a].split(" "):
                    return "size limit not enforced with tolerance mask %d: %s -> %s" % (a, case.lines[a][:300], outs[a][:300])
    for a in range(8):
        ks = err_kinds(outs[a])
        for kind, bit in KIND_BIT.items():
            if a & bit and kind in ks:
                return "error kind %s reported although its class is tolerated (mask %d): %s -> %s" % (kind, a, case.lines[a][:400], outs[a][:400])
    # a tolerated class must not silence the other kinds: on single-fault inputs the fault's own error must survive every mask without its bit
    if exp and case.meta["fault"] in ("id", "hier", "over", "size"):
        bit = {"id": 1, "hier": 2, "over": 4, "size": 0}[case.meta["fault"]]
        for a in range(8):
            if not (a & bit) and exp not in outs[a].split(" "):
                # an earlier check may legitimately fire first only if it is itself not tolerated; the injected documents have one fault
                return "fault %s (%s) not reported with mask %d which does not tolerate it: %s -> %s" % (case.meta["fault"], exp, a, case.lines[a][:300], outs[a][:300])
    # monotonic: strict items (before its first error) are a prefix of every tolerant run's items
    sp = spec_of_line(case.lines[0])
    first = next((it for it in st_items if it[0] == "item"), None)
    if first and first[1][0] != "e" and sp.get_type(first[1][1]) is not None and sp.get_path(first[1][1]) == []:
        pre = []
        for it in st_items:
            if it[0] != "item":
                break
            pre.append((it[1], it[2]))
        for a in range(1, 8):
            its = [(it[1], it[2]) for it in (E.parse_items(outs[a].split(" ")) if outs[a] else []) if it[0] == "item"]
            # compare up to the tolerant run's first non-item as well
            got = []
            for it in (E.parse_items(outs[a].split(" ")) if outs[a] else []):
                if it[0] != "item":
                    break
                got.append((it[1], it[2]))
            if len(got) < len(pre) or any(not (tags_equal([g[0]], [p[0]]) and g[1] == p[1]) for g, p in zip(got, pre)):
                return "strict items are not a prefix of the items with mask %d: strict %s | tolerant %s  [%s]" % (a, strict[:300], outs[a][:300], case.lines[a][:300])
    return None


def _has_raw(t):
    if t[0] == "r":
        return True
    return t[0] == "m" and any(_has_raw(c) for c in t[2])
