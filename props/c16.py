"""C16 — fixed-width payload decoders are total and invert the writer's encodings."""
from lib.runner import Case
from props.common import *

ID = "C16"
RULE = ("T arr_u/arr_i/arr_f on byte slices (exhaustive lengths 0-2, boundary/random lengths 0-10) and X cases writing one "
        "u64/i64/f64 element and reading it back; non-trivial = model result is a value (not an error); distinct = distinct case line")
TRUSTED = TRUSTED_BASE
ASSUMPTIONS = ASSUME_BASE + ["NaN payload bits are not compared (any NaN prints NaN): Rust does not specify them across `as f64`"]
EXHAUSTIVE = {"quick": "arr_to_u64/arr_to_i64 on all slices of length 0-2; arr_to_f64 on all slices of length 0-2",
              "thorough": "same plus all 3-byte slices for arr_to_i64"}
SP = E.Spec([(0x81, "M", []), (0x82, "U", [0x81]), (0x83, "I", [0x81]), (0x86, "F", [0x81])])
CFG = E.cfg_str()


def generate(rng, tier):
    cases = []
    add = lambda line, cls: cases.append(Case(line, cls))
    thorough = tier == "thorough"
    for fn in ("arr_u", "arr_i", "arr_f"):
        add("T %s -" % fn, "exh")
        for a in range(256):
            add("T %s %02x" % (fn, a), "exh")
            for b in range(256):
                add("T %s %02x%02x" % (fn, a, b), "exh")
    if thorough:
        for a in range(256):
            for b in range(0, 256, 1):
                for c in (0, 1, 127, 128, 255):
                    add("T arr_i %02x%02x%02x" % (a, b, c), "exh3")
    for _ in range(60000 if thorough else 6000):
        n = rng.choice([0, 1, 2, 3, 4, 4, 5, 6, 7, 8, 8, 9, 10])
        first = rng.choice([0, 1, 127, 128, 255, rng.getrandbits(8)])
        bs = bytes([first] + [rng.choice([0, 255, rng.getrandbits(8)]) for _ in range(max(0, n - 1))])[:n]
        for fn in ("arr_u", "arr_i", "arr_f"):
            add("T %s %s" % (fn, bs.hex() or "-"), "rand")
    # f32 special values
    for bits in (0, 1 << 31, 0x7F800000, 0xFF800000, 0x7FC00000, 0x7F800001, 1, 0x007FFFFF, 0x00800000, 0x3F800000, 0x7F7FFFFF, 0x3FC00000):
        add("T arr_f %08x" % bits, "f32")
    for _ in range(20000 if thorough else 2000):
        add("T arr_f %08x" % rng.getrandbits(32), "f32")
        e = rng.choice([0, 0, 1, 254, 255, rng.randrange(256)])
        add("T arr_f %08x" % ((rng.getrandbits(1) << 31) | (e << 23) | rng.getrandbits(23)), "f32")
    # writer inversion
    vals = set()
    for k in (7, 8, 15, 16, 31, 32, 63, 64):
        for d in (-2, -1, 0, 1, 2):
            vals.add((1 << k) + d)
    for v in sorted(vals):
        if 0 <= v < (1 << 64):
            add("X %s wd:s81,wd:u82=%d,x %s f" % (SP.s(), v, CFG), "winv")
        for z in (v, -v):
            if -(1 << 63) <= z < (1 << 63):
                add("X %s wd:s81,wd:i83=%d,x %s f" % (SP.s(), z, CFG), "winv")
    for _ in range(3000 if thorough else 400):
        add("X %s wd:s81,wd:u82=%d,x %s f" % (SP.s(), E.rand_uint(rng), CFG), "winv")
        add("X %s wd:s81,wd:i83=%d,x %s f" % (SP.s(), E.rand_sint(rng), CFG), "winv")
        add("X %s wd:s81,wd:f86=%s,x %s f" % (SP.s(), E.f64_token(E.rand_f64(rng)), CFG), "winv")
    return cases


def nontrivial(case, model_out):
    return model_out[0].startswith("OK")


def oracle(case, outs):
    line, out = case.lines[0], outs[0]
    t = line.split(" ")
    if bad_token([out]):
        return "%s: %s" % (line[:120], out)
    if t[0] == "T":
        bs = b"" if t[2] == "-" else bytes.fromhex(t[2])
        if t[1] == "arr_u":
            exp = "OK %d" % int.from_bytes(bs, "big") if len(bs) <= 8 else "E ru64"
        elif t[1] == "arr_i":
            exp = "OK %d" % int.from_bytes(bs, "big", signed=True) if len(bs) <= 8 else "E ri64"
        else:
            v = E.decode_value("F", bs)
            exp = "E rf64" if v is None else "OK %s" % E.f64_token(v)
        return None if out == exp else "%s: expected %s, got %s" % (line, exp, out)
    # X: element written, read back identical; payload of minimal width
    tag = E.parse_tag(t[2].split(",")[1][3:])
    parts = out.split(" | ")
    if len(parts) != 3:
        return "%s: malformed result %s" % (line, out)
    dest = bytes.fromhex(parts[1])
    items = E.parse_items(parts[2].split(" "))
    got = [x[1] for x in items if x[0] == "item"]
    if tag[0] == "f" and E.is_nan_bits(tag[2]):
        ok = len(got) == 3 and got[1][0] == "f" and E.is_nan_bits(got[1][2])
    else:
        ok = got == [("s", 0x81), tag, ("e", 0x81)]
    if not ok or items[-1] != ("none",):
        return "%s: round trip differs: %s" % (line, parts[2])
    payload = dest[4:]   # 81 ff.. : s81 unknown? no: known-size master => 81 <size> id <size> payload
    h = E.header_at(dest, 2)
    pl = dest[2 + h[1] + h[3]:]
    if tag[0] == "u":
        want = len(E.uint_payload(tag[2]))
    elif tag[0] == "i":
        want = len(E.sint_payload(tag[2]))
    else:
        want = 8
    if len(pl) != want or h[2] != want:
        return "%s: payload width %d, minimal is %d" % (line, len(pl), want)
    return None
