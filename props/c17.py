"""C17 — memory use is bounded by the configured tag size limit, whatever the input claims."""
from lib.runner import Case
from props.common import *

ID = "C17"
RULE = ("M cases (R run + peak live heap growth measured by the harness' counting allocator, and the model's final buffer length): headers "
        "declaring sizes from every class 0..2^56-2 in every vint width, at root, inside known-size and unknown-size masters, with the payload "
        "absent / partially present, x limits (5, 4096, 70000, default with sizes above 4e9 only) x tolerance settings x capacities; plus mutated "
        "streams with small limits.  Oracle: a declared size above the limit M is rejected with the size error (unless an earlier check fires) and "
        "the measured peak stays <= 3*max(M, capacity, 16) + 2048 + 256 bytes per level of nesting the run reaches, independent of the input length - also on 'long' streams of thousands of within-limit elements read through a small buffer - (+ 200 bytes per level of nesting in the 'deep' cases: documents of recursive masters nested up to 800 deep - the iterator keeps ~150 bytes of bookkeeping per OPEN master, which the size limit bounds only indirectly: remark R8 in DESIGN.md); the model's buffer length stays <= max(M, capacity, 16).  "
        "non-trivial = a header declares more than is present; distinct = distinct case line")
TRUSTED = TRUSTED_BASE + ["counting #[global_allocator] of the harness (harness/src/alloc.rs): realloc counted as size delta"]
ASSUMPTIONS = ASSUME_BASE + ["the bound on real heap usage is an implementation-level oracle (allocator behaviour is not modelled); the theorem bounds the model's buffer length"]
EXHAUSTIVE = {}


def generate(rng, tier):
    cases = []
    thorough = tier == "thorough"
    sp = E.base_spec()
    sizes = set([0, 1, 4, 5, 6, 7, 8, 9, 126, 127, 128, 4095, 4096, 4097, 65535, 65536, 65537, 69999, 70000, 70001, 10 ** 6, 4 * 10 ** 9 - 1 + 2, 4 * 10 ** 9 + 1,
                 (1 << 32) - 1, 1 << 32, (1 << 35) + 5, (1 << 49) - 2, (1 << 56) - 2])
    for w in range(1, 9):
        for d in (-2, -3):
            sizes.add((1 << (7 * w)) + d + 1)
    for _ in range(60 if thorough else 10):
        sizes.add(rng.getrandbits(rng.randint(1, 56)))
    sizes = sorted(s for s in sizes if 0 <= s <= (1 << 56) - 2)
    for size in sizes:
        for w in range(1, 9):
            if size >= (1 << (7 * w)) - 1:
                continue
            if not thorough and w not in (1, 2, 4, 8) and rng.random() < 0.6:
                continue
            szf = (size | (1 << (7 * w))).to_bytes(w, "big")
            for ctx in ("root", "known", "unknown"):
                elem = rng.choice([(E.CHILD, [E.ROOT, E.PARENT]), (E.LEAFS, [E.ROOT, E.PARENT, E.SUB]), (E.LEAFU, [E.ROOT, E.PARENT, E.SUB]), (E.SUB, [E.ROOT, E.PARENT])])
                present = rng.choice([0, 0, 1, 3, min(size, 20)])
                body = E.id_bytes(elem[0]) + szf + b"x" * min(present, size)
                if ctx == "root":
                    data = body                       # mid-document start
                else:
                    chain = elem[1]
                    data = body
                    for m in reversed(chain):
                        if ctx == "known":
                            hdr = E.id_bytes(m) + ((len(data) + rng.choice([0, 0, 40])) | (1 << 28)).to_bytes(4, "big") if len(data) < (1 << 27) else None
                        else:
                            hdr = E.id_bytes(m) + E.UNKNOWN8
                        data = hdr + data
                for lim in ("5", "4096", "70000", "def"):
                    limv = 4 * 10 ** 9 if lim == "def" else int(lim)
                    if size <= limv and size > 200000:
                        continue            # within the limit and large: the iterator is entitled to allocate it; not run
                    if not thorough and rng.random() < 0.5:
                        continue
                    cfg = E.cfg_str(allow=rng.choice([0, 0, 4, 7]), maxs=lim, cap=rng.choice(["def", "0", "16", "100"]))
                    cases.append(Case("M %s %s - %s N" % (sp.s(), cfg, data.hex()), ctx, {"size": size, "limit": limv, "present": present}))
    # depth: every open master costs bookkeeping (stack entry, the chain copied per header check, a queued End) that no size limit bounds;
    # known-size recursive masters nested N deep (so N <= M/4) and unknown-size ones (N bounded by the input length only)
    rs = E.rec_spec()
    for depth, lim, unknown in ([(40, "126", False), (300, "4096", False), (800, "4096", False), (300, "5", True), (800, "64", True)] if thorough
                                else [(40, "126", False), (300, "4096", False), (300, "5", True)]):
        body = b""
        for _ in range(depth):
            body = E.id_bytes(0x4301) + (E.UNKNOWN8 if unknown else E.size_vint(len(body))) + body
        data = E.id_bytes(0x81) + (E.UNKNOWN8 if unknown else E.size_vint(len(body))) + body
        for cap in ("0", "16", "def"):
            cases.append(Case("M %s %s - %s N" % (rs.s(), E.cfg_str(maxs=lim, cap=cap), data.hex()), "deep", {"size": None, "limit": int(lim), "present": 0, "depth": depth + 1}))
    # long streams: thousands of elements within the limit, many refills of a small buffer - memory must not grow with the input
    # (impl_only: the extracted model needs ~20 s for 150 KB; its buffer bound is the theorem C17_buffer_bounded)
    def long_stream(nblocks, pay, unknown):
        body = b""
        for k in range(nblocks):
            body += E.id_bytes(E.CHILD) + E.size_vint(pay) + bytes([k & 255]) * pay
        inner = E.id_bytes(E.PARENT) + (E.UNKNOWN8 if unknown else (len(body) | (1 << 28)).to_bytes(4, "big")) + body
        return E.id_bytes(E.ROOT) + (E.UNKNOWN8 if unknown else (len(inner) | (1 << 28)).to_bytes(4, "big")) + inner
    for nb, pay, lim, cap, unk in ([(3000, 50, "64", "64", True), (600, 250, "1000", "256", True), (20000, 5, "64", "16", True), (3000, 50, "64", "0", True),
                                    (1500, 100, "200000", "128", False)] if thorough else [(3000, 50, "64", "64", True), (600, 250, "1000", "256", True)]):
        d = long_stream(nb, pay, unk)
        cases.append(Case("M %s %s %s %s N" % (sp.s(), E.cfg_str(maxs=lim, cap=cap), rng.choice(["-", "1000,7,64"]), d.hex()), "long",
                          {"size": None, "limit": int(lim), "present": 0, "impl_only": True}))
    specs = specs_pool(rng, 10)
    for k in range(3000 * TH if thorough else 300):
        spx, data, kind, _ = gen_stream(rng, specs, big=False, p_valid=0.2, p_mut=0.6)
        lim = rng.choice(["5", "64", "4096"])
        cfg = E.cfg_str(allow=rng.randrange(8), maxs=lim, cap=rng.choice(["def", "0", "16"]))
        cases.append(Case("M %s %s %s %s NtNtN" % (spx.s(), cfg, rng.choice(["-", "1,2,3,4,5,6,7"]), data.hex() or "-"), "mut", {"size": None, "limit": int(lim), "present": 0}))
    return cases


def normalise(line, out):
    # the first field differs by design: model = final buffer length, implementation = measured peak
    return out.split(" ", 1)[1] if " " in out else ""


def nontrivial(case, model_out):
    return case.meta["size"] is not None and case.meta["size"] > case.meta["present"]


def cap_of(line):
    cfg = line.split(" ")[2].split(",")
    c = [x for x in cfg if x.startswith("c")][0][1:]
    return 65536 if c == "def" else int(c)


RAW = {}


def oracle(case, outs):
    # outs are normalised (tokens only); the raw first fields are judged in extra_check via RAW
    out = outs[0]
    if bad_token([out]):
        return "%s: %s" % (case.lines[0][:400], bad_token([out]))
    m = case.meta
    if m["size"] is not None and m["size"] > m["limit"]:
        toks_ = out.split(" ")
        errs = [t for t in toks_ if t.startswith("E:")]
        if not errs:
            return "declared size %d above the limit %d was not rejected: %s -> %s" % (m["size"], m["limit"], case.lines[0][-200:], out[:300])
        if not errs[0].startswith("E:size:") and errs[0].split(":")[1] not in ("cdata", "cid", "hier", "over", "eof"):
            return "declared size above the limit: unexpected first error %s" % errs[0]
        if errs[0].startswith("E:eof:") and errs[0].split(":")[4] != "-":
            return "a payload read was attempted for a declared size above the limit: %s  [%s]" % (errs[0][:100], case.lines[0][-200:])
    if m["size"] is not None and m["size"] <= m["limit"]:
        # an element WITHIN the limit (the limit itself included) is never refused with the size error
        for t in out.split(" "):
            if t.startswith("E:size:") and t.split(":")[-1] == str(m["size"]):
                return "declared size %d is within the limit %d but was rejected with the size error: %s -> %s" % (m["size"], m["limit"], case.lines[0][-200:], out[:300])
    return None


def raw_check(case, raw_model, raw_impl):
    """first fields: model's final buffer length and the implementation's measured peak"""
    m = case.meta
    cap = cap_of(case.lines[0])
    n = len(case.lines[0].split(" ")[4]) // 2
    bound_model = max(m["limit"], cap, 16)
    try:
        mc = int(raw_model[0].split(" ")[0])
        ip = int(raw_impl[0].split(" ")[0])
    except ValueError:
        return None
    if mc > bound_model and not m.get("impl_only"):
        return "model buffer length %d exceeds max(limit, capacity, 16) = %d: %s" % (mc, bound_model, case.lines[0][-200:])
    # per open master: ~150 bytes of bookkeeping (measured 144), not bounded by the limit but by the nesting depth
    # calibrated on the unrepaired and the repaired tree: beyond 3*max(...) (old + new buffer while growing, plus the payload copy) the
    # iterator needs well under 1 KiB, whatever the length of the input (long streams: ~700 bytes)
    # nesting depth reached by the run, read off the emitted Starts / Ends (implied ancestors show up as unmatched Ends)
    depth = cur = extra = 0
    for t in raw_impl[0].split(" ")[1:]:
        if t.startswith("s"):
            cur += 1
            depth = max(depth, cur)
        elif t.startswith("e") and "@" in t and "=" not in t:
            if cur:
                cur -= 1
            else:
                extra += 1
    depth = max(depth + extra, m.get("depth", 0))
    if ip > 3 * bound_model + 2048 + 256 * depth:
        return "measured peak heap growth %d exceeds 3*max(limit %d, capacity %d, 16) + 2 KiB + 256*depth(%d) (input %d bytes): %s" % (ip, m["limit"], cap, depth, n, case.lines[0][-300:])
    return None
