"""C10 — writer streams: flushed bytes are final, and complete when no sized master is open."""
from lib.runner import Case
from props.common import *
from props.c19 import failing_op, chain_at, KINDS as FAIL_KINDS

ID = "C10"
RULE = ("X-mode-p cases: a random conformant call sequence (random presentation, known/unknown/explicit-width masters) is written; after every call the bytes the destination holds so far are parsed with the real iterator "
        "(EOF closing off).  Oracle: byte counts never decrease (the destination is append-only, so earlier bytes are a prefix); after a "
        "successful element / Full / End write with no known-size master open the parse equals exactly the tags accepted so far; while a "
        "known-size master is open nothing is handed over; after flush/into_inner everything parses (EOF closing on) to the full document. "
        "In a third of the cases one call that must be rejected (the ten kinds of C19) is inserted at a random position: the same must hold "
        "for all other calls (a rejected call must not change when later bytes are handed over). "
        "tight cases: a master started with size width 1 receives more than 126 bytes, its End is rejected (TagSizeError) and more children follow: the master is still open, so nothing may be handed over. "
        "ioerr cases (pairs of W lines): the same call sequence, with flush() calls between top-level tags, against an accepting destination and "
        "against one that fails (injected errors, Ok(0), short writes, Interrupted): no verdict other than Ok -> I/O error may change, byte counts never "
        "decrease, and after every call that returns Ok where the undisturbed run handed bytes over the failing destination holds exactly what the "
        "undisturbed one held (nothing accepted is lost; a later flush delivers it), and every element / Full / End / flush call that returns Ok with no known-size master open leaves exactly the undisturbed byte count (also when the call itself adds no bytes); the final bytes are equal when the last call succeeds and a prefix otherwise. "
        "non-trivial = at least 2 checkpoints where the parse was compared (ioerr: an I/O error occurred); distinct = distinct case line")
TRUSTED = TRUSTED_BASE
ASSUMPTIONS = ASSUME_BASE
EXHAUSTIVE = {}


def generate(rng, tier):
    cases = []
    n = 2000 * TH if tier == "thorough" else 300
    specs = specs_pool(rng, 30 if tier == "thorough" else 8)
    for k in range(n):
        sp = rng.choice(specs)
        nodes = fix_widths(E.rand_doc(rng, sp, big=False, unknown_p=0.5))
        if not nodes:
            continue
        ops, _ = present(rng, nodes, p_full=0.3)
        final = rng.choice(["x", "x", "f", ""])
        if rng.random() < 0.3:
            while ops and ops[-1][1][0] == "e" and rng.random() < 0.7:
                ops.pop()
        rej = None
        if rng.random() < 0.35:
            pos = rng.randint(0, len(ops))
            fo = failing_op(rng, sp, rng.choice(FAIL_KINDS), chain_at(ops, pos))
            if fo is not None:
                ops = ops[:pos] + [fo] + ops[pos:]
                rej = pos
        meta = {"ops": [(o, E.tag_str(t)) for o, t in ops], "final": final, "rej": rej}
        cases.append(Case(["X %s %s %s p" % (sp.s(), ops_line(ops, final), E.cfg_str(eof=0)),
                           "X %s %s %s f" % (sp.s(), ops_line(ops, final), E.cfg_str(eof=1))], "doc", meta))
        # the same call sequence (flush calls and raw writes sprinkled in) against a destination that fails: an I/O error must not lose
        # tags that were accepted - whatever a later successful call hands over is what the undisturbed run had handed over by then
        if rej is None and rng.random() < 0.5:
            ops2 = []
            depth = 0
            for o in ops:
                # flush() closes every open master: only between top-level tags does the sequence stay conformant
                if depth == 0 and rng.random() < 0.4:
                    ops2.append(("F", None))
                ops2.append(o)
                if o[1][0] == "s":
                    depth += 1
                elif o[1][0] == "e":
                    depth -= 1
            script = []
            for _ in range(rng.randint(1, 6)):
                script.append(rng.choice(["1", "2", "3", "5", "9", "40", "i", "1000"]))
            for _ in range(rng.randint(1, 2)):
                script.insert(rng.randint(0, len(script)), rng.choice(["e7", "e9", "z"]))
            fin = final or "x"
            cases.append(Case(["W %s %s" % (sp.s(), ops_line(ops2, fin)),
                               "W %s %s %s" % (sp.s(), ops_line(ops2, fin), ",".join(script))], "ioerr",
                              {"ops": [(o, E.tag_str(t) if t else "") for o, t in ops2], "final": fin}))
    # a known-size master whose End is REJECTED (width 1, more than 126 bytes of content: TagSizeError) stays open: the calls that follow
    # must still be held back, whatever the outer masters are (mostly of unknown size, so that only this master holds the bytes)
    for k in range(60 * TH if tier == "thorough" else 24):
        sp = rng.choice(specs)
        r = tight_case(rng, sp)
        if r is None:
            continue
        ops, rej = r
        meta = {"ops": [(o, E.tag_str(t)) for o, t in ops], "final": "", "rej": rej}
        cases.append(Case(["X %s %s %s p" % (sp.s(), ops_line(ops, ""), E.cfg_str(eof=0)),
                           "X %s %s %s f" % (sp.s(), ops_line(ops, ""), E.cfg_str(eof=1))], "tight", meta))
    # every stack of 1-3 masters left open, in every known / unknown-size / explicit-width combination, some content at each level, then
    # flush() or into_inner(): "close all open masters and deliver everything" (a deterministic family: not left to the random draw)
    import itertools
    bsp = E.base_spec()
    chain = [E.ROOT, E.PARENT, E.SUB]
    leaf = {0: ("u", E.INT, 5), 1: ("b", E.CHILD, b"\x07\x08"), 2: ("u", E.LEAFU, 300)}
    for depth in (1, 2, 3):
        for opts in itertools.product(["d", "u", "2"], repeat=depth):
            for final in ("x", "f"):
                for with_leaves in (True, False):
                    ops = []
                    for lvl in range(depth):
                        ops.append((opts[lvl], ("s", chain[lvl])))
                        if with_leaves:
                            ops.append(("d", leaf[lvl]))
                    meta = {"ops": [(o, E.tag_str(t)) for o, t in ops], "final": final, "rej": None}
                    cases.append(Case(["X %s %s %s p" % (bsp.s(), ops_line(ops, final), E.cfg_str(eof=0)),
                                       "X %s %s %s f" % (bsp.s(), ops_line(ops, final), E.cfg_str(eof=1))], "openstack", meta))
    return cases


def tight_case(rng, sp):
    """[outer masters, mostly unknown size] Start(m, width 1), > 126 bytes of content, End(m) (rejected), more children of m"""
    for _ in range(30):
        ops = []
        ids = []
        for _ in range(rng.choice([0, 1, 1, 2])):
            cands = [i for i in E.allowed_children(sp, ids) if sp.get_type(i) == "M"]
            if not cands:
                break
            m = rng.choice(cands)
            ops.append((rng.choice(["u", "u", "u", "d"]), ("s", m)))
            ids.append(m)
            if rng.random() < 0.5:
                kids = [i for i in E.allowed_children(sp, ids) if sp.get_type(i) == "B"]
                if kids:
                    ops.append(("d", ("b", kids[0], b"p" * rng.randint(0, 4))))
        cands = [i for i in E.allowed_children(sp, ids) if sp.get_type(i) == "M"]
        if not cands:
            continue
        m = rng.choice(cands)
        fill = [i for i in E.allowed_children(sp, ids + [m]) if sp.get_type(i) == "B"]
        if not fill:
            continue
        ops.append(("1", ("s", m)))
        ops.append(("d", ("b", fill[0], b"q" * rng.choice([127, 130, 200]))))
        rej = len(ops)
        ops.append(("d", ("e", m)))
        for _ in range(rng.randint(1, 3)):
            ops.append(("d", ("b", fill[0], b"r" * rng.randint(0, 5))))
        return ops, rej
    return None


def checkpoints(ops):
    """for each op index: (known_open_after, is_checkpoint)"""
    stack = []
    out = []
    for (o, ts) in ops:
        t = E.parse_tag(ts)
        if t[0] == "s":
            stack.append("u" if o == "u" else "k")
        elif t[0] == "e":
            if stack:
                stack.pop()
        known_open = "k" in stack
        out.append((known_open, t[0] != "s" and not known_open))
    return out


def nontrivial(case, model_out):
    if case.cls == "ioerr":
        return "E:io" in model_out[1]
    ops = [x for i, x in enumerate(case.meta["ops"]) if i != case.meta.get("rej")]
    return sum(1 for _, c in checkpoints(ops) if c) >= 2


def close_all(tags):
    """flat tag list with the Ends of still-open masters appended innermost first"""
    st = []
    for t in tags:
        if t[0] == "s":
            st.append(t[1])
        elif t[0] == "e" and st:
            st.pop()
    return tags + [("e", i) for i in reversed(st)]


def visible(ops_so_far, flat_tags):
    """the Ends of unknown-size masters at the very end of the sequence write no bytes (and, with EOF closing off, no
    following element reveals them): they cannot be part of the parse"""
    kinds = []
    st = []
    # kind of the master each End closes, in flat order
    ends_unknown = []
    for (o, ts) in ops_so_far:
        t = E.parse_tag(ts)
        for j, x in enumerate(E.flat([t])):
            if x[0] == "s":
                st.append("u" if (o == "u" and j == 0) else "k")
                ends_unknown.append(None)
            elif x[0] == "e":
                ends_unknown.append(st.pop() == "u" if st else False)
            else:
                ends_unknown.append(None)
    out = list(flat_tags)
    k = len(out)
    while k > 0 and out[k - 1][0] == "e" and ends_unknown[k - 1]:
        k -= 1
    return out[:k]


def oracle(case, outs):
    if bad_token(outs):
        return "%s: %s" % (case.lines[0][:400], bad_token(outs))
    if case.cls == "ioerr" or (case.lines[0].startswith("W ") and len(case.lines) == 2):
        return oracle_ioerr(case, outs)
    ops = case.meta["ops"]
    p = outs[0].split(" | ")
    if len(p) != 3:
        return "malformed: %s" % outs[0][:300]
    wt, dest = w_split(p[0] + " | " + p[1])
    if wt is None:
        return "malformed: %s" % outs[0][:300]
    rej = case.meta.get("rej")
    if rej is not None and rej < len(wt) and wt[rej].startswith("OK@"):
        return None   # the inserted call happened to be acceptable: not a case of this family
    if any(not x.startswith("OK@") for i, x in enumerate(wt) if i != rej):
        return "a call of a conformant sequence was rejected: %s -> %s" % (case.lines[0][:400], " ".join(wt))
    if rej is not None:
        ops = [x for i, x in enumerate(ops) if i != rej]
        if rej < len(wt):
            before_r = int(wt[rej - 1].rsplit("@", 1)[1]) if rej else 0
            if int(wt[rej].rsplit("@", 1)[1]) < before_r:
                return "byte count decreased at the rejected call: %s" % " ".join(wt)
        wt = [x for i, x in enumerate(wt) if i != rej]
    counts = [int(x.rsplit("@", 1)[1]) for x in wt]
    if any(b < a for a, b in zip(counts, counts[1:])):
        return "byte count decreased: %s" % counts
    brackets = p[2][1:-1].split("] [") if p[2] else []
    if rej is not None:
        brackets = [x for i, x in enumerate(brackets) if i != rej]
    cps = checkpoints(ops)
    accepted = []
    held_at = None
    for k, (o, ts) in enumerate(ops):
        accepted.append(E.parse_tag(ts))
        known_open, cp = cps[k]
        before = counts[k - 1] if k else 0
        if known_open:
            # nothing of a known-size master's content is handed over while it is open
            if held_at is None:
                held_at = before
            if counts[k] != held_at:
                return "bytes were handed over while a known-size master was open (op %d): %s   [%s]" % (k, counts, case.lines[0][:400])
        else:
            held_at = None
        if cp:
            tags, term = item_tags(brackets[k].split(" "))
            want = visible(ops[:k + 1], E.flat(accepted))
            if term != ("none",) or not tags_equal(tags, want):
                return ("after op %d (no known-size master open) the destination does not parse to the tags written so far: parsed [%s]  expected %s   [%s]"
                        % (k, brackets[k][:300], " ".join(E.tag_str(t) for t in want)[:300], case.lines[0][:400]))
    if case.meta["final"]:
        q = outs[1].split(" | ")
        tags, term = item_tags(q[2].split(" "))
        want = close_all(E.flat(accepted))
        if term != ("none",) or not tags_equal(tags, want):
            return "after flush/into_inner the output does not parse to the whole document: [%s] expected %s [%s]" % (q[2][:300], " ".join(E.tag_str(t) for t in want)[:300], case.lines[1][:400])
        if counts[-1] != len(dest):
            return "final count"
    return None


def oracle_ioerr(case, outs):
    """outs[0]: the call sequence against an accepting destination; outs[1]: against a destination that fails somewhere.
    After every call that returns Ok while no known-size master is open the failing destination must hold exactly what the accepting
    one held at that point (everything accepted so far); bytes are never retracted; nothing is handed over while a known-size master is
    open ... unless it was accepted before that master was opened and could not be delivered then."""
    (t0, d0), (t1, d1) = w_split(outs[0]), w_split(outs[1])
    if t0 is None or t1 is None or len(t0) != len(t1):
        return "malformed: %s" % outs
    if any(not x.startswith("OK@") for x in t0):
        return None     # not a conformant sequence (cannot happen for generated cases)
    names = [x.rsplit("@", 1)[0] for x in t1]
    if any(not (x == "OK" or x.startswith("E:io")) for x in names):
        return "a destination error changed the verdict of a call: %s | %s   [%s]" % (" ".join(t0), " ".join(t1), case.lines[1][:500])
    c0 = [int(x.rsplit("@", 1)[1]) for x in t0]
    c1 = [int(x.rsplit("@", 1)[1]) for x in t1]
    if any(b < a for a, b in zip(c1, c1[1:])):
        return "byte count decreased: %s" % c1
    if not d0.startswith(d1[:len(d0)]) and not d1.startswith(d0[:len(d1)]):
        pass
    for k, nm in enumerate(names):
        if nm == "OK" and c0[k] > (c0[k - 1] if k else 0) or (nm == "OK" and k == len(names) - 1):
            # the undisturbed run handed bytes over at this call (no known-size master open): so must this one, completely
            if c1[k] != c0[k]:
                return ("after an I/O error of the destination a later successful call (op %d) left accepted tags undelivered: the destination holds %d bytes, "
                        "%d without the error: %s | %s   [%s]" % (k, c1[k], c0[k], " ".join(t0), " ".join(t1), case.lines[1][:500]))
    # the clause itself, call by call: an element / Full / End / flush call that returns Ok while no known-size master is open has handed
    # over everything accepted so far - also when the call itself added no bytes (the End of an unknown-size master)
    stack = []
    for k, (o, ts) in enumerate(case.meta.get("ops", [])):
        if k >= len(names):
            break
        if o == "F":
            stack, cp = [], True
        else:
            t = E.parse_tag(ts)
            if t[0] == "s":
                stack.append("u" if o == "u" else "k")
                cp = False
            else:
                if t[0] == "e" and stack:
                    stack.pop()
                cp = True
        if cp and "k" not in stack and names[k] == "OK" and c1[k] != c0[k]:
            return ("call %d returned Ok with no known-size master open, but the destination holds %d bytes instead of the %d accepted so far (bytes retained after an "
                    "earlier destination error were not handed over): %s | %s   [%s]" % (k, c1[k], c0[k], " ".join(t0), " ".join(t1), case.lines[1][:500]))
    if names[-1] == "OK" and d1 != d0:
        return "final output differs after a destination error: %s | %s   [%s]" % (d0.hex()[:300], d1.hex()[:300], case.lines[1][:500])
    if not d0.startswith(d1):
        return "the failing destination holds bytes that are not a prefix of the undisturbed output: %s | %s   [%s]" % (d0.hex()[:300], d1.hex()[:300], case.lines[1][:500])
    return None
