"""C01 — write -> read round trip reproduces every accepted tag sequence exactly."""
from lib.runner import Case
from props.common import *

ID = "C01"
RULE = ("X-mode-f cases: a random specification-conformant, unambiguous document (fixed + random specifications incl. recursive/global "
        "paths; payload lengths from the boundary lattice 0,1,2,7,8,9,126..129,16382..16385,65535..65537; integer/float boundary values; "
        "UTF-8 of 1-4 byte sequences; explicit size widths; masters as Start/End, Full or unknown size; raw tags with well-formed ids when "
        "unknown ids are allowed) is written with the real writer and the emitted bytes are read with the real strict iterator; the oracle "
        "demands every call accepted, no error, and exactly flat(tags) back.  non-trivial = >= 3 nodes; distinct = distinct case line")
TRUSTED = TRUSTED_BASE
ASSUMPTIONS = ASSUME_BASE + ["unambiguous documents only (DESIGN.md C01 (a)-(c)): unknown-size masters with placeholder-free paths, no element that would close an enclosing unknown-size master, no global element directly after an unknown-size master"]
EXHAUSTIVE = {"thorough": "all payload lengths 0..300 and 16380..16390 for a binary element, alone and as the last child of a known-size master"}


def raw_doc(rng, sp):
    """document with raw tags (ids outside the specification, well-formed) sprinkled in; read with unknown ids allowed"""
    nodes = fix_widths(E.rand_doc(rng, sp, big=False, unknown_ok=True, unknown_p=0.4))
    def sprinkle(ns):
        out = []
        for n in ns:
            if rng.random() < 0.3:
                rid = E.valid_id(rng, rng.choice([1, 2, 3, 4]))
                if sp.get_type(rid) is None:
                    out.append(E.Node(("r", rid, E.rand_bytes(rng, E.rand_len(rng, big=False)))))
            if n.is_master():
                n = E.Node(n.tag, n.enc, sprinkle(n.children))
            out.append(n)
        return out
    for _ in range(20):
        out = fix_widths(sprinkle(nodes))
        # a raw (unknown) element directly after an unknown-size master at the same level cannot be told from a child of that
        # master — the same inherent ambiguity as for global elements
        if E.unambiguous(sp, out):
            return out
    return fix_widths(strip_enc(nodes))


def generate(rng, tier):
    cases = []
    thorough = tier == "thorough"
    specs = specs_pool(rng, 40 if thorough else 10)
    for k in range(4000 * TH if thorough else 500):
        sp = rng.choice(specs)
        raw = (k % 6 == 0)
        nodes = raw_doc(rng, sp) if raw else fix_widths(E.rand_doc(rng, sp, big=(k % 5 == 0), unknown_p=0.3))
        if not nodes:
            continue
        ops, nodes2 = present(rng, nodes, p_full=0.35)
        final = rng.choice(["x", "x", "f"])
        # the reader configuration is part of "reading the emitted bytes": small capacities make multi-byte headers straddle refills
        cfg = E.cfg_str(allow=1 if raw else 0, cap=rng.choice(["def", "def", "0", "1", "9", "10", "16", "17"]))
        cases.append(Case("X %s %s %s f" % (sp.s(), ops_line(ops, final), cfg), "raw" if raw else "doc",
                          {"tags": [E.tag_str(t) for _, t in ops], "nodes": E.count_nodes(nodes2)}))
    # boundary lengths
    sp = E.base_spec()
    lens = list(range(0, 301)) + list(range(16380, 16391)) if thorough else [0, 1, 2, 125, 126, 127, 128, 129, 16382, 16383, 16384, 65535, 65536, 2097150, 2097151, 2097152]
    for n in lens:
        if n > 70000 and not thorough:
            continue
        pl = bytes([n & 0xFF]) * n
        for ops in ([("d", ("s", E.ROOT)), ("d", ("s", E.PARENT)), ("d", ("b", E.CHILD, pl)), ("d", ("e", E.PARENT)), ("d", ("e", E.ROOT))],
                    [("d", ("m", E.ROOT, [("m", E.PARENT, [("b", E.CHILD, pl)])]))],
                    [("u", ("s", E.ROOT)), ("d", ("s", E.PARENT)), ("d", ("b", E.CHILD, pl))]):
            cases.append(Case("X %s %s %s f" % (sp.s(), ops_line(ops, "x"), E.cfg_str()), "boundary", {"tags": [E.tag_str(t) for _, t in ops], "nodes": 3}))
    # explicit size widths at their edges: a payload (or master content) of exactly 2^(7w) - 2 bytes is the largest a width-w field can
    # announce, 2^(7w) - 1 is the reserved all-ones pattern (unknown size) and must be refused; whatever the writer ACCEPTS has to read back
    for w, edge in ((1, 127), (2, 16383)):
        for n in (edge - 2, edge - 1, edge, edge + 1):
            pl = bytes([n & 0xFF]) * n
            inner = (n - 3) if n - 3 < 127 else (n - 4)    # a child whose whole element makes the parent's content n bytes long
            for ops in ([("d", ("s", E.ROOT)), ("d", ("s", E.PARENT)), (str(w), ("b", E.CHILD, pl)), ("d", ("b", E.CHILD, b"\x01")), ("d", ("e", E.PARENT)), ("d", ("e", E.ROOT))],
                        [("d", ("s", E.ROOT)), (str(w), ("s", E.PARENT)), ("d", ("b", E.CHILD, bytes(inner))), ("d", ("e", E.PARENT)), ("d", ("b", E.VOID, b"\x02")), ("d", ("e", E.ROOT))],
                        [("u", ("s", E.ROOT)), (str(w), ("m", E.PARENT, [("b", E.CHILD, bytes(inner))])), ("d", ("b", E.VOID, b"\x02"))]):
                cases.append(Case("X %s %s %s f" % (sp.s(), ops_line(ops, "x"), E.cfg_str()), "widthedge",
                                  {"tags": [E.tag_str(t) for _, t in ops], "nodes": 3, "may_reject": True}))
    return cases


def tags_of(case):
    if "tags" in case.meta:
        return case.meta["tags"]
    out = []
    for op in case.lines[0].split(" ")[2].split(","):
        if op.startswith("w") and len(op) > 3 and op[2] == ":":
            out.append(op[3:])
    return out


def nontrivial(case, model_out):
    return case.meta.get("nodes", len(tags_of(case))) >= 3


def close_all(tags):
    st = []
    for t in tags:
        if t[0] == "s":
            st.append(t[1])
        elif t[0] == "e" and st:
            st.pop()
    return tags + [("e", i) for i in reversed(st)]


def oracle(case, outs):
    out = outs[0]
    if bad_token([out]):
        return "%s: %s" % (case.lines[0][:400], bad_token([out]))
    p = out.split(" | ")
    if len(p) != 3:
        return "malformed: %s" % out[:300]
    wt = [x for x in p[0].split(" ") if x]
    if case.meta.get("may_reject") and any(x.startswith("E:size") for x in wt):
        return None    # the requested width cannot announce this size: the property speaks of sequences the writer accepts
    if any(not x.startswith("OK@") for x in wt):
        return "the writer rejected a call of a conformant sequence: %s -> %s" % (case.lines[0][:400], " ".join(wt))
    tags, term = item_tags(p[2].split(" "))
    want = close_all(E.flat([E.parse_tag(s) for s in tags_of(case)]))
    if term != ("none",):
        return "reading the writer's output failed: %s  [%s] bytes %s" % (term, case.lines[0][:300], p[1][:200])
    if not tags_equal(tags, want):
        return "round trip differs: read %s  expected %s  [%s]" % (" ".join(E.tag_str(t) for t in tags)[:300], " ".join(E.tag_str(t) for t in want)[:300], case.lines[0][:300])
    return None
