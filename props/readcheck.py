"""Independent checkers of reader output, written from the property texts (C03, C06, C12, C20).
They look only at the input bytes, the specification and the implementation's item list."""
from gen import ebml as E

TYCH = {"U": "u", "I": "i", "F": "f", "S": "t", "B": "b"}


def _val_eq(ty, tag, payload):
    want = E.decode_value(ty, payload) if ty else payload
    if want is None:
        return False
    if ty == "F":
        return tag[0] == "f" and (tag[2] == want or (E.is_nan_bits(tag[2]) and E.is_nan_bits(want)))
    if ty is None:
        return tag[0] == "r" and bytes(tag[2]) == payload
    return tag[0] == TYCH[ty] and (bytes(tag[2]) == payload if ty in "SB" else tag[2] == want)


def consume(spec, data, tag, pos):
    """verify that `tag` is what the bytes at `pos` say; return (new position, error)"""
    h = E.header_at(data, pos)
    if h is None:
        return pos, "no complete header at offset %d for %s" % (pos, E.tag_str(tag)[:60])
    tid, idl, sz, sl = h
    if tid != tag[1]:
        return pos, "item %s reported at offset %d, but the id there is %x" % (E.tag_str(tag)[:60], pos, tid)
    hl = idl + sl
    if tag[0] == "s":
        return pos + hl, None
    if tag[0] == "m":
        p = pos + hl
        for c in tag[2]:
            p, err = consume(spec, data, c, p)
            if err:
                return p, err
        return p, None
    if sz is None or pos + hl + sz > len(data):
        return pos, "element %s at %d has no complete payload in the input" % (E.tag_str(tag)[:60], pos)
    payload = data[pos + hl:pos + hl + sz]
    if not _val_eq(spec.get_type(tid), tag, payload):
        return pos, "value of %s at offset %d is not the documented decoding of payload %s" % (E.tag_str(tag)[:80], pos, payload.hex()[:80])
    return pos + hl + sz, None


def check_tiling(spec, data, items):
    """C03 on the items up to the first error / None"""
    pos = 0
    open_ = []
    for it in items:
        if it[0] != "item":
            break
        tag, off = it[1], it[2]
        if tag[0] == "e":
            if open_:
                oid, ooff = open_.pop()
                if oid != tag[1]:
                    return "End %x does not match the innermost open master %x" % (tag[1], oid)
                exp = ooff
            else:
                exp = 0
            if off != exp:
                return "End of %x reports offset %d, its master started at %d" % (tag[1], off, exp)
            continue
        if off != pos:
            return "item %s reports offset %d but the previous item ended at %d (bytes skipped or read twice)" % (E.tag_str(tag)[:60], off, pos)
        pos, err = consume(spec, data, tag, pos)
        if err:
            return err
        if tag[0] == "s":
            open_.append((tag[1], off))
    return None


def check_strict(spec, data, items):
    """C06: nesting, known ids, path, extent, EOF closing — for a strict parse (no buffering)"""
    pos = 0
    stack = []   # dict(id, end)  end=None for unknown-size / implied
    determined = False
    n = len(items)
    for k, it in enumerate(items):
        if it[0] != "item":
            if it[0] == "none":
                if stack:
                    return "input ended but masters %s never received their End" % ["%x" % f["id"] for f in stack]
            return None
        tag, off = it[1], it[2]
        if tag[0] == "e":
            if not stack:
                return "End %x with no open master" % tag[1]
            f = stack.pop()
            if f["id"] != tag[1]:
                return "End %x does not match the most recent unmatched Start %x" % (tag[1], f["id"])
            if f["end"] is not None and pos != f["end"] and pos != len(data):
                return "End of known-size master %x emitted at position %d, its range ends at %d" % (tag[1], pos, f["end"])
            continue
        if tag[0] == "m":
            return "Full item in an unbuffered parse"
        tid = tag[1]
        ty = spec.get_type(tid)
        if ty is None or tag[0] == "r":
            return "strict parse emitted an item with an id outside the specification: %s" % E.tag_str(tag)[:60]
        path = spec.get_path(tid)
        if not determined and all(not isinstance(x, tuple) for x in path):
            determined = True
            # masters opened before the position was known stay open inside the implied ancestors
            stack = [{"id": i, "end": None} for i in path] + stack
        h = E.header_at(data, pos)
        if h is None:
            return "no header at %d" % pos
        _, idl, sz, sl = h
        ext_end = pos + idl + sl + (sz or 0)
        for f in stack:
            if f["end"] is not None:
                if pos >= f["end"]:
                    return "element %s starts at %d, at/after the end %d of open known-size master %x (its End was not emitted when the range was exhausted)" % (E.tag_str(tag)[:40], pos, f["end"], f["id"])
                if ext_end > f["end"]:
                    return "element %s [%d,%d) overruns enclosing known-size master %x ending at %d" % (E.tag_str(tag)[:40], pos, ext_end, f["id"], f["end"])
        if determined and not E.matches(path, [f["id"] for f in stack]):
            return "element %x emitted under chain %s which its declared path %s does not allow" % (tid, ["%x" % f["id"] for f in stack], path)
        start = pos
        pos, err = consume(spec, data, tag, pos)
        if err:
            return err
        if tag[0] == "s":
            stack.append({"id": tid, "end": (pos + sz) if sz is not None else None})
    return None


def unroll(items):
    """replace Full items by Start, children (recursively), End — tags only"""
    out = []
    for it in items:
        if it[0] == "item":
            out.extend(E.flat([it[1]]))
    return out


# ------------------------------------------------------------------ C12: expected result of a truncated valid document

def layout(nodes, data, base=0):
    """flat list of entries for a reference-encoded document:
    ('s', id, off, hdr_end, end|None) ('x', tag, off, hdr_end, end) ('e', id, start_off, known, end)"""
    out = []
    off = base
    for n in nodes:
        h = E.header_at(data, off)
        tid, idl, sz, sl = h
        hl = idl + sl
        if n.is_master():
            out.append(("s", tid, off, off + hl, None))
            sub = layout(n.children, data, off + hl)
            out.extend(sub)
            end = (off + hl + sz) if sz is not None else (sub[-1][-1] if sub else off + hl)
            out.append(("e", tid, off, sz is not None, end))
            off = end
        else:
            out.append(("x", n.tag, off, off + hl, off + hl + sz))
            off = off + hl + sz
    return out


def expected_truncated(nodes, data, c):
    """tokens the strict iterator must produce for data[:c] (C12)"""
    lay = layout(nodes, data)
    toks = []
    open_ = []
    pending_unknown = []   # Ends of unknown-size masters waiting for the element that reveals them
    cut_entry = None
    boundaries = {0, len(data)}
    for e in lay:
        if e[0] in "sx":
            boundaries.add(e[2])
    for e in lay:
        if e[0] == "e":
            if e[3]:   # known size: emitted once the range is exhausted (and everything nested with it)
                if e[4] <= c:
                    for p in pending_unknown:
                        toks.append(p)
                    pending_unknown = []
                    toks.append("e%x@%d" % (e[1], e[2]))
                    open_.pop()
                else:
                    break
            else:
                pending_unknown.append("e%x@%d" % (e[1], e[2]))
                open_.pop()
            continue
        complete = (e[3] <= c) if e[0] == "s" else (e[4] <= c)
        if not complete:
            cut_entry = e
            break
        toks.extend(pending_unknown)
        pending_unknown = []
        if e[0] == "s":
            toks.append("s%x@%d" % (e[1], e[2]))
            open_.append((e[1], e[2]))
        else:
            toks.append("%s@%d" % (E.tag_str(e[1]), e[2]))
    if c in boundaries:
        # pending unknown Ends are still open masters from the reader's point of view: closed by EOF, innermost first
        # (they are the innermost ones, so they come first, in the order they were recorded)
        toks.extend(pending_unknown)
        for (i, o) in reversed(open_):
            toks.append("e%x@%d" % (i, o))
        toks.append("N")
        return toks
    e = cut_entry
    off = e[2]
    h_end = e[3]
    tid = e[1] if e[0] == "s" else e[1][1]
    idl = len(E.id_bytes(tid))
    if c < off + idl:
        toks.append("E:eof:%d:-:-:-" % off)
    elif c < h_end:
        toks.append("E:eof:%d:%x:-:-" % (off, tid))
    else:
        toks.append("E:eof:%d:%x:%d:=%s" % (off, tid, e[4] - h_end, data[h_end:c].hex()))
    return toks


# ------------------------------------------------------------------ C20: starved schedules

def starved(data, blocking_items, chunks, buffered):
    """Does some call of the async run find the inner iterator short of data before the source is exhausted?
    (nonblocking.rs: one source read of at most 64 KiB per call, then one blocking next() that treats "nothing more yet" as
    end of input.)  blocking_items: parse_items of the blocking run; chunks: sizes the scripted source returns per call."""
    n = len(data)
    cum = []
    d = 0
    for c in chunks:
        d += min(c, 65536, n - d)
        cum.append(d)

    def delivered(k):
        if k < len(cum):
            return cum[k]
        base = cum[-1] if cum else 0
        return min(n, base + 65536 * (k - len(cum) + 1))

    if delivered(0) >= n:
        return False
    if buffered:
        return True
    batches = []
    cur = 0
    pos_after = 0
    err_need = None
    for it in blocking_items:
        if it[0] == "err":
            # a run that ends in an error: the call that reports it needs the offending header delivered (conservatively: the 16 bytes
            # of look-ahead at its position); an end-of-input error needs everything.  Position: from the token, else where the
            # previous tag ended (HierarchyError carries none)
            f = it[1].split(":")
            if f[1] in ("cid", "cdata", "over", "size") and len(f) > 2 and f[2].isdigit():
                err_need = min(n, int(f[2]) + 16)        # header errors carry the element's position
            elif f[1] == "hier":
                err_need = min(n, pos_after + 16)        # HierarchyError carries none: the header after the previous tag
            else:
                err_need = n                             # end of input, payload errors (tagdata: the whole payload is needed), anything else
            break
        if it[0] != "item":
            break
        cur += 1
        tag, off = it[1], it[2]
        if tag[0] != "e":
            h = E.header_at(data, off)
            if h is None:
                return True
            pos_after = off + h[1] + h[3] + (0 if tag[0] == "s" else (h[2] or 0))
            batches.append((cur, pos_after, False))
            cur = 0
    if err_need is not None:
        batches.append((cur + 1, err_need, err_need >= n))
    else:
        batches.append((cur, n, True))
    # each call hands out one queued item; when the queue is empty the call first parses the next batch, which needs `need` bytes delivered
    call = 0
    for cnt, need, last in batches:
        dk = delivered(call)
        if (last and dk < n) or need > dk:
            return True
        if cnt == 0:
            return False
        call += cnt
    return False


