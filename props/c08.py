"""C08 — buffered (Full) masters are exactly the flat stream rolled up."""
from lib.runner import Case
from props.common import *
from props import readcheck as RC

ID = "C08"
RULE = ("each case is a group of R runs over the same bytes and tolerance setting: one with no buffering and 2-3 with random sets of buffered "
        "masters (incl. nested and same-id/recursive masters); streams are valid (known/unknown-size mixes), mid-document, truncated, mutated "
        "or random.  Oracle: flat run clean => buffered run clean and its unrolled items equal the flat items (tags; offsets of top-level items "
        "too); flat run ends in an error => buffered run ends in an error and its unrolled items are a prefix of the flat items.  "
        "non-trivial = some buffered run emits a Full item; distinct = distinct group")
TRUSTED = TRUSTED_BASE
ASSUMPTIONS = ASSUME_BASE + ["EOF closing on (default); with it off an input ending inside a buffered master is known finding D18"]
EXHAUSTIVE = {"thorough": "all subsets of masters as buffered set for specifications with <= 5 masters on 150 streams"}


def generate(rng, tier):
    cases = []
    thorough = tier == "thorough"
    specs = specs_pool(rng, 40 if thorough else 10)
    for k in range(5000 * TH if thorough else 700):
        sp, data, kind, _ = gen_stream(rng, specs, big=False, p_valid=0.5, p_mut=0.35, mid=0.15)
        if rng.random() < 0.15 and len(data) > 2:
            data = data[:rng.randrange(1, len(data))]
            kind = "truncated"
        allow = rng.choice([0, 0, 0, 2, 3, 7])
        eof = 1 if rng.random() < 0.93 else 0
        mx = safe_max(rng, kind)
        lines = ["R %s %s - %s N" % (sp.s(), E.cfg_str(allow=allow, maxs=mx, eof=eof), data.hex() or "-")]
        sets = []
        ms = sp.masters()
        if thorough and len(ms) <= 5 and k < 150:
            for mask in range(1, 1 << len(ms)):
                sets.append([ms[i] for i in range(len(ms)) if mask >> i & 1])
        else:
            for _ in range(rng.choice([2, 3])):
                b = rand_buffered(rng, sp, 1.0)
                if b:
                    sets.append(b)
        for b in sets:
            lines.append("R %s %s - %s N" % (sp.s(), E.cfg_str(allow=allow, maxs=mx, buffered=b, eof=eof), data.hex() or "-"))
        if len(lines) > 1:
            cases.append(Case(lines, kind, {"eof": eof}))
    # same-id nesting below a buffered master: two global masters Rec and Grp (declared Root/(0-)) nested in each other in random
    # shapes, every master of known size, every non-empty subset of {Root, Rec, Grp} buffered (the roll-up has to pair each End with
    # the Start of the same depth, not with the next End of any master)
    REC, GRP, VAL = 0x4301, 0x4304, 0x4305
    rsp = E.base_spec(extra=[(REC, "M", [E.ROOT, (0, None)]), (GRP, "M", [E.ROOT, (0, None)]), (VAL, "U", [E.ROOT, (1, None)])])

    def shape(depth):
        kids = []
        for _ in range(rng.randint(1, 3) if depth < 4 else 0):
            r = rng.random()
            if r < 0.45 and depth < 4:
                kids.append(E.Node(("m", rng.choice([REC, REC, GRP])), rng.choice([None, None, 2]), shape(depth + 1)))
            elif depth >= 1:
                kids.append(E.Node(("u", VAL, rng.randint(0, 300))))
        return kids
    for k in range(120 * TH if thorough else 30):
        nodes = [E.Node(("m", E.ROOT), None, [E.Node(("m", REC), None, [E.Node(("m", REC), None, shape(2) + [E.Node(("m", GRP), None, shape(3))] + shape(3))] + shape(2))] + shape(1))]
        data = E.encode(nodes)
        lines = ["R %s %s - %s N" % (rsp.s(), E.cfg_str(), data.hex())]
        for mask in range(1, 8):
            b = [m for i, m in enumerate((E.ROOT, REC, GRP)) if mask >> i & 1]
            lines.append("R %s %s - %s N" % (rsp.s(), E.cfg_str(buffered=b), data.hex()))
        cases.append(Case(lines, "samenest", {"eof": 1}))
    return cases


def nontrivial(case, model_out):
    return any(" m" in (" " + o) and "(" in o for o in model_out[1:])


def top_outside(items):
    """(tag, offset) of non-Full top-level items"""
    return [(it[1], it[2]) for it in items if it[0] == "item" and it[1][0] != "m"]


def judge(line_flat, out_flat, line_b, out_b):
    fi = E.parse_items(out_flat.split(" ")) if out_flat else []
    bi = E.parse_items(out_b.split(" ")) if out_b else []
    fterm = next((x for x in fi if x[0] != "item"), None)
    bterm = next((x for x in bi if x[0] != "item"), None)
    ftags = RC.unroll(fi)
    btags = RC.unroll(bi)
    if fterm == ("none",):
        if bterm != ("none",):
            return "unbuffered parse ends cleanly, buffered parse does not: %s -> %s" % (line_b[:400], out_b[:400])
        if not tags_equal(ftags, btags):
            return "unrolled buffered items differ from the unbuffered items: %s -> %s  vs unbuffered %s" % (line_b[:300], out_b[:400], out_flat[:400])
    else:
        if bterm is None or bterm[0] not in ("err",):
            return "unbuffered parse ends in an error, buffered parse does not: %s -> %s" % (line_b[:400], out_b[:400])
        if not tags_equal(btags, ftags[:len(btags)]):
            return "unrolled buffered items are not a prefix of the unbuffered items: %s -> %s  vs unbuffered %s" % (line_b[:300], out_b[:400], out_flat[:400])
    # elements outside buffered masters: identical incl. offsets, in order (subsequence of the flat items)
    fo = [(it[1], it[2]) for it in fi if it[0] == "item"]
    j = 0
    for (t, o) in top_outside(bi):
        while j < len(fo) and not (tags_equal([fo[j][0]], [t]) and fo[j][1] == o):
            j += 1
        if j == len(fo):
            return "item %s@%s outside buffered masters has no counterpart (same tag and offset) in the unbuffered parse: %s -> %s vs %s" % (E.tag_str(t)[:50], o, line_b[:300], out_b[:300], out_flat[:300])
        j += 1
    return None


def oracle(case, outs):
    if bad_token(outs):
        return "%s: %s" % (case.lines[0][:300], bad_token(outs))
    for k in range(1, len(outs)):
        e = judge(case.lines[0], outs[0], case.lines[k], outs[k])
        if e:
            return e
    return None


def known_class(case, outs):
    if ",e0," in case.lines[0].split(" ")[2]:
        for o in outs[1:]:
            if "E:eof:" in o:
                return "eof_in_buffered_e0"
    return None
