"""C19 — a rejected write leaves no trace in the output."""
from lib.runner import Case
from props.common import *

ID = "C19"
RULE = ("each case is a pair of writer runs: a valid call sequence (random document, random presentation, possibly leaving masters open for "
        "the final into_inner) and the same sequence with one failing call inserted at a random position — kinds: tag not allowed here, size "
        "not representable in the requested width (element, master End, and flush() closing such a master), unknown size on a non-master, malformed raw id, End of a master "
        "that is not the innermost open one (or none open), Full with an invalid child (first / middle / last, nested); the oracle compares the "
        "final bytes and every other call's result and byte count.  non-trivial = the inserted call failed with a non-I/O error; distinct = distinct pair")
TRUSTED = TRUSTED_BASE
ASSUMPTIONS = ASSUME_BASE
EXHAUSTIVE = {"thorough": "for 60 base sequences: every insertion position x every failing-call kind"}

KINDS = ["notallowed", "width_elem", "width_end", "width_flush", "unknown_nonmaster", "rawid", "close_wrong", "close_none", "full_badchild", "full_badsize", "full_closes_outer"]
BAD_RAW_IDS = [0x1, 0x7F, 0x100, 0x3FFF + 0x1, 0x200000 >> 1, 0x4000000000000000, 0xFFFFFFFFFFFFFFFF]


def chain_at(ops, pos):
    chain = []
    for (o, t) in ops[:pos]:
        if t[0] == "s":
            chain.append((t[1], o))
        elif t[0] == "e" and chain:
            chain.pop()
    return chain


def failing_op(rng, sp, kind, chain):
    ids = [c for c, _ in chain]
    allowed = E.allowed_children(sp, ids)
    not_allowed = [i for i in sp.ty if i not in allowed]
    if kind == "notallowed":
        if not not_allowed:
            return None
        tid = rng.choice(not_allowed)
        ty = sp.get_type(tid)
        tag = ("s", tid) if ty == "M" else E.rand_value_tag(rng, tid, ty, big=False)
        if ty == "M" and rng.random() < 0.4:
            return (rng.choice(["d", "u"]), ("m", tid, []))
        return (rng.choice(["d", "2", "u"]) if ty == "M" else rng.choice(["d", "3"]), tag)
    if kind == "width_elem":
        c = [i for i in allowed if sp.get_type(i) in "SB"]
        if not c:
            return None
        tid = rng.choice(c)
        n = rng.choice([127, 128, 200, 300])
        pl = b"a" * n
        return ("1", ("t" if sp.get_type(tid) == "S" else "b", tid, pl))
    if kind == "unknown_nonmaster":
        c = [i for i in allowed if sp.get_type(i) != "M"]
        if not c:
            return None
        tid = rng.choice(c)
        return ("u", E.rand_value_tag(rng, tid, sp.get_type(tid), big=False))
    if kind == "rawid":
        return (rng.choice(["d", "2"]), ("r", rng.choice(BAD_RAW_IDS), b"\x01\x02"))
    if kind == "close_wrong":
        ms = [m for m in sp.masters() if not ids or m != ids[-1]]
        if not ms or not ids:
            return None
        return ("d", ("e", rng.choice(ms)))
    if kind == "close_none":
        if ids:
            return None
        return (rng.choice(["d", "u"]), ("e", rng.choice(sp.masters())))
    if kind == "full_closes_outer":
        # a Full whose children are Ends: of itself, then of masters opened by earlier calls, then one End too many
        c = [i for i in allowed if sp.get_type(i) == "M"]
        if not c:
            return None
        tid = rng.choice(c)
        kids = [("e", tid)] + [("e", i) for i in reversed(ids[-rng.randint(0, len(ids)):] if ids else [])]
        if rng.random() < 0.7:
            kids.append(("e", rng.choice(sp.masters())))
        return (rng.choice(["d", "u", "2"]), ("m", tid, kids))
    if kind in ("full_badchild", "full_badsize"):
        c = [i for i in allowed if sp.get_type(i) == "M"]
        if not c:
            return None
        tid = rng.choice(c)
        kids = E.rand_forest(rng, sp, ids + [tid], depth=3, budget=[6], unknown_ok=False, widths=False, big=False)
        kids = E.nodes_to_full(kids)
        if kind == "full_badsize":
            fill = [i for i in E.allowed_children(sp, ids + [tid]) if sp.get_type(i) == "B"]
            if not fill:
                return None
            kids.insert(rng.randint(0, len(kids)), ("b", fill[0], b"z" * rng.choice([126, 130, 300])))
            return ("1", ("m", tid, kids))
        bad_ids = [i for i in sp.ty if i not in E.allowed_children(sp, ids + [tid])]
        if not bad_ids:
            return None
        bid = rng.choice(bad_ids)
        bty = sp.get_type(bid)
        bad = ("m", bid, []) if bty == "M" else E.rand_value_tag(rng, bid, bty, big=False)
        # sometimes bury the bad child one level down
        if rng.random() < 0.3:
            inner = [i for i in E.allowed_children(sp, ids + [tid]) if sp.get_type(i) == "M"]
            if inner:
                m2 = rng.choice(inner)
                bad2_ids = [i for i in sp.ty if i not in E.allowed_children(sp, ids + [tid, m2])]
                if bad2_ids:
                    b2 = rng.choice(bad2_ids)
                    t2 = sp.get_type(b2)
                    bad = ("m", m2, [("m", b2, []) if t2 == "M" else E.rand_value_tag(rng, b2, t2, big=False)])
        kids.insert(rng.randint(0, len(kids)), bad)
        return (rng.choice(["d", "d", "u", "2"]), ("m", tid, kids))
    return None


def make_base(rng, sp, big=False):
    nodes = fix_widths(E.rand_doc(rng, sp, big=big))
    ops, _ = present(rng, nodes, p_full=0.3)
    # sometimes leave masters open: drop trailing Ends
    if rng.random() < 0.3:
        while ops and ops[-1][1][0] == "e" and rng.random() < 0.7:
            ops.pop()
    return ops


def width_end_case(rng, sp):
    """a master started with width 1 whose content exceeds 126 bytes: its End fails"""
    for _ in range(20):
        chain = []
        ops = []
        ids = []
        while True:
            cands = [i for i in E.allowed_children(sp, ids) if sp.get_type(i) == "M"]
            if not cands or len(ids) >= 3:
                break
            m = rng.choice(cands)
            ops.append(("d", ("s", m)))
            ids.append(m)
            if rng.random() < 0.5:
                break
        if not ids:
            continue
        cands = [i for i in E.allowed_children(sp, ids) if sp.get_type(i) == "M"]
        if not cands:
            continue
        m = rng.choice(cands)
        fill = [i for i in E.allowed_children(sp, ids + [m]) if sp.get_type(i) == "B"]
        if not fill:
            continue
        ops.append(("1", ("s", m)))
        ops.append(("d", ("b", fill[0], b"q" * rng.choice([120, 127, 200]))))
        pos = len(ops)
        fail = ("d", ("e", m))
        ops2 = ops[:]  # without: the master simply stays open
        return ops2, pos, fail
    return None


def width_flush_case(rng, sp):
    """flush() while a master started with width 1 holds more than 126 bytes: closing it fails with the size error, after the masters
    nested inside of it have been closed successfully; the calls that follow (Ends of those inner masters, more children) show whether
    the failed flush left a trace"""
    for _ in range(20):
        ops = []
        ids = []
        for depth in range(rng.randint(0, 2)):
            cands = [i for i in E.allowed_children(sp, ids) if sp.get_type(i) == "M"]
            if not cands:
                break
            m = rng.choice(cands)
            ops.append((rng.choice(["d", "u"]), ("s", m)))
            ids.append(m)
        cands = [i for i in E.allowed_children(sp, ids) if sp.get_type(i) == "M"]
        if not cands:
            continue
        tight = rng.choice(cands)
        ops.append(("1", ("s", tight)))
        ids.append(tight)
        inner = []
        for depth in range(rng.randint(0, 2)):
            cands = [i for i in E.allowed_children(sp, ids) if sp.get_type(i) == "M"]
            if not cands:
                break
            m = rng.choice(cands)
            ops.append((rng.choice(["d", "d", "u", "2"]), ("s", m)))
            ids.append(m)
            inner.append(m)
        fill = [i for i in E.allowed_children(sp, ids) if sp.get_type(i) == "B"]
        if not fill:
            continue
        ops.append(("d", ("b", fill[0], b"q" * rng.choice([127, 130, 200]))))
        pos = len(ops)
        # afterwards: close the inner masters (these calls are fine if the flush left no trace), possibly one more child
        if rng.random() < 0.5:
            ops.append(("d", ("b", fill[0], b"r" * rng.randint(0, 3))))
        for m in reversed(inner):
            ops.append(("d", ("e", m)))
        return ops, pos, ("F", None)
    return None


def generate(rng, tier):
    cases = []
    thorough = tier == "thorough"
    specs = specs_pool(rng, 30 if thorough else 8)

    def emit(sp, ops, pos, fail, kind):
        with_ = ops[:pos] + [fail] + ops[pos:]
        cases.append(Case(["W %s %s" % (sp.s(), ops_line(ops)), "W %s %s" % (sp.s(), ops_line(with_))], kind, {"pos": pos, "kind": kind}))

    for k in range(2500 * TH if thorough else 450):
        sp = rng.choice(specs)
        kind = rng.choice(KINDS)
        if kind in ("width_end", "width_flush"):
            r = (width_end_case if kind == "width_end" else width_flush_case)(rng, sp)
            if r:
                emit(sp, r[0], r[1], r[2], kind)
            continue
        ops = make_base(rng, sp, big=(k % 9 == 0))
        for _ in range(4):
            pos = rng.randint(0, len(ops))
            fail = failing_op(rng, sp, kind, chain_at(ops, pos))
            if fail:
                emit(sp, ops, pos, fail, kind)
                break
    if thorough:
        for _ in range(60):
            sp = rng.choice(specs[:6])
            ops = make_base(rng, sp)[:14]
            for pos in range(len(ops) + 1):
                for kind in KINDS:
                    if kind in ("width_end", "width_flush"):
                        continue
                    fail = failing_op(rng, sp, kind, chain_at(ops, pos))
                    if fail:
                        emit(sp, ops, pos, fail, kind)
    return cases


def pos_of(case):
    if "pos" in case.meta:
        return case.meta["pos"]
    a = case.lines[0].split(" ")[2].split(",")
    b = case.lines[1].split(" ")[2].split(",")
    k = 0
    while k < len(a) and a[k] == b[k]:
        k += 1
    return k


def nontrivial(case, model_out):
    t, _ = w_split(model_out[1])
    p = pos_of(case)
    return t is not None and len(t) > p and t[p].startswith("E:") and not t[p].startswith("E:io")


def oracle(case, outs):
    if bad_token(outs):
        return "%s: %s" % (case.lines[1][:400], bad_token(outs))
    (t0, d0), (t1, d1) = w_split(outs[0]), w_split(outs[1])
    if t0 is None or t1 is None:
        return "malformed: %s" % outs
    p = pos_of(case)
    if len(t1) != len(t0) + 1:
        return "result count: %s vs %s" % (outs[0][:300], outs[1][:300])
    res = t1[p]
    if not res.startswith("E:") or res.startswith("E:io"):
        return None   # the inserted call did not fail: not a case of this property
    rest = t1[:p] + t1[p + 1:]
    if d0 != d1:
        return "a rejected call (%s, %s) changed the output: without %s | with %s   [%s]" % (case.meta.get("kind", "corpus"), res, d0.hex()[:200], d1.hex()[:200], case.lines[1][:500])
    if rest != t0:
        return "a rejected call (%s, %s) changed later behaviour: without %s | with %s   [%s]" % (case.meta.get("kind", "corpus"), res, " ".join(t0), " ".join(t1), case.lines[1][:500])
    # the failing call itself must not have delivered anything
    before = t1[p - 1].rsplit("@", 1)[1] if p > 0 else "0"
    if res.rsplit("@", 1)[1] != before:
        return "a rejected call delivered bytes: %s   [%s]" % (" ".join(t1), case.lines[1][:500])
    return None
