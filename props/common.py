"""Shared texts and helpers for the per-property modules."""
import os
TH = int(os.environ.get('VERIF_THOROUGH_SCALE', '20'))   # multiplier of the thorough tier's main case counts
import sys, os
sys.path.insert(0, os.path.dirname(os.path.dirname(os.path.abspath(__file__))))
from gen import ebml as E

TRUSTED_BASE = [
    "Coq 8.16.1 kernel (coqc), vm_compute; no native_compute",
    "hand-written Gallina model (coq/theories/Model/{Base,Tools,Spec,Writer,Reader,Pure,Derive}.v; Model/Encode.v and the definitions in Proofs/ are specification-level only) of /repo's Rust sources, tied to /repo only by this correspondence run (differential testing)",
    "extraction (ExtrOcamlBasic only, no Extract Constant) + ocaml/{conv,syntax,cmds,tools_cmd,driver}.ml parsers/printers (zarith for decimal conversion)",
    "Rust harness harness/src/*.rs (DynSpec runtime-table specification, scripted Read/Write/AsyncRead, catch_unwind), built twice: overflow checks on / plain release",
    "Python generators and reference EBML semantics gen/ebml.py, per-property oracle (written from the property text)",
    "Rust std (Vec, VecDeque, HashSet, String::from_utf8, f32 as f64, write_all, Cursor), futures, rustc/LLVM: not modelled",
]
ASSUME_BASE = [
    "usize is 64 bits",
    "theorems quantify over the model's unbounded N/Z/lists; the tie to the Rust code is differential testing on the generated cases",
]


def toks(line):
    return line.split(" ") if line else []


def w_split(res):
    """W result -> (op tokens, dest bytes)"""
    i = res.rfind("| ")
    if i < 0:
        return None, None
    t = [x for x in res[:i].split(" ") if x]
    h = res[i + 2:]
    return t, (b"" if h == "-" else bytes.fromhex(h))


def ops_str(tags, opts=None, final="x"):
    out = []
    for k, t in enumerate(tags):
        o = (opts or {}).get(k, "d")
        out.append("w%s:%s" % (o, E.tag_str(t)))
    if final:
        out.append(final)
    return ",".join(out) if out else "-"


def bad_token(outs):
    for o in outs:
        for t in ("PANIC", "LIMIT", "FUEL", "CRASH", "HANG", "BADCASE", "BADCMD", "BADITEM"):
            if t in o:
                return t
    return None


def strip_enc(nodes):
    out = []
    for n in nodes:
        if n.is_master():
            out.append(E.Node(n.tag, None, strip_enc(n.children)))
        else:
            out.append(E.Node(n.tag, None, None, None))
    return out


def present(rng, nodes, p_full=0.4):
    """choose a presentation for the writer: returns (ops, nodes') where ops = list of (opt, tag) and nodes' is the
    document actually described (children of a Full are written with default options, so their encodings are reset)"""
    ops, out = [], []
    for n in nodes:
        opt = "d" if n.enc is None else ("u" if n.enc == "u" else str(n.enc))
        if n.is_master():
            if rng.random() < p_full:
                kids = strip_enc(n.children)
                ops.append((opt, ("m", n.tag[1], E.nodes_to_full(kids))))
                out.append(E.Node(n.tag, n.enc, kids))
            else:
                ops.append((opt, ("s", n.tag[1])))
                sub_ops, kids = present(rng, n.children, p_full)
                ops += sub_ops
                ops.append(("d", ("e", n.tag[1])))
                out.append(E.Node(n.tag, n.enc, kids))
        else:
            ops.append((opt, n.tag))
            out.append(n)
    return ops, out


def ops_line(ops, final="x"):
    s = ["f" if o == "F" else "w%s:%s" % (o, E.tag_str(t)) for (o, t) in ops]     # ("F", None) = a flush() call
    if final:
        s.append(final)
    return ",".join(s) if s else "-"


def fix_widths(nodes):
    """make every explicit width satisfiable (reset to default where the size does not fit)"""
    for n in nodes:
        if n.is_master():
            fix_widths(n.children)
        if isinstance(n.enc, int):
            try:
                E.encode([n])
            except AssertionError:
                n.enc = None
    return nodes


def spec_of_line(line, field=1):
    f = line.split(" ")[field]
    ents = []
    if f == "-":
        return E.Spec([])
    for e in f.split(";"):
        i, t, p = e.split(":")
        parts = []
        for x in (p.split("/") if p else []):
            if x.startswith("("):
                a, b = x[1:-1].split("-")
                parts.append((int(a) if a else None, int(b) if b else None))
            else:
                parts.append(int(x, 16))
        ents.append((int(i, 16), t, parts))
    return E.Spec(ents)


def item_tags(tokens):
    """R tokens -> (list of tags, terminal token or None)"""
    its = E.parse_items(tokens)
    tags = [x[1] for x in its if x[0] == "item"]
    term = None
    for x in its:
        if x[0] != "item":
            term = x
            break
    return tags, term


def tags_equal(a, b):
    """tag equality with all NaNs identified"""
    if len(a) != len(b):
        return False
    for x, y in zip(a, b):
        if x[0] == "f" and y[0] == "f" and x[1] == y[1] and E.is_nan_bits(x[2]) and E.is_nan_bits(y[2]):
            continue
        if x[0] == "m" and y[0] == "m" and x[1] == y[1]:
            if not tags_equal(x[2], y[2]):
                return False
            continue
        if x != y:
            return False
    return True


def specs_pool(rng, n_random):
    return [E.base_spec(), E.rec_spec()] + [E.random_spec(rng) for _ in range(n_random)]


def gen_stream(rng, specs, big=False, p_valid=0.45, p_mut=0.4, mid=0.1, p_over=0.12):
    """-> (spec, bytes, kind, nodes|None): reference encoding of a random conformant document ('valid', nodes given),
    a mutation of one ('mutated'), a mid-document fragment ('mid': starts at a non-root element), or random bytes made of
    spec ids / sizes / junk ('random')"""
    sp = rng.choice(specs)
    r = rng.random()
    nodes = E.rand_doc(rng, sp, big=big, unknown_p=0.3)
    try:
        data = E.encode(nodes)
    except AssertionError:
        nodes = strip_enc(nodes)
        data = E.encode(nodes)
    if r < p_valid:
        if rng.random() < p_over:
            r2 = make_overrun(rng, sp, nodes)
            if r2:
                return sp, r2[0], "overrun", None
        if rng.random() < mid:
            # a fragment: the content of the first master (starts at a non-root element)
            for n in nodes:
                if n.is_master() and n.children:
                    return sp, E.encode(n.children), "mid", None
        return sp, data, "valid", nodes
    if r < p_valid + p_mut:
        m = data
        for _ in range(rng.choice([1, 1, 1, 2, 3])):
            m = E.mutate(rng, m)
        return sp, m, "mutated", None
    # random: a soup of ids from the spec, size bytes and junk
    out = bytearray()
    ids = list(sp.ty.keys())
    for _ in range(rng.randint(1, 12)):
        k = rng.random()
        if k < 0.6:
            out += E.id_bytes(rng.choice(ids))
            out += rng.choice([b"\x80", b"\x81", b"\x82", b"\x88", b"\x89", b"\xff", b"\x40\x02", b"\x01\xff\xff\xff\xff\xff\xff\xff", b"\x10\x00\x00\x03", bytes([0x80 | rng.randrange(0, 12)])])
            out += bytes(rng.getrandbits(8) for _ in range(rng.randint(0, 9)))
        elif k < 0.8:
            out += bytes(rng.getrandbits(8) for _ in range(rng.randint(1, 5)))
        else:
            out += bytes([rng.choice([0, 0, 0xFF, 0x80, 0x01, 0x40])]) * rng.randint(1, 3)
    return sp, bytes(out), "random", None


def rand_buffered(rng, sp, p=0.5):
    ms = sp.masters()
    if not ms or rng.random() > p:
        return []
    return sorted(set(rng.choice(ms) for _ in range(rng.choice([1, 1, 2, 3]))))


def safe_max(rng, kind):
    """size limit for a run: the default (4e9) only for inputs whose declared sizes are real; mutated/random inputs can declare
    up to 4 GB within the default limit, which the iterator would really allocate — 16 such processes at once exhaust the sandbox"""
    if kind in ("valid", "mid", "longhdr", "overrun"):
        return rng.choice(["def", "def", "none", "100000"])
    return rng.choice(["100000", "70000", "1000000", "6"])


def make_overrun(rng, sp, nodes):
    """the last element (in byte order) declares g bytes more than it has room for and the bytes are present: it overruns every
    known-size ancestor, whatever lies between (in 60% of the cases its direct parent is made unknown-size, so the check has to look
    through it).  Returns (data, offset of the element, id, declared size) or None."""
    import copy
    nodes = copy.deepcopy(nodes)      # the caller's nodes must keep describing the caller's bytes (found by the C04 soak run)
    chain = []
    ns = nodes
    while ns and ns[-1].is_master():
        chain.append(ns[-1])
        ns = ns[-1].children
    data = E.encode(nodes)
    if len(chain) >= 2 and ns and rng.random() < 0.6 and not any(isinstance(x, tuple) for x in sp.get_path(chain[-1].tag[1])):
        old_enc = chain[-1].enc
        chain[-1].enc = "u"
        if isinstance(chain[-2].enc, tuple) or chain[-2].enc == "u":
            chain[-2].enc = None
        try:
            if E.unambiguous(sp, nodes):
                data = E.encode(nodes)
            else:
                chain[-1].enc = old_enc
        except AssertionError:
            chain[-1].enc = old_enc
            return None
    if not any(not (c.enc == "u" or isinstance(c.enc, tuple)) for c in chain):
        return None     # no known-size ancestor to overrun
    items = []
    E.encode(nodes, 0, items)
    last = [(t, o) for (t, o) in items if t[0] not in "se"]
    if not last:
        return None
    t, o = last[-1]
    h = E.header_at(data, o)
    if not (h and h[3] == 1 and h[2] is not None and o + h[1] + 1 + h[2] == len(data)):
        return None
    g = rng.choice([1, 2, 3])
    if h[2] + g >= 127 or (sp.get_type(t[1]) in "UIF" and h[2] + g > 8):
        return None
    b = bytearray(data)
    b[o + h[1]] = 0x80 | (h[2] + g)
    return bytes(b) + bytes(rng.getrandbits(8) for _ in range(g)), o, t[1], h[2] + g


def make_straddle(rng, sp):
    """A known-size master whose declared range ends INSIDE the header (id + size field) of an unknown-size descendant master: the header
    does not fit, so strict mode has to report the child as oversized although it declares no size.  Layout:
      [outer master of unknown size]? P(known size S) { leading elements; [U(unknown size) {]? C(unknown size, size field of 1..8 bytes) { content } ... }
    with S = (bytes before C's header inside P) + j, 0 <= j <= |header of C| (j = 0 and j = |header| are the fitting controls).
    Returns (data, offset of C's header, j, header length, id of C) or None when the specification has no suitable chain."""
    def leaves(chain, n, fill=(0, 4)):
        out = b""
        kids = [i for i in E.allowed_children(sp, chain) if sp.get_type(i) == "B"]
        for _ in range(n):
            if not kids:
                break
            pl = bytes(rng.getrandbits(8) for _ in range(rng.randint(*fill)))
            out += E.id_bytes(rng.choice(kids)) + E.size_vint(len(pl)) + pl
        return out
    for _ in range(40):
        chain = []
        pre_outer = b""
        if rng.random() < 0.4:
            cands = [i for i in E.allowed_children(sp, []) if sp.get_type(i) == "M" and not any(isinstance(x, tuple) for x in sp.get_path(i))]
            if not cands:
                continue
            o = rng.choice(cands)
            pre_outer = E.id_bytes(o) + E.unknown_vint(rng.choice([1, 1, 2, 8]))
            chain.append(o)
        cands = [i for i in E.allowed_children(sp, chain) if sp.get_type(i) == "M" and not any(isinstance(x, tuple) for x in sp.get_path(i))]
        if not cands:
            continue
        P = rng.choice(cands)
        chain.append(P)
        inside = leaves(chain, rng.randint(0, 2))
        if rng.random() < 0.35:
            cands = [i for i in E.allowed_children(sp, chain) if sp.get_type(i) == "M" and not any(isinstance(x, tuple) for x in sp.get_path(i))]
            if not cands:
                continue
            U = rng.choice(cands)
            chain.append(U)
            inside += E.id_bytes(U) + E.unknown_vint(rng.choice([1, 2]))
            inside += leaves(chain, rng.randint(0, 1))
        cands = [i for i in E.allowed_children(sp, chain) if sp.get_type(i) == "M" and not any(isinstance(x, tuple) for x in sp.get_path(i))]
        if not cands:
            continue
        C = rng.choice(cands)
        hdr = E.id_bytes(C) + E.unknown_vint(rng.choice([1, 1, 2, 4, 8]))
        j = rng.randint(0, len(hdr))
        if rng.random() < 0.7 and len(hdr) > 1:
            j = rng.randint(1, len(hdr) - 1)
        tail = leaves(chain + [C], rng.randint(0, 2))
        S = len(inside) + j
        phdr = E.id_bytes(P) + E.size_vint(S, rng.choice([None, None, 2, 8]))
        data = pre_outer + phdr + inside + hdr + tail
        return data, len(pre_outer) + len(phdr) + len(inside), j, len(hdr), C
    return None
