"""Shared texts and helpers for the per-property modules."""
import sys, os
sys.path.insert(0, os.path.dirname(os.path.dirname(os.path.abspath(__file__))))
from gen import ebml as E

TRUSTED_BASE = [
    "Coq 8.16.1 kernel (coqc), vm_compute; no native_compute",
    "hand-written Gallina model (coq/theories/Model/{Base,Tools,Spec,Writer,Reader}.v) of /repo's Rust sources, tied to /repo only by this correspondence run (differential testing)",
    "extraction (ExtrOcamlBasic only, no Extract Constant) + ocaml/{conv,syntax,cmds,tools_cmd,driver}.ml parsers/printers (zarith for decimal conversion)",
    "Rust harness harness/src/*.rs (DynSpec runtime-table specification, scripted Read/Write/AsyncRead, catch_unwind), built twice: overflow checks on / plain release",
    "Python generators and reference EBML semantics gen/ebml.py, per-property oracle (written from the property text)",
    "Rust std (Vec, VecDeque, HashSet, String::from_utf8, f32 as f64, write_all, Cursor), futures, rustc/LLVM: not modelled",
]
ASSUME_BASE = [
    "usize is 64 bits",
    "theorems quantify over the model's unbounded N/Z/lists; the tie to the Rust code is differential testing on the generated cases",
]


def toks(line):
    return line.split(" ") if line else []


def w_split(res):
    """W result -> (op tokens, dest bytes)"""
    i = res.rfind("| ")
    if i < 0:
        return None, None
    t = [x for x in res[:i].split(" ") if x]
    h = res[i + 2:]
    return t, (b"" if h == "-" else bytes.fromhex(h))


def ops_str(tags, opts=None, final="x"):
    out = []
    for k, t in enumerate(tags):
        o = (opts or {}).get(k, "d")
        out.append("w%s:%s" % (o, E.tag_str(t)))
    if final:
        out.append(final)
    return ",".join(out) if out else "-"


def bad_token(outs):
    for o in outs:
        for t in ("PANIC", "LIMIT", "FUEL", "CRASH", "BADCASE", "BADCMD", "BADITEM"):
            if t in o:
                return t
    return None
