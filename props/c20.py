"""C20 — async iterator yields what the blocking iterator yields, for every poll schedule."""
from lib.runner import Case
from props.common import *
from props import readcheck as RC

ID = "C20"
RULE = ("each case is a group: the blocking iterator over the whole input, and TagIteratorAsync (direct next() calls and the into_stream() "
        "adapter, driven by futures::executor::block_on over a scripted AsyncRead) under a poll schedule: everything in one read, exhaustive "
        "partitions of small inputs, random partitions, few-byte reads, inputs above 64 KiB (many small elements; one 20-150 KB element early in the document), random buffered sets; a third of the schedules contain polls that answer Poll::Pending (woken at once, polled again).  Oracle: identical items and "
        "offsets, ending once.  Schedules on which a call finds the inner iterator short of data before the source is exhausted ('starved', decided "
        "by props/readcheck.py starved from the schedule and the blocking parse alone) are the known finding D15: there only the property oracle is "
        "applied and a difference is reported as KNOWN-FINDING.  non-trivial = blocking run emits >= 3 items; distinct = distinct group")
TRUSTED = TRUSTED_BASE + ["futures::executor::block_on / AsyncReadExt::read / stream::unfold (the scripted source returns Pending only at the w steps of a schedule, after waking the task; the model drops those steps)"]
ASSUMPTIONS = ASSUME_BASE
EXHAUSTIVE = {"quick": "all read partitions of 2 inputs of <= 7 bytes", "thorough": "all read partitions of 8 inputs of <= 10 bytes"}


def generate(rng, tier):
    cases = []
    thorough = tier == "thorough"
    specs = specs_pool(rng, 30 if thorough else 8)
    for k in range(2500 * TH if thorough else 350):
        big = (k % 9 == 0)
        sp, data, kind, _ = gen_stream(rng, specs, big=big, p_valid=0.7, p_mut=0.2)
        if kind in ("mutated", "random") and len(data) > 60000:
            continue
        n = len(data)
        buf = rand_buffered(rng, sp, 0.3)
        mode = rng.choice(["one", "one", "rand", "few", "one"])
        if mode == "one":
            scr = []
        elif mode == "few":
            scr = [rng.choice([1, 2, 3]) for _ in range(rng.randint(1, 30))]
        else:
            scr = E.rand_script(rng, n)[:60]
        if kind in ("mutated", "random"):
            continue_ok = True
        hexd = data.hex() or "-"
        cfgb = E.cfg_str(buffered=buf)
        # a third of the schedules also contain reads that are not ready: the source answers Poll::Pending once (token w) and
        # is polled again; nothing is delivered by such a poll, so the items must be those of the schedule without the w steps
        ascr = list(scr)
        if k % 3 == 1:
            for _ in range(rng.randint(1, 4)):
                ascr.insert(rng.randint(0, len(ascr)), "w")
        lines = ["R %s %s - %s N" % (sp.s(), cfgb, hexd),
                 "A %s %s %s %s d" % (sp.s(), cfgb, E.script_str(ascr), hexd),
                 "A %s %s %s %s s" % (sp.s(), cfgb, E.script_str(ascr), hexd)]
        cases.append(Case(lines, kind + ":" + mode if False else kind, {"script": ascr, "buffered": bool(buf), "mode": mode, "pending": "w" in ascr}))
    # inputs well above 2 x 64 KiB delivered in 64 KiB reads (not starved: delivery runs ahead of parsing)
    sp = E.base_spec()
    for k in range(6 if thorough else 2):
        blocks = [E.Node(("b", E.CHILD, bytes([rng.getrandbits(8)]) * rng.choice([700, 1000, 1500]))) for _ in range(rng.choice([150, 300]))]
        nodes = [E.Node(("m", E.ROOT), rng.choice(["u", None]), [E.Node(("m", E.PARENT), rng.choice([None, "u"]), blocks), E.Node(("u", E.INT, 7))])]
        data = E.encode(nodes)
        for scr in ([], [65536, 65536, 65536], [70000], ["w", 65536, "w", "w", 65536]):
            lines = ["R %s %s - %s N" % (sp.s(), E.cfg_str(), data.hex()), "A %s %s %s %s d" % (sp.s(), E.cfg_str(), E.script_str(scr), data.hex()),
                     "A %s %s %s %s s" % (sp.s(), E.cfg_str(), E.script_str(scr), data.hex())]
            cases.append(Case(lines, "huge", {"script": scr, "buffered": False, "mode": "huge"}))
    # one big element early in a document larger than a fraction of the transfer buffer: with 64 KiB delivered per call the data stays
    # ahead of the parser (the big element is the third item, 192 KiB have been offered by then); a smaller transfer buffer would starve it
    for n in ((20000, 40000, 60000, 100000, 150000) if thorough else (20000, 60000, 100000)):
        nodes = [E.Node(("m", E.ROOT), rng.choice(["u", None]), [E.Node(("m", E.PARENT), None, [E.Node(("b", E.CHILD, bytes([n & 0xFF]) * n))] +
                 [E.Node(("b", E.CHILD, bytes([k]) * 50)) for k in range(20)]), E.Node(("u", E.INT, 7))])]
        data = E.encode(nodes)
        lines = ["R %s %s - %s N" % (sp.s(), E.cfg_str(), data.hex()), "A %s %s - %s d" % (sp.s(), E.cfg_str(), data.hex()),
                 "A %s %s - %s s" % (sp.s(), E.cfg_str(), data.hex())]
        cases.append(Case(lines, "bigearly", {"script": [], "buffered": False, "mode": "bigearly"}))
    smalls = [bytes.fromhex("8183410280"), bytes.fromhex("81ff41018105")]
    if thorough:
        tries = 0
        while len(smalls) < 8 and tries < 3000:
            tries += 1
            try:
                d = E.encode(E.rand_doc(rng, sp, big=False))
            except AssertionError:
                continue
            if 6 <= len(d) <= 10 and d not in smalls:
                smalls.append(d)
    for d in smalls:
        for comp in E.compositions(len(d)):
            lines = ["R %s %s - %s N" % (sp.s(), E.cfg_str(), d.hex()), "A %s %s %s %s d" % (sp.s(), E.cfg_str(), E.script_str(comp), d.hex())]
            cases.append(Case(lines, "exhaustive", {"script": comp, "buffered": False, "mode": "exh"}))
    return cases


def nontrivial(case, model_out):
    return model_out[0].count("@") >= 3


def strip_off(tokens):
    return [t.rsplit("@", 1)[0] + "@?" if ("@" in t and not t.startswith("E:")) else t for t in tokens]


def differs(case, outs):
    base = outs[0].split(" ")
    d = outs[1].split(" ")
    if d != base:
        return "async next() differs from the blocking iterator: %s -> %s   blocking -> %s" % (case.lines[1][:400], outs[1][:400], outs[0][:400])
    if len(outs) > 2:
        s = outs[2].split(" ")
        if s != strip_off(base):
            return "async stream adapter differs from the blocking iterator: %s -> %s   blocking -> %s" % (case.lines[2][:400], outs[2][:400], outs[0][:400])
    return None


def oracle(case, outs):
    if bad_token(outs):
        k = next(i for i, o in enumerate(outs) if bad_token([o]))
        return "%s: %s" % (case.lines[k][:400], bad_token(outs))
    return differs(case, outs)


def known_class(case, outs):
    f = case.lines[1].split(" ")
    data = b"" if f[4] == "-" else bytes.fromhex(f[4])
    script = [] if f[3] == "-" else [int(x) for x in f[3].split(",") if x.isdigit()]
    buffered = ",b-," not in f[2]
    # the blocking run is taken from the implementation's own output of line 0 (the property's reference)
    items = E.parse_items(outs[0].split(" ")) if outs[0] else []
    return "starved" if RC.starved(data, items, script, buffered) else None


def normalise(line, out):
    return out
