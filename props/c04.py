"""C04 — parse result is independent of read chunking, buffer capacity and EOF pauses."""
from lib.runner import Case
from props.common import *

ID = "C04"
RULE = ("each case is a group of R runs of the same bytes and configuration: the baseline reads the whole input from a slice-like source with the "
        "default capacity; variants use scripted sources (all-1-byte reads, geometric, 15/16/17, 65535/65536/65537, mixed) and capacities "
        "0,1,2,3,7,8,15,16,17,len-1,len,len+1; with EOF closing off, variants deliver the input up to chosen tag boundaries, report Ok(0), and "
        "continue.  Inputs: valid, mid-document, truncated, mutated, random; headers of 9-16 bytes; payloads around 65536.  Exhaustive part: "
        "every composition of small inputs into consecutive reads x every capacity 0..len+1.  Oracle: identical item/offset/error sequences.  "
        "non-trivial = baseline emits >= 3 items; distinct = distinct group")
TRUSTED = TRUSTED_BASE
ASSUMPTIONS = ASSUME_BASE + ["pauses (Ok(0) before more data) only at tag boundaries, as the property states; pauses inside a buffered master are known finding D18"]
EXHAUSTIVE = {"quick": "all 2^(n-1) read partitions x capacities 0..n+1 of 4 inputs of 6-8 bytes",
              "thorough": "all 2^(n-1) read partitions x capacities 0..n+1 of 12 inputs of 8-12 bytes"}


def long_header_doc(rng):
    """ids of 4-8 bytes with 8-byte size fields: the size field straddles the 8-byte id look-ahead"""
    ids = [E.valid_id(rng, nb) for nb in (8, 7, 5, 4, 8)]
    sp = E.Spec([(ids[0], "M", []), (ids[1], "M", [ids[0]]), (ids[2], "B", [ids[0], ids[1]]), (ids[3], "U", [ids[0], ids[1]]), (ids[4], "S", [ids[0]]),
                 (E.CRC, "B", [(1, None)]), (E.VOID, "B", [(None, None)])])
    nodes = [E.Node(("m", ids[0]), rng.choice([8, "u", 7]), [
        E.Node(("m", ids[1]), 8, [E.Node(("b", ids[2], E.rand_bytes(rng, rng.choice([0, 1, 9, 200]))), 8), E.Node(("u", ids[3], E.rand_uint(rng)), rng.choice([8, None]))]),
        E.Node(("t", ids[4], b"xyz"), 8)])]
    return sp, E.encode(nodes), nodes


def boundaries(nodes, data):
    items = []
    E.encode(nodes, 0, items)
    return sorted(set(o for (t, o) in items if t[0] != "e"))


def generate(rng, tier):
    cases = []
    thorough = tier == "thorough"
    specs = specs_pool(rng, 40 if thorough else 10)
    for k in range(3000 * TH if thorough else 450):
        if k % 10 == 3:
            sp, data, nodes = long_header_doc(rng)
            kind = "longhdr"
        else:
            sp, data, kind, nodes = gen_stream(rng, specs, big=(k % 8 == 0), p_valid=0.5, p_mut=0.35)
        if rng.random() < 0.2 and len(data) > 2:
            data = data[:rng.randrange(1, len(data))]
            kind, nodes = "truncated", None
        allow = rng.choice([0, 0, 0, 1, 2, 4, 7])
        buf = rand_buffered(rng, sp, 0.3)
        n = len(data)
        hexd = data.hex() or "-"
        eof = rng.choice([1, 1, 0])
        mx = safe_max(rng, kind)
        base = "R %s %s - %s N" % (sp.s(), E.cfg_str(allow, mx, buf, eof), hexd)
        lines = [base]
        for _ in range(3):
            cap = rng.choice(["def", "0", "1", "2", "3", "7", "8", "15", "16", "17", str(max(0, n - 1)), str(n), str(n + 1)])
            scr = E.script_str(E.rand_script(rng, n)) if rng.random() < 0.8 else "-"
            lines.append("R %s %s %s %s N" % (sp.s(), E.cfg_str(allow, mx, buf, eof, cap), scr, hexd))
        meta = {"pause": False}
        cases.append(Case(lines, kind, meta))
        # EOF pauses at tag boundaries (EOF closing off)
        if nodes is not None and k % 2 == 0 and len(data) < 60000:
            bs = [b for b in boundaries(nodes, data) if 0 < b < n]
            if bs:
                chosen = sorted(set(rng.choice(bs) for _ in range(rng.randint(1, 4))))
                scr, prev = [], 0
                for b in chosen:
                    scr += [str(b - prev), "p"]
                    prev = b
                pbuf = buf if rng.random() < 0.25 else []
                cap = "def"   # a script element is one read() call: it delivers its n bytes only if the buffer has room for them
                l0 = "R %s %s - %s N" % (sp.s(), E.cfg_str(allow, mx, pbuf, 0), hexd)
                l1 = "R %s %s %s %s %s" % (sp.s(), E.cfg_str(allow, mx, pbuf, 0, cap), ",".join(scr), hexd, "N" * (len(chosen) + 2))
                l2 = "R %s %s - %s N" % (sp.s(), E.cfg_str(allow, mx, pbuf, 1), hexd)
                cases.append(Case([l0, l1, l2], "pause", {"pause": True, "buffered": bool(pbuf)}))
                # the same pauses with the bytes arriving one per read: every capacity works (one byte always fits after growth), so
                # pauses x capacities are covered too; some of these pauses are met by the 16-byte header look-ahead of the tag before
                # the boundary rather than at the boundary (both change nothing)
                if n <= 4000 and not pbuf:
                    scr1, prev = [], 0
                    for b in chosen:
                        scr1 += ["1"] * (b - prev) + ["p"]
                        prev = b
                    scr1 += ["1"] * (n - prev)
                    cap1 = rng.choice(["def", "64", "17", "16", "3", "1", "0"])
                    l1b = "R %s %s %s %s %s" % (sp.s(), E.cfg_str(allow, mx, pbuf, 0, cap1), ",".join(scr1), hexd, "N" * (len(chosen) + 2))
                    cases.append(Case([l0, l1b, l2], "pause1", {"pause": True, "buffered": False}))
    # a dangling byte after a tag whose payload is long enough for the buffer to run dry exactly at the tag boundary (payload reads are
    # exact, header reads look 16 bytes ahead): whether that byte is seen must not depend on capacity or chunking
    bsp = E.base_spec()
    for k in range(400 * TH if thorough else 40):
        pl = E.rand_bytes(rng, rng.choice([16, 17, 30, 64, 200]))
        inner = E.Node(("m", E.PARENT), rng.choice([None, 8, "u"]), [E.Node(("b", E.CHILD, pl), rng.choice([None, 2, 8]))])
        nodes = [E.Node(("m", E.ROOT), rng.choice([None, 4, "u"]), [inner] if rng.random() < 0.7 else [inner, E.Node(("u", E.LEAFU if False else 0x4101, 7), None)])]
        try:
            d = E.encode(strip_enc(nodes) if rng.random() < 0.3 else nodes)
        except AssertionError:
            d = E.encode(strip_enc(nodes))
        d = d + bytes([rng.choice([0x81, 0x41, 0x01, 0xEC, 0xF7, rng.getrandbits(8)])]) * rng.choice([1, 1, 2])
        n = len(d)
        lines = ["R %s %s - %s N" % (bsp.s(), E.cfg_str(0, "def", (), 1), d.hex())]
        for _ in range(4):
            cap = rng.choice(["def", "0", "1", "16", "17", "32", str(n - 1), str(n - 2)])
            cut = rng.choice([n - 1, n - 2, n - 3])
            scr = rng.choice([E.script_str(E.rand_script(rng, n)), "%d,1,1,1" % cut, "%d,%d" % (cut, n - cut), "-"])
            lines.append("R %s %s %s %s N" % (bsp.s(), E.cfg_str(0, "def", (), 1, cap), scr, d.hex()))
        cases.append(Case(lines, "dangling", {"pause": False}))
    # exhaustive partitions x capacities of small inputs
    sp = E.base_spec()
    smalls = []
    target = 12 if thorough else 4
    tries = 0
    while len(smalls) < target and tries < 4000:
        tries += 1
        nodes = E.rand_doc(rng, sp, big=False)
        try:
            d = E.encode(nodes)
        except AssertionError:
            continue
        lo, hi = (8, 12) if thorough else (6, 8)
        if lo <= len(d) <= hi and d not in smalls:
            smalls.append(d)
    if not thorough:
        smalls.append(bytes.fromhex("8183410280"))       # ends with an empty element
    for d in smalls:
        n = len(d)
        lines = ["R %s %s - %s N" % (sp.s(), E.cfg_str(), d.hex())]
        for comp in E.compositions(n):
            for cap in range(0, n + 2):
                lines.append("R %s %s %s %s N" % (sp.s(), E.cfg_str(cap=str(cap)), E.script_str(comp), d.hex()))
        cases.append(Case(lines, "exhaustive", {"pause": False}))
    return cases


def nontrivial(case, model_out):
    return model_out[0].count("@") >= 3


def strip_none(toks_):
    """items up to and including the first error, without the None results"""
    out = []
    for t in toks_:
        if t == "N":
            continue
        out.append(t)
        if t.startswith("E:"):
            break
    return out


def oracle(case, outs):
    if bad_token(outs):
        k = next(i for i, o in enumerate(outs) if bad_token([o]))
        return "%s: %s" % (case.lines[k][:400], bad_token(outs))
    if not case.meta.get("pause"):
        for k in range(1, len(outs)):
            if outs[k] != outs[0]:
                return "result depends on chunking/capacity: %s -> %s   baseline -> %s" % (case.lines[k][:500], outs[k][:400], outs[0][:400])
        return None
    base = outs[0].split(" ")
    var = outs[1].split(" ")
    if strip_none(var) != strip_none(base):
        return "EOF pauses at tag boundaries changed the items: %s -> %s   baseline -> %s" % (case.lines[1][:500], outs[1][:400], outs[0][:400])
    # EOF closing off = EOF closing on minus the closing Ends
    on = outs[2].split(" ")
    if on and on[-1] == "N" and base and base[-1] == "N":
        a, b = on[:-1], base[:-1]
        if a[:len(b)] != b or any(not t.startswith("e") for t in a[len(b):]):
            return "disabling EOF closing changed more than the closing Ends: %s -> %s  vs  %s" % (case.lines[0][:400], outs[0][:300], outs[2][:300])
    return None


def known_class(case, outs):
    if case.meta.get("pause") and case.meta.get("buffered"):
        return "eof_in_buffered_e0"
    if case.cls.startswith("corpus") and len(case.lines) == 3 and ",b-," not in case.lines[1]:
        return "eof_in_buffered_e0"
    return None
