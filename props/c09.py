"""C09 — writer output does not depend on how the same document is presented."""
from lib.runner import Case
from props.common import *

ID = "C09"
RULE = ("each case is a group of writer runs of the same document: (full) every master as one Full item vs a random mix of Full and "
        "Start/children/End; (dep) deprecated write_unknown_size vs the option; (opt) per-tag explicit widths / unknown size vs all defaults; "
        "(chunk) the same calls against destinations with different partial-write / Interrupted scripts.  Documents: random conformant "
        "trees over fixed and random specifications with boundary payload lengths.  non-trivial = the document has >= 3 nodes; distinct = distinct group")
TRUSTED = TRUSTED_BASE
ASSUMPTIONS = ASSUME_BASE + ["std::io::Write::write_all behaves as documented (modelled as a definition, exercised here)"]
EXHAUSTIVE = {}


def generate(rng, tier):
    cases = []
    n = 2500 * TH if tier == "thorough" else 350
    specs = specs_pool(rng, 40 if tier == "thorough" else 8)
    for k in range(n):
        sp = rng.choice(specs)
        nodes = fix_widths(E.rand_doc(rng, sp, big=(k % 7 == 0)))
        if not nodes:
            continue
        sps = sp.s()
        kind = rng.choice(["full", "full", "dep", "opt", "opt", "chunk"])
        meta = {"kind": kind, "nodes": E.count_nodes(nodes)}
        if kind == "full":
            # top-level options are kept; everything below a Full is default in both presentations
            top = []
            for nd in nodes:
                top.append(E.Node(nd.tag, nd.enc, strip_enc(nd.children)) if nd.is_master() else nd)
            ops_a, _ = present(rng, top, p_full=1.0)
            ops_b, _ = present(rng, top, p_full=0.0)
            ops_c, _ = present(rng, top, p_full=0.5)
            cases.append(Case(["W %s %s" % (sps, ops_line(o)) for o in (ops_a, ops_b, ops_c)], "full", meta))
        elif kind == "dep":
            if nodes[0].is_master() and not any(isinstance(x, tuple) for x in sp.get_path(nodes[0].tag[1])):
                nodes[0].enc = "u"
            ops, _ = present(rng, nodes, p_full=0.3)
            l1 = ",".join(("w%s:%s" % (o, E.tag_str(t))) for o, t in ops) + ",x"
            l2 = ",".join(("U:%s" % E.tag_str(t)) if (o == "u") else ("w%s:%s" % (o, E.tag_str(t))) for o, t in ops) + ",x"
            cases.append(Case(["W %s %s" % (sps, l1), "W %s %s" % (sps, l2)], "dep", meta))
        elif kind == "opt":
            ops, nodes2 = present(rng, nodes, p_full=0.3)
            plain = [("d", t) for (o, t) in ops]
            meta["opts"] = [o for o, _ in ops]
            meta["tags"] = [E.tag_str(t) for _, t in ops]
            cases.append(Case(["W %s %s" % (sps, ops_line(ops)), "W %s %s" % (sps, ops_line(plain))], "opt", meta))
        else:
            ops, _ = present(rng, nodes, p_full=0.3)
            lines = ["W %s %s" % (sps, ops_line(ops))]
            for _ in range(3):
                scr = []
                for _ in range(rng.randint(1, 40)):
                    scr.append(rng.choice(["1", "1", "2", "3", "7", "i", "i", "64", "1000"]))
                lines.append("W %s %s %s" % (sps, ops_line(ops), ",".join(scr)))
            cases.append(Case(lines, "chunk", meta))
    return cases


def nontrivial(case, model_out):
    return case.meta["nodes"] >= 3


def walk(data, flat_tags, spec):
    """split data along the flat tag list into [(id bytes, size field, payload)], or None if it does not parse that way"""
    out = []
    off = 0
    for t in flat_tags:
        if t[0] == "e":
            continue
        h = E.header_at(data, off)
        if h is None or h[0] != t[1]:
            return None
        tid, idl, sz, sl = h
        idb = data[off:off + idl]
        szf = data[off + idl:off + idl + sl]
        off += idl + sl
        if t[0] == "s":
            out.append((idb, szf, None))
        else:
            if sz is None or off + sz > len(data):
                return None
            out.append((idb, szf, data[off:off + sz]))
            off += sz
    return out if off == len(data) else None


def oracle(case, outs):
    if bad_token(outs):
        return "%s: %s" % (case.lines[0][:300], bad_token(outs))
    parsed = [w_split(o) for o in outs]
    if any(p[0] is None for p in parsed):
        return "malformed output: %s" % outs
    kind = case.meta["kind"]
    for (t, d), line in zip(parsed, case.lines):
        if any(not x.startswith("OK@") for x in t):
            return "a call of a conformant document was rejected (%s): %s -> %s" % (kind, line[:400], " ".join(t))
    dests = [p[1] for p in parsed]
    if kind in ("full", "dep", "chunk"):
        for i in range(1, len(dests)):
            if dests[i] != dests[0]:
                return "%s: outputs differ: %s -> %s  vs  %s -> %s" % (kind, case.lines[0][:300], dests[0].hex(), case.lines[i][:300], dests[i].hex())
        if kind == "dep" and parsed[0][0] != parsed[1][0]:
            return "deprecated call results differ: %s vs %s" % (parsed[0][0], parsed[1][0])
        if kind == "chunk":
            # the same calls: not only the final bytes but what has been handed over after every call is independent of how the
            # destination splits the writes
            for i in range(1, len(parsed)):
                if parsed[i][0] != parsed[0][0]:
                    return "chunk: per-call results / byte counts differ between write scripts: %s -> %s  vs  %s -> %s" % (
                        case.lines[0][-200:], " ".join(parsed[0][0])[:300], case.lines[i][-200:], " ".join(parsed[i][0])[:300])
        return None
    # opt: ids and payloads unchanged and in the same order; explicit widths honoured exactly
    spec = spec_of_line(case.lines[0])
    tags = [E.parse_tag(s) for s in case.meta["tags"]]
    fl = E.flat(tags)
    a = walk(dests[0], fl, spec)
    b = walk(dests[1], fl, spec)
    if a is None or b is None:
        return "opt: output does not have the structure of the written tags: %s -> %s | %s" % (case.lines[0][:300], dests[0].hex(), dests[1].hex())
    if [(x[0], x[2]) for x in a] != [(x[0], x[2]) for x in b]:
        return "opt: ids/payloads differ between option run and default run: %s" % case.lines[0][:300]
    # widths: map each top-level op to its entry in the flat non-End sequence
    idx = 0
    for o, t in zip(case.meta["opts"], tags):
        n_entries = len([x for x in E.flat([t]) if x[0] != "e"])
        if t[0] != "e":
            szf = a[idx][1]
            if o == "u":
                if szf != E.UNKNOWN8:
                    return "opt: unknown-size option not honoured for %s: size field %s (%s)" % (E.tag_str(t)[:40], szf.hex(), case.lines[0][:300])
            elif o != "d":
                if len(szf) != int(o):
                    return "opt: explicit width %s not honoured for %s: size field %s (%s)" % (o, E.tag_str(t)[:40], szf.hex(), case.lines[0][:300])
        idx += n_entries
    return None
