"""C06 — strict mode emits only well-nested, hierarchy-valid, size-contained sequences."""
from lib.runner import Case
from props.common import *
from props import readcheck as RC

ID = "C06"
RULE = ("R cases in strict mode (nothing tolerated, nothing buffered) over valid / mid-document / mutated / random streams mixing known- and "
        "unknown-size masters at several depths (plus the straddle family: a known-size master ending inside the header of an unknown-size descendant master); an independent checker (props/readcheck.py check_strict, written from the property text) "
        "replays the emitted items against the input: End/Start matching incl. implied ancestors, known ids, declared-path matching of the "
        "chain of open masters, containment in every enclosing known-size master, End exactly at exhaustion, EOF closing innermost first.  "
        "History cases (hist-flat / hist-buf): mutated streams and valid documents with a junk byte inserted, read by random next()/try_recover()/drain "
        "sequences, half of them with masters of the document buffered; check_nesting_history judges the nesting clause over everything the run emits, "
        "across errors and recoveries (Full items unrolled): an End closes the most recent unmatched Start, or an implied ancestor when none is open.  "
        "With buffered masters an error met inside a buffered master is known finding D29 (class error_in_buffered_master).  "
        "non-trivial = model emits >= 3 items; distinct = distinct case line")
TRUSTED = TRUSTED_BASE
ASSUMPTIONS = ASSUME_BASE
EXHAUSTIVE = {}


def generate(rng, tier):
    cases = []
    thorough = tier == "thorough"
    specs = specs_pool(rng, 40 if thorough else 10)
    for k in range(10000 * TH if thorough else 1500):
        sp, data, kind, _ = gen_stream(rng, specs, big=(k % 13 == 0), p_valid=0.4, p_mut=0.45, mid=0.3, p_over=0.3)
        cfg = E.cfg_str(maxs=safe_max(rng, kind), cap=rng.choice(["def", "def", "3", "16"]), eof=1)
        cases.append(Case("R %s %s - %s N" % (sp.s(), cfg, data.hex() or "-"), kind))
    # a known-size master whose range ends inside the HEADER of an unknown-size descendant master (the header has to fit although
    # no size is declared): a deterministic family, the random mutations hardly ever cut a range at such a place
    for k in range(400 * TH if thorough else 80):
        sp = rng.choice(specs)
        r = make_straddle(rng, sp)
        if r is None:
            continue
        cfg = E.cfg_str(maxs=safe_max(rng, "mutated"), cap=rng.choice(["def", "def", "3", "16"]), eof=1)
        cases.append(Case("R %s %s - %s N" % (sp.s(), cfg, r[0].hex()), "straddle"))
    # the nesting clause over WHOLE histories: errors, try_recover() and further calls, with and without buffered masters
    for k in range(6000 * TH if thorough else 900):
        sp, data, kind, _ = gen_stream(rng, specs, big=False, p_valid=0.15, p_mut=0.7, mid=0.2, p_over=0.3)
        masters = sp.masters()
        buffered = tuple(sorted(rng.sample(masters, rng.randint(1, min(3, len(masters)))))) if masters and rng.random() < 0.5 else ()
        cfg = E.cfg_str(maxs=safe_max(rng, "mutated"), cap=rng.choice(["def", "def", "3", "16"]), eof=1, buffered=buffered)
        ops = "".join(rng.choice("nnnttN") for _ in range(rng.randint(2, 10))) + "N"
        if k % 2 == 0:
            # a valid document with a junk byte inserted somewhere, masters that occur in it (below the root) buffered, drain / recover / drain
            sp = rng.choice(specs)
            nodes = strip_enc(E.rand_doc(rng, sp, big=False, unknown_p=0.3))
            data = bytearray(E.encode(nodes))
            def below(ns, depth, acc):
                for n in ns:
                    if n.is_master():
                        if depth > 0:
                            acc.add(n.tag[1])
                        below(n.children, depth + 1, acc)
                return acc
            inner = sorted(below(nodes, 0, set()))
            if data and inner:
                data.insert(rng.randrange(len(data) + 1), rng.choice([0xF7, 0x00, 0xFF, rng.getrandbits(8)]))
                buffered = tuple(sorted(rng.sample(inner, rng.randint(1, min(2, len(inner))))))
                cfg = E.cfg_str(maxs=safe_max(rng, "mutated"), cap=rng.choice(["def", "16"]), eof=1, buffered=buffered)
                ops = rng.choice(["NtN", "NtNtN", "nnNtN", "NtntN"])
                data = bytes(data)
        cases.append(Case("R %s %s - %s %s" % (sp.s(), cfg, data.hex() or "-", ops), "hist-" + ("buf" if buffered else "flat")))
    return cases


def nontrivial(case, model_out):
    return model_out[0].count("@") >= 3


def oracle(case, outs):
    out = outs[0]
    if bad_token([out]):
        return "%s: %s" % (case.lines[0][:400], bad_token([out]))
    f = case.lines[0].split(" ")
    sp = spec_of_line(case.lines[0])
    data = b"" if f[4] == "-" else bytes.fromhex(f[4])
    items = E.parse_items(out.split(" ")) if out else []
    if case.cls.startswith("hist-") or f[5] != "N" or ",b-," not in f[2]:
        err = check_nesting_history(sp, items)
        if err:
            return "%s   [%s -> %s]" % (err, case.lines[0][:400], out[:400])
        return None
    err = RC.check_strict(sp, data, items)
    if err:
        return "%s   [%s -> %s]" % (err, case.lines[0][:400], out[:400])
    return None


def check_nesting_history(spec, items):
    """Well-nestedness of everything a strict run emits, across errors and recoveries, Full items unrolled: an End closes the most recent
    unmatched Start; only when no emitted Start is open may it close an implied ancestor (a declared master).  Every item has a declared id."""
    stack = []
    for it in items:
        if it[0] != "item":
            continue
        for tag in E.flat([it[1]]):
            if tag[0] == "s":
                stack.append(tag[1])
            elif tag[0] == "e":
                if stack:
                    top = stack.pop()
                    if top != tag[1]:
                        return "End %x does not match the most recent unmatched Start %x" % (tag[1], top)
                elif spec.get_type(tag[1]) != "M":
                    return "End %x of something that is not a declared master" % tag[1]
            elif spec.get_type(tag[1]) is None or tag[0] == "r":
                return "strict parse emitted an item with an id outside the specification: %s" % E.tag_str(tag)[:60]
    return None


def known_class(case, outs):
    """D29: an error met while a buffered master is being collected (buffer_master is not resumable: the collected children are dropped, the
    master stays open, its End comes without a Start)"""
    f = case.lines[0].split(" ")
    if ",b-," not in f[2] and any(" E:" in (" " + o) for o in outs):
        # only the orphan End of this class: any other failure of a buffered run is reported
        err = check_nesting_history(spec_of_line(case.lines[0]), E.parse_items(outs[0].split(" ")) if outs[0] else [])
        if err and "does not match the most recent unmatched Start" in err:
            return "error_in_buffered_master"
    return None
