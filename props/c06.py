"""C06 — strict mode emits only well-nested, hierarchy-valid, size-contained sequences."""
from lib.runner import Case
from props.common import *
from props import readcheck as RC

ID = "C06"
RULE = ("R cases in strict mode (nothing tolerated, nothing buffered) over valid / mid-document / mutated / random streams mixing known- and "
        "unknown-size masters at several depths; an independent checker (props/readcheck.py check_strict, written from the property text) "
        "replays the emitted items against the input: End/Start matching incl. implied ancestors, known ids, declared-path matching of the "
        "chain of open masters, containment in every enclosing known-size master, End exactly at exhaustion, EOF closing innermost first.  "
        "non-trivial = model emits >= 3 items; distinct = distinct case line")
TRUSTED = TRUSTED_BASE
ASSUMPTIONS = ASSUME_BASE
EXHAUSTIVE = {}


def generate(rng, tier):
    cases = []
    thorough = tier == "thorough"
    specs = specs_pool(rng, 40 if thorough else 10)
    for k in range(10000 * TH if thorough else 1500):
        sp, data, kind, _ = gen_stream(rng, specs, big=(k % 13 == 0), p_valid=0.4, p_mut=0.45, mid=0.3, p_over=0.3)
        cfg = E.cfg_str(maxs=safe_max(rng, kind), cap=rng.choice(["def", "def", "3", "16"]), eof=1)
        cases.append(Case("R %s %s - %s N" % (sp.s(), cfg, data.hex() or "-"), kind))
    return cases


def nontrivial(case, model_out):
    return model_out[0].count("@") >= 3


def oracle(case, outs):
    out = outs[0]
    if bad_token([out]):
        return "%s: %s" % (case.lines[0][:400], bad_token([out]))
    f = case.lines[0].split(" ")
    sp = spec_of_line(case.lines[0])
    data = b"" if f[4] == "-" else bytes.fromhex(f[4])
    items = E.parse_items(out.split(" ")) if out else []
    err = RC.check_strict(sp, data, items)
    if err:
        return "%s   [%s -> %s]" % (err, case.lines[0][:400], out[:400])
    return None
