"""C11 — hierarchy validation equals declared path semantics, in reader and writer alike."""
from lib.runner import Case
from props.common import *

ID = "C11"
RULE = ("per specification (two fixed + random ones with trailing/intermediate/recursive placeholders) and per reachable chain of open "
        "masters (random walks, depth <= 6): every id of the specification plus an unknown id is offered (a) to the writer after opening the chain "
        "(default / explicit width / unknown-size option / deprecated call) and (b) to the strict reader as the next element of a byte stream whose "
        "chain masters are randomly known- or unknown-size; the oracle is the brute-force pattern semantics of the declared path "
        "(and the closing rule for the reader); non-trivial = chain non-empty; distinct = distinct case line")
TRUSTED = TRUSTED_BASE
ASSUMPTIONS = ASSUME_BASE
EXHAUSTIVE = {"quick": "", "thorough": "all reachable chains of depth <= 4 of the two fixed specifications x every id"}


def walks(rng, spec, n, maxdepth):
    out = [[]]
    for _ in range(n):
        chain = []
        for _ in range(rng.randint(1, maxdepth)):
            cands = [i for i in E.allowed_children(spec, chain) if spec.get_type(i) == "M"]
            if not cands:
                break
            chain.append(rng.choice(cands))
        out.append(chain)
    return out


def all_chains(spec, maxdepth):
    out = [[]]
    frontier = [[]]
    for _ in range(maxdepth):
        nxt = []
        for ch in frontier:
            for i in E.allowed_children(spec, ch):
                if spec.get_type(i) == "M":
                    nxt.append(ch + [i])
        out += nxt
        frontier = nxt
        if len(out) > 4000:
            break
    return out


def probe_tag(rng, spec, tid):
    ty = spec.get_type(tid)
    if ty == "M":
        return ("s", tid)
    if ty is None:
        return ("r", tid, b"\x01")
    return E.rand_value_tag(rng, tid, ty, big=False)


def cases_for(rng, spec, chain, cases, cls):
    ids = list(spec.ty.keys()) + [0x4FFE]
    sps = spec.s()
    for tid in ids:
        tag = probe_tag(rng, spec, tid)
        # ---- writer
        opt = "d"
        if tag[0] == "s":
            opt = rng.choice(["d", "d", "u", "u", "2", "U"])
        else:
            opt = rng.choice(["d", "d", "d", "3"])
        starts = []
        for m in chain:
            starts.append("w%s:s%x" % (rng.choice(["d", "d", "u", "4"]), m))
        probe = ("U:%s" % E.tag_str(tag)) if opt == "U" else "w%s:%s" % (opt, E.tag_str(tag))
        line = "W %s %s" % (sps, ",".join(starts + [probe]))
        cases.append(Case(line, cls + "-w", {"chain": chain, "tid": tid, "side": "w"}))
        # ---- reader (unknown ids are a different error class; with no master open the element would be the
        # first of the stream, which the reader trusts as a mid-document start: judged by C06, not here)
        if spec.get_type(tid) is None or not chain:
            continue
        # likewise while the position is still undetermined: a chain made of masters with placeholder paths only (a stream that starts with a
        # global master) does not tell the reader where it is (C11_unchecked_while_undetermined); the writer side above is judged all the same
        if all(any(isinstance(x, tuple) for x in spec.get_path(m)) for m in chain):
            continue
        if tag[0] == "s":
            inner = E.Node(("m", tid), rng.choice([None, "u", 2]), [])
        else:
            inner = E.Node(tag)
        # encodings of the chain masters: random, but a chain master must not itself close the masters
        # opened before it (recursive / same-path masters): then those are given a known size
        encs = []
        for j, m in enumerate(chain):
            stack = [(chain[q], encs[q] != "u") for q in range(j)]
            if E.closed_by(spec, stack, m) > 0:
                encs = [None if e == "u" else e for e in encs]
            encs.append(rng.choice([None, None, "u", "u", 2, 8]))
        nodes = [inner]
        for m, enc in zip(reversed(chain), reversed(encs)):
            nodes = [E.Node(("m", m), enc, nodes)]
        kinds = [e == "u" for e in encs]
        data = E.encode(nodes)
        line = "R %s %s - %s N" % (sps, E.cfg_str(), data.hex())
        cases.append(Case(line, cls + "-r", {"chain": chain, "tid": tid, "side": "r", "unknown": kinds}))


def generate(rng, tier):
    cases = []
    thorough = tier == "thorough"
    fixed = [E.base_spec(), E.rec_spec()]
    for sp in fixed:
        chains = all_chains(sp, 4) if thorough else walks(rng, sp, 25, 5)
        for ch in chains:
            cases_for(rng, sp, ch, cases, "fixed")
    # paths with SEVERAL placeholders of every bound shape around a named global master, on every chain up to depth 4 (deterministic:
    # the interplay of two placeholders is not left to the random specifications)
    G = 0xA1
    multi = E.Spec([(0x81, "M", []), (G, "M", [(None, None)]), (0xA2, "M", [0x81]),
                    (0xE1, "U", [(None, None), G, (None, None)]), (0xE2, "U", [(1, None), G, (0, 2)]), (0xE3, "U", [0x81, (0, 1), G, (1, None)]),
                    (0xE4, "U", [(None, 2), G]), (0xE5, "U", [0x81, (1, 1), G, (None, 1)]), (0xE6, "U", [(None, None), G, (None, None), G]),
                    (E.CRC, "B", [(1, None)]), (E.VOID, "B", [(None, None)])])
    for ch in all_chains(multi, 4):
        cases_for(rng, multi, ch, cases, "multi")
    for _ in range(150 if thorough else 25):
        sp = E.random_spec(rng, multi=(rng.random() < 0.5))
        for ch in walks(rng, sp, 12 if thorough else 6, 6):
            cases_for(rng, sp, ch, cases, "rand")
    return cases


def nontrivial(case, model_out):
    return len(case.meta["chain"]) > 0


def spec_of(line):
    f = line.split(" ")[1]
    ents = []
    for e in f.split(";"):
        i, t, p = e.split(":")
        parts = []
        for x in (p.split("/") if p else []):
            if x.startswith("("):
                a, b = x[1:-1].split("-")
                parts.append((int(a) if a else None, int(b) if b else None))
            else:
                parts.append(int(x, 16))
        ents.append((int(i, 16), t, parts))
    return E.Spec(ents)


def oracle(case, outs):
    line, out = case.lines[0], outs[0]
    if bad_token([out]):
        return "%s: %s" % (line[:200], out)
    spec = spec_of(line)
    chain, tid = case.meta["chain"], case.meta["tid"]
    path = spec.get_path(tid)
    if case.meta["side"] == "w":
        t, dest = w_split(out)
        if t is None or len(t) != len(chain) + 1:
            return "%s: malformed %s" % (line[:200], out)
        for k in range(len(chain)):
            if not t[k].startswith("OK@"):
                return "writer rejected a start whose chain matches its path: %s -> %s" % (line[:300], out)
        last = t[-1].rsplit("@", 1)[0]
        if spec.get_type(tid) is None:
            return None   # raw tags are not hierarchy-validated (judged by C19/C01)
        ok = E.matches(path, chain)
        exp = "OK" if ok else "E:tag:%x:%s" % (tid, "/".join("%x" % c for c in chain))
        if last != exp:
            return "writer: chain %s id %x path %s: expected %s, got %s (%s)" % (["%x" % c for c in chain], tid, path, exp, last, line[:300])
        return None
    # reader
    toks_ = out.split(" ")
    stack = [(m, not u) for m, u in zip(chain, case.meta["unknown"])]
    k = E.closed_by(spec, stack, tid)
    rem = chain[:len(chain) - k]
    ok = E.matches(path, rem)
    n = len(chain)
    if len(toks_) < n + 1:
        return "reader: too few items: %s -> %s" % (line[:300], out)
    for j in range(n):
        if not toks_[j].startswith("s%x@" % chain[j]):
            return "reader: chain start %d not emitted: %s -> %s" % (j, line[:300], out)
    if ok:
        exp_ends = ["e%x" % m for m in reversed(chain[len(chain) - k:])]
        got = [x.rsplit("@", 1)[0] for x in toks_[n:n + k]]
        if got != exp_ends:
            return "reader: expected Ends %s before the element, got %s: %s -> %s" % (exp_ends, got, line[:300], out)
        el = toks_[n + k] if len(toks_) > n + k else ""
        if el.startswith("E:"):
            return "reader rejected an element whose remaining chain %s matches its path %s: %s -> %s" % (rem, path, line[:300], out)
        return None
    exp = "E:hier:%x:%s" % (tid, ("%x" % chain[-1]) if chain else "-")
    if toks_[n] != exp:
        return "reader: chain %s (unknown %s) id %x path %s: expected %s, got %s (%s)" % (chain, case.meta["unknown"], tid, path, exp, toks_[n], line[:300])
    return None
