"""C07 — unknown-size masters end where EBML says; same tags as known-size encoding."""
from lib.runner import Case
from props.common import *

ID = "C07"
RULE = ("each case is a group of R runs over encodings of the same random conformant tree: all masters known-size, and 2-4 encodings in "
        "which random subsets of the masters (those with placeholder-free paths, where the reading is unambiguous) have unknown size, with "
        "unknown-size markers of widths 1-8; trees include nested unknown-size masters followed by elements of every enclosing level.  Oracle: "
        "every encoding reads cleanly to the same tag sequence (= the flat tree), every End precedes the element that follows the master.  "
        "non-trivial = at least one encoding has an unknown-size master with a follower; distinct = distinct group")
TRUSTED = TRUSTED_BASE
ASSUMPTIONS = ASSUME_BASE + ["unambiguous choices only (DESIGN.md C01 (a)-(c)); global elements directly after an unknown-size master are excluded by the property itself"]
EXHAUSTIVE = {"thorough": "for trees with m <= 6 eligible masters: all 2^m known/unknown choices that are unambiguous"}


def eligible(sp, nodes, acc):
    for n in nodes:
        if n.is_master():
            if not any(isinstance(x, tuple) for x in sp.get_path(n.tag[1])):
                acc.append(n)
            eligible(sp, n.children, acc)
    return acc


def has_follower(nodes):
    for a, b in zip(nodes, nodes[1:]):
        if a.is_master() and (a.enc == "u" or isinstance(a.enc, tuple)):
            return True
    return any(n.is_master() and has_follower(n.children) for n in nodes)


def generate(rng, tier):
    cases = []
    thorough = tier == "thorough"
    specs = specs_pool(rng, 40 if thorough else 10)
    for k in range(2500 * TH if thorough else 400):
        sp = rng.choice(specs)
        nodes = strip_enc(E.rand_doc(rng, sp, big=False, unknown_ok=False, widths=False))
        if not nodes:
            continue
        ms = eligible(sp, nodes, [])
        want = E.expected_tokens  # noqa
        lines = ["R %s %s - %s N" % (sp.s(), E.cfg_str(), E.encode(nodes).hex())]
        nf = False
        choices = []
        if thorough and len(ms) <= 6:
            for mask in range(1, 1 << len(ms)):
                choices.append([ms[i] for i in range(len(ms)) if mask >> i & 1])
        else:
            for _ in range(4):
                choices.append([m for m in ms if rng.random() < 0.6])
        for ch in choices:
            for m in ms:
                m.enc = None
            for m in ch:
                m.enc = "u" if rng.random() < 0.6 else ("u", rng.randint(1, 8))
            if not ch or not E.unambiguous(sp, nodes):
                continue
            nf = nf or has_follower(nodes)
            lines.append("R %s %s - %s N" % (sp.s(), E.cfg_str(), E.encode(nodes).hex()))
        for m in ms:
            m.enc = None
        flat = [E.tag_str(t) for t in E.flat(E.nodes_to_full(nodes))]
        if len(lines) > 1:
            cases.append(Case(lines, "tree", {"flat": flat, "follower": nf}))
    return cases


def nontrivial(case, model_out):
    return case.meta["follower"]


def oracle(case, outs):
    if bad_token(outs):
        return "%s: %s" % (case.lines[0][:300], bad_token(outs))
    want = [E.parse_tag(s) for s in case.meta["flat"]]
    for line, out in zip(case.lines, outs):
        tags, term = item_tags(out.split(" "))
        if term != ("none",):
            return "an encoding of a conformant tree did not read cleanly: %s -> %s" % (line[:400], out[:400])
        if not tags_equal(tags, want):
            return "encoding reads as a different tag sequence: %s -> %s ; expected %s" % (line[:300], out[:400], " ".join(case.meta["flat"])[:400])
    return None
