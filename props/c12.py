"""C12 — truncated input yields the complete prefix, then an accurate end-of-file error."""
from lib.runner import Case
from props.common import *
from props import readcheck as RC

ID = "C12"
RULE = ("for random valid documents (known/unknown-size mixes, all element types, empty payloads, long headers) every cut position 0..len "
        "(all of them for documents <= 160 bytes, 40 random ones beyond) is read by the strict iterator, with slice-like and chunked sources and "
        "several capacities; the expected result is computed independently from the document tree (props/readcheck.py expected_truncated): "
        "complete items, then closing Ends + None at a tag boundary, otherwise UnexpectedEOF with start / id / size / partial data exactly as the "
        "property says.  non-trivial = cut strictly inside a tag; distinct = distinct case line")
TRUSTED = TRUSTED_BASE
ASSUMPTIONS = ASSUME_BASE + ["an End of an unknown-size master counts as contained once the element that closes it is complete (its header is what reveals the end)"]
EXHAUSTIVE = {"quick": "every cut position of every generated document of <= 160 bytes", "thorough": "same, more documents"}


def generate(rng, tier):
    cases = []
    thorough = tier == "thorough"
    specs = specs_pool(rng, 30 if thorough else 8)
    for k in range(600 * TH if thorough else 60):
        sp = rng.choice(specs)
        nodes = fix_widths(E.rand_doc(rng, sp, big=(k % 10 == 0), unknown_p=0.3))
        if not nodes:
            continue
        data = E.encode(nodes)
        n = len(data)
        cuts = range(0, n + 1) if n <= 160 else sorted(set([0, n, n - 1] + [rng.randrange(0, n + 1) for _ in range(40)]))
        for c in cuts:
            exp = RC.expected_truncated(nodes, data, c)
            r = rng.random()
            if r < 0.6:
                scr, cap = "-", "def"
            elif r < 0.8:
                scr, cap = E.script_str(E.rand_script(rng, c)), rng.choice(["def", "0", "1", "5", "16"])
            else:
                scr, cap = "-", rng.choice(["0", "1", "3", "8", "17"])
            line = "R %s %s %s %s N" % (sp.s(), E.cfg_str(cap=cap), scr, data[:c].hex() or "-")
            cases.append(Case(line, "cut", {"exp": " ".join(exp), "inside": exp[-1] != "N"}))
    return cases


def nontrivial(case, model_out):
    return case.meta["inside"]


def oracle(case, outs):
    out = outs[0]
    if bad_token([out]):
        return "%s: %s" % (case.lines[0][:400], bad_token([out]))
    if out != case.meta["exp"]:
        return "truncated document: got %s   expected %s   [%s]" % (out[:500], case.meta["exp"][:500], case.lines[0][-300:])
    return None
