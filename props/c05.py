"""C05 — the iterator is total: no panic, no hang, fused, on arbitrary bytes."""
from lib.runner import Case
from props.common import *

ID = "C05"
RULE = ("R cases over valid / mid-document / mutated / random / adversarial streams (zero-length numeric elements, 8-byte ids and sizes, all-ones "
        "sizes of every width, sizes 0..2^56-2 with no payload, deep nesting) x all tolerance settings x buffered sets x capacities 0..64 x size "
        "limits x EOF closing x scripted sources with short reads, Ok(0) pauses and injected I/O errors x random interleavings of next() and "
        "try_recover(); every API call under catch_unwind in both harness builds (overflow checks on / off).  Oracle: no PANIC, no LIMIT (hang "
        "bound 4*len+64 calls per N), successful items <= 2*len + 16, after a None with the source exhausted every further next() is None, every "
        "reported read error carries a code the script injected, in order.  non-trivial = >= 2 result tokens; distinct = distinct case line")
TRUSTED = TRUSTED_BASE
ASSUMPTIONS = ASSUME_BASE + ["stack depth and allocation failure are runtime behaviours the model cannot exhibit; the harness observes them as CRASH: deep nesting below a "
                             "buffered master is exercised by the K cases (known finding D30); allocation failure with the size limit removed on corrupt input is "
                             "documented by the crate (at your own risk) and not generated"]
EXHAUSTIVE = {}


def adversarial(rng, sp):
    ids = list(sp.ty.keys())
    out = bytearray()
    for _ in range(rng.randint(1, 10)):
        i = rng.choice(ids)
        out += E.id_bytes(i)
        k = rng.random()
        if k < 0.2:
            out += b"\x80"                                   # zero length (numeric elements too)
        elif k < 0.4:
            w = rng.randint(1, 8)
            out += E.unknown_vint(w)                        # all-ones size of any width
        elif k < 0.6:
            w = rng.randint(1, 8)
            v = rng.choice([0, 1, 8, 9, (1 << (7 * w)) - 2, rng.getrandbits(7 * w)])
            v = min(v, (1 << (7 * w)) - 2)
            out += (v | (1 << (7 * w))).to_bytes(w, "big")
        elif k < 0.7:
            out += b"\x00"                                   # invalid size
        else:
            n = rng.randint(0, 9)
            out += bytes([0x80 | n]) + bytes(rng.getrandbits(8) for _ in range(rng.randint(0, n)))
    return bytes(out)


def generate(rng, tier):
    cases = []
    thorough = tier == "thorough"
    specs = specs_pool(rng, 40 if thorough else 10)
    for k in range(20000 * TH if thorough else 2500):
        if k % 4 == 0:
            sp = rng.choice(specs)
            data, kind = adversarial(rng, sp), "adversarial"
        else:
            sp, data, kind, _ = gen_stream(rng, specs, big=False, p_valid=0.25, p_mut=0.5, mid=0.3)
        ops = "".join(rng.choice(["n", "n", "n", "t", "N", "t", "n"]) for _ in range(rng.randint(1, 16)))
        r = rng.random()
        if r < 0.4:
            scr = "-"
        elif r < 0.7:
            scr = E.script_str(E.rand_script(rng, len(data)))
        else:
            parts = []
            for _ in range(rng.randint(1, 12)):
                parts.append(rng.choice(["1", "2", "3", "8", "16", "p", "p", "e%d" % rng.randint(1, 99), "1000"]))
            scr = ",".join(parts)
        # the default / no limit only where no garbage size can be met (valid input, strict, no recovery): within the limit the
        # iterator really allocates what a header declares
        lim = rng.choice(["def", "none", "100000", "3"]) if (kind == "valid" and "t" not in ops) else rng.choice(["100000", "100000", "6", "0", "300"])
        cfg = E.cfg_str(allow=(0 if lim in ("def", "none") else rng.randrange(8)), maxs=lim, buffered=rand_buffered(rng, sp, 0.4), cap=str(rng.choice([0, 1, 2, 3, 5, 8, 15, 16, 17, 33, 64])) if rng.random() < 0.7 else "def", eof=rng.choice([0, 1]))
        cases.append(Case("R %s %s %s %s %s" % (sp.s(), cfg, scr, data.hex() or "-", ops), kind))
    # recursion depth: valid documents of recursive known-size masters nested N deep, with and without that master (or the root) buffered,
    # run on a thread with the stack of a default main thread (K command)
    rs = E.rec_spec()
    for depth, buffered in ([(300, (0x4301,)), (2000, ()), (20000, ()), (3000, (0x4301,)), (20000, (0x4301,)), (8000, (0x81,))] if thorough
                            else [(300, (0x4301,)), (20000, ()), (20000, (0x4301,))]):
        body = b""
        for _ in range(depth):
            body = E.id_bytes(0x4301) + E.size_vint(len(body)) + body
        data = E.id_bytes(0x81) + E.size_vint(len(body)) + body
        cases.append(Case("K %s %s - %s N" % (rs.s(), E.cfg_str(maxs="def", buffered=buffered), data.hex()), "deep",
                          {"depth": depth, "impl_only": depth > 500}))
    return cases


def known_class(case, outs):
    """D30: the recursion read_next <-> buffer_master (and roll_up_children) is as deep as the nesting of masters below a buffered master"""
    f = case.lines[0].split(" ")
    if f[0] == "K" and ",b-," not in f[2] and case.meta.get("depth", 0) >= 1000 and any(o.startswith("CRASH") for o in outs):
        return "deep_buffered_nesting"
    return None


def nontrivial(case, model_out):
    return model_out[0].count(" ") >= 1


def oracle(case, outs):
    out = outs[0]
    if bad_token([out]):
        return "%s: %s" % (case.lines[0][:600], bad_token([out]))
    f = case.lines[0].split(" ")
    n = 0 if f[4] == "-" else len(f[4]) // 2
    toks_ = out.split(" ") if out else []
    if f[0] == "K":
        want = deep_expected(bytes.fromhex(f[4]), ",b-," not in f[2], "b81," in f[2])
        if out != want:
            return "deep nesting: expected %s ... got %s   [%s]" % (want[:120], out[:200], case.lines[0][:300])
        return None
    ok_items = sum(1 for t in toks_ if "@" in t and not t.startswith("E:") and not t.startswith("T:"))
    if ok_items > 2 * n + 16:
        return "more successful items (%d) than 2*len+16 (%d bytes): %s" % (ok_items, n, case.lines[0][:400])
    script = f[3]
    codes = [x[1:] for x in script.split(",") if x.startswith("e")]
    seen = []
    for t in toks_:
        tt = t[2:] if t.startswith("T:") else t
        if tt.startswith("E:io:"):
            seen.append(tt[5:])
    # every reported I/O error is one the source injected, each at most once.  The order of REPORTING may differ from the order
    # of injection: an error met by next() is queued behind the Ends that precede it, and a try_recover() in between reports its
    # own read error first (found by the scaled thorough tier; model and code agree on it).
    pool = list(codes)
    for c in seen:
        if c in pool:
            pool.remove(c)
        else:
            return "read error code %s was not injected by the source (or reported twice): script %s -> %s" % (c, script, out[:300])
    # every read error the source certainly delivered surfaces: if the run reached the end of the input (a next() returned None
    # and the script has no pauses), an injected error that sits in the script before enough chunks to deliver the whole input
    # was returned by some read() call, so its code must have been reported by next() or try_recover()
    parts = script.split(",") if script != "-" else []
    if codes and "p" not in parts and "N" in toks_:
        delivered = 0
        for x in parts:
            if x.startswith("e"):
                if delivered < n and x[1:] not in seen:
                    return ("read error %s was returned by the source (only %d of %d bytes could have been delivered before it) but never "
                            "surfaced: script %s -> %s   [%s]" % (x[1:], delivered, n, script, out[:300], case.lines[0][:500]))
            elif x.isdigit():
                delivered += int(x)
    # fused: with a source that never pauses or fails, a None means the source is exhausted
    if "p" not in script.split(",") and not codes:
        ops = f[5]
        # align result tokens with ops: 'n' -> 1 token, 't' -> 1 token, 'N' -> tokens up to and including the first N/E:
        # simpler: after the first literal 'N' token, every later token produced by next() must be 'N'
        if "N" in toks_:
            idx = toks_.index("N")
            for t in toks_[idx + 1:]:
                if not (t == "N" or t.startswith("T:")):
                    return "next() returned %s after it had returned None with the source exhausted: %s -> %s" % (t[:60], case.lines[0][:400], out[:300])
    return None


def deep_expected(data, buffered, root_buffered):
    """the items of 81{4301{4301{...}}} (known sizes), computed from the bytes: flat, or with the 4301 chain / the root as one Full item"""
    offs = []
    pos = 0
    while pos < len(data):
        h = E.header_at(data, pos)
        offs.append((h[0], pos))
        pos += h[1] + h[3]
    if not buffered:
        return " ".join(["s%x@%d" % (i, o) for i, o in offs] + ["e%x@%d" % (i, o) for i, o in reversed(offs)] + ["N"])
    def full(k):
        s = ""
        for i, o in reversed(offs[k:]):
            s = "m%x(%s)" % (i, s)
        return s
    if root_buffered:
        return "%s@0 N" % full(0)
    if len(offs) == 1:
        return "s81@0 e81@0 N"
    return "s81@0 %s@%d e81@0 N" % (full(1), offs[1][1])
