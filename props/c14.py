"""C14 — recovery after inserted junk resumes at the next tag and loses nothing else."""
from lib.runner import Case
from props.common import *
from props import readcheck as RC

ID = "C14"
RULE = ("(junk) valid all-known-size documents x tag boundaries x junk runs of 1-20 bytes none of which can begin an id of the specification: "
        "the damaged stream is read with next-until-error, try_recover, next-until-end; the generator computes whether the tag after the junk still "
        "fits every enclosing known-size master after the shift (the property's premise) and the expected items from the document tree; (any) "
        "arbitrary valid/mutated/random streams with try_recover at arbitrary points for the unconditional part: never backwards, never panics, "
        "fails only with end of input or a source I/O error.  non-trivial = junk case satisfying the premise; distinct = distinct case line")
TRUSTED = TRUSTED_BASE
ASSUMPTIONS = ASSUME_BASE
EXHAUSTIVE = {"thorough": "every tag boundary of every generated junk document"}


def junk_bytes(rng, sp, n):
    firsts = set(E.id_bytes(i)[0] for i in sp.ty)
    # a byte b begins an id of some length; the id formed with whatever follows must be unknown: true if no id starts with b
    ok = [b for b in range(1, 256) if b not in firsts]
    return bytes(rng.choice(ok) for _ in range(n))


def ancestors_ok(lay, boundary, junk_len):
    """does the tag starting at `boundary` still fit every enclosing known-size master once shifted by junk_len?"""
    # enclosing masters: 's' entries whose matching 'e' end > boundary and start < boundary
    ext = None
    stack = []
    for e in lay:
        if e[0] == "s":
            stack.append(e)
        elif e[0] == "e":
            stack.pop()
        if e[0] in "sx" and e[2] == boundary:
            # extent the header check looks at: header + known size
            tag_end = None
            if e[0] == "x":
                tag_end = e[4]
            else:
                # master: header_len + size ; find its End entry
                idx = lay.index(e)
                depth = 0
                for f in lay[idx:]:
                    if f[0] == "s":
                        depth += 1
                    elif f[0] == "e":
                        depth -= 1
                        if depth == 0:
                            tag_end = f[4]
                            break
            encl = stack[:-1] if e[0] == "s" else stack
            ends = []
            for m in encl:
                idx = lay.index(m)
                depth = 0
                for f in lay[idx:]:
                    if f[0] == "s":
                        depth += 1
                    elif f[0] == "e":
                        depth -= 1
                        if depth == 0:
                            ends.append(f[4])
                            break
            return all(tag_end + junk_len <= end for end in ends)
    return None


def generate(rng, tier):
    cases = []
    thorough = tier == "thorough"
    specs = specs_pool(rng, 30 if thorough else 8)
    shaped = 150 if thorough else 30
    for k in range((500 * TH if thorough else 120) + shaped):
        sp = rng.choice(specs)
        if k < shaped:
            # a known-size master around an unknown-size master with several children and followers: junk inside the inner one
            sp = E.base_spec()
            inner = [E.Node(E.rand_value_tag(rng, E.CHILD, "B", big=False)) for _ in range(rng.randint(2, 5))]
            mid = E.Node(("m", E.PARENT), "u", inner + ([E.Node(("m", E.SUB), rng.choice([None, "u"]), [E.Node(("u", E.LEAFU, 5))])] if rng.random() < 0.5 else []))
            outer_kids = [mid] + [E.Node(("u", E.INT, rng.randrange(300))) for _ in range(rng.randint(1, 3))]
            nodes0 = [E.Node(("m", E.ROOT), rng.choice([None, None, 4]), outer_kids)]
        else:
            nodes0 = None
        # known-size documents and, half of the time, documents mixing in unknown-size masters (recovery must then enlarge the
        # known-size masters *outside* an unknown-size one as well)
        nodes = nodes0 if nodes0 is not None else fix_widths(E.rand_doc(rng, sp, big=False, unknown_ok=(k % 2 == 1), unknown_p=0.5))
        if not nodes:
            continue
        items = []
        data = E.encode(nodes, 0, items)
        lay = RC.layout(nodes, data)
        bounds = sorted(set(o for (t, o) in items if t[0] != "e" and o > 0))
        if not bounds:
            continue
        chosen = bounds if (thorough or len(bounds) <= 6) else rng.sample(bounds, 6)
        for b in chosen:
            junk = junk_bytes(rng, sp, rng.randint(1, 20))
            fits = ancestors_ok(lay, b, len(junk))
            damaged = data[:b] + junk + data[b:]
            # expected: items before the junk, one error, T:ok, the rest shifted
            before, after = [], []
            for (t, o) in items:
                tok = lambda off: "%s@%d" % (E.tag_str(t), off)
                if t[0] == "e":
                    # an End is emitted when its master is exhausted/closed; position in the sequence is kept; its offset is its Start's
                    (before if _end_before(lay, t[1], o, b) else after).append(tok(o if o < b else o + len(junk)))
                elif o < b:
                    before.append(tok(o))
                else:
                    after.append(tok(o + len(junk)))
            jid = E.header_at(junk + data[b:] + b"\0" * 16, 0)
            meta = {"fits": bool(fits), "before": before, "after": after, "b": b, "junk": len(junk)}
            scr = "-" if rng.random() < 0.7 else E.script_str(E.rand_script(rng, len(damaged)))
            cases.append(Case("R %s %s %s %s NtN" % (sp.s(), E.cfg_str(cap=rng.choice(["def", "def", "4", "16"])), scr, damaged.hex()), "junk", meta))
    # unconditional part
    for k in range(4000 * TH if thorough else 500):
        sp, data, kind, _ = gen_stream(rng, specs, big=False, p_valid=0.3, p_mut=0.5)
        ops = "".join(rng.choice(["n", "n", "n", "t", "N", "t"]) for _ in range(rng.randint(1, 12)))
        scr = rng.choice(["-", "-", E.script_str(E.rand_script(rng, len(data))), "3,e5,1000", "1,p,2,p,1000"])
        cfg = E.cfg_str(allow=rng.choice([0, 0, 1, 2, 4, 7]), maxs=safe_max(rng, "mutated"), cap=rng.choice(["def", "0", "5", "16"]), eof=rng.choice([0, 1]))
        cases.append(Case("R %s %s %s %s %s" % (sp.s(), cfg, scr, data.hex() or "-", ops), "any", {"fits": False}))
    return cases


def _end_before(lay, tid, start_off, b):
    """is the End of the master (tid, start) emitted before the junk position b in the undamaged parse? i.e. its range ends at or
    before b — but an End at exactly b is emitted lazily, on the step that reads the next tag, which after the damage is the error step:
    the code queues it before the failing read, so it still precedes the error"""
    for k, e in enumerate(lay):
        if e[0] == "e" and e[1] == tid and e[2] == start_off:
            if e[3] or e[4] < b:
                return e[4] <= b
            # an unknown-size master whose content ends exactly at the junk: its End is only revealed by what follows,
            # unless an enclosing known-size master is exhausted at the same point (then everything inside it goes with it)
            if e[4] != b:
                return False
            for f in lay[k + 1:]:
                if f[0] != "e" or f[4] != e[4]:
                    break
                if f[3]:
                    return True
            return False
    return False


def nontrivial(case, model_out):
    return case.meta.get("fits", False)


def oracle(case, outs):
    out = outs[0]
    if bad_token([out]):
        return "%s: %s" % (case.lines[0][:400], bad_token([out]))
    toks_ = out.split(" ") if out else []
    # unconditional: try_recover fails only with EOF or I/O; offsets never move backwards across a recovery
    last_off = -1
    unbuffered = ",b-," in case.lines[0].split(" ")[2]
    for t in toks_:
        if t.startswith("T:E:") and not (t.startswith("T:E:eof:") or t.startswith("T:E:io:")):
            return "try_recover failed with something other than end of input / I/O error: %s  [%s]" % (t, case.lines[0][:400])
        if t.startswith("T:E:eof:") and unbuffered:
            p = t.split(":")[3]
            if p.isdigit() and int(p) < last_off:
                return "try_recover reports end of input at %s, before the tag already emitted at %d  [%s]" % (p, last_off, case.lines[0][:400])
        if "@" in t and not t.startswith("E:") and not t.startswith("T:") and not t.startswith("e"):
            # Starts, elements and Full items carry the position they were read at: it never decreases, recoveries included
            off = t.rsplit("@", 1)[1]
            if off.isdigit():
                if int(off) <= last_off:
                    return "the reader moved backwards: item %s after an item at offset %d  [%s -> %s]" % (t[:60], last_off, case.lines[0][:400], out[:300])
                last_off = int(off)
    if case.cls.startswith("any") or not case.meta.get("fits"):
        return None
    m = case.meta
    exp_prefix = m["before"]
    n = len(exp_prefix)
    if toks_[:n] != exp_prefix:
        return "tags before the junk changed: got %s expected %s  [%s]" % (" ".join(toks_[:n + 1])[:300], " ".join(exp_prefix)[:300], case.lines[0][-300:])
    rest = toks_[n:]
    if len(rest) < 2 or not rest[0].startswith("E:") or rest[1] != "T:ok":
        return "expected exactly one error then a successful try_recover after the tags before the junk: got %s  [%s]" % (" ".join(rest[:4])[:300], case.lines[0][-300:])
    if rest[2:] != m["after"] + ["N"]:
        return "tags after recovery differ from the undamaged document: got %s expected %s  [%s]" % (" ".join(rest[2:])[:400], " ".join(m["after"] + ["N"])[:400], case.lines[0][-300:])
    return None
