"""C15 — variable-length integer codec: generator, property oracle (judges the implementation's
outputs alone, written from the property text), non-triviality rule."""
from lib.runner import Case
from props import refcodec as R

ID = "C15"
RULE = ("cases = one call of a tools function (as_vint, as_vint_with_length<1..8>, read_vint, as_signed_vint, "
        "as_signed_vint_with_length, read_signed_vint, is_vint); exhaustive sub-spaces + boundary lattice + random 64-bit "
        "values + random slices of 0-9 bytes; a case is non-trivial when its model result is not NONE and distinct = distinct case line")
TRUSTED = [
    "Coq 8.16.1 kernel (coqc), vm_compute; no native_compute",
    "hand-written Gallina model coq/theories/Model/Tools.v of src/tools.rs, tied to /repo by this correspondence run",
    "extraction (ExtrOcamlBasic only, no Extract Constant) + ocaml/driver.ml parsers/printers (zarith for decimal conversion)",
    "Rust harness harness/src/tools_cmd.rs (calls the public ebml_iterable::tools API, catch_unwind), built twice: overflow checks on / plain release",
    "Python oracle props/refcodec.py (reference vint codec written from the property text)",
]
ASSUMPTIONS = [
    "usize is 64 bits; widths outside 1..8 are outside the property (the code panics there; the model says Panic; not generated)",
    "theorems quantify over all N / Z / byte lists of the model; the tie to the Rust code is differential testing on the generated cases",
]
EXHAUSTIVE = {
    "quick": "as_vint 0..2^14+2; as_vint_with_length<1,2> all values below 2^(7L)+3; read_vint/read_signed_vint all slices of length 0-2; signed encoders -2^13-2..2^13+2; is_vint 0..70000",
    "thorough": "as above plus widths<=3 for the encoders (2^21 values) and all slices of length 3 whose first byte announces length <= 3",
}


def lattice():
    vals = set()
    for k in range(0, 65):
        for d in (-2, -1, 0, 1, 2):
            v = (1 << k) + d
            if 0 <= v < (1 << 64):
                vals.add(v)
    for k in range(1, 10):
        for base in ((1 << (7 * k)), (1 << (7 * k - 1)), (1 << (7 * k + 1))):
            for d in (-2, -1, 0, 1, 2):
                v = base + d
                if 0 <= v < (1 << 64):
                    vals.add(v)
    vals.add((1 << 64) - 1)
    return sorted(vals)


def generate(rng, tier):
    cases = []
    add = lambda line, cls: cases.append(Case(line, cls))
    thorough = tier == "thorough"
    # --- exhaustive sub-spaces
    top = (1 << 21) + 3 if thorough else (1 << 14) + 3
    for v in range(0, top):
        add("T as_vint %d" % v, "exh")
    for L in ((1, 2, 3) if thorough else (1, 2)):
        for v in range(0, (1 << (7 * L)) + 3):
            add("T as_vint_len %d %d" % (L, v), "exh")
    add("T read_vint -", "exh")
    add("T read_svint -", "exh")
    for a in range(256):
        add("T read_vint %02x" % a, "exh")
        add("T read_svint %02x" % a, "exh")
        for b in range(256):
            add("T read_vint %02x%02x" % (a, b), "exh")
            add("T read_svint %02x%02x" % (a, b), "exh")
    if thorough:
        for a in range(32, 256):
            for b in range(256):
                for c in range(256):
                    add("T read_vint %02x%02x%02x" % (a, b, c), "exh")
                    if a < 64:
                        add("T read_svint %02x%02x%02x" % (a, b, c), "exh")
    lim = (1 << 20) + 2 if thorough else (1 << 13) + 3
    for z in range(-lim, lim + 1):
        add("T as_svint %d" % z, "exh")
    for L in ((1, 2, 3) if thorough else (1, 2)):
        b = (1 << (7 * L - 1)) + 2
        for z in range(-b, b + 1):
            add("T as_svint_len %d %d" % (L, z), "exh")
    for v in range(0, 70001):
        add("T is_vint %d" % v, "exh")
    # --- lattice
    lat = lattice()
    for v in lat:
        add("T as_vint %d" % v, "lattice")
        add("T is_vint %d" % v, "lattice")
        for L in range(1, 9):
            add("T as_vint_len %d %d" % (L, v), "lattice")
        for z in (v, -v):
            if -(1 << 63) <= z < (1 << 63):
                add("T as_svint %d" % z, "lattice")
                for L in range(1, 9):
                    add("T as_svint_len %d %d" % (L, z), "lattice")
    # --- random values
    n = 200000 if thorough else 6000
    for _ in range(n):
        bits = rng.randint(0, 64)
        v = rng.getrandbits(bits) if bits else 0
        L = rng.randint(1, 8)
        add("T as_vint %d" % v, "rand")
        add("T as_vint_len %d %d" % (L, v), "rand")
        add("T is_vint %d" % v, "rand")
        z = v - (1 << 63) if rng.random() < 0.3 else (v >> 1) * (1 if rng.random() < 0.5 else -1)
        add("T as_svint %d" % z, "rand")
        add("T as_svint_len %d %d" % (L, z), "rand")
    # --- decoders on encodings of every width (value, width) incl. boundary values, with trailing bytes / truncated
    for L in range(1, 9):
        vs = [0, 1, (1 << (7 * L)) - 1, (1 << (7 * L)) - 2, 1 << (7 * L - 1), (1 << (7 * L - 1)) - 1, (1 << (7 * L - 1)) + 1]
        vs += [rng.getrandbits(7 * L) for _ in range(400 if thorough else 60)]
        for v in vs:
            enc = R.enc_vint(v, L)
            tail = bytes(rng.getrandbits(8) for _ in range(rng.randint(0, 2)))
            for cut in range(0, L + 1):
                h = (enc[:cut]).hex() or "-"
                add("T read_vint %s" % h, "enc")
                add("T read_svint %s" % h, "enc")
            add("T read_vint %s" % (enc + tail).hex(), "enc")
            add("T read_svint %s" % (enc + tail).hex(), "enc")
    # --- random slices 0..9 bytes, every first-byte class
    for _ in range(100000 if thorough else 8000):
        ln = rng.randint(1, 9)
        first = rng.choice([0, 1, 2, 3, 4, 8, 16, 32, 64, 128, 255, rng.getrandbits(8), 1 << rng.randint(0, 7)])
        if rng.random() < 0.5:
            first |= rng.getrandbits(8) >> (8 - first.bit_length() + 1) if first else 0
        bs = bytes([first & 255] + [rng.choice([0, 255, 128, 127, rng.getrandbits(8)]) for _ in range(ln - 1)])
        add("T read_vint %s" % bs.hex(), "slice")
        add("T read_svint %s" % bs.hex(), "slice")
    return cases


def nontrivial(case, model_out):
    return model_out[0] != "NONE"


def oracle(case, outs):
    return R.judge_tools(case.lines[0], outs[0])


def neighbourhood(case, rng, tier):
    # same function, values around the failing one
    t = case.lines[0].split(" ")
    out = []
    if t[1] in ("read_vint", "read_svint"):
        bs = bytes.fromhex(t[2]) if t[2] != "-" else b""
        for _ in range(2000):
            b = bytearray(bs)
            if b and rng.random() < 0.7:
                b[rng.randrange(len(b))] = rng.getrandbits(8)
            out.append(Case("T %s %s" % (t[1], bytes(b).hex() or "-"), "neigh"))
    else:
        v = int(t[-1])
        for d in range(-300, 301):
            out.append(Case(" ".join(t[:-1] + [str(v + d)]), "neigh"))
    return [c for c in out if R.valid_case(c.lines[0])]
